/* hx — correspondence harness: runs the real libcbor (built from /repo's working tree) on the
 * same case files as the extracted Coq model (coq/extract/driver.ml) and prints the same
 * canonical result lines.   usage: hx <stream> [params] < cases > results
 */
#define _GNU_SOURCE
#include <sys/mman.h>
#include <math.h>
#include <stdarg.h>
#include <stdbool.h>
#include <stdint.h>
#include <stdio.h>
#include <stdlib.h>
#include <string.h>

#include "cbor.h"
#include "cbor/internal/builder_callbacks.h"
#include "cbor/internal/encoders.h"
#include "cbor/internal/loaders.h"
#include "cbor/internal/memory_utils.h"
#include "cbor/internal/stack.h"
#include "cbor/internal/unicode.h"

size_t _cbor_encoded_header_size(uint64_t size);

static FILE* hx_devnull;   /* opened once in main, before any thread starts */
/* ------------------------------------------------------------------ output buffer */
static __thread char* ob;
static __thread size_t ob_len, ob_cap;
static void ob_reset(void) { ob_len = 0; if (ob) ob[0] = 0; }
static void ob_printf(const char* fmt, ...) {
  va_list ap;
  for (;;) {
    va_start(ap, fmt);
    int n = vsnprintf(ob ? ob + ob_len : NULL, ob ? ob_cap - ob_len : 0, fmt, ap);
    va_end(ap);
    if (ob && (size_t)n < ob_cap - ob_len) { ob_len += (size_t)n; return; }
    ob_cap = (ob_cap + (size_t)n + 64) * 2;
    ob = realloc(ob, ob_cap);
  }
}

/* ------------------------------------------------------------------ allocator */
static size_t a_cap = (size_t)1 << 20; /* requests above this are refused */
static __thread long a_live;                    /* live blocks */
static __thread unsigned long a_requests;       /* malloc + realloc calls */
static __thread long a_refuse_at = -1;          /* index of the request to refuse (-1: none) */
static __thread bool a_refuse_from;             /* refuse every request from a_refuse_at on */
static __thread bool a_record_only;             /* record the size, grant nothing */
static __thread size_t a_last_size;
static __thread bool a_called;

static bool a_should_refuse(size_t size) {
  unsigned long idx = a_requests++;
  a_last_size = size;
  a_called = true;
  if (a_record_only) return true;
  if (size > a_cap) return true;
  if (a_refuse_at >= 0) {
    if (a_refuse_from ? (long)idx >= a_refuse_at : (long)idx == a_refuse_at) return true;
  }
  return false;
}
static void* hx_malloc(size_t size) {
  if (a_should_refuse(size)) return NULL;
  void* p = malloc(size ? size : 1);
  if (p) a_live++;
  return p;
}
static void* hx_realloc(void* ptr, size_t size) {
  if (a_should_refuse(size)) return NULL;
  void* p = realloc(ptr, size ? size : 1);
  if (p && ptr == NULL) a_live++;
  return p;
}
static void hx_free(void* ptr) {
  if (ptr) a_live--;
  free(ptr);
}
static void a_reset(void) {
  a_requests = 0; a_refuse_at = -1; a_refuse_from = false; a_record_only = false; a_called = false;
}

/* ------------------------------------------------------------------ hex helpers */
static int hexv(int c) {
  if (c >= '0' && c <= '9') return c - '0';
  if (c >= 'a' && c <= 'f') return c - 'a' + 10;
  if (c >= 'A' && c <= 'F') return c - 'A' + 10;
  return -1;
}
/* exactly-sized heap block (so that a one-byte over-read is visible to ASan) */
static unsigned char* parse_hex(const char* s, size_t* n) {
  size_t l = strlen(s);
  if (l == 1 && s[0] == '-') l = 0;
  *n = l / 2;
  unsigned char* b = malloc(*n ? *n : 1);
  if (*n == 0) { free(b); b = malloc(0); if (!b) b = malloc(1); }
  for (size_t i = 0; i < *n; i++) b[i] = (unsigned char)(hexv(s[2 * i]) * 16 + hexv(s[2 * i + 1]));
  return b;
}
/* inputs of the decoders are presented at a rotating alignment (start address = 16k + 0..15): the block is n + a bytes,
   the input occupies its LAST n bytes, so a one-byte over-read still leaves the block (ASan) while the same bytes are
   seen at every offset modulo 8 / 16 over a run (an alignment-dependent fast path shows as a disagreement) */
static __thread unsigned al_rot;
static __thread unsigned char* al_base;
static __thread unsigned char* al_ptr;
/* HX_ROINPUT: the input is placed at the END of a private mapping that is then made read-only and is followed by an
   inaccessible page: a decoder that stores into the caller's buffer (even transiently) or reads one byte past it
   faults, in any build flavour */
static int ro_mode = -1;
static __thread unsigned char* ro_map; static __thread size_t ro_len;
static unsigned char* aligned_copy(const unsigned char* src, size_t n) {
  if (ro_mode < 0) ro_mode = getenv("HX_ROINPUT") != NULL;
  if (ro_mode) {
    size_t pg = 4096, body = ((n + pg - 1) / pg + 1) * pg;
    unsigned char* m = mmap(NULL, body + pg, PROT_READ | PROT_WRITE, MAP_PRIVATE | MAP_ANONYMOUS, -1, 0);
    if (m == MAP_FAILED) { fprintf(stderr, "hx: mmap failed\n"); exit(3); }
    unsigned char* p = m + body - n;
    if (n) memcpy(p, src, n);
    mprotect(m, body, PROT_READ);
    mprotect(m + body, pg, PROT_NONE);
    ro_map = m; ro_len = body + pg;
    al_base = NULL; al_ptr = p;
    return p;
  }
  unsigned a = (al_rot++ * 7u + 3u) & 15u;
  unsigned char* base = malloc(n + a ? n + a : 1);
  memset(base, 0xD7, a);
  if (n) memcpy(base + a, src, n);
  al_base = base; al_ptr = base + a;
  return al_ptr;
}
static unsigned char* parse_hex_al(const char* s, size_t* n) {
  unsigned char* t = parse_hex(s, n);
  unsigned char* r = aligned_copy(t, *n);
  free(t);
  return r;
}
static void free_al(unsigned char* p) {
  if (p == al_ptr && ro_map) { munmap(ro_map, ro_len); ro_map = NULL; al_ptr = NULL; }
  else if (p == al_ptr) { free(al_base); al_ptr = al_base = NULL; }
  else free(p);
}

static void ob_hex(const unsigned char* d, size_t n) {
  if (n == 0) { ob_printf("-"); return; }
  for (size_t i = 0; i < n; i++) ob_printf("%02x", d[i]);
}
static uint64_t parse_u64(const char* s) { return strtoull(s, NULL, 0); }

static uint32_t f2bits(float f) {
  if (isnan(f)) return 0x7FC00000u;
  uint32_t u; memcpy(&u, &f, 4); return u;
}
static uint64_t d2bits(double f) {
  if (isnan(f)) return 0x7FF8000000000000ull;
  uint64_t u; memcpy(&u, &f, 8); return u;
}
static float bits2f(uint32_t u) { float f; memcpy(&f, &u, 4); return f; }
static double bits2d(uint64_t u) { double f; memcpy(&f, &u, 8); return f; }

/* ------------------------------------------------------------------ recording callbacks */
static __thread const unsigned char* rec_base;
static __thread int rec_count;
static __thread bool rec_offsets = true;
/* HX_REENTER: every recording callback first decodes another (tiny) buffer with the library's empty callbacks - a client
   that tokenises an embedded item from inside a callback, as the API allows.  The outer call's result must not notice:
   anything the decoder keeps outside its own frame (a static result, a remembered pointer) is clobbered by the inner call. */
static __thread int rec_reenter = -1;
static void rec_sep(void) {
  if (rec_reenter < 0) rec_reenter = getenv("HX_REENTER") != NULL;
  if (rec_reenter) {
    static const unsigned char inner[3] = {0x19, 0x01, 0x02};
    struct cbor_decoder_result ir = cbor_stream_decode(inner, 3, &cbor_empty_callbacks, NULL);
    if (ir.status != CBOR_DECODER_FINISHED || ir.read != 3) ob_printf("INNER=%d/%zu ", (int)ir.status, ir.read);
    struct cbor_decoder_result ir2 = cbor_stream_decode(inner, 1, &cbor_empty_callbacks, NULL);
    if (ir2.status != CBOR_DECODER_NEDATA || ir2.read != 0 || ir2.required != 3) ob_printf("INNER2=%d/%zu/%zu ", (int)ir2.status, ir2.read, ir2.required);
  }
  if (rec_count++) ob_printf(",");
}
static void r_uint8(void* c, uint8_t v) { (void)c; rec_sep(); ob_printf("u8:%u", v); }
static void r_uint16(void* c, uint16_t v) { (void)c; rec_sep(); ob_printf("u16:%u", v); }
static void r_uint32(void* c, uint32_t v) { (void)c; rec_sep(); ob_printf("u32:%u", v); }
static void r_uint64(void* c, uint64_t v) { (void)c; rec_sep(); ob_printf("u64:%llu", (unsigned long long)v); }
static void r_negint8(void* c, uint8_t v) { (void)c; rec_sep(); ob_printf("n8:%u", v); }
static void r_negint16(void* c, uint16_t v) { (void)c; rec_sep(); ob_printf("n16:%u", v); }
static void r_negint32(void* c, uint32_t v) { (void)c; rec_sep(); ob_printf("n32:%u", v); }
static void r_negint64(void* c, uint64_t v) { (void)c; rec_sep(); ob_printf("n64:%llu", (unsigned long long)v); }
static void r_str(const char* k, cbor_data d, uint64_t len) {
  rec_sep();
  if (rec_offsets) ob_printf("%s:%lld:", k, (long long)(d - rec_base)); else ob_printf("%s:_:", k);
  ob_hex(d, len);
}
static void r_bytes(void* c, cbor_data d, uint64_t len) { (void)c; r_str("bs", d, len); }
static void r_bytes_start(void* c) { (void)c; rec_sep(); ob_printf("bss"); }
static void r_string(void* c, cbor_data d, uint64_t len) { (void)c; r_str("ts", d, len); }
static void r_string_start(void* c) { (void)c; rec_sep(); ob_printf("tss"); }
static void r_array(void* c, uint64_t n) { (void)c; rec_sep(); ob_printf("arr:%llu", (unsigned long long)n); }
static void r_array_start(void* c) { (void)c; rec_sep(); ob_printf("arrs"); }
static void r_map(void* c, uint64_t n) { (void)c; rec_sep(); ob_printf("map:%llu", (unsigned long long)n); }
static void r_map_start(void* c) { (void)c; rec_sep(); ob_printf("maps"); }
static void r_tag(void* c, uint64_t v) { (void)c; rec_sep(); ob_printf("tag:%llu", (unsigned long long)v); }
static void r_float2(void* c, float v) { (void)c; rec_sep(); ob_printf("f16:%x", f2bits(v)); }
static void r_float4(void* c, float v) { (void)c; rec_sep(); ob_printf("f32:%x", f2bits(v)); }
static void r_float8(void* c, double v) { (void)c; rec_sep(); ob_printf("f64:%llx", (unsigned long long)d2bits(v)); }
static void r_undef(void* c) { (void)c; rec_sep(); ob_printf("undef"); }
static void r_null(void* c) { (void)c; rec_sep(); ob_printf("null"); }
static void r_bool(void* c, bool v) { (void)c; rec_sep(); ob_printf("bool:%d", v ? 1 : 0); }
static void r_break(void* c) { (void)c; rec_sep(); ob_printf("brk"); }

static const struct cbor_callbacks rec_callbacks = {
    .uint8 = r_uint8, .uint16 = r_uint16, .uint32 = r_uint32, .uint64 = r_uint64,
    .negint8 = r_negint8, .negint16 = r_negint16, .negint32 = r_negint32, .negint64 = r_negint64,
    .byte_string_start = r_bytes_start, .byte_string = r_bytes,
    .string = r_string, .string_start = r_string_start,
    .indef_array_start = r_array_start, .array_start = r_array,
    .indef_map_start = r_map_start, .map_start = r_map,
    .tag = r_tag, .float2 = r_float2, .float4 = r_float4, .float8 = r_float8,
    .undefined = r_undef, .null = r_null, .boolean = r_bool, .indef_break = r_break};

static const char* status_s(enum cbor_decoder_status s) {
  return s == CBOR_DECODER_FINISHED ? "F" : s == CBOR_DECODER_NEDATA ? "N" : "E";
}

/* ------------------------------------------------------------------ stream: dec1 */
static void do_dec1(char* line) {
  size_t n;
  unsigned char* buf = parse_hex_al(line, &n);
  a_reset();
  size_t mark = ob_len;
  (void)mark;
  /* events are printed after the status, so record into a side buffer */
  char* save = ob; size_t save_len = ob_len, save_cap = ob_cap;
  ob = NULL; ob_len = 0; ob_cap = 0;
  rec_base = buf; rec_count = 0; rec_offsets = true;
  struct cbor_decoder_result r = cbor_stream_decode(buf, n, &rec_callbacks, NULL);
  char* ev = ob; ob = save; ob_len = save_len; ob_cap = save_cap;
  ob_printf("%s %zu %zu %s", status_s(r.status), r.read, r.required, rec_count ? ev : "-");
  /* the library's own no-op callback table (callbacks.c): the result struct may not depend on the callbacks */
  struct cbor_decoder_result r0 = cbor_stream_decode(buf, n, &cbor_empty_callbacks, NULL);
  if (r0.status != r.status || r0.read != r.read || r0.required != r.required)
    ob_printf(" EMPTYCB=%s:%zu:%zu", status_s(r0.status), r0.read, r0.required);
  if (a_requests) ob_printf(" ALLOCS=%lu", a_requests);
  free(ev);
  /* the library's own do-nothing table (callbacks.c: cbor_empty_callbacks = the cbor_null_*_callback functions):
   * same status / read / required as with the recording table; neither the context, nor the input, nor the
   * allocator is touched */
  {
    static int table_checked;
    if (!table_checked) {
      table_checked = 1;
      const struct cbor_callbacks* e = &cbor_empty_callbacks;
      if (e->uint8 != cbor_null_uint8_callback || e->uint16 != cbor_null_uint16_callback || e->uint32 != cbor_null_uint32_callback ||
          e->uint64 != cbor_null_uint64_callback || e->negint8 != cbor_null_negint8_callback || e->negint16 != cbor_null_negint16_callback ||
          e->negint32 != cbor_null_negint32_callback || e->negint64 != cbor_null_negint64_callback ||
          e->byte_string_start != cbor_null_byte_string_start_callback || e->byte_string != cbor_null_byte_string_callback ||
          e->string != cbor_null_string_callback || e->string_start != cbor_null_string_start_callback ||
          e->indef_array_start != cbor_null_indef_array_start_callback || e->array_start != cbor_null_array_start_callback ||
          e->indef_map_start != cbor_null_indef_map_start_callback || e->map_start != cbor_null_map_start_callback ||
          e->tag != cbor_null_tag_callback || e->float2 != cbor_null_float2_callback || e->float4 != cbor_null_float4_callback ||
          e->float8 != cbor_null_float8_callback || e->undefined != cbor_null_undefined_callback || e->null != cbor_null_null_callback ||
          e->boolean != cbor_null_boolean_callback || e->indef_break != cbor_null_indef_break_callback)
        ob_printf(" EMPTYCB-TABLE");
    }
    unsigned char ctx[64]; memset(ctx, 0xC7, sizeof ctx);
    unsigned char* copy = malloc(n ? n : 1); memcpy(copy, buf, n);
    unsigned long before = a_requests;
    struct cbor_decoder_result r2 = cbor_stream_decode(buf, n, &cbor_empty_callbacks, ctx);
    bool touched = a_requests != before || memcmp(copy, buf, n) != 0;
    for (size_t i = 0; i < sizeof ctx; i++) if (ctx[i] != 0xC7) touched = true;
    if (r2.status != r.status || r2.read != r.read || r2.required != r.required) ob_printf(" EMPTYCB=%s:%zu:%zu", status_s(r2.status), r2.read, r2.required);
    if (touched) ob_printf(" EMPTYCB-TOUCHED");
    free(copy);
  }
  free_al(buf);
}

/* ------------------------------------------------------------------ stream: enc */
static size_t call_encoder(const char* e, uint64_t v, unsigned char* b, size_t n, bool* known) {
  *known = true;
  if (!strcmp(e, "uint8")) return cbor_encode_uint8((uint8_t)v, b, n);
  if (!strcmp(e, "uint16")) return cbor_encode_uint16((uint16_t)v, b, n);
  if (!strcmp(e, "uint32")) return cbor_encode_uint32((uint32_t)v, b, n);
  if (!strcmp(e, "uint64")) return cbor_encode_uint64(v, b, n);
  if (!strcmp(e, "uint")) return cbor_encode_uint(v, b, n);
  if (!strcmp(e, "negint8")) return cbor_encode_negint8((uint8_t)v, b, n);
  if (!strcmp(e, "negint16")) return cbor_encode_negint16((uint16_t)v, b, n);
  if (!strcmp(e, "negint32")) return cbor_encode_negint32((uint32_t)v, b, n);
  if (!strcmp(e, "negint64")) return cbor_encode_negint64(v, b, n);
  if (!strcmp(e, "negint")) return cbor_encode_negint(v, b, n);
  if (!strcmp(e, "bytestring_start")) return cbor_encode_bytestring_start(v, b, n);
  if (!strcmp(e, "string_start")) return cbor_encode_string_start(v, b, n);
  if (!strcmp(e, "array_start")) return cbor_encode_array_start(v, b, n);
  if (!strcmp(e, "map_start")) return cbor_encode_map_start(v, b, n);
  if (!strcmp(e, "tag")) return cbor_encode_tag(v, b, n);
  if (!strcmp(e, "indef_bytestring_start")) return cbor_encode_indef_bytestring_start(b, n);
  if (!strcmp(e, "indef_string_start")) return cbor_encode_indef_string_start(b, n);
  if (!strcmp(e, "indef_array_start")) return cbor_encode_indef_array_start(b, n);
  if (!strcmp(e, "indef_map_start")) return cbor_encode_indef_map_start(b, n);
  if (!strcmp(e, "bool")) return cbor_encode_bool(v != 0, b, n);
  if (!strcmp(e, "null")) return cbor_encode_null(b, n);
  if (!strcmp(e, "undef")) return cbor_encode_undef(b, n);
  if (!strcmp(e, "break")) return cbor_encode_break(b, n);
  if (!strcmp(e, "ctrl")) return cbor_encode_ctrl((uint8_t)v, b, n);
  if (!strcmp(e, "half")) return cbor_encode_half(bits2f((uint32_t)v), b, n);
  if (!strcmp(e, "single")) return cbor_encode_single(bits2f((uint32_t)v), b, n);
  if (!strcmp(e, "double")) return cbor_encode_double(bits2d(v), b, n);
  *known = false;
  return 0;
}
/* image of an n-byte buffer: bytes the call stored, "--" for untouched ones (two sentinels) */
static void ob_image(const unsigned char* b1, const unsigned char* b2, size_t n) {
  for (size_t i = 0; i < n; i++) {
    if (b1[i] == 0xA5 && b2[i] == 0x5A) ob_printf("--"); else ob_printf("%02x", b1[i]);
  }
}
static void do_enc(char* line) {
  char e[64]; char vs[64]; size_t n;
  if (sscanf(line, "%63s %63s %zu", e, vs, &n) != 3) { ob_printf("BADCASE"); return; }
  uint64_t v = parse_u64(vs);
  /* a buffer_size beyond 4096 is the client saying "plenty of room" (SIZE_MAX, PTRDIFF_MAX + 1, ...): the encoders write at most
     9 bytes, so a 32-byte block stands for it and the image is taken over those 32 bytes */
  size_t blk = n > 4096 ? 32 : n;
  unsigned char* b1 = malloc(blk); unsigned char* b2 = malloc(blk);
  memset(b1, 0xA5, blk); memset(b2, 0x5A, blk);
  bool known;
  a_reset();
  size_t r1 = call_encoder(e, v, b1, n, &known);
  size_t r2 = call_encoder(e, v, b2, n, &known);
  if (!known) { ob_printf("BADCASE"); } else {
    ob_printf("%zu ", r1);
    ob_image(b1, b2, blk);
    if (r1 != r2) ob_printf(" NONDET");
    if (a_requests) ob_printf(" ALLOCS=%lu", a_requests);
  }
  free(b1); free(b2);
}

/* ------------------------------------------------------------------ stream: encdec (C10) */
static void do_encdec(char* line) {
  char e[64]; char vs[64];
  if (sscanf(line, "%63s %63s", e, vs) != 2) { ob_printf("BADCASE"); return; }
  uint64_t v = parse_u64(vs);
  unsigned char b[16]; memset(b, 0xEE, sizeof b);
  bool known;
  a_reset();
  size_t r = call_encoder(e, v, b, 12, &known);
  if (!known) { ob_printf("BADCASE"); return; }
  ob_printf("%zu ", r); ob_hex(b, r); ob_printf(" -> ");
  /* decode exactly the bytes written followed by one extra byte */
  unsigned char* buf = malloc(r + 1); memcpy(buf, b, r); buf[r] = 0xFF;
  char* save = ob; size_t save_len = ob_len, save_cap = ob_cap;
  ob = NULL; ob_len = 0; ob_cap = 0;
  rec_base = buf; rec_count = 0; rec_offsets = true;
  struct cbor_decoder_result d = cbor_stream_decode(buf, r + 1, &rec_callbacks, NULL);
  char* ev = ob; ob = save; ob_len = save_len; ob_cap = save_cap;
  ob_printf("%s %zu %zu %s", status_s(d.status), d.read, d.required, rec_count ? ev : "-");
  if (a_requests) ob_printf(" ALLOCS=%lu", a_requests);
  free(ev); free(buf);
}

/* ------------------------------------------------------------------ item dump */
static __thread bool dump_rc_ok;
static void dump_item(cbor_item_t* it) {
  if (cbor_refcount(it) != 1) dump_rc_ok = false;
  switch (cbor_typeof(it)) {
    case CBOR_TYPE_UINT:
    case CBOR_TYPE_NEGINT: {
      const char* s = cbor_isa_uint(it) ? "u" : "n";
      switch (cbor_int_get_width(it)) {
        case CBOR_INT_8: ob_printf("(%s8 %u)", s, cbor_get_uint8(it)); break;
        case CBOR_INT_16: ob_printf("(%s16 %u)", s, cbor_get_uint16(it)); break;
        case CBOR_INT_32: ob_printf("(%s32 %u)", s, cbor_get_uint32(it)); break;
        case CBOR_INT_64: ob_printf("(%s64 %llu)", s, (unsigned long long)cbor_get_uint64(it)); break;
      }
      break;
    }
    case CBOR_TYPE_BYTESTRING:
      if (cbor_bytestring_is_definite(it)) {
        ob_printf("(bs "); ob_hex(cbor_bytestring_handle(it), cbor_bytestring_length(it)); ob_printf(")");
      } else {
        ob_printf("(bsi");
        for (size_t i = 0; i < cbor_bytestring_chunk_count(it); i++) {
          cbor_item_t* c = cbor_bytestring_chunks_handle(it)[i];
          if (cbor_refcount(c) != 1) dump_rc_ok = false;
          ob_printf(" ");
          if (!cbor_isa_bytestring(c) || !cbor_bytestring_is_definite(c)) ob_printf("BADCHUNK");
          else ob_hex(cbor_bytestring_handle(c), cbor_bytestring_length(c));
        }
        ob_printf(")");
      }
      break;
    case CBOR_TYPE_STRING:
      if (cbor_string_is_definite(it)) {
        ob_printf("(ts "); ob_hex(cbor_string_handle(it), cbor_string_length(it)); ob_printf(")");
      } else {
        ob_printf("(tsi");
        for (size_t i = 0; i < cbor_string_chunk_count(it); i++) {
          cbor_item_t* c = cbor_string_chunks_handle(it)[i];
          if (cbor_refcount(c) != 1) dump_rc_ok = false;
          ob_printf(" ");
          if (!cbor_isa_string(c) || !cbor_string_is_definite(c)) ob_printf("BADCHUNK");
          else ob_hex(cbor_string_handle(c), cbor_string_length(c));
        }
        ob_printf(")");
      }
      break;
    case CBOR_TYPE_ARRAY:
      ob_printf(cbor_array_is_definite(it) ? "(arr" : "(arri");
      for (size_t i = 0; i < cbor_array_size(it); i++) { ob_printf(" "); dump_item(cbor_array_handle(it)[i]); }
      ob_printf(")");
      break;
    case CBOR_TYPE_MAP:
      ob_printf(cbor_map_is_definite(it) ? "(map" : "(mapi");
      for (size_t i = 0; i < cbor_map_size(it); i++) {
        ob_printf(" "); dump_item(cbor_map_handle(it)[i].key);
        ob_printf(" "); dump_item(cbor_map_handle(it)[i].value);
      }
      ob_printf(")");
      break;
    case CBOR_TYPE_TAG:
      ob_printf("(tag %llu ", (unsigned long long)cbor_tag_value(it));
      dump_item(it->metadata.tag_metadata.tagged_item);
      ob_printf(")");
      break;
    case CBOR_TYPE_FLOAT_CTRL:
      switch (cbor_float_get_width(it)) {
        case CBOR_FLOAT_0: ob_printf("(ctrl %u)", cbor_ctrl_value(it)); break;
        case CBOR_FLOAT_16: ob_printf("(f16 %x)", f2bits(cbor_float_get_float2(it))); break;
        case CBOR_FLOAT_32: ob_printf("(f32 %x)", f2bits(cbor_float_get_float4(it))); break;
        case CBOR_FLOAT_64: ob_printf("(f64 %llx)", (unsigned long long)d2bits(cbor_float_get_float8(it))); break;
      }
      break;
  }
}

/* a definite container must be completely filled in a decoded tree */
static bool tree_full(cbor_item_t* it) {
  switch (cbor_typeof(it)) {
    case CBOR_TYPE_ARRAY:
      if (cbor_array_is_definite(it) && cbor_array_size(it) != cbor_array_allocated(it)) return false;
      for (size_t i = 0; i < cbor_array_size(it); i++) if (!tree_full(cbor_array_handle(it)[i])) return false;
      return true;
    case CBOR_TYPE_MAP:
      if (cbor_map_is_definite(it) && cbor_map_size(it) != cbor_map_allocated(it)) return false;
      for (size_t i = 0; i < cbor_map_size(it); i++)
        if (!tree_full(cbor_map_handle(it)[i].key) || !cbor_map_handle(it)[i].value ||
            !tree_full(cbor_map_handle(it)[i].value)) return false;
      return true;
    case CBOR_TYPE_TAG:
      return it->metadata.tag_metadata.tagged_item && tree_full(it->metadata.tag_metadata.tagged_item);
    default: return true;
  }
}

/* ------------------------------------------------------------------ stream: load */
static const char* err_s(cbor_error_code c) {
  switch (c) {
    case CBOR_ERR_NONE: return "NONE"; case CBOR_ERR_NOTENOUGHDATA: return "NOTENOUGHDATA";
    case CBOR_ERR_NODATA: return "NODATA"; case CBOR_ERR_MALFORMATED: return "MALFORMATED";
    case CBOR_ERR_MEMERROR: return "MEMERROR"; case CBOR_ERR_SYNTAXERROR: return "SYNTAXERROR";
  }
  return "?";
}
static void do_load(char* line) {
  size_t n;
  unsigned char* buf = parse_hex_al(line, &n);
  struct cbor_load_result res;
  memset(&res, 0xAA, sizeof res);
  a_reset(); a_live = 0;
  cbor_item_t* it = cbor_load(buf, n, &res);
  /* the input may be freed or overwritten at once */
  if (!ro_mode) memset(buf, 0xEE, n);
  free_al(buf);
  const size_t unw = (size_t)0xAAAAAAAAAAAAAAAAull;
  if (it) {
    ob_printf("ok %zu ", res.read);
    dump_rc_ok = true;
    dump_item(it);
    if (!dump_rc_ok) ob_printf(" RC=BAD");
    if (!tree_full(it)) ob_printf(" NOTFULL");
    if (res.error.code != CBOR_ERR_NONE) ob_printf(" CODE=%s", err_s(res.error.code));
    if (res.error.position != 0) ob_printf(" POS=%zu", res.error.position);   /* result pre-filled with 0xAA: unwritten shows */
    cbor_decref(&it);
    if (a_live != 0) ob_printf(" LEAK=%ld", a_live);
  } else {
    ob_printf("err %s ", (unsigned)res.error.code == 0xAAAAAAAAu ? "UNWRITTEN" : err_s(res.error.code));
    if (res.error.position == unw) ob_printf("UNWRITTEN "); else ob_printf("%zu ", res.error.position);
    if (res.read == unw) ob_printf("UNWRITTEN"); else ob_printf("%zu", res.read);
    if (a_live != 0) ob_printf(" LEAK=%ld", a_live);
  }
}

/* ------------------------------------------------------------------ stream: loadpost / depth (C01, C19)
 * decode, then everything a client does with a decoded tree: describe, size, serialize, copy, release */
#include <pthread.h>
static void load_post_body(char* line) {
  size_t n;
  unsigned char* buf = parse_hex_al(line, &n);
  struct cbor_load_result res;
  memset(&res, 0xAA, sizeof res);
  a_reset(); a_live = 0;
  cbor_item_t* it = cbor_load(buf, n, &res);
  if (!ro_mode) memset(buf, 0xEE, n);
  free_al(buf);
  if (it) {
    ob_printf("ok %zu ", res.read);
    dump_rc_ok = true; dump_item(it);
    if (!dump_rc_ok) ob_printf(" RC=BAD");
    if (!tree_full(it)) ob_printf(" NOTFULL");
    cbor_describe(it, hx_devnull);
    size_t sz = cbor_serialized_size(it);
    unsigned char* out = malloc(sz ? sz : 1);
    size_t w = cbor_serialize(it, out, sz);
    cbor_item_t* cp = cbor_copy(it);
    int same = 0;
    if (cp) {
      unsigned char* out2 = malloc(sz ? sz : 1);
      size_t w2 = cbor_serialize(cp, out2, sz);
      same = (w2 == w && memcmp(out, out2, w) == 0);
      free(out2);
      cbor_decref(&cp);
    }
    free(out);
    ob_printf(" post=%zu:%zu:%d", sz, w, same);
    cbor_decref(&it);
    if (a_live != 0) ob_printf(" LEAK=%ld", a_live);
  } else {
    ob_printf("err %s %zu %zu", err_s(res.error.code), res.error.position, res.read);
    if (a_live != 0) ob_printf(" LEAK=%ld", a_live);
  }
}
static void do_loadpost(char* line) { load_post_body(line); }
struct depth_arg { char* line; char* out; };
static void* depth_thread(void* p) {
  struct depth_arg* a = p;
  ob_reset();
  load_post_body(a->line);
  a->out = strdup(ob ? ob : "");
  free(ob); ob = NULL; ob_len = ob_cap = 0;
  return NULL;
}
/* the whole pipeline on a thread whose stack is small and proportional to the nesting limit */
static void do_depth(char* line) {
  pthread_attr_t at; pthread_attr_init(&at);
  size_t stack = (size_t)131072 + (size_t)CBOR_MAX_STACK_SIZE * 768;
  pthread_attr_setstacksize(&at, stack);
  struct depth_arg a = {line, NULL};
  pthread_t th;
  if (pthread_create(&th, &at, depth_thread, &a) != 0) { ob_printf("THREADFAIL"); return; }
  pthread_join(th, NULL);
  ob_printf("%s", a.out ? a.out : "NOOUT");
  free(a.out);
}

/* ------------------------------------------------------------------ S-expression -> item (public API) */
static __thread char* sx; /* cursor */
static void sx_ws(void) { while (*sx == ' ') sx++; }
static bool sx_word(char* out, size_t cap) {
  sx_ws();
  size_t i = 0;
  while (*sx && *sx != ' ' && *sx != '(' && *sx != ')') { if (i + 1 < cap) out[i++] = *sx; sx++; }
  out[i] = 0;
  return i > 0;
}
static char* sx_word_dyn(void) {
  sx_ws();
  char* s = sx;
  while (*sx && *sx != ' ' && *sx != '(' && *sx != ')') sx++;
  size_t l = (size_t)(sx - s);
  char* r = malloc(l + 1); memcpy(r, s, l); r[l] = 0;
  return r;
}
static __thread bool build_failed;
static cbor_item_t* build_item(void);
static cbor_item_t* build_chunked(bool text) {
  cbor_item_t* r = text ? cbor_new_indefinite_string() : cbor_new_indefinite_bytestring();
  for (;;) {
    sx_ws();
    if (*sx == ')') { sx++; break; }
    if (!*sx) { build_failed = true; break; }
    char* h = sx_word_dyn();
    size_t n; unsigned char* d = parse_hex(h, &n); free(h);
    cbor_item_t* c = text ? cbor_build_stringn((const char*)d, n) : cbor_build_bytestring(d, n);
    free(d);
    if (!(text ? cbor_string_add_chunk(r, c) : cbor_bytestring_add_chunk(r, c))) build_failed = true;
    cbor_decref(&c);
  }
  return r;
}
static cbor_item_t* build_item(void) {
  char k[16], v[80];
  sx_ws();
  if (*sx != '(') { build_failed = true; return NULL; }
  sx++;
  sx_word(k, sizeof k);
  cbor_item_t* r = NULL;
  if (k[0] == 'u' || (k[0] == 'n' && k[1] >= '0' && k[1] <= '9')) {
    sx_word(v, sizeof v);
    uint64_t x = parse_u64(v);
    bool neg = k[0] == 'n';
    if (!strcmp(k + 1, "8")) r = neg ? cbor_build_negint8((uint8_t)x) : cbor_build_uint8((uint8_t)x);
    else if (!strcmp(k + 1, "16")) r = neg ? cbor_build_negint16((uint16_t)x) : cbor_build_uint16((uint16_t)x);
    else if (!strcmp(k + 1, "32")) r = neg ? cbor_build_negint32((uint32_t)x) : cbor_build_uint32((uint32_t)x);
    else r = neg ? cbor_build_negint64(x) : cbor_build_uint64(x);
  } else if (!strcmp(k, "bs") || !strcmp(k, "ts")) {
    char* h = sx_word_dyn();
    size_t n; unsigned char* d = parse_hex(h, &n); free(h);
    r = k[0] == 'b' ? cbor_build_bytestring(d, n) : cbor_build_stringn((const char*)d, n);
    free(d);
  } else if (!strcmp(k, "bsz") || !strcmp(k, "tsz")) {
    /* definite string whose length metadata is forged (no such data exists): only for size computation */
    sx_word(v, sizeof v);
    unsigned char* d = hx_malloc(1); d[0] = 0x61;
    if (k[0] == 'b') { r = cbor_new_definite_bytestring(); cbor_bytestring_set_handle(r, d, 1); r->metadata.bytestring_metadata.length = parse_u64(v); }
    else { r = cbor_new_definite_string(); cbor_string_set_handle(r, d, 1); r->metadata.string_metadata.length = parse_u64(v); }
  } else if (!strcmp(k, "bszi") || !strcmp(k, "tszi")) {
    bool text = k[0] == 't';
    r = text ? cbor_new_indefinite_string() : cbor_new_indefinite_bytestring();
    for (;;) {
      sx_ws();
      if (*sx == ')') { sx++; break; }
      if (!*sx) { build_failed = true; break; }
      sx_word(v, sizeof v);
      unsigned char* d = hx_malloc(1); d[0] = 0x61;
      cbor_item_t* c;
      if (!text) { c = cbor_new_definite_bytestring(); cbor_bytestring_set_handle(c, d, 1); c->metadata.bytestring_metadata.length = parse_u64(v); }
      else { c = cbor_new_definite_string(); cbor_string_set_handle(c, d, 1); c->metadata.string_metadata.length = parse_u64(v); }
      if (!(text ? cbor_string_add_chunk(r, c) : cbor_bytestring_add_chunk(r, c))) build_failed = true;
      cbor_decref(&c);
    }
    return r;
  } else if (!strcmp(k, "bsi")) { return build_chunked(false);
  } else if (!strcmp(k, "tsi")) { return build_chunked(true);
  } else if (!strcmp(k, "arr") || !strcmp(k, "arri") || !strcmp(k, "map") || !strcmp(k, "mapi") || !strcmp(k, "arrd") || !strcmp(k, "mapd")) {
    cbor_item_t** xs = NULL; size_t n = 0, cap = 0;
    size_t declared = 0; bool has_decl = k[3] == 'd';
    if (has_decl) { sx_word(v, sizeof v); declared = parse_u64(v); }
    for (;;) {
      sx_ws();
      if (*sx == ')') { sx++; break; }
      if (!*sx) { build_failed = true; break; }
      cbor_item_t* x = build_item();
      if (build_failed) break;
      if (n == cap) { cap = cap ? cap * 2 : 4; xs = realloc(xs, cap * sizeof *xs); }
      xs[n++] = x;
    }
    if (k[0] == 'a') {
      r = k[3] == 'i' ? cbor_new_indefinite_array() : cbor_new_definite_array(has_decl ? declared : n);
      for (size_t i = 0; i < n; i++) { if (!cbor_array_push(r, xs[i])) build_failed = true; cbor_decref(&xs[i]); }
    } else {
      r = k[3] == 'i' ? cbor_new_indefinite_map() : cbor_new_definite_map(has_decl ? declared : n / 2);
      for (size_t i = 0; i + 1 < n; i += 2) {
        if (!cbor_map_add(r, (struct cbor_pair){.key = xs[i], .value = xs[i + 1]})) build_failed = true;
        cbor_decref(&xs[i]); cbor_decref(&xs[i + 1]);
      }
    }
    free(xs);
    return r;
  } else if (!strcmp(k, "tag")) {
    sx_word(v, sizeof v);
    cbor_item_t* x = build_item();
    r = cbor_build_tag(parse_u64(v), x);
    if (x) cbor_decref(&x);
  } else if (!strcmp(k, "ctrl")) {
    sx_word(v, sizeof v); r = cbor_build_ctrl((uint8_t)parse_u64(v));
  } else if (!strcmp(k, "f16") || !strcmp(k, "f32") || !strcmp(k, "f64")) {
    sx_word(v, sizeof v);
    uint64_t bits = strtoull(v, NULL, 16);
    if (k[1] == '1') r = cbor_build_float2(bits2f((uint32_t)bits));
    else if (k[1] == '3') r = cbor_build_float4(bits2f((uint32_t)bits));
    else r = cbor_build_float8(bits2d(bits));
  } else { build_failed = true; return NULL; }
  sx_ws();
  if (*sx == ')') sx++; else build_failed = true;
  return r;
}
static cbor_item_t* item_of_sexp(char* s) {
  sx = s; build_failed = false;
  cbor_item_t* r = build_item();
  if (build_failed || !r) return NULL;
  return r;
}

/* ------------------------------------------------------------------ stream: sizes (C20): declared lengths */
static void do_sizes(char* line) {
  a_reset(); a_live = 0;
  cbor_item_t* it = item_of_sexp(line);
  if (!it) { ob_printf("BADCASE"); return; }
  unsigned long before = a_requests;
  ob_printf("size=%zu", cbor_serialized_size(it));
  if (a_requests != before) ob_printf(" ALLOCS");
  cbor_decref(&it);
  if (a_live != 0) ob_printf(" LEAK=%ld", a_live);
}

/* forged-length trees handed to cbor_serialize with small buffers: every declared string length of the case is
   >= 2^32, so nothing can fit and nothing of the (tiny) real payload may be copied: the result is 0 for every n */
static void do_sizesser(char* line) {
  a_reset(); a_live = 0;
  cbor_item_t* it = item_of_sexp(line);
  if (!it) { ob_printf("BADCASE"); return; }
  static const size_t ns[] = {0, 1, 9, 10, 18, 64};
  ob_printf("ser=");
  for (size_t i = 0; i < sizeof(ns) / sizeof(ns[0]); i++) {
    size_t n = ns[i];
    unsigned char* b = malloc(n + 16);
    memset(b, 0xA5, n + 16);
    size_t r = cbor_serialize(it, b, n);
    ob_printf("%s%zu", i ? "," : "", r);
    for (size_t k = n; k < n + 16; k++) if (b[k] != 0xA5) { ob_printf(" OVERWRITE@%zu+%zu", n, k - n); break; }
    free(b);
  }
  /* cbor_serialize_alloc on the same tree: the size is 0 (overflow) or beyond the allocator cap, so the documented
     failure channel is: return 0, *buffer == NULL, *buffer_size == 0 (anything else is printed) */
  {
    unsigned char* ab = (unsigned char*)0x1; size_t absz = 777;
    size_t ar = cbor_serialize_alloc(it, &ab, &absz);
    if (ar != 0 || ab != NULL || absz != 0) ob_printf(" ALLOC=%zu:%zu:%s", ar, absz, ab ? "ptr" : "null");
    if (ab) hx_free(ab);
  }
  cbor_decref(&it);
  if (a_live != 0) ob_printf(" LEAK=%ld", a_live);
}

/* ------------------------------------------------------------------ stream: ser */
static void do_ser(char* line) {
  a_reset(); a_live = 0;
  cbor_item_t* it = item_of_sexp(line);
  if (!it) { ob_printf("BADCASE"); return; }
  unsigned long before = a_requests;
  size_t size = cbor_serialized_size(it);
  if (a_requests != before) ob_printf("SIZEALLOCS ");
  ob_printf("size=%zu", size);
  unsigned char* ab = (unsigned char*)0x1; size_t absz = 777;
  before = a_requests;
  size_t ar = cbor_serialize_alloc(it, &ab, &absz);
  ob_printf(" alloc=%zu:%zu:", ar, absz);
  if (ab) { ob_hex(ab, absz); hx_free(ab); } else ob_printf("-");
  if (ab && a_last_size != absz) ob_printf(" ALLOCREQ=%zu", a_last_size);
  for (size_t n = 0; n <= size + 2; n++) {
    unsigned char* b1 = malloc(n); unsigned char* b2 = malloc(n);
    memset(b1, 0xA5, n); memset(b2, 0x5A, n);
    before = a_requests;
    size_t r1 = cbor_serialize(it, b1, n);
    size_t r2 = cbor_serialize(it, b2, n);
    ob_printf(" %zu:%zu:", n, r1);
    ob_image(b1, b2, n);
    if (r1 != r2) ob_printf("NONDET");
    if (a_requests != before) ob_printf("ALLOCS");
    free(b1); free(b2);
  }
  cbor_decref(&it);
  if (a_live != 0) ob_printf(" LEAK=%ld", a_live);
}

/* ------------------------------------------------------------------ stream: bigsuffix (C14)
 * "x|n": x followed by n zero bytes of an untouched anonymous mapping (costs no memory): decoding
 * must give exactly what decoding x alone gives */
static void do_bigsuffix(char* line) {
  char* bar = strchr(line, '|');
  if (!bar) { ob_printf("BADCASE"); return; }
  *bar = 0;
  size_t n; unsigned char* x = parse_hex(line, &n);
  size_t ysize = (size_t)strtoull(bar + 1, NULL, 0);
  size_t total = n + ysize;
  unsigned char* buf = mmap(NULL, total ? total : 1, PROT_READ | PROT_WRITE, MAP_PRIVATE | MAP_ANONYMOUS | MAP_NORESERVE, -1, 0);
  if (buf == MAP_FAILED) { ob_printf("MMAPFAIL"); free(x); return; }
  memcpy(buf, x, n); free(x);
  struct cbor_load_result res; memset(&res, 0xAA, sizeof res);
  a_reset(); a_live = 0;
  cbor_item_t* it = cbor_load(buf, total, &res);
  if (it) {
    ob_printf("ok %zu ", res.read);
    dump_rc_ok = true; dump_item(it);
    cbor_decref(&it);
  } else ob_printf("err %s %zu %zu", err_s(res.error.code), res.error.position, res.read);
  if (a_live != 0) ob_printf(" LEAK=%ld", a_live);
  munmap(buf, total ? total : 1);
}

/* ------------------------------------------------------------------ stream: bigitem (C14, thorough)
 * "n": a definite byte string of n zero bytes (8-byte length head) followed by the item 01, in an
 * anonymous mapping: the first decode must consume exactly 9+n bytes, the second must find 01 */
static void do_bigitem(char* line) {
  size_t n = (size_t)strtoull(line, NULL, 0);
  size_t total = 9 + n + 1;
  unsigned char* buf = mmap(NULL, total, PROT_READ | PROT_WRITE, MAP_PRIVATE | MAP_ANONYMOUS | MAP_NORESERVE, -1, 0);
  if (buf == MAP_FAILED) { ob_printf("MMAPFAIL"); return; }
  buf[0] = 0x5B; for (int i = 0; i < 8; i++) buf[1 + i] = (unsigned char)(n >> (56 - 8 * i));
  buf[9 + n] = 0x01;
  size_t save_cap = a_cap; a_cap = (size_t)-1;
  cbor_set_allocs(malloc, realloc, free);
  struct cbor_load_result res; memset(&res, 0xAA, sizeof res);
  cbor_item_t* it = cbor_load(buf, total, &res);
  if (!it) ob_printf("err %s %zu", err_s(res.error.code), res.error.position);
  else {
    ob_printf("ok %zu len=%zu", res.read, cbor_isa_bytestring(it) ? cbor_bytestring_length(it) : (size_t)-1);
    size_t rd = res.read;
    cbor_decref(&it);
    if (rd < total) {
      cbor_item_t* it2 = cbor_load(buf + rd, total - rd, &res);
      if (it2 && cbor_isa_uint(it2)) { ob_printf(" next=ok:%zu", res.read); cbor_decref(&it2); }
      else { ob_printf(" next=BAD"); if (it2) cbor_decref(&it2); }
    } else ob_printf(" next=NONE");
  }
  cbor_set_allocs(hx_malloc, hx_realloc, hx_free);
  a_cap = save_cap;
  munmap(buf, total);
}

/* ------------------------------------------------------------------ stream: hugecount (C20 / C02, thorough + search)
 * "<hex>": cbor_load of a definite MAP whose declared pair count lies beyond 2^31 (its storage: tens of GiB of address space,
 * served here by an untouched MAP_NORESERVE mapping; arrays are not used: cbor_new_definite_array NULL-fills its storage),
 * followed by a few members only: the decoder must still be waiting for the rest (NOTENOUGHDATA at the end of the input). */
static void* hc_blocks[8]; static size_t hc_sizes[8];
static void* hc_malloc(size_t n) {
  if (n < ((size_t)1 << 30)) return malloc(n);
  void* p = mmap(NULL, n, PROT_READ | PROT_WRITE, MAP_PRIVATE | MAP_ANONYMOUS | MAP_NORESERVE, -1, 0);
  if (p == MAP_FAILED) return NULL;
  for (int i = 0; i < 8; i++) if (!hc_blocks[i]) { hc_blocks[i] = p; hc_sizes[i] = n; return p; }
  munmap(p, n); return NULL;
}
static void hc_free(void* p) {
  for (int i = 0; i < 8; i++) if (p && hc_blocks[i] == p) { munmap(p, hc_sizes[i]); hc_blocks[i] = NULL; return; }
  free(p);
}
static void* hc_realloc(void* p, size_t n) {
  for (int i = 0; i < 8; i++) if (p && hc_blocks[i] == p) return NULL;
  return n < ((size_t)1 << 30) ? realloc(p, n) : NULL;
}
static void do_hugecount(char* line) {
  size_t n; unsigned char* buf = parse_hex(line, &n);
  cbor_set_allocs(hc_malloc, hc_realloc, hc_free);
  struct cbor_load_result res; memset(&res, 0xAA, sizeof res);
  cbor_item_t* it = cbor_load(buf, n, &res);
  if (!it) ob_printf("err %s %zu %zu", err_s(res.error.code), res.error.position, res.read);
  else {
    ob_printf("ok %zu", res.read);
    if (cbor_isa_map(it)) ob_printf(" map size=%zu allocated=%zu", cbor_map_size(it), cbor_map_allocated(it));
    cbor_decref(&it);
  }
  cbor_set_allocs(hx_malloc, hx_realloc, hx_free);
  free(buf);
}

/* ------------------------------------------------------------------ stream: seq (C14 CBOR sequences) */
static void do_seq(char* line) {
  size_t n; unsigned char* all = parse_hex(line, &n);
  size_t off = 0; int k = 0;
  a_reset(); a_live = 0;
  while (off < n && k < 64) {
    /* present exactly the remainder in an exactly-sized block */
    size_t rem = n - off;
    unsigned char* buf = aligned_copy(all + off, rem);
    struct cbor_load_result res; memset(&res, 0xAA, sizeof res);
    cbor_item_t* it = cbor_load(buf, rem, &res);
    free_al(buf);
    if (k) ob_printf(" ");
    if (!it) { ob_printf("err:%s:%zu", err_s(res.error.code), res.error.position); break; }
    ob_printf("ok:%zu:", res.read); dump_rc_ok = true; dump_item(it);
    cbor_decref(&it);
    if (res.read == 0) { ob_printf(" ZEROREAD"); break; }
    off += res.read; k++;
  }
  ob_printf(" end=%zu/%zu", off, n);
  if (a_live != 0) ob_printf(" LEAK=%ld", a_live);
  free(all);
}

/* ------------------------------------------------------------------ stream: rt (C03 round trip) */
static void do_rt(char* line) {
  a_reset(); a_live = 0;
  cbor_item_t* it = item_of_sexp(line);
  if (!it) { ob_printf("BADCASE"); return; }
  unsigned char* b1; size_t n1;
  size_t r1 = cbor_serialize_alloc(it, &b1, &n1);
  ob_hex(b1, r1); ob_printf(" -> ");
  /* the buffer is followed by garbage: loading must consume exactly the item */
  unsigned char* buf = malloc(n1 + 2); memcpy(buf, b1, n1); buf[n1] = 0xFF; buf[n1 + 1] = 0x00;
  struct cbor_load_result res; memset(&res, 0xAA, sizeof res);
  cbor_item_t* back = cbor_load(buf, n1 + 2, &res);
  free(buf);
  if (!back) ob_printf("err %s %zu", err_s(res.error.code), res.error.position);
  else {
    ob_printf("ok %zu ", res.read);
    dump_rc_ok = true; dump_item(back);
    unsigned char* b2; size_t n2;
    size_t r2 = cbor_serialize_alloc(back, &b2, &n2);
    ob_printf(" same=%d", (r2 == r1 && n2 == n1 && memcmp(b1, b2, n1) == 0) ? 1 : 0);
    if (b2) hx_free(b2);
    cbor_decref(&back);
  }
  if (b1) hx_free(b1);
  cbor_decref(&it);
  if (a_live != 0) ob_printf(" LEAK=%ld", a_live);
}

/* ------------------------------------------------------------------ stream: copy (C11) */
struct aset { void** p; size_t n, cap; };
static void aset_add(struct aset* s, void* p) {
  if (!p) return;
  if (s->n == s->cap) { s->cap = s->cap ? s->cap * 2 : 64; s->p = realloc(s->p, s->cap * sizeof(void*)); }
  s->p[s->n++] = p;
}
static bool all_rc1;
static void collect(cbor_item_t* it, struct aset* s) {
  aset_add(s, it);
  if (cbor_refcount(it) != 1) all_rc1 = false;
  switch (cbor_typeof(it)) {
    case CBOR_TYPE_BYTESTRING: case CBOR_TYPE_STRING: {
      bool def = cbor_isa_string(it) ? cbor_string_is_definite(it) : cbor_bytestring_is_definite(it);
      if (def) aset_add(s, it->data);
      else {
        struct cbor_indefinite_string_data* d = (struct cbor_indefinite_string_data*)it->data;
        aset_add(s, d); aset_add(s, d->chunks);
        for (size_t i = 0; i < d->chunk_count; i++) collect(d->chunks[i], s);
      }
      break;
    }
    case CBOR_TYPE_ARRAY:
      aset_add(s, it->data);
      for (size_t i = 0; i < cbor_array_size(it); i++) collect(cbor_array_handle(it)[i], s);
      break;
    case CBOR_TYPE_MAP:
      aset_add(s, it->data);
      for (size_t i = 0; i < cbor_map_size(it); i++) { collect(cbor_map_handle(it)[i].key, s); collect(cbor_map_handle(it)[i].value, s); }
      break;
    case CBOR_TYPE_TAG:
      if (it->metadata.tag_metadata.tagged_item) collect(it->metadata.tag_metadata.tagged_item, s);
      break;
    default: break;
  }
}
static char* ser_hex(cbor_item_t* it) {
  unsigned char* b; size_t n;
  size_t r = cbor_serialize_alloc(it, &b, &n);
  char* h = malloc(2 * r + 2); h[0] = 0;
  for (size_t i = 0; i < r; i++) sprintf(h + 2 * i, "%02x", b[i]);
  if (b) hx_free(b);
  return h;
}
static void do_copy(char* line) {
  a_reset(); a_live = 0;
  cbor_item_t* src;
  if (line[0] == '@') {   /* source obtained from the decoder instead of the construction API */
    size_t n; unsigned char* buf = parse_hex(line + 1, &n);
    struct cbor_load_result res;
    src = cbor_load(buf, n, &res);
    free(buf);
  } else src = item_of_sexp(line);
  if (!src) { ob_printf("BADCASE"); return; }
  char* before = ser_hex(src);
  size_t mark = ob_len; dump_rc_ok = true; dump_item(src); char* shape_before = strdup(ob + mark); ob_len = mark; ob[mark] = 0;
  bool src_rc_before = dump_rc_ok;
  cbor_item_t* cp = cbor_copy(src);
  if (!cp) { ob_printf("copy=NULL"); cbor_decref(&src); free(before); free(shape_before); return; }
  char* cser = ser_hex(cp);
  mark = ob_len; dump_rc_ok = true; dump_item(cp); char* shape_copy = strdup(ob + mark); ob_len = mark; ob[mark] = 0;
  char* after = ser_hex(src);
  mark = ob_len; dump_rc_ok = true; dump_item(src); char* shape_after = strdup(ob + mark); ob_len = mark; ob[mark] = 0;
  bool src_rc_after = dump_rc_ok;
  struct aset s1 = {0}, s2 = {0};
  all_rc1 = true; collect(src, &s1);
  all_rc1 = true; collect(cp, &s2); bool rc1 = all_rc1;
  bool disjoint = true;
  for (size_t i = 0; i < s1.n && disjoint; i++) for (size_t j = 0; j < s2.n; j++) if (s1.p[i] == s2.p[j]) { disjoint = false; break; }
  ob_printf("equal=%d shape=%d disjoint=%d rc1=%d src_unchanged=%d", !strcmp(before, cser), !strcmp(shape_before, shape_copy), disjoint, rc1,
            !strcmp(before, after) && !strcmp(shape_before, shape_after) && src_rc_before == src_rc_after);
  /* independence: release the source, the copy must be intact; then release the copy: nothing left */
  cbor_decref(&src);
  char* c2 = ser_hex(cp);
  ob_printf(" after_release=%d", !strcmp(c2, cser));
  cbor_decref(&cp);
  ob_printf(" live=%ld", a_live);
  free(before); free(cser); free(after); free(c2); free(shape_before); free(shape_copy); free(shape_after); free(s1.p); free(s2.p);
}

/* ------------------------------------------------------------------ stream: utf8 / dfa */
static void do_utf8(char* line) {
  size_t n;
  unsigned char* d = parse_hex(line, &n);
  a_reset(); a_live = 0;
  /* path 1: cbor_string_set_handle on a handed-over buffer */
  cbor_item_t* s = cbor_new_definite_string();
  unsigned char* h = hx_malloc(n);
  memcpy(h, d, n);
  cbor_string_set_handle(s, h, n);
  size_t cp1 = cbor_string_codepoint_count(s);
  bool content = cbor_string_length(s) == n && memcmp(cbor_string_handle(s), d, n) == 0;
  cbor_decref(&s);
  /* path 1b: attach to an item that previously held valid text (6 code points) */
  s = cbor_new_definite_string();
  unsigned char* h0 = hx_malloc(8); memcpy(h0, "abc\xC3\xA9yz", 8);
  cbor_string_set_handle(s, h0, 8);
  size_t cp0 = cbor_string_codepoint_count(s);
  hx_free(h0);
  unsigned char* h1 = hx_malloc(n); memcpy(h1, d, n);
  cbor_string_set_handle(s, h1, n);
  size_t cp1b = cbor_string_codepoint_count(s);
  cbor_decref(&s);
  if (cp0 != 7) cp1 = (size_t)-2;
  if (cp1b != cp1) cp1 = (size_t)-3;
  /* path 2: cbor_build_stringn */
  s = cbor_build_stringn((const char*)d, n);
  size_t cp2 = cbor_string_codepoint_count(s);
  content = content && cbor_string_length(s) == n && memcmp(cbor_string_handle(s), d, n) == 0;
  /* path 3: decode the encoded text string */
  unsigned char* enc; size_t encsz;
  cbor_serialize_alloc(s, &enc, &encsz);
  cbor_decref(&s);
  struct cbor_load_result res;
  cbor_item_t* l = cbor_load(enc, encsz, &res);
  hx_free(enc);
  if (!l || !cbor_isa_string(l)) { ob_printf("cp=%zu spec=REJECTED(%s)", cp1, err_s(res.error.code)); }
  else {
    size_t cp3 = cbor_string_codepoint_count(l);
    content = content && cbor_string_length(l) == n && memcmp(cbor_string_handle(l), d, n) == 0;
    ob_printf("cp=%zu spec=%zu", cp1 == cp2 ? cp1 : (size_t)-1, cp3);
  }
  if (l) cbor_decref(&l);
  if (!content) ob_printf(" CONTENT");
  if (a_live != 0) ob_printf(" LEAK=%ld", a_live);
  free(d);
}
static void do_dfa(char* line) {
  unsigned st, b;
  if (sscanf(line, "%u %u", &st, &b) != 2) { ob_printf("BADCASE"); return; }
  uint32_t state = st, cp = 0;
  ob_printf("%u", _cbor_unicode_decode(&state, &cp, b));
}

/* ------------------------------------------------------------------ stream: mem */
static void do_mem(char* line) {
  char f[16], as[64], bs[64];
  if (sscanf(line, "%15s %63s %63s", f, as, bs) != 3) { ob_printf("BADCASE"); return; }
  size_t a = parse_u64(as), b = parse_u64(bs);
  if (!strcmp(f, "hb")) ob_printf("%zu", _cbor_highest_bit(a));
  else if (!strcmp(f, "mul")) ob_printf("%d", _cbor_safe_to_multiply(a, b) ? 1 : 0);
  else if (!strcmp(f, "add")) ob_printf("%d", _cbor_safe_to_add(a, b) ? 1 : 0);
  else if (!strcmp(f, "sadd")) ob_printf("%zu", _cbor_safe_signaling_add(a, b));
  else if (!strcmp(f, "hdr")) ob_printf("%zu", _cbor_encoded_header_size(a));
  else if (!strcmp(f, "allocm")) {
    a_reset(); a_record_only = true;
    void* p = _cbor_alloc_multiple(a, b);
    if (p) ob_printf("GRANTED"); else if (a_called) ob_printf("%zu", a_last_size); else ob_printf("none");
    a_reset(); a_record_only = true;
    void* q = _cbor_realloc_multiple(NULL, a, b);
    if (q) ob_printf(" GRANTED"); else if (a_called) { if (a_last_size != (size_t)(a * b)) ob_printf(" REALLOC=%zu", a_last_size); }
    else if (_cbor_safe_to_multiply(a, b)) ob_printf(" REALLOCNONE");
    a_reset();
  } else if (!strcmp(f, "grow")) {
    /* growth step of an indefinite array whose capacity is faked to be a (white box) */
    a_reset();
    cbor_item_t* arr = cbor_new_indefinite_array();
    cbor_item_t* x = cbor_build_uint8(0);
    arr->metadata.array_metadata.allocated = a;
    arr->metadata.array_metadata.end_ptr = a;
    a_reset(); a_record_only = true;
    bool ok = cbor_array_push(arr, x);
    bool called = a_called; size_t sz = a_last_size;
    a_reset();
    if (ok) ob_printf("PUSHED");
    else if (called) { if (sz % sizeof(cbor_item_t*)) ob_printf("ODD=%zu", sz); else ob_printf("%zu", sz / sizeof(cbor_item_t*)); }
    else ob_printf("none");
    if (arr->metadata.array_metadata.allocated != a || arr->metadata.array_metadata.end_ptr != a) ob_printf(" CHANGED");
    arr->metadata.array_metadata.allocated = 0;
    arr->metadata.array_metadata.end_ptr = 0;
    cbor_decref(&arr); cbor_decref(&x);
  } else if (!strcmp(f, "growm")) {
    /* the same for an indefinite map (pairs of 16 bytes), through cbor_map_add */
    a_reset();
    cbor_item_t* m = cbor_new_indefinite_map();
    cbor_item_t* x = cbor_build_uint8(0);
    m->metadata.map_metadata.allocated = a;
    m->metadata.map_metadata.end_ptr = a;
    a_reset(); a_record_only = true;
    bool ok = cbor_map_add(m, (struct cbor_pair){.key = x, .value = x});
    bool called = a_called; size_t sz = a_last_size;
    a_reset();
    if (ok) ob_printf("PUSHED");
    else if (called) { if (sz % sizeof(struct cbor_pair)) ob_printf("ODD=%zu", sz); else ob_printf("%zu", sz / sizeof(struct cbor_pair)); }
    else ob_printf("none");
    if (m->metadata.map_metadata.allocated != a || m->metadata.map_metadata.end_ptr != a) ob_printf(" CHANGED");
    if (cbor_refcount(x) != 1) ob_printf(" RC=%zu", cbor_refcount(x));
    m->metadata.map_metadata.allocated = 0;
    m->metadata.map_metadata.end_ptr = 0;
    cbor_decref(&m); cbor_decref(&x);
  } else if (!strcmp(f, "growc")) {
    /* the chunk table of an indefinite byte string (b = 0) / text string (b = 1) whose capacity and count are faked to be a */
    a_reset();
    cbor_item_t* s = b ? cbor_new_indefinite_string() : cbor_new_indefinite_bytestring();
    unsigned char* pl = hx_malloc(1); pl[0] = 'a';
    cbor_item_t* x = b ? cbor_new_definite_string() : cbor_new_definite_bytestring();
    if (b) cbor_string_set_handle(x, pl, 1); else cbor_bytestring_set_handle(x, pl, 1);
    struct cbor_indefinite_string_data* d = (struct cbor_indefinite_string_data*)s->data;
    d->chunk_capacity = a; d->chunk_count = a;
    a_reset(); a_record_only = true;
    bool ok = b ? cbor_string_add_chunk(s, x) : cbor_bytestring_add_chunk(s, x);
    bool called = a_called; size_t sz = a_last_size;
    a_reset();
    if (ok) ob_printf("PUSHED");
    else if (called) { if (sz % sizeof(cbor_item_t*)) ob_printf("ODD=%zu", sz); else ob_printf("%zu", sz / sizeof(cbor_item_t*)); }
    else ob_printf("none");
    if (d->chunk_capacity != a || d->chunk_count != a) ob_printf(" CHANGED");
    if (cbor_refcount(x) != 1) ob_printf(" RC=%zu", cbor_refcount(x));
    d->chunk_capacity = 0; d->chunk_count = 0;
    cbor_decref(&s); cbor_decref(&x);
  } else ob_printf("BADCASE");
}

/* ------------------------------------------------------------------ stream: frag */
static void do_frag(char* line) {
  /* the client of C09: buffer, call, advance by read on FINISHED, wait for `required` on NEDATA */
  unsigned char* buffer = NULL; size_t buffered = 0, wanted = 0;
  char* evs = NULL; size_t evs_len = 0, evs_cap = 0;
  bool stop = false, fault = false;
  char* save = ob; size_t save_len = ob_len, save_cap = ob_cap;
  ob = evs; ob_len = evs_len; ob_cap = evs_cap;
  rec_count = 0; rec_offsets = false;
  char* tok = strtok(line, " ");
  a_reset();
  bool first = true;
  while ((tok || first) && !stop && !fault) {
    first = false;
    if (tok) {
      size_t n; unsigned char* fr = parse_hex(tok, &n);
      unsigned char* nb = malloc(buffered + n ? buffered + n : 1);
      if (buffered) memcpy(nb, buffer, buffered);
      if (n) memcpy(nb + buffered, fr, n);
      free(buffer); free(fr); buffer = nb; buffered += n;
      tok = strtok(NULL, " ");
    }
    size_t fuel = buffered + 2;
    for (;;) {
      if (fuel-- == 0) { fault = true; break; }
      if (buffered < wanted) break;
      /* present exactly the buffered bytes: in an exactly-sized block, or (HX_FIXEDRX) at the start of one receive
         buffer that every call of every case reuses, as a client with a fixed buffer does */
      static unsigned char fixed_rx[1 << 16];
      static int fixed_mode = -1;
      if (fixed_mode < 0) fixed_mode = getenv("HX_FIXEDRX") != NULL;
      bool use_fixed = fixed_mode && buffered <= sizeof fixed_rx;
      unsigned char* view = use_fixed ? fixed_rx : aligned_copy(buffer, buffered);   /* rotating start alignment */
      if (use_fixed && buffered) memcpy(view, buffer, buffered);
      if (use_fixed) memset(view + buffered, 0xD7, sizeof fixed_rx - buffered < 32 ? sizeof fixed_rx - buffered : 32);
      rec_base = view;
      struct cbor_decoder_result r = cbor_stream_decode(view, buffered, &rec_callbacks, NULL);
      if (!use_fixed) free_al(view);
      if (r.status == CBOR_DECODER_FINISHED) {
        if (r.read == 0 || r.read > buffered) { fault = true; break; }
        memmove(buffer, buffer + r.read, buffered - r.read);
        buffered -= r.read; wanted = 0;
      } else if (r.status == CBOR_DECODER_NEDATA) {
        if (r.required <= buffered) { fault = true; break; }
        wanted = r.required; break;
      } else { stop = true; break; }
    }
  }
  evs = ob; int nev = rec_count;
  ob = save; ob_len = save_len; ob_cap = save_cap;
  ob_printf("%s ", nev ? evs : "-");
  if (fault) ob_printf("FAULT");
  else if (stop) ob_printf("stop");
  else ob_printf("wait buffered=%zu wanted=%zu", buffered, wanted);
  if (a_requests) ob_printf(" ALLOCS=%lu", a_requests);
  free(evs); free(buffer);
}

/* ------------------------------------------------------------------ main */
#include "hx_heap.inc"

int main(int argc, char** argv) {
  if (argc < 2) { fprintf(stderr, "usage: hx <stream> [params]\n"); return 2; }
  const char* stream = argv[1];
  hx_devnull = fopen("/dev/null", "w");
#if defined(__x86_64__) || defined(__i386__)
  /* HX_FPENV=ftzdaz: the client runs with flush-to-zero / denormals-are-zero set in MXCSR (audio / DSP code does).  The
     library moves float payloads as bits (memcpy, unions, register moves), so nothing it does may depend on the floating-point
     environment: a conversion instruction on the payload path would flush subnormals.  (The harness itself never computes with
     the floats: it prints bit patterns through memcpy.) */
  if (getenv("HX_FPENV") && !strcmp(getenv("HX_FPENV"), "ftzdaz")) {
    unsigned int csr = __builtin_ia32_stmxcsr();
    __builtin_ia32_ldmxcsr(csr | 0x8040u);
  }
#endif
  if (!strcmp(stream, "config")) {
    /* version constants: the three static consts of common.h, the CBOR_VERSION string and CBOR_HEX_VERSION must tell the same story */
    char vs[64]; snprintf(vs, sizeof vs, "%u.%u.%u", (unsigned)cbor_major_version, (unsigned)cbor_minor_version, (unsigned)cbor_patch_version);
    unsigned long hexv = ((unsigned long)cbor_major_version << 16) | ((unsigned long)cbor_minor_version << 8) | (unsigned long)cbor_patch_version;
    int version_ok = !strcmp(vs, CBOR_VERSION) && hexv == (unsigned long)CBOR_HEX_VERSION &&
                     cbor_major_version == CBOR_MAJOR_VERSION && cbor_minor_version == CBOR_MINOR_VERSION && cbor_patch_version == CBOR_PATCH_VERSION;
    printf("CBOR_MAX_STACK_SIZE=%d CBOR_BUFFER_GROWTH=%d sizeof_item=%zu sizeof_ptr=%zu sizeof_pair=%zu sizeof_isd=%zu sizeof_rec=%zu version=%s hex_version=%lu version_ok=%d\n",
           (int)CBOR_MAX_STACK_SIZE, (int)CBOR_BUFFER_GROWTH, sizeof(cbor_item_t), sizeof(cbor_item_t*),
           sizeof(struct cbor_pair), sizeof(struct cbor_indefinite_string_data), sizeof(struct _cbor_stack_record), CBOR_VERSION, (unsigned long)CBOR_HEX_VERSION, version_ok);
    return 0;
  }
  if ((!strcmp(stream, "load") || !strcmp(stream, "rt") || !strcmp(stream, "loadpost") || !strcmp(stream, "depth") || !strcmp(stream, "seq") || !strcmp(stream, "bigsuffix")) && argc >= 4) {
    /* argv[2] = expected L (checked), argv[3] = allocator cap */
    if ((long)CBOR_MAX_STACK_SIZE != atol(argv[2])) { fprintf(stderr, "hx: library L=%d, asked %s\n", (int)CBOR_MAX_STACK_SIZE, argv[2]); return 2; }
    a_cap = (size_t)strtoull(argv[3], NULL, 0);
  }
  cbor_set_allocs(hx_malloc, hx_realloc, hx_free);
  void (*f)(char*) = NULL;
  if (!strcmp(stream, "dec1")) f = do_dec1;
  else if (!strcmp(stream, "enc")) f = do_enc;
  else if (!strcmp(stream, "encdec")) f = do_encdec;
  else if (!strcmp(stream, "load")) f = do_load;
  else if (!strcmp(stream, "loadpost")) f = do_loadpost;
  else if (!strcmp(stream, "depth")) f = do_depth;
  else if (!strcmp(stream, "copy")) f = do_copy;
  else if (!strcmp(stream, "ser")) f = do_ser;
  else if (!strcmp(stream, "sizes")) f = do_sizes;
  else if (!strcmp(stream, "sizesser")) f = do_sizesser;
  else if (!strcmp(stream, "rt")) f = do_rt;
  else if (!strcmp(stream, "seq")) f = do_seq;
  else if (!strcmp(stream, "bigsuffix")) f = do_bigsuffix;
  else if (!strcmp(stream, "bigitem")) f = do_bigitem;
  else if (!strcmp(stream, "hugecount")) f = do_hugecount;
  else if (!strcmp(stream, "utf8")) f = do_utf8;
  else if (!strcmp(stream, "dfa")) f = do_dfa;
  else if (!strcmp(stream, "mem")) f = do_mem;
  else if (!strcmp(stream, "frag")) f = do_frag;
  else f = heap_stream(stream, argc, argv);
  if (!f) { fprintf(stderr, "hx: unknown stream %s\n", stream); return 2; }
  char* line = NULL; size_t cap = 0; ssize_t n;
  while ((n = getline(&line, &cap, stdin)) > 0) {
    while (n > 0 && (line[n - 1] == '\n' || line[n - 1] == '\r' || line[n - 1] == ' ')) line[--n] = 0;
    if (n == 0 || line[0] == '#') continue;
    ob_reset();
    f(line);
    puts(ob ? ob : "");
    fflush(stdout);
  }
  free(line);
  return 0;
}
