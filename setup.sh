#!/bin/bash
# Build the framework from files on disk only (offline): the Coq development, the extracted
# model and the OCaml correspondence driver.   setup.sh [driver]
set -e
cd "$(dirname "$0")/coq"
mkdir -p gen
# always regenerate coq/gen from /repo's current sources (files are rewritten only when they change)
(cd .. && python3 -c "
import sys; sys.path.insert(0,'.')
from vlib import build, runner
from translator import run
with build.Workdir() as wd:
    cfg = build.configure(wd)
    hx = build.build_hx(wd, cfg, 'rel')
    sizes = {k: v for k, v in runner.hx_config(hx).items() if k.startswith('sizeof_')}
    run.regenerate(cfg, sizes)
")
coq_makefile -f _CoqProject -o Makefile > /dev/null 2>&1
MODELS="theories/Word.vo theories/PStream.vo theories/PWiden.vo theories/PEnc.vo theories/PMem.vo theories/PItem.vo theories/PUtf8.vo theories/PBuild.vo theories/PDrive.vo theories/SpecHead.vo theories/SpecItem.vo theories/SpecParse.vo theories/HHeap.vo theories/HItems.vo theories/HOps.vo theories/HHist.vo theories/HHist2.vo theories/HHist3.vo theories/PSize.vo"
if [ "$1" = "driver" ]; then
  timeout 1200 make -j16 $MODELS > /dev/null
else
  timeout 3000 make -k -j16 || true
fi
cd extract
coqc -Q ../theories CB Extract.v > /dev/null
ocamlfind ocamlopt -package str -linkpkg -O3 -w -a model.mli model.ml driver.ml -o driver 2>/dev/null || ocamlfind ocamlopt -package str -linkpkg -w -a model.mli model.ml driver.ml -o driver
echo "setup done"
