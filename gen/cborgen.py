"""Grammar-directed generators of CBOR encodings, their single-edit neighbours and short
exhaustive byte strings (C01 C02 C03 C05 C14 ...).  Every random choice comes from ctx.rng."""
import struct

def hx(bs):
    return bytes(bs).hex() if bs else "-"

# initial-byte class representatives: per major type, the additional-information boundaries
AI_REPS = [0, 1, 2, 23, 24, 25, 26, 27, 28, 30, 31]
IB_REPS = sorted({(mt << 5) | ai for mt in range(8) for ai in AI_REPS} | {0xF3, 0xF4, 0xF5, 0xF6, 0xF7, 0xF8, 0xF9, 0x17, 0x18})
SMALL_REPS = [0x00, 0x01, 0x17, 0x18, 0x19, 0x1B, 0x1F, 0x20, 0x41, 0x42, 0x58, 0x5F, 0x61, 0x7F, 0x81, 0x82, 0x98, 0x9F,
              0xA1, 0xBF, 0xC1, 0xD8, 0xF4, 0xF6, 0xF8, 0xF9, 0xFA, 0xFB, 0xFC, 0xFF]

def head(mt, arg, width=None):
    """width: None = shortest; 0 = immediate; 1,2,4,8 = that many argument bytes"""
    if width is None:
        width = 0 if arg < 24 else 1 if arg < 256 else 2 if arg < 65536 else 4 if arg < 2 ** 32 else 8
    if width == 0:
        return [(mt << 5) | arg]
    ai = {1: 24, 2: 25, 4: 26, 8: 27}[width]
    return [(mt << 5) | ai] + list(arg.to_bytes(width, "big"))

class Enc:
    """an encoding with the offsets of its heads"""
    def __init__(self, bs=None, heads=None):
        self.bs = list(bs or [])
        self.heads = list(heads or [])
    def add_head(self, hb):
        self.heads.append((len(self.bs), len(hb)))
        self.bs += hb
        return self
    def add_raw(self, bs):
        self.bs += bs
        return self
    def add(self, other):
        off = len(self.bs)
        self.heads += [(o + off, l) for (o, l) in other.heads]
        self.bs += other.bs
        return self

WIDTHS = [0, 1, 2, 4, 8]

def leaf_encs():
    out = []
    for mt in (0, 1):
        for v, ws in ((0, WIDTHS), (23, WIDTHS), (24, [1, 2, 4, 8]), (255, [1, 2]), (256, [2, 4]), (65535, [2]), (65536, [4, 8]),
                      (2 ** 32 - 1, [4]), (2 ** 32, [8]), (2 ** 64 - 1, [8])):
            for w in ws:
                out.append(Enc().add_head(head(mt, v, w)))
    for mt in (2, 3):
        for n, ws in ((0, WIDTHS), (1, [0, 1]), (2, [0, 2]), (3, [0, 4]), (24, [1]), (5, [8])):
            for w in ws:
                payload = [0x61 + (i % 26) for i in range(n)]
                e = Enc().add_head(head(mt, n, w)); e.add_raw(payload); out.append(e)
    for b in (0xF4, 0xF5, 0xF6, 0xF7):
        out.append(Enc().add_head([b]))
    for bs in ([0xF9, 0x3C, 0x00], [0xF9, 0x7E, 0x00], [0xF9, 0x7C, 0x01], [0xF9, 0x00, 0x01], [0xF9, 0xFC, 0x00], [0xF9, 0x80, 0x00],
               [0xFA, 0x3F, 0x80, 0, 0], [0xFA, 0x7F, 0xC0, 0, 1], [0xFA, 0xFF, 0x80, 0, 0],
               [0xFB, 0x3F, 0xF0, 0, 0, 0, 0, 0, 0], [0xFB, 0x7F, 0xF0, 0, 0, 0, 0, 0, 1], [0xFB, 0x7F, 0xF8, 0, 0, 0, 0, 0, 0]):
        out.append(Enc().add_head(bs))
    return out

SIMPLE_LEAVES = [Enc().add_head([0x01]), Enc().add_head([0x18, 0x2A]), Enc().add_head([0x20]), Enc().add_head([0x41, 0x00][:1]).add_raw([0x00]),
                 Enc().add_head([0x61]).add_raw([0x61]), Enc().add_head([0xF6]), Enc().add_head([0xF9, 0x3C, 0x00])]

def wrap_positions(inner, counts=(1, 2)):
    """place `inner` (an Enc) in every nesting position"""
    out = []
    one = Enc().add_head([0x01])
    # tag content
    for tv, w in ((1, 0), (24, 1), (1000, 2)):
        out.append(Enc().add_head(head(6, tv, w)).add(inner))
    # definite array element (first / last), indefinite array element
    out.append(Enc().add_head(head(4, 1)).add(inner))
    out.append(Enc().add_head(head(4, 2)).add(one).add(inner))
    out.append(Enc().add_head(head(4, 2, 1)).add(inner).add(one))
    out.append(Enc().add_head([0x9F]).add(inner).add_head([0xFF]))
    out.append(Enc().add_head([0x9F]).add(one).add(inner).add_head([0xFF]))
    # map key / value, definite and indefinite
    out.append(Enc().add_head(head(5, 1)).add(inner).add(one))
    out.append(Enc().add_head(head(5, 1)).add(one).add(inner))
    out.append(Enc().add_head(head(5, 2)).add(one).add(one).add(one).add(inner))
    out.append(Enc().add_head([0xBF]).add(inner).add(one).add_head([0xFF]))
    out.append(Enc().add_head([0xBF]).add(one).add(inner).add_head([0xFF]))
    return out

def chunked(mt, chunks, widths=None):
    e = Enc().add_head([(mt << 5) | 31])
    for i, c in enumerate(chunks):
        w = widths[i] if widths else None
        e.add_head(head(mt, len(c), w)).add_raw(c)
    e.add_head([0xFF])
    return e

def containers():
    out = []
    for mt in (4, 5):
        for w in WIDTHS:
            out.append(Enc().add_head(head(mt, 0, w)))            # empty definite, every width
        out.append(Enc().add_head([(mt << 5) | 31]).add_head([0xFF]))  # empty indefinite
    for mt in (2, 3):
        out.append(chunked(mt, []))
        out.append(chunked(mt, [[0x61]]))
        out.append(chunked(mt, [[], [0x61, 0x62], [0x63]], [0, 1, 2]))
    return out

def wide_heads():
    """NON-EMPTY arrays, maps and tags whose count / tag number is written in every argument width (incl. the non-shortest
    4- and 8-byte forms), and definite strings with a payload under 4- / 8-byte length arguments: a head reader that behaves
    differently depending on how much input follows the head (a wide load, a look-ahead) needs exactly these"""
    out = []
    one, two = [0x01], [0x02]
    for w in (1, 2, 4, 8):
        for n in (1, 2, 3):
            e = Enc().add_head(head(4, n, w))
            for i in range(n):
                e.add_head([i + 1])
            out.append(e)
            e = Enc().add_head(head(5, n, w))
            for i in range(n):
                e.add_head([i + 1]); e.add_head([0x20 + i])
            out.append(e)
        for tv in (1, 24, 55799):
            if tv < 2 ** (8 * w):
                out.append(Enc().add_head(head(6, tv, w)).add_head(one))
        for mt in (2, 3):
            for n in (1, 2, 9):
                e = Enc().add_head(head(mt, n, w)); e.add_raw([0x61 + (i % 26) for i in range(n)]); out.append(e)
    return out

def enumerated(depth=2):
    """every major type x argument width x definite/indefinite x nesting position, bounded"""
    level0 = leaf_encs() + containers() + wide_heads()
    out = list(level0)
    cur = SIMPLE_LEAVES + containers()
    for _ in range(depth):
        nxt = []
        for e in cur:
            nxt += wrap_positions(e)
        out += nxt
        cur = nxt[:: max(1, len(nxt) // 60)]
    # leaves of every kind in every position once
    for e in leaf_encs():
        out += wrap_positions(e)[:6]
    return out

# ---------------------------------------------------------------- the chunked-string exception family
def chunk_exceptions():
    out = []
    for mt, other in ((2, 3), (3, 2)):
        st = [(mt << 5) | 31]
        for inner in ([0x01], [0x20], [(other << 5) | 1, 0x61], [0x80], [0x81, 0x01], [0x9F, 0xFF], [0xA0], [0xA1, 0x01, 0x02],
                      [0xC1, 0x01], [0xF6], [0xF9, 0x3C, 0x00], st + [0xFF], st + [(mt << 5) | 1, 0x61, 0xFF],
                      [(other << 5) | 31, 0xFF], [0x82, 0x01], [0xC1], [0x9F, 0x01], [0xBF, 0x01]):
            out.append(st + inner + [0xFF])
            out.append(st + [(mt << 5) | 1, 0x61] + inner + [0xFF])
            out.append(st + inner)
            out.append([0x81] + st + inner + [0xFF])
    return out

# ---------------------------------------------------------------- single-edit neighbours
RESERVED = [0x1C, 0x1F, 0x3C, 0x3F, 0x5C, 0x5E, 0x7C, 0x7E, 0x9C, 0x9E, 0xBC, 0xBE, 0xDC, 0xDF, 0xE0, 0xF3, 0xF8, 0xFC, 0xFE]
OTHER_IB = [0x00, 0x18, 0x20, 0x40, 0x41, 0x5F, 0x60, 0x7F, 0x80, 0x81, 0x9F, 0xA0, 0xA1, 0xBF, 0xC0, 0xF4, 0xF7, 0xF9, 0xFF]

def neighbours(e, rng=None, full=True):
    bs = e.bs
    out = []
    # truncate at each offset
    for k in range(len(bs)):
        out.append(bs[:k])
    heads = e.heads
    for (o, l) in heads:
        # overwrite a head's initial byte with each reserved / other initial byte
        pool = RESERVED + OTHER_IB if full else [rng.choice(RESERVED), rng.choice(OTHER_IB)]
        for b in pool:
            if bs[o] != b:
                out.append(bs[:o] + [b] + bs[o + 1:])
        # insert a break before the head / delete the head if it is a break
        out.append(bs[:o] + [0xFF] + bs[o:])
        if bs[o] == 0xFF:
            out.append(bs[:o] + bs[o + 1:])
        # inflate / deflate a length or count
        ib = bs[o]
        mt, ai = ib >> 5, ib & 31
        if mt in (2, 3, 4, 5, 6):
            if ai < 23:
                out.append(bs[:o] + [ib + 1] + bs[o + 1:])
            if 0 < ai < 24:
                out.append(bs[:o] + [ib - 1] + bs[o + 1:])
            if 24 <= ai <= 27 and l > 1:
                last = o + l - 1
                out.append(bs[:last] + [(bs[last] + 1) & 255] + bs[last + 1:])
                out.append(bs[:o + 1] + [0xFF] * (l - 1) + bs[o + l:])   # maximal declared length / count
    out.append(bs + [0xFF])
    out.append(bs + [0x00])
    return out

# ---------------------------------------------------------------- short exhaustive strings
def short_strings(tier):
    out = [[]] + [[a] for a in range(256)] + [[a, b] for a in range(256) for b in range(256)]
    if tier == "quick":
        out += [[a, b, c] for a in IB_REPS for b in SMALL_REPS for c in SMALL_REPS]
    else:
        out += [[a, b, c] for a in range(256) for b in IB_REPS for c in SMALL_REPS]
        out += [[a, b, c, d] for a in IB_REPS for b in SMALL_REPS for c in SMALL_REPS for d in (0x00, 0x01, 0x41, 0x61, 0xFF)]
    return out

# ---------------------------------------------------------------- random trees
def random_enc(rng, depth, noncanon=0.3):
    r = rng.random()
    def w_for(v):
        if rng.random() < noncanon:
            ws = [w for w in (1, 2, 4, 8) if v < 256 ** w] + ([0] if v < 24 else [])
            return rng.choice(ws)
        return None
    def val():
        return rng.choice([0, 1, 23, 24, 255, 256, 65535, 65536, 2 ** 32 - 1, 2 ** 32, 2 ** 64 - 1, rng.randrange(2 ** 64), rng.randrange(1000)])
    if depth <= 0 or r < 0.35:
        k = rng.randrange(7)
        if k == 0:
            v = val(); return Enc().add_head(head(0, v, w_for(v)))
        if k == 1:
            v = val(); return Enc().add_head(head(1, v, w_for(v)))
        if k in (2, 3):
            n = rng.choice([0, 1, 2, 5, 23, 24, 30])
            return Enc().add_head(head(k, n, w_for(n))).add_raw([rng.randrange(256) if k == 2 else rng.choice([0x41, 0x7A, 0xC3, 0xA9, 0x20]) for _ in range(n)])
        if k == 4:
            return Enc().add_head([rng.choice([0xF4, 0xF5, 0xF6, 0xF7])])
        if k == 5:
            w = rng.choice([2, 4, 8])
            return Enc().add_head([{2: 0xF9, 4: 0xFA, 8: 0xFB}[w]] + [rng.choice([0, 0x3C, 0x7C, 0x7E, 0x7F, 0x80, 0xFF, rng.randrange(256)]) for _ in range(w)])
        return chunked(rng.choice([2, 3]), [[rng.randrange(0x41, 0x5B) for _ in range(rng.randrange(4))] for _ in range(rng.randrange(4))])
    k = rng.randrange(5)
    if k == 0:
        v = val(); return Enc().add_head(head(6, v, w_for(v))).add(random_enc(rng, depth - 1))
    n = rng.choice([0, 1, 2, 3])
    if k == 1:
        e = Enc().add_head(head(4, n, w_for(n)))
        for _ in range(n): e.add(random_enc(rng, depth - 1))
        return e
    if k == 2:
        e = Enc().add_head([0x9F])
        for _ in range(n): e.add(random_enc(rng, depth - 1))
        return e.add_head([0xFF])
    if k == 3:
        e = Enc().add_head(head(5, n, w_for(n)))
        for _ in range(2 * n): e.add(random_enc(rng, depth - 1))
        return e
    e = Enc().add_head([0xBF])
    for _ in range(2 * n): e.add(random_enc(rng, depth - 1))
    return e.add_head([0xFF])

def nest(kind, depth, leaf=(0x01,)):
    """a chain of `depth` containers of one kind around a leaf"""
    pre, post = [], []
    for _ in range(depth):
        if kind == "tag": pre += [0xC1]
        elif kind == "arr": pre += [0x81]
        elif kind == "arri": pre += [0x9F]; post = [0xFF] + post
        elif kind == "mapk": pre += [0xA1]; post = [0x01] + post
        elif kind == "mapv": pre += [0xA1, 0x01]
        elif kind == "mapik": pre += [0xBF]; post = [0x01, 0xFF] + post
        elif kind == "mapiv": pre += [0xBF, 0x01]; post = [0xFF] + post
    return pre + list(leaf) + post

# ---------------------------------------------------------------- assembled case lists
def text_positions():
    """text content of every validity class in every position (content must never decide acceptance)"""
    out = []
    texts = [[0xC5], [0x80], [0xC0, 0x80], [0xED, 0xA0, 0x80], [0xF4, 0x90, 0x80, 0x80], [0xE2, 0x82], [0x61, 0xC3], [0xFF], [0xF8, 0x88, 0x80, 0x80, 0x80],
             [0xC3, 0xA9], [0xEE, 0x80, 0x80], [0xED, 0x9F, 0xBF], [0xEF, 0xBF, 0xBF], [0xF0, 0x90, 0x80, 0x80], [0xF4, 0x8F, 0xBF, 0xBF], [0x00], []]
    for pay in texts:
        t = head(3, len(pay), None) + pay
        for x in (t, [0x81] + t, [0x82, 0x01] + t, [0x9F] + t + [0xFF], [0xA1] + t + [0x01], [0xA1, 0x01] + t, [0xA1] + t + t,
                  [0xBF] + t + [0x02, 0xFF], [0xBF, 0x02] + t + [0xFF], [0xC1] + t, [0x7F] + t + [0xFF], [0x7F, 0x61, 0x61] + t + [0xFF],
                  [0x81, 0xA1] + t + [0x80], [0xA2, 0x01, 0x02] + t + [0x03], [0xD8, 0x20] + t):
            out.append(x)
    return out

def load_cases(ctx):
    tier = ctx.tier
    out = []
    out += short_strings(tier)
    enum = enumerated(2 if tier == "quick" else 3)
    for e in enum:
        out.append(e.bs)
    stride = 1 if tier != "quick" else 3
    for i, e in enumerate(enum):
        if i % stride == 0:
            out += neighbours(e, ctx.rng, full=(i % (6 * stride) == 0))
    out += chunk_exceptions()
    for x in chunk_exceptions():
        for k in range(len(x)):
            out.append(x[:k])
    nrand = 1500 if tier == "quick" else 30000
    for _ in range(nrand):
        e = random_enc(ctx.rng, ctx.rng.randrange(4))
        out.append(e.bs)
        if ctx.rng.random() < 0.3:
            out += neighbours(e, ctx.rng, full=False)
    # payload lengths around every power of two and every multiple of 16 up to 128 (fixed-size scratch buffers in
    # post-decode operations): standalone, as an array element, and as two chunks of an indefinite string
    lens = sorted(set(list(range(0, 41)) + [16 * k + d for k in range(1, 9) for d in (-1, 0, 1)]
                      + [2 ** k + d for k in range(7, 13) for d in (-1, 0, 1)] + [160, 192, 224, 320, 384]))
    for mt in (2, 3):
        for n in lens:
            pay = [(0x41 + (i * 7) % 26) if mt == 3 else ((i * 37 + 11) & 0xFF) for i in range(n)]
            w = 0 if n < 24 else 1 if n < 256 else 2
            item = head(mt, n, w) + pay
            out.append(item)
            out.append([0x82] + item + [0x01])
            out.append([0x5F if mt == 2 else 0x7F] + item + item + [0xFF])
    out += text_positions()
    # element / pair / chunk counts around the argument-width boundaries and powers of two
    for n in (22, 23, 24, 25, 31, 32, 33, 63, 64, 65, 127, 128, 129, 255, 256, 257, 1023, 1024, 1025):
        w = 0 if n < 24 else 1 if n < 256 else 2
        els = []
        for i in range(n):
            els += [i & 0x17] if i % 5 else [0x18, 0x18 + (i & 0x7F)]
        out.append(head(4, n, w) + els)
        out.append([0x9F] + els + [0xFF])
        out.append(head(5, n, w) + [b for i in range(n) for b in (0x01, 0x20 | (i & 0x17))])
        out.append([0xBF] + [b for i in range(n) for b in (0x61, 0x61 + i % 26, 0xF4 + i % 4)] + [0xFF])
        out.append([0x5F] + [0x41, 0x30] * n + [0xFF])
        out.append([0x7F] + [0x62, 0xC3, 0xA9] * n + [0xFF])
        out.append(head(4, n, w) + els[:-1])          # one element short
    # declared sizes near the allocator cap and near 2^64 (size arithmetic, refusals)
    for mt in (2, 3, 4, 5):
        for v in (2 ** 16, 2 ** 17 - 1, 2 ** 17, 2 ** 20, 2 ** 32 - 1, 2 ** 32, 2 ** 59, 2 ** 60, 2 ** 61, 2 ** 63, 2 ** 64 - 9, 2 ** 64 - 1):
            w = 4 if v < 2 ** 32 else 8
            out.append(head(mt, v, w))
            out.append(head(mt, v, w) + [0x01] * 3)
            out.append([0x81] + head(mt, v, w) + [0x01])
    seen, res = set(), []
    for b in out:
        h = hx(b)
        if h not in seen:
            seen.add(h); res.append(h)
    return res

def depth_cases_for(L):
    def gen(ctx):
        out = []
        kinds = ["tag", "arr", "arri", "mapk", "mapv", "mapik", "mapiv"]
        leaves = [(0x01,), (0x5F, 0x41, 0x00, 0xFF), (0x7F, 0xFF), (0x80,), (0xA0,), (0x9F, 0xFF), (0xF6,)]
        depths = sorted({max(0, L - 1), L, L + 1, L + 2, 4 * L})
        for k in kinds:
            for d in depths:
                for leaf in leaves:
                    out.append(nest(k, d, leaf))
        # mixed chains: alternate kinds
        rng = ctx.rng
        for d in depths:
            for _ in range(6):
                pre, post = [], []
                for i in range(d):
                    k = rng.choice(kinds)
                    x = nest(k, 1, ())
                    # split the single-level wrapper around the hole
                    if k == "tag": pre += [0xC1]
                    elif k == "arr": pre += [0x81]
                    elif k == "arri": pre += [0x9F]; post = [0xFF] + post
                    elif k == "mapk": pre += [0xA1]; post = [0x01] + post
                    elif k == "mapv": pre += [0xA1, 0x01]
                    elif k == "mapik": pre += [0xBF]; post = [0x01, 0xFF] + post
                    else: pre += [0xBF, 0x01]; post = [0xFF] + post
                out.append(pre + list(rng.choice(leaves)) + post)
        # a payload far larger than the thread's stack: stack use must be proportional to L, not to sizes
        big = 200 * 1024
        out.append([0x5A] + list(big.to_bytes(4, "big")) + [0x41] * big)
        out.append([0xC1, 0x81, 0x7A][: min(3, L + 1)][-1:] + [] if False else ([0x81] if L >= 1 else []) + [0x7A] + list(big.to_bytes(4, "big")) + [0x61] * big)
        # truncated deep inputs (error path unwinds a full stack)
        for k in ("tag", "arri", "mapiv"):
            out.append(nest(k, L, (0x01,))[:L + 0])
            out.append(nest(k, L, (0x1C,)))
        return [hx(b) for b in out]
    return gen


# ---------------------------------------------------------------- model-fidelity audit (AUDIT.md)
# one minimal head per builder callback of builder_callbacks.c (the 24 members of struct cbor_callbacks cbor_load installs)
AUDIT_HEADS = [
    [0x05], [0x18, 0x99], [0x19, 0x01, 0x02], [0x1A, 1, 2, 3, 4], [0x1B, 1, 2, 3, 4, 5, 6, 7, 8],           # uint8 (embedded + 1 byte), 16, 32, 64
    [0x25], [0x38, 0x99], [0x39, 0x01, 0x02], [0x3A, 1, 2, 3, 4], [0x3B, 1, 2, 3, 4, 5, 6, 7, 8],           # negint
    [0x40], [0x42, 0x00, 0xFF], [0x60], [0x62, 0xC3, 0xA9],                                                   # definite strings
    [0x5F, 0xFF], [0x5F, 0x41, 0x00, 0x40, 0xFF], [0x7F, 0xFF], [0x7F, 0x61, 0x61, 0x60, 0xFF],               # chunked
    [0x80], [0x81, 0x01], [0x9F, 0xFF], [0x9F, 0x01, 0xFF], [0xA0], [0xA1, 0x01, 0x02], [0xBF, 0xFF], [0xBF, 0x01, 0x02, 0xFF],
    [0xC0, 0x01], [0xDB, 0xFF, 0xFF, 0xFF, 0xFF, 0xFF, 0xFF, 0xFF, 0xFF, 0x01],                               # tag (embedded, 8 byte)
    [0xF4], [0xF5], [0xF6], [0xF7], [0xF9, 0x7C, 0x01], [0xFA, 0x7F, 0x80, 0x00, 0x01], [0xFB, 0x7F, 0xF0, 0, 0, 0, 0, 0, 1],
]

def audit_positions(x):
    """x in every position a callback can meet: root; element of a definite / indefinite array (first, last, only);
    definite / indefinite map key and value; tag content; three-level cascades that close several containers at once;
    the positions where the item is ILLEGAL (chunk of either string kind, after an odd number of map members before
    a break) and where the container is left incomplete (truncation right after x)"""
    one = [0x01]
    return [
        x, [0x81] + x, [0x83] + one + x + one, [0x82] + one + x, [0x9F] + x + [0xFF], [0x9F] + one + x + one + [0xFF],
        [0xA1] + x + one, [0xA1] + one + x, [0xA2] + one + one + x + one, [0xA2] + one + one + one + x,
        [0xBF] + x + one + [0xFF], [0xBF] + one + x + [0xFF], [0xBF] + one + one + x + one + [0xFF],
        [0xC1] + x, [0xC1, 0xC2] + x,
        [0x81, 0x81, 0x81] + x, [0x82, 0x81, 0xA1] + one + x + one, [0x81, 0xA1, 0xC1] + x + [0x81] + x, [0x9F, 0xBF, 0x81] + x + [0xC1] + x + [0xFF, 0xFF],
        [0xA1, 0x81] + x + [0xC1, 0x81] + x,
        [0x5F] + x + [0xFF], [0x7F] + x + [0xFF], [0x5F, 0x41, 0x00] + x + [0xFF], [0x7F, 0x61, 0x61] + x, [0x81, 0x5F] + x + [0xFF],
        [0xBF] + x + [0xFF], [0xBF] + one + one + x + [0xFF],
        [0x82] + x, [0xA1] + x, [0x9F] + x, [0xBF] + x, [0xBF] + one + x, [0xC1, 0x82] + x,
        x + x, [0x81] + x + [0xFF],
    ]

def audit_cases(ctx):
    """cbor_load (model P): every builder callback in every position; the result is compared field by field (error code,
    position, read; on success read, the tree, and a result position other than 0 is printed by the harness)"""
    out = []
    for h in AUDIT_HEADS:
        out += audit_positions(h)
    seen, res = set(), []
    for b in out:
        t = hx(b)
        if t not in seen:
            seen.add(t); res.append(t)
    return res

def audit_cap_cases(ctx, cap=4096):
    """declared sizes and growth steps on both sides of a SECOND allocator cap (the streams otherwise run at 2^20 only).
    Model P applies the cap to the requests whose size the input declares; every other request of these inputs
    (items of at most 56 bytes, stack records, growth of indefinite containers up to exactly `cap` bytes) stays within the cap,
    which is the hypothesis under which P is faithful (AUDIT.md, D2)."""
    out = []
    for mt in (2, 3):
        for n in (cap - 1, cap, cap + 1):
            out.append(head(mt, n, 2) + [0x61] * n)
            out.append([0x81] + head(mt, n, 2) + [0x61] * n)
            out.append([(mt << 5) | 31] + head(mt, n, 2) + [0x61] * n + [0xFF])
    for n in (cap // 8 - 1, cap // 8, cap // 8 + 1):
        out.append(head(4, n, 2) + [0x00] * n)
        out.append([0xC1] + head(4, n, 2) + [0x00] * n)
    for n in (cap // 16 - 1, cap // 16, cap // 16 + 1):
        out.append(head(5, n, 2) + [0x00, 0x01] * n)
    # growth of indefinite containers: the last step that fits the cap exactly (8 * 512, 16 * 256 bytes at cap 4096)
    out.append([0x9F] + [0x00] * (cap // 8) + [0xFF])
    out.append([0x9F] + [0x00] * (cap // 16 + 1) + [0xFF])
    out.append([0xBF] + [0x00, 0x01] * (cap // 16) + [0xFF])
    out.append([0x5F] + [0x41, 0x00] * (cap // 8) + [0xFF])
    out.append([0x7F] + [0x60] * (cap // 8) + [0xFF])
    return [hx(b) for b in out]
