"""Legal API histories (C04 C06 C11 C12 C13): a shadow of the client's own references keeps
every generated history rule-following: the client touches an item only through a handle for
which it still holds a reference of its own; containers stay acyclic (an item is only ever
inserted into a container created after... no: into a container that is not reachable from it)."""
from .cborgen import hx
from .treegen import half_to_f32bits

class Shadow:
    def __init__(self, rng):
        self.rng = rng
        self.ops = []          # text of each op (without probes)
        self.kind = []         # per handle: kind string or None (NULL-able results are still tracked optimistically)
        self.own = []          # per handle: references the client holds through this handle
        self.reach = []        # per handle: set of handle-ids (by identity group) reachable from it (for acyclicity)
        self.ident = []        # per handle: identity id (handles from get/titem alias an existing item)
        self.children = {}     # ident -> list of idents contained
        self.nid = 0
        self.defcap = {}       # ident -> remaining capacity of a definite container
        self.size = {}         # ident -> number of entries
        self.tagfull = {}      # ident -> tag has a child
    def add(self, text, kind, ident=None):
        self.ops.append(text)
        if ident is None:
            ident = self.nid; self.nid += 1
            self.children[ident] = []
        self.kind.append(kind); self.own.append(1); self.ident.append(ident)
        return len(self.kind) - 1
    def op(self, text):
        self.ops.append(text)
    def live(self, kinds=None):
        return [h for h in range(len(self.kind)) if self.own[h] > 0 and (kinds is None or self.kind[h] in kinds)]
    def reaches(self, a, b, seen=None):
        """can ident a reach ident b through containment?"""
        if a == b: return True
        seen = seen or set()
        if a in seen: return False
        seen.add(a)
        return any(self.reaches(c, b, seen) for c in self.children.get(a, []))
    def probes(self):
        return [h for h in range(len(self.kind)) if self.own[h] > 0]

def leaf_op(rng):
    k = rng.randrange(6)
    if k == 0:
        w = rng.choice([8, 16, 32, 64])
        return "bi %d %d %d" % (rng.randrange(2), w, rng.choice([0, 23, 24, (1 << w) - 1, rng.randrange(1 << w)])), "int"
    if k == 1:
        w = rng.choice([16, 32, 64])
        bits = half_to_f32bits(rng.randrange(65536)) if w == 16 else rng.randrange(1 << w)
        return "bf %d %x" % (w, bits), "float"
    if k == 2:
        return "bc %d" % rng.choice([20, 21, 22, 23, 0, 255]), "ctrl"
    n = rng.choice([0, 1, 3, 24])
    t = rng.randrange(2)
    return "bs %d %s" % (t, hx([rng.randrange(0x41, 0x7B) for _ in range(n)])), ("ts" if t else "bs")

def gen_history(rng, length, with_load=True, containers_only=False):
    s = Shadow(rng)
    for _ in range(length):
        r = rng.random()
        live = s.live()
        arrs = s.live({"arr", "arri"}); maps = s.live({"map", "mapi"}); tags = s.live({"tag"})
        chs = s.live({"bsi", "tsi"})
        if r < 0.22 or not live:
            text, kind = leaf_op(rng); s.add(text, kind)
        elif r < 0.34:
            k = rng.randrange(7)
            if k == 0:
                n = rng.randrange(0, 4); h = s.add("nda %d" % n, "arr"); s.defcap[s.ident[h]] = n
            elif k == 1: s.add("nia", "arri")
            elif k == 2:
                n = rng.randrange(0, 3); h = s.add("ndm %d" % n, "map"); s.defcap[s.ident[h]] = n
            elif k == 3: s.add("nim", "mapi")
            elif k == 4: h = s.add("nt %d" % rng.choice([0, 24, 2 ** 64 - 1]), "tag"); s.tagfull[s.ident[h]] = False
            elif k == 5: s.add("nis 0", "bsi")
            else: s.add("nis 1", "tsi")
        elif r < 0.50 and arrs:
            a = rng.choice(arrs); x = rng.choice(live)
            if s.reaches(s.ident[x], s.ident[a]):
                continue
            s.op("push %d %d" % (a, x))
            ia = s.ident[a]
            if s.kind[a] == "arri" or s.defcap.get(ia, 0) > 0:
                s.children[ia].append(s.ident[x]); s.size[ia] = s.size.get(ia, 0) + 1
                if s.kind[a] == "arr": s.defcap[ia] -= 1
        elif r < 0.58 and arrs:
            a = rng.choice(arrs); ia = s.ident[a]
            i = rng.randrange(0, s.size.get(ia, 0) + 3)
            if i < s.size.get(ia, 0):
                s.add("get %d %d" % (a, i), None, ident=None)
                # the handle aliases the element: find its identity
                h = len(s.kind) - 1
                s.ident[h] = s.children[ia][i]
                s.kind[h] = s.kind_of_ident(s.children[ia][i]) if hasattr(s, "kind_of_ident") else kind_of(s, s.children[ia][i])
            else:
                h = s.add("get %d %d" % (a, i), None); s.own[h] = 0     # NULL result
        elif r < 0.64 and arrs:
            a = rng.choice(arrs); ia = s.ident[a]; x = rng.choice(live)
            if s.reaches(s.ident[x], ia):
                continue
            i = rng.randrange(0, s.size.get(ia, 0) + 3)
            which = rng.choice(["set", "repl"])
            s.op("%s %d %d %d" % (which, a, i, x))
            n = s.size.get(ia, 0)
            if i < n:
                s.children[ia][i] = s.ident[x]
            elif i == n and which == "set":
                if s.kind[a] == "arri" or s.defcap.get(ia, 0) > 0:
                    s.children[ia].append(s.ident[x]); s.size[ia] = n + 1
                    if s.kind[a] == "arr": s.defcap[ia] -= 1
        elif r < 0.72 and maps:
            m = rng.choice(maps); k = rng.choice(live); v = rng.choice(live); im = s.ident[m]
            if s.reaches(s.ident[k], im) or s.reaches(s.ident[v], im):
                continue
            s.op("madd %d %d %d" % (m, k, v))
            if s.kind[m] == "mapi" or s.defcap.get(im, 0) > 0:
                s.children[im] += [s.ident[k], s.ident[v]]; s.size[im] = s.size.get(im, 0) + 1
                if s.kind[m] == "map": s.defcap[im] -= 1
        elif r < 0.77 and chs:
            c = rng.choice(chs); want = "bs" if s.kind[c] == "bsi" else "ts"
            xs = s.live({want})
            if not xs: continue
            x = rng.choice(xs)
            s.op("chunk %d %d" % (c, x)); s.children[s.ident[c]].append(s.ident[x])
        elif r < 0.82 and tags:
            t = rng.choice(tags); it = s.ident[t]
            k = rng.randrange(3)
            if k == 0 and not s.tagfull.get(it, True):
                x = rng.choice(live)
                if s.reaches(s.ident[x], it): continue
                s.op("tset %d %d" % (t, x)); s.children[it] = [s.ident[x]]; s.tagfull[it] = True
            elif k == 1 and s.tagfull.get(it):
                h = s.add("titem %d" % t, None, ident=s.children[it][0]); s.kind[h] = kind_of(s, s.children[it][0])
            else:
                continue
        elif r < 0.85:
            x = rng.choice(live)
            h = s.add("bt %d %d" % (rng.choice([1, 100, 2 ** 32]), x), "tag")
            s.children[s.ident[h]] = [s.ident[x]]; s.tagfull[s.ident[h]] = True
        elif r < 0.88:
            h = rng.choice(live); s.op("inc %d" % h); s.own[h] += 1
        elif r < 0.94:
            h = rng.choice(live); s.op("dec %d" % h); s.own[h] -= 1
        elif r < 0.97:
            h = rng.choice(live)
            if not complete(s, s.ident[h]): continue
            n = s.add("copy %d" % h, s.kind[h])
            clone(s, s.ident[h], s.ident[n])
        elif r < 0.985:
            h = rng.choice(live)
            if not complete(s, s.ident[h]): continue
            if s.kind[h] is None: continue
            s.op(rng.choice(["ssize %d" % h, "ser %d %d" % (h, rng.randrange(0, 12)), "salloc %d" % h, "desc %d" % h, "val %d" % h, "val %d" % h]))
        elif with_load:
            from .cborgen import random_enc
            e = random_enc(rng, 2)
            bs = e.bs if rng.random() < 0.7 else e.bs[:rng.randrange(len(e.bs) + 1)]
            h = s.add("load %s" % hx(bs), "loaded")
            s.own[h] = 0   # result may be NULL: the shadow does not use it further except to release it
            s.ops[-1] = s.ops[-1]
            s.op("dec %d" % h)
    # release everything the client still holds
    for h in range(len(s.kind)):
        while s.own[h] > 0:
            s.op("dec %d" % h); s.own[h] -= 1
    return s

def kind_of(s, ident):
    for h in range(len(s.kind)):
        if s.ident[h] == ident and s.kind[h]:
            return s.kind[h]
    return "int"

def complete(s, ident, seen=None):
    """every tag below has its child (serialize/copy of a childless tag dereferences NULL)"""
    seen = seen or set()
    if ident in seen: return True
    seen.add(ident)
    if ident in s.tagfull and not s.tagfull[ident]:
        return False
    return all(complete(s, c, seen) for c in s.children.get(ident, []))

def clone(s, src, dst):
    s.size[dst] = s.size.get(src, 0)
    if src in s.tagfull: s.tagfull[dst] = s.tagfull[src]
    if src in s.defcap: s.defcap[dst] = 0
    kids = []
    for c in s.children.get(src, []):
        n = s.nid; s.nid += 1; s.children[n] = []
        clone(s, c, n); kids.append(n)
    s.children[dst] = kids

def render(s, probes=True):
    """attach probes: after each op, every handle for which the client holds a reference"""
    # recompute ownership step by step to know who is live after each op
    own = []
    out = []
    for text in s.ops:
        w = text.split()
        o = w[0]
        creates = o in ("bi", "bf", "bc", "bs", "nis", "nda", "nia", "ndm", "nim", "nt", "bt", "get", "titem", "copy", "load")
        if creates:
            own.append(1)
        if o == "inc": own[int(w[1])] += 1
        if o == "dec": own[int(w[1])] -= 1
        live = [h for h in range(len(own)) if own[h] > 0]
        out.append(text + (" ? " + " ".join(map(str, live)) if probes and live else ""))
    return "; ".join(out)

def hist_cases(ctx):
    rng = ctx.rng
    from .cborgen import nest, hx as _hx
    out = []
    n = 400 if ctx.tier == "quick" else 6000
    for i in range(n):
        length = rng.choice([3, 5, 8, 12, 20, 40]) if i % 10 else rng.choice([80, 150])
        out.append(render(gen_history(rng, length)))
    # NaNs of every width and kind (signalling, negative, with payload) through the value getters, serialization and copy
    nans = [(32, "7fb3f972"), (32, "ffc00001"), (32, "7f800001"), (32, "7fc00000"), (32, "ffffffff"), (64, "7ff0000000000001"),
            (64, "fff8000000000001"), (64, "7ff8000000000000"), (64, "7ff4000000000000"), (16, "7fc00000"), (16, "7fe00000"), (16, "ffc00000")]
    for wdt, bits in nans:
        out.append(_close(["bf %d %s" % (wdt, bits), "val 0", "ser 0 12", "copy 0", "val 1", "nia", "push 2 0", "ser 2 16", "ssize 2"]))
    # size classes of the allocator: definite containers and payloads whose storage is 4 KiB .. 1 MiB (thresholds at
    # which a library might switch allocation strategy), built, used, copied and released
    for cap in (511, 512, 4096, 16383, 16384, 16385, 65536, 131072):
        out.append(_close(["nda %d" % cap, "bi 0 8 1", "push 0 1", "push 0 1", "get 0 1", "ssize 0", "copy 0", "dec 0"]))
        out.append(_close(["ndm %d" % (cap // 2), "bi 0 8 1", "bc 21", "madd 0 1 2", "ssize 0", "copy 0"]))
        out.append(_close(["load %s" % _hx([0x9A] + list(cap.to_bytes(4, "big")) + [0x01, 0x02]),
                           "load %s" % _hx([0xBA] + list((cap // 2).to_bytes(4, "big")) + [0x01])]))
    for n_ in (4095, 4096, 65535, 65536, 131072):
        out.append(_close(["load %s" % _hx([0x5A] + list(n_.to_bytes(4, "big")) + [0x41] * n_), "copy 0", "ssize 1",
                           "load %s" % _hx([0x7A] + list(n_.to_bytes(4, "big")) + [0x61] * (n_ - 1))]))
    return out

def fault_cases(ctx):
    rng = ctx.rng
    out = structured_fault_cases(ctx) + load_fault_cases(ctx)
    n = 120 if ctx.tier == "quick" else 2500
    for i in range(n):
        out.append(render(gen_history(rng, rng.choice([2, 3, 4, 6, 8, 10]))))
    # the third API layer (split constructors, setters, move idioms, build_string / build_bool, typed serializers)
    sc = api3_scenarios(ctx)
    out += sc[:: max(1, len(sc) // (60 if ctx.tier == "quick" else 600))]
    for i in range(60 if ctx.tier == "quick" else 1200):
        out.append(render3(gen_history3(rng, rng.choice([2, 3, 4, 6, 8, 10]))))
    return out

def thr_cases(ctx):
    rng = ctx.rng
    out = []
    runs = 24 if ctx.tier == "quick" else 500
    for i in range(runs):
        n = rng.choice([2, 3, 4, 8, 16])
        hs = [render(gen_history(rng, rng.choice([10, 30, 60]))) if j % 3 else render3(gen_history3(rng, rng.choice([10, 30, 60]))) for j in range(n)]
        # every thread also decodes half / single / double floats, text and nested containers
        hs = [_close(["load f9%04x" % rng.randrange(65536), "load 82f93c00fa7fc00000", "load 7f6161ff", "desc 1"]) + "; " + h.replace("? ", "? ") if False else h for h in hs]
        hs = [_close(["load f9%04x" % rng.randrange(65536), "load 83f93c00fa7fc00000c16161"]) if i % 2 == 0 else h for i, h in enumerate(hs)] + hs[:1]
        out.append(" || ".join(hs))
    # every thread calls cbor_serialize_alloc with and without the optional size out-parameter, builds strings and tags
    for n in (4, 16):
        out.append(" || ".join(_close(["bi 0 8 %d" % (j + 1), "nia", "push 1 0", "bs 1 %s" % ("61" * (j + 1)), "push 1 2", "sallocn 1", "salloc 1", "sallocn 0", "bt %d 1" % j, "sallocn 3", "copy 3", "sallocn 4"])
                              for j in range(n)))
    # every thread describes items of every kind again and again - among them the tags with a registered meaning (0 / 1 date-time,
    # 2 / 3 bignum, 4 / 5 fraction, 24 embedded CBOR, 32 URI, 55799 self-described) whose pretty-printing might reach for libc
    # helpers with static state (gmtime, localtime, strtok, setlocale) -, under ThreadSanitizer
    for n in (4, 16):
        hs = []
        for j in range(n):
            ops = ["bi 0 32 %d" % (1700000000 + j), "bs 1 %s" % ("323032332d" + "3%d" % (j % 10)), "bs 0 0102", "bf 64 %x" % (0x41D954FC40000000 + j)]
            base = 4
            for k, (tv, x) in enumerate(((1, 0), (0, 1), (2, 2), (24, 2), (1, 3), (32, 1), (55799, 0))):
                ops.append("bt %d %d" % (tv, x))
                ops += ["desc %d" % (base + k)] * 3
            hs.append(_close(ops))
        out.append(" || ".join(hs))
    return out

def depth_thr_cases(ctx):
    """every thread decodes, copies, serializes and releases nested items of its own, all threads at once: the nesting
    budget is per call, not per process"""
    from .cborgen import nest, hx as _hx
    rng = ctx.rng
    out = []
    for run in range(6 if ctx.tier == "quick" else 60):
        n = rng.choice([4, 8, 16])
        hs = []
        for t in range(n):
            ops = []
            for j in range(6):
                k = rng.choice(["tag", "arr", "arri", "mapv", "mapiv"])
                ops.append("load %s" % _hx(nest(k, rng.choice([1, 2, 5, 17, 40]), (0x01,))))
            ops += ["copy 0", "ssize 1", "ser 2 64"]
            hs.append(_close(ops))
        out.append(" || ".join(hs))
    return out

def shared_cases(ctx):
    from . import treegen
    trees = treegen.enumerated_trees(ctx)
    rng = ctx.rng
    big = "(arr " + " ".join(treegen.random_tree(rng, 3) for _ in range(40)) + ")"
    picks = [t for t in trees if "(tag" in t or "(map" in t][:: (20 if ctx.tier == "quick" else 3)] + [big]
    return ["%d %s" % (rng.choice([2, 4, 8, 16]), t) for t in picks]

# ------------------------------------------------------------------ structured fault scenarios
def _hist(ops):
    """attach probes / final releases to a plain op list (handles numbered in creation order)"""
    from vlib.props import close_history  # late import (registry defines it)
    return close_history(ops)

def structured_fault_cases(ctx):
    """growth at every capacity boundary, copy and load of containers of every size: so that the
    fault enumeration refuses the 1st, 2nd, 3rd ... growth request, not only the first"""
    from .cborgen import hx as _hx
    out = []
    maxn = 6 if ctx.tier == "quick" else 10
    for n in range(1, maxn):
        out.append(["bi 0 8 1", "nia"] + ["push 1 0"] * n)
        out.append(["bi 1 16 300", "nim", "bs 1 6162"] + ["madd 1 0 2"] * n)
        out.append(["bs 0 6162", "nis 0"] + ["chunk 1 0"] * n)
        out.append(["bs 1 c3a9", "nis 1"] + ["chunk 1 0"] * n)
    for n in (1, 2, 3, 5):
        out.append(["bi 1 8 5", "nia"] + ["push 1 0"] * n + ["copy 1"])
        out.append(["bi 1 64 99", "nim", "bf 32 3f800000"] + ["madd 1 0 2"] * n + ["copy 1"])
        out.append(["bs 0 00", "nis 0"] + ["chunk 1 0"] * n + ["copy 1"])
        out.append(["bi 0 8 1", "nda %d" % n] + ["push 1 0"] * n + ["copy 1", "salloc 1"])
        out.append(["bi 1 8 1", "bt 7 0", "bt 8 1", "copy 2", "salloc 2"])
    return [_close(o) for o in out]

LOAD_FAULT_INPUTS = [
    [0x01], [0x39, 0x01, 0x00], [0x44, 1, 2, 3, 4], [0x65, 0x68, 0x65, 0x6C, 0x6C, 0x6F], [0xF9, 0x3C, 0x00], [0xF6],
    [0x82, 0x01, 0x02], [0x9F, 0x01, 0x02, 0xFF], [0x9F, 0x01, 0x02, 0x03, 0x04, 0x05, 0xFF], [0xA1, 0x01, 0x02], [0xBF, 0x01, 0x02, 0x03, 0x04, 0x05, 0x06, 0xFF],
    [0xC1, 0x01], [0xC1, 0xC2, 0x80], [0x5F, 0x41, 0x00, 0x42, 0x01, 0x02, 0x41, 0x03, 0xFF], [0x7F, 0x61, 0x61, 0x61, 0x62, 0x61, 0x63, 0xFF],
    [0xA1, 0x01, 0x82, 0xC1, 0x02, 0x9F, 0x03, 0xFF], [0x83, 0x9F, 0xFF, 0xBF, 0xFF, 0x5F, 0xFF], [0x82, 0x01],   # truncated
    [0x9F, 0x01, 0x1C], [0x82, 0xFF], [0x5F, 0x01, 0xFF], [0xBF, 0x01, 0xFF],                                      # malformed / syntax errors with partial trees
    [0x82, 0x61, 0x61, 0xA2, 0x01, 0x9F, 0x02, 0x03, 0xFF, 0x04, 0xC5, 0x44, 9, 9, 9, 9],
]

def load_fault_cases(ctx):
    from .cborgen import hx as _hx, random_enc
    out = []
    for b in LOAD_FAULT_INPUTS:
        out.append(_close(["load %s" % _hx(b)]))
    for _ in range(10 if ctx.tier == "quick" else 300):
        e = random_enc(ctx.rng, 3)
        if 0 < len(e.bs) <= 40:
            out.append(_close(["load %s" % _hx(e.bs)]))
    return out

def _close(ops):
    own, text = [], []
    for o in ops:
        w = o.split()
        if w[0] in ("bi", "bf", "bc", "bs", "nis", "nda", "nia", "ndm", "nim", "nt", "bt", "get", "titem", "copy", "load", "nds"):
            own.append(1)
        if w[0] == "inc": own[int(w[1])] += 1
        if w[0] == "dec": own[int(w[1])] -= 1
        live = [h for h in range(len(own)) if own[h] > 0]
        text.append(o + (" ? " + " ".join(map(str, live)) if live else ""))
    for h in range(len(own)):
        for _ in range(max(0, own[h])):
            text.append("dec %d" % h)
    return "; ".join(text)


def limit_load_cases(L):
    def gen(ctx):
        from .cborgen import nest, hx as _hx
        out = []
        for k in ("tag", "arr", "arri", "mapv", "mapiv"):
            for d in (L - 1, L, L + 1, L + 2):
                if d >= 0:
                    out.append(_close(["bi 0 8 1", "load %s" % _hx(nest(k, d, (0x01,))), "load %s" % _hx(nest(k, d, (0x5F, 0x41, 0x00, 0xFF)))]))
        return out
    return gen


def tag_reset_cases(ctx):
    """cbor_tag_set_item on a tag that already has an item: documented to replace the pointer WITHOUT any reference
    count change on the previous item, whose reference the client thereby inherits (and releases itself).  The new
    item may be a descendant of the old one, held only through it."""
    from .cborgen import hx as _hx
    out = []
    # new item = element of the old item, borrowed (own reference dropped before the call)
    for enc in ([0xC1, 0x81, 0x01], [0xC1, 0x82, 0x41, 0x61, 0x02], [0xD8, 0x20, 0x9F, 0x61, 0x61, 0xFF], [0xC1, 0x81, 0x81, 0x01]):
        out.append(_close(["load %s" % _hx(enc), "titem 0", "get 1 0", "dec 2", "dec 1", "tset 0 2", "ssize 0", "ser 0 24", "titem 0", "val 3", "dec 3",
                           "dec 1", "ssize 0", "copy 0", "dec 0"]))
        # same, the client keeps its own references across the call
        out.append(_close(["load %s" % _hx(enc), "titem 0", "get 1 0", "tset 0 2", "ser 0 24", "dec 1", "dec 1", "ser 0 24"]))
    # self-assignment and re-assignment of an unrelated item, on API-built tags
    out.append(_close(["bi 0 8 7", "bt 1 0", "tset 1 0", "ser 1 8", "dec 0", "ser 1 8"]))            # same item twice: the tag holds two references, one inherited
    out.append(_close(["bi 0 8 7", "bs 1 6162", "bt 1 0", "tset 2 1", "ser 2 8", "dec 0", "dec 0", "ser 2 8", "copy 2"]))
    out.append(_close(["nia", "bi 0 8 1", "push 0 1", "bt 5 0", "get 0 0", "tset 2 3", "ser 2 8", "dec 0", "dec 0", "ser 2 8"]))
    out.append(_close(["nt 3", "bi 0 8 1", "tset 0 1", "bi 0 8 2", "tset 0 2", "ser 0 8", "dec 1", "dec 1"]))
    return out

def load_use_cases(ctx):
    """decode, then MODIFY the decoded tree through the public API, then serialize / copy / release: the decoder's
    bookkeeping (capacities, counts, chunk tables, reference counts) must be what the mutators rely on"""
    from .cborgen import hx as _hx, enumerated
    rng = ctx.rng
    out = []
    inputs = [[0x80], [0x81, 0x01], [0x83, 0x01, 0x02, 0x03], [0x98, 0x18] + [0x00] * 24, [0x9F, 0xFF], [0x9F, 0x01, 0xFF], [0x9F, 0x01, 0x02, 0x03, 0xFF],
              [0x9F] + [0x01] * 5 + [0xFF], [0x9F] + [0x61, 0x61] * 9 + [0xFF], [0x9F, 0x81, 0x01, 0xA1, 0x01, 0x02, 0x5F, 0x41, 0x00, 0xFF, 0xFF],
              [0xA0], [0xA1, 0x01, 0x02], [0xA2, 0x01, 0x02, 0x03, 0x04], [0xBF, 0xFF], [0xBF, 0x01, 0x02, 0xFF], [0xBF] + [0x01, 0x02] * 3 + [0xFF], [0xBF] + [0x61, 0x61, 0xF6] * 5 + [0xFF],
              [0x5F, 0xFF], [0x5F, 0x41, 0x00, 0xFF], [0x5F] + [0x41, 0x30] * 3 + [0xFF], [0x5F] + [0x42, 0x30, 0x31] * 5 + [0xFF], [0x7F, 0xFF], [0x7F, 0x61, 0x61, 0xFF], [0x7F] + [0x62, 0xC3, 0xA9] * 3 + [0xFF],
              [0xC1, 0x01], [0xC1, 0x9F, 0x01, 0x02, 0x03, 0xFF], [0xD8, 0x18, 0xBF, 0x01, 0x02, 0xFF], [0x82, 0x9F, 0x01, 0x02, 0x03, 0xFF, 0xBF, 0x01, 0x02, 0x03, 0x04, 0x05, 0x06, 0xFF]]
    for enc in inputs:
        ib = enc[0]
        mt = ib >> 5
        ops = ["load %s" % _hx(enc), "bi 0 8 9", "bs 1 c3a9", "bs 0 7071"]     # h0 decoded, h1 int, h2 text, h3 bytes
        if mt == 4:
            ops += ["push 0 1", "push 0 2", "get 0 0", "set 0 1 3", "repl 0 0 1", "push 0 1", "push 0 1", "push 0 1", "get 0 3"]
        elif mt == 5:
            ops += ["madd 0 1 2", "madd 0 2 1", "madd 0 1 1", "madd 0 3 2", "madd 0 1 3"]
        elif ib == 0x5F:
            ops += ["chunk 0 3", "chunk 0 3", "chunk 0 3", "chunk 0 3", "chunk 0 3"]
        elif ib == 0x7F:
            ops += ["chunk 0 2", "chunk 0 2", "chunk 0 2", "chunk 0 2", "chunk 0 2"]
        elif mt == 6:
            child = enc[1] if ib < 0xD8 else enc[2]
            ops += ["titem 0"] + (["push 4 1", "push 4 1"] if child >> 5 == 4 else ["madd 4 1 2", "madd 4 2 1"] if child >> 5 == 5 else ["val 4"]) + ["ssize 4"]
        ops += ["ssize 0", "ser 0 64", "copy 0", "ssize %d" % (len([o for o in ops if o.split()[0] in ("load", "bi", "bs", "get", "titem")])), "salloc 0"]
        out.append(_close(ops))
    # nested: the container modified is an element / value of the decoded item
    out.append(_close(["load 829f010203ffbf0102ff", "bi 0 8 9", "get 0 0", "push 2 1", "push 2 1", "get 0 1", "madd 3 1 1", "madd 3 1 1", "ser 0 64", "copy 0"]))
    out.append(_close(["load a1019f0102ff", "bi 0 8 9", "copy 0", "ser 2 32"]))
    return out

def sethandle_cases(ctx):
    """client-provided buffers: new definite string, set_handle, shorten in place, use in containers, copy, release"""
    rng = ctx.rng
    out = []
    for t in (0, 1):
        for data in ("-", "61", "c3a96162", "000102030405060708090a0b0c0d0e0f101112131415161718"):
            n = 0 if data == "-" else len(data) // 2
            out.append(_close(["nds %d" % t, "seth 0 %s" % data, "val 0", "ser 0 40"]))
            for k in sorted({0, n // 2, max(0, n - 1), n}):
                out.append(_close(["nds %d" % t, "seth 0 %s" % data, "shorten 0 %d" % k, "val 0", "ser 0 40", "copy 0", "ssize 1"]))
            out.append(_close(["nds %d" % t, "seth 0 %s" % data, "nia", "push 1 0", "shorten 0 %d" % (n // 2), "copy 1", "ser 2 40"]))
            out.append(_close(["nds %d" % t, "seth 0 %s" % data, "nis %d" % t, "chunk 1 0", "shorten 0 %d" % max(0, n - 1), "ssize 1", "ser 1 40", "salloc 1", "copy 1", "ssize 2"]))
            # the chunk gets its payload only AFTER it was attached (anything cached at attach time is stale)
            out.append(_close(["nds %d" % t, "nis %d" % t, "chunk 1 0", "ssize 1", "seth 0 %s" % data, "ssize 1", "ser 1 40", "salloc 1", "copy 1", "ssize 2"]))
    return out


# ------------------------------------------------------------------ third layer (model: HHist3.v)
# cbor_new_intN / set_uintN / mark_*, cbor_new_floatN / set_floatN, new_ctrl / set_ctrl / set_bool /
# build_bool / new_null / new_undef, cbor_move (alone and in the documented idioms), cbor_intermediate_decref,
# cbor_build_string, the type-specific serializers, every predicate and value getter.
CREATORS3 = ("bi", "bf", "bc", "bs", "nis", "nda", "nia", "ndm", "nim", "nt", "bt", "get", "titem", "copy", "load", "nds",
             "ni", "nf", "nc", "bb", "nn", "nu", "btmv", "bs0")

def _effects3(w, own):
    """ownership bookkeeping of one op (words w) on the per-handle list own"""
    o = w[0]
    if o in ("mv", "idec", "dec"): own[int(w[1])] -= 1
    elif o == "inc": own[int(w[1])] += 1
    elif o == "pushmv": own[int(w[2])] -= 1
    elif o == "tsetmv": own[int(w[2])] -= 1
    elif o == "maddmv": own[int(w[2])] -= 1; own[int(w[3])] -= 1
    elif o == "btmv": own[int(w[2])] -= 1
    if o in CREATORS3: own.append(1)

def _close3(ops, nulls=()):
    """probes after every op for the handles the client still holds, then the releases that are due;
    nulls: handles known to be NULL (e.g. a get beyond the end)"""
    own, text = [], []
    for o in ops:
        _effects3(o.split(), own)
        for h in nulls:
            if h < len(own): own[h] = 0
        live = [h for h in range(len(own)) if own[h] > 0]
        text.append(o + (" ? " + " ".join(map(str, live)) if live else ""))
    for h in range(len(own)):
        for _ in range(max(0, own[h])):
            text.append("dec %d" % h)
    return "; ".join(text)

INT_BOUNDS = [0, 23, 24, 255, 256, 65535, 65536, 2 ** 32 - 1, 2 ** 32, 2 ** 64 - 1]
INT_SIZE = lambda w, v: (1 if v <= 23 else 2) if w == 8 else {16: 3, 32: 5, 64: 9}[w]
F16_AS_F32 = [half_to_f32bits(h) for h in (0x0000, 0x8000, 0x0001, 0x03FF, 0x0400, 0x3C00, 0x7BFF, 0x7C00, 0xFC00, 0x7E00, 0x7C01, 0xC000)] + \
             [0x3F800001, 0x7F7FFFFF, 0x00000001, 0x33800000, 0x33000000, 0x33800001, 0x477FE000, 0x477FF000, 0x7F800001, 0xFFC00001, 0x38800000, 0x387FC000]
F32_PATS = [0, 0x80000000, 0x3F800000, 0x7F800000, 0xFF800000, 0x7FC00000, 0x7F800001, 0xFFC00001, 0xFFFFFFFF, 0x00000001, 0x007FFFFF, 0x00800000, 0x7F7FFFFF, 0x33800000]
F64_PATS = [0, 1 << 63, 0x3FF0000000000000, 0x7FF0000000000000, 0xFFF0000000000000, 0x7FF8000000000000, 0x7FF0000000000001, 0xFFF8000000000001,
            0xFFFFFFFFFFFFFFFF, 1, 0x000FFFFFFFFFFFFF, 0x0010000000000000, 0x7FEFFFFFFFFFFFFF, 0x3FF0000000000001]

def api3_scenarios(ctx):
    out = []
    A = lambda ops, nulls=(): out.append(_close3(ops, nulls))
    # ---- integers: new, (predicates before the first store), set, mark, every getter, serializers, copy
    for w in (8, 16, 32, 64):
        for v in INT_BOUNDS:
            vv = v % (1 << w)
            size = INT_SIZE(w, vv)
            for mark, kind in ((None, "uint"), ("mku", "uint"), ("mkn", "negint")):
                ops = ["ni %d" % w, "preds 0", "su %d 0 %d" % (w, v)] + ([mark + " 0"] if mark else []) + \
                      ["vals 0", "val 0", "ssize 0", "ser 0 %d" % size, "sert %s 0 %d" % (kind, size), "copy 0", "vals 1", "salloc 0"]
                A(ops)
            # mark before the first store; store twice; mark back and forth
            A(["ni %d" % w, "mkn 0", "preds 0", "su %d 0 %d" % (w, v), "vals 0", "su %d 0 %d" % (w, (v + 1) % (1 << 64)), "vals 0",
               "mku 0", "vals 0", "mkn 0", "mkn 0", "vals 0", "ser 0 9"])
        # the type-specific serializer with every buffer size 0 .. size + 1
        for v, neg in ((0, 0), (23, 1), (24, 0), ((1 << w) - 1, 1)):
            size = INT_SIZE(w, v)
            A(["ni %d" % w, "su %d 0 %d" % (w, v)] + (["mkn 0"] if neg else []) +
              ["sert %s 0 %d" % ("negint" if neg else "uint", n) for n in range(0, size + 2)])
        # unset items: count operations, predicates, marks are fine; released without ever being set
        A(["ni %d" % w, "inc 0", "preds 0", "mkn 0", "preds 0", "dec 0", "mku 0", "preds 0"])
        A(["ni %d" % w, "inc 0", "mv 0", "preds 0", "idec 0"])
        # stores into items built by the other constructors / obtained from containers
        A(["bi 1 %d 7" % w, "su %d 0 300" % w, "vals 0", "mku 0", "vals 0", "nia", "push 1 0", "su %d 0 9" % w, "ser 1 12", "get 1 0", "su %d 2 10" % w, "vals 0", "ser 1 12"])
    # ---- floats
    for w, pats in ((16, F16_AS_F32), (32, F32_PATS), (64, F64_PATS)):
        size = {16: 3, 32: 5, 64: 9}[w]
        for b in pats:
            A(["nf %d" % w, "preds 0", "sf %d 0 %x" % (w, b), "vals 0", "ssize 0", "ser 0 %d" % size, "sert fc 0 %d" % size, "copy 0", "vals 1", "salloc 1"])
        A(["nf %d" % w, "sf %d 0 %x" % (w, pats[5])] + ["sert fc 0 %d" % n for n in range(0, size + 2)])
        A(["nf %d" % w, "sf %d 0 %x" % (w, pats[2]), "vals 0", "sf %d 0 %x" % (w, pats[3]), "vals 0", "nia", "pushmv 1 0", "ser 1 12", "get 1 0", "sf %d 2 %x" % (w, pats[0]), "ser 1 12"])
        A(["bf %d %x" % (w, pats[2]), "sf %d 0 %x" % (w, pats[4]), "vals 0", "ser 0 9"])
        A(["nf %d" % w, "inc 0", "preds 0", "dec 0", "preds 0"])
    # cbor_float_get_float widens the stored float of a half / single item to a double (model: PWiden.widen32; the vals
    # word prints the bits of that double): binary32 subnormals with the leading mantissa bit at each of the 23 positions
    # (all of them normal doubles), both signs, the smallest / largest normals; halves of every class (subnormal halves
    # are binary32 normals), and binary32 subnormals held by a half item
    for p in range(23):
        A(["nf 32", "sf 32 0 %x" % (1 << p), "vals 0", "sf 32 0 %x" % (0x80000000 | ((2 << p) - 1)), "vals 0"])
    A(["nf 32", "sf 32 0 80000001", "vals 0", "sf 32 0 400000", "vals 0", "sf 32 0 800000", "vals 0", "sf 32 0 80800000", "vals 0",
       "sf 32 0 7f7fffff", "vals 0", "sf 32 0 ff7fffff", "vals 0", "sf 32 0 807fffff", "vals 0", "sf 32 0 7fffff", "vals 0", "sf 32 0 1", "vals 0"])
    for hs in ((0x0001, 0x8001, 0x0200, 0x03FF, 0x83FF), (0x0400, 0x8400, 0x3555, 0x7BFF, 0xFBFF), (0x0000, 0x8000, 0x7C00, 0xFC00, 0x7E00, 0xFE01)):
        A(["nf 16"] + [o for h in hs for o in ("sf 16 0 %x" % half_to_f32bits(h), "vals 0")])
    A(["nf 16", "sf 16 0 1", "vals 0", "sf 16 0 807fffff", "vals 0", "sf 16 0 400000", "vals 0"])
    # ---- ctrl values 0..255 through new_ctrl / set_ctrl; booleans; null / undef
    for v in range(256):
        size = 1 if v <= 23 else 2
        ops = ["nc", "vals 0", "sc 0 %d" % v, "vals 0", "ssize 0", "ser 0 %d" % size, "sert fc 0 %d" % size]
        if v in (0, 19, 20, 21, 22, 23, 24, 31, 32, 255):
            ops += ["copy 0", "vals 1", "salloc 0"] + ["sert fc 0 %d" % n for n in range(0, size + 2)]
        if v in (20, 21):
            ops += ["sb 0 1", "vals 0", "ser 0 1", "sb 0 0", "vals 0", "ser 0 1", "sb 0 0", "vals 0"]
        A(ops)
    A(["nc", "sc 0 300", "vals 0", "sc 0 65556", "vals 0", "sb 0 1", "vals 0"])       # (uint8_t) conversion of the argument
    for b in (0, 1):
        A(["bb %d" % b, "vals 0", "val 0", "ser 0 1", "sert fc 0 1", "sb 0 %d" % (1 - b), "vals 0", "sb 0 %d" % b, "vals 0", "sc 0 22", "vals 0", "copy 0", "vals 1"])
        A(["bc %d" % (20 + b), "sb 0 %d" % (1 - b), "vals 0", "nia", "pushmv 1 0", "ser 1 4"])
    for o in ("nn", "nu"):
        A([o, "vals 0", "val 0", "ssize 0", "ser 0 1", "sert fc 0 0", "sert fc 0 1", "sert fc 0 2", "sc 0 20", "sb 0 1", "vals 0", "copy 0", "vals 1"])
    # ---- cbor_move: alone (the client holds two references, or a container holds one) and in the idioms
    A(["bi 0 8 1", "inc 0", "mv 0", "vals 0"])
    A(["nia", "bi 0 8 1", "push 0 1", "mv 1", "ser 0 5", "get 0 0", "vals 2"])
    A(["nia", "ni 8", "su 8 1 5", "pushmv 0 1", "ser 0 10", "sert array 0 10", "get 0 0", "vals 2"])
    A(["nda 2", "bb 1", "pushmv 0 1", "nn", "pushmv 0 2", "ser 0 4", "nu", "inc 3", "pushmv 0 3", "ser 0 4"])             # third push fails: the client kept a reference
    A(["nda 1", "bi 0 8 1", "pushmv 0 1", "bi 0 8 2", "pushmv 0 2", "inc 2", "dec 2", "ser 0 4"])                         # failed push of a moved sole reference: count 0, reclaimed by incref + decref
    A(["nda 0", "bs0 6162", "pushmv 0 1", "inc 1", "dec 1"])
    A(["nt 5", "bb 1", "tsetmv 0 1", "ser 0 5", "sert tag 0 5", "titem 0", "vals 2"])
    A(["nt 18446744073709551615", "nf 64", "sf 64 1 3ff0000000000000", "tsetmv 0 1", "ser 0 20", "copy 0", "ser 2 20"])
    A(["bi 0 8 1", "btmv 7 0", "ser 1 4", "sert tag 1 4", "titem 1", "vals 2"])
    A(["ni 16", "su 16 0 1000", "mkn 0", "btmv 100 0", "btmv 101 1", "ser 2 12", "copy 2", "ser 3 12"])
    A(["nim", "bs0 6b", "bi 0 8 1", "maddmv 0 1 2", "ser 0 10", "sert map 0 10"])
    A(["ndm 1", "bs0 6b", "nn", "maddmv 0 1 2", "bb 1", "bb 0", "inc 3", "inc 4", "maddmv 0 3 4", "ser 0 10"])            # second add fails: the client kept references
    A(["nim", "bi 0 8 1", "inc 1", "maddmv 0 1 1", "ser 0 6"])                                                         # the same item as key and value: two references moved
    A(["nim", "ni 8", "su 8 1 1", "nf 16", "sf 16 2 3c000000", "maddmv 0 1 2", "nc", "sc 3 0", "bs0 -", "maddmv 0 3 4", "ser 0 16", "copy 0", "ser 5 16"])
    for n in (1, 2, 3, 5, 9):      # growth steps of an indefinite array under the idiom
        A(["nia"] + sum((["ni 8", "su 8 %d %d" % (i + 1, i), "pushmv 0 %d" % (i + 1)] for i in range(n)), []) + ["ser 0 %d" % (2 + 2 * n), "sert array 0 %d" % (2 + 2 * n)])
    # ---- cbor_intermediate_decref
    A(["bi 0 8 1", "inc 0", "idec 0", "vals 0"])
    A(["bs 0 0102", "idec 0"])
    A(["nia", "bi 0 8 1", "push 0 1", "idec 1", "ser 0 5", "idec 0"])
    A(["nia", "nia", "push 0 1", "bb 1", "pushmv 1 2", "idec 1", "ser 0 6", "idec 0"])     # releases a whole sub-tree when the outer array goes
    A(["ni 32", "idec 0"])
    # ---- cbor_build_string: NUL-terminated
    for data in ("-", "61", "6100", "00", "006162", "610062", "61626300", "c3a9", "c3", "c3a900c3", "ff", "e282ac", "e282ac00ff", "f09f9880", "eda080", "f4908080",
                 "6162636465666768696a6b6c6d6e6f7071727374757677", "6162636465666768696a6b6c6d6e6f707172737475767778", "41" * 255, "41" * 256, "41" * 24 + "00" + "42" * 9):
        bs = bytes.fromhex(data) if data != "-" else b""
        n = bs.index(0) if 0 in bs else len(bs)
        size = n + (1 if n <= 23 else 2 if n <= 255 else 3)
        A(["bs0 %s" % data, "val 0", "vals 0", "ssize 0", "ser 0 %d" % (size + 1), "sert string 0 %d" % size, "copy 0", "val 1", "salloc 1"])
        if n <= 30:
            A(["bs0 %s" % data] + ["sert string 0 %d" % k for k in range(0, size + 2)])
    A(["nis 1", "bs0 6162", "chunk 0 1", "bs0 -", "chunk 0 2", "bs0 c3a900", "chunk 0 3", "ser 0 20", "sert string 0 20", "copy 0", "ser 4 20"])
    # ---- the type-specific serializers on every type, every buffer size 0 .. size + 1
    def sweep(build, h, kind, size):
        A(build + ["ssize %d" % h] + ["sert %s %d %d" % (kind, h, n) for n in range(0, size + 2)] + ["ser %d %d" % (h, size)])
    sweep(["bs 0 -"], 0, "bytes", 1); sweep(["bs 0 010203"], 0, "bytes", 4); sweep(["bs 0 %s" % ("55" * 24)], 0, "bytes", 26)
    sweep(["nis 0"], 0, "bytes", 2); sweep(["nis 0", "bs 0 0102", "chunk 0 1", "bs 0 -", "chunk 0 2"], 0, "bytes", 6)
    sweep(["nis 1"], 0, "string", 2); sweep(["nis 1", "bs 1 c3a9", "chunk 0 1", "chunk 0 1"], 0, "string", 8)
    sweep(["bs 1 -"], 0, "string", 1); sweep(["bs 1 6869"], 0, "string", 3)
    sweep(["nda 0"], 0, "array", 1); sweep(["nia"], 0, "array", 2)
    sweep(["nda 3", "bi 0 8 1", "push 0 1", "bb 1", "push 0 2"], 0, "array", 3)
    sweep(["nia", "bi 1 16 300", "push 0 1", "nn", "push 0 2", "bs0 6162", "push 0 3"], 0, "array", 9)
    sweep(["ndm 0"], 0, "map", 1); sweep(["nim"], 0, "map", 2)
    sweep(["ndm 2", "bi 0 8 1", "bs0 61", "madd 0 1 2"], 0, "map", 4)
    sweep(["nim", "bi 0 8 24", "nu", "madd 0 1 2", "madd 0 2 1"], 0, "map", 8)
    sweep(["bi 0 8 1", "bt 0 0"], 1, "tag", 2); sweep(["nia", "bt 24 0"], 1, "tag", 4); sweep(["bb 1", "bt 4294967296 0", "bt 65535 1"], 2, "tag", 13)
    sweep(["bc 0"], 0, "fc", 1); sweep(["bc 255"], 0, "fc", 2); sweep(["bf 16 3c000000"], 0, "fc", 3); sweep(["bf 32 7fc00000"], 0, "fc", 5); sweep(["bf 64 7ff0000000000000"], 0, "fc", 9)
    sweep(["bi 0 8 23"], 0, "uint", 1); sweep(["bi 1 8 24"], 0, "negint", 2); sweep(["bi 0 64 18446744073709551615"], 0, "uint", 9)
    # metadata getters (lengths, code points, sizes / capacities, definite / indefinite, chunk counts, tag value, refcount)
    A(["bs 1 c3a96162", "vals 0", "bs 1 ff", "vals 1", "nds 1", "seth 2 e282ac", "vals 2", "shorten 2 2", "vals 2", "nis 1", "chunk 3 0", "chunk 3 0", "vals 3",
       "nis 0", "vals 4", "bs 0 0102", "chunk 4 5", "vals 4", "nda 3", "push 6 0", "vals 6", "nia", "push 7 0", "push 7 1", "push 7 0", "vals 7", "ndm 2", "madd 8 0 1", "vals 8",
       "nim", "madd 9 0 1", "madd 9 1 0", "vals 9", "nt 18446744073709551615", "preds 10", "tset 10 0", "vals 10", "vals 0", "inc 0", "inc 0", "preds 0", "dec 0", "dec 0"])
    A(["load 83616101f6", "vals 0", "get 0 0", "vals 1", "get 0 2", "vals 2", "load 7f62c3a96161ff", "vals 3", "load 5f41004101ff", "vals 4", "load bf0102ff", "vals 5",
       "load a10102", "vals 6", "load c1c249010000000000000000", "vals 7", "titem 7", "vals 8", "load 9f8080ff", "vals 9", "copy 9", "vals 10", "load 62c328", "vals 11", "load 78186162636465666768696a6b6c6d6e6f707172737475767778", "vals 12"])
    for n in (0, 1, 2, 3, 5, 9):
        A(["bi 0 8 1", "nia"] + ["push 1 0"] * n + ["vals 1", "nim"] + ["madd 2 0 0"] * n + ["vals 2", "bs 1 61", "nis 1"] + ["chunk 4 3"] * n + ["vals 4", "preds 0"])
    # the pointer getters (cbor_*_handle, cbor_*_chunks_handle): the block designated (0 = NULL) and its contents
    A(["nds 0", "ptrs 0", "seth 0 000102ff", "ptrs 0", "shorten 0 2", "ptrs 0", "nds 1", "ptrs 1", "bs 1 c3a9", "ptrs 2", "bs 0 -", "ptrs 3", "bs0 -", "ptrs 4",
       "nis 0", "ptrs 5", "chunk 5 0", "chunk 5 3", "chunk 5 0", "ptrs 5", "nis 1", "ptrs 6", "chunk 6 2", "ptrs 6"])
    A(["nia", "ptrs 0", "nda 0", "ptrs 1", "nda 3", "ptrs 2", "bi 0 8 1", "bb 1", "push 0 3", "push 0 4", "push 0 3", "ptrs 0", "push 2 4", "ptrs 2", "push 1 3", "ptrs 1",
       "nim", "ptrs 5", "ndm 0", "ptrs 6", "ndm 2", "ptrs 7", "madd 5 3 4", "madd 5 4 4", "madd 5 3 0", "ptrs 5", "madd 7 3 3", "ptrs 7", "nt 5", "ptrs 8", "ptrs 3", "ptrs 4",
       "repl 0 1 3", "ptrs 0", "copy 5", "ptrs 9"])
    A(["load 83616101f6", "ptrs 0", "load 7f62c3a96161ff", "ptrs 1", "load 5f41004101ff", "ptrs 2", "load bf0102ff", "ptrs 3", "load a10102", "ptrs 4", "load 9f8080ff", "ptrs 5",
       "load 40", "ptrs 6", "load 60", "ptrs 7", "load 80", "ptrs 8", "load a0", "ptrs 9", "load 9fff", "ptrs 10", "load 5fff", "ptrs 11"])
    for n in (1, 2, 3, 5, 9):
        A(["bi 0 8 1", "nia"] + ["push 1 0"] * n + ["ptrs 1", "nim"] + ["madd 2 0 0"] * n + ["ptrs 2", "bs 1 61", "nis 1"] + ["chunk 4 3"] * n + ["ptrs 4"])
    # cbor_set_allocs again while nothing is alive; blocks of one family never reach the other
    A(["swalloc", "bi 0 8 1", "dec 0", "swalloc", "nia", "bs0 6162", "pushmv 1 2", "copy 1", "dec 1", "dec 3", "swalloc", "load 83616101f6", "salloc 4", "dec 4", "swalloc", "swalloc", "nt 1", "dec 5"])
    A(["bi 0 8 1", "nia", "push 1 0", "dec 0", "dec 1", "swalloc", "nim", "bb 1", "madd 2 3 3", "vals 2", "dec 2", "dec 3", "swalloc", "nds 1", "seth 4 6869", "ptrs 4", "dec 4"])
    # predicates / getters on every other type
    A(["bs 0 0102", "preds 0", "vals 0", "bs 1 6869", "vals 1", "nis 0", "vals 2", "nis 1", "vals 3", "nda 2", "vals 4", "nia", "vals 5", "ndm 1", "vals 6", "nim", "vals 7",
       "nt 9", "preds 8", "vals 8", "nds 0", "vals 9", "nds 1", "vals 10"])
    return out


class Shadow3(Shadow):
    def __init__(self, rng):
        Shadow.__init__(self, rng)
        self.unset = set()      # idents whose value has not been stored yet
        self.width = {}         # ident -> int / float width (known for items this client made itself)
        self.neg = {}           # ident -> sign of an int
        self.ctrl = {}          # ident -> ctrl value
        self.slen = {}          # ident -> length of a definite string whose buffer the client installed (set_handle)
    def ready(self, hs):
        return [h for h in hs if self.ident[h] not in self.unset]
    def total_own(self, ident):
        return sum(self.own[h] for h in range(len(self.own)) if self.ident[h] == ident and self.own[h] > 0)


def gen_history3(rng, length, soak=None):
    """rule-following histories mixing the calls of HHist3.v with those of HHist.v: on top of the rules of
    gen_history, a value is never read (getter, serializer, copy, insertion into a container or tag)
    before it has been stored; cbor_move alone only when another reference exists; f(.., cbor_move(x))
    only when f will take its reference (room in a definite container, tag still empty).
    soak = {"lo": .., "hi": ..} (thorough tier): `length` counts ops, the number of live handles is steered
    into [lo, hi], and _soak_step interleaves the heavy families (see there)"""
    s = Shadow3(rng)
    def mk(text, kind, **attrs):
        h = s.add(text, kind); i = s.ident[h]
        for k, v in attrs.items():
            getattr(s, k)[i] = v
        return h
    def room(a):
        return s.kind[a] in ("arri", "mapi") or s.defcap.get(s.ident[a], 0) > 0
    def insert(a, idents, pairs=False):
        ia = s.ident[a]
        s.children[ia] += idents; s.size[ia] = s.size.get(ia, 0) + 1
        if s.kind[a] in ("arr", "map"): s.defcap[ia] -= 1
    n_iter = 0; acct = 0
    while (len(s.ops) < length) if soak is not None else (n_iter < length):
        n_iter += 1
        if soak is not None:
            # the extracted model pays (blocks allocated) x (heap writes) for every cbor_decref call (drain_fuel sums over
            # all addresses, each looked up through the chain of heap updates): stop before the estimate exceeds the budget
            acct = _soak_account(s, acct)
            if s.cost > soak.get("budget", float("inf")): break
            if _soak_step(s, rng, soak, insert, room):
                continue
        r = rng.random()
        live = s.live(); ready = s.ready(live)
        arrs = s.live({"arr", "arri"}); maps = s.live({"map", "mapi"}); tags = s.live({"tag"}); chs = s.live({"bsi", "tsi"})
        if r < 0.10 or not live:
            text, kind = leaf_op(rng)
            w = text.split()
            if kind == "int": mk(text, kind, width=int(w[2]), neg=int(w[1]))
            elif kind == "float":
                b = int(w[2], 16); wd = int(w[1])
                nan = ((b >> 23) & 0xFF) == 0xFF and (b & 0x7FFFFF) if wd != 64 else ((b >> 52) & 0x7FF) == 0x7FF and (b & ((1 << 52) - 1))
                if nan: text = "bf %d %s" % (wd, "7fc00000" if wd != 64 else "7ff8000000000000")
                mk(text, kind, width=wd)
            elif kind == "ctrl": mk(text, kind, ctrl=int(w[1]))
            else: s.add(text, kind)
        elif r < 0.22:
            k = rng.randrange(9)
            if k == 0: w = rng.choice([8, 16, 32, 64]); h = mk("ni %d" % w, "int", width=w, neg=0); s.unset.add(s.ident[h])
            elif k == 1: w = rng.choice([16, 32, 64]); h = mk("nf %d" % w, "float", width=w); s.unset.add(s.ident[h])
            elif k == 2: mk("nc", "ctrl", ctrl=0)
            elif k == 3: b = rng.randrange(2); mk("bb %d" % b, "ctrl", ctrl=20 + b)
            elif k == 4: mk("nn", "ctrl", ctrl=22)
            elif k == 5: mk("nu", "ctrl", ctrl=23)
            elif k == 6:
                n = rng.choice([0, 1, 3, 5])
                s.add("bs0 %s" % hx([rng.choice([0, 0x41, 0x62, 0xC3, 0xA9, 0x7A]) for _ in range(n)]), "ts")
            elif k == 7:
                t = rng.randrange(2); s.add("nis %d" % t, "tsi" if t else "bsi")
            else:
                n = rng.randrange(0, 4); arr = rng.randrange(2)
                h = s.add(("nda %d" if arr else "ndm %d") % n, "arr" if arr else "map"); s.defcap[s.ident[h]] = n
        elif r < 0.28:
            k = rng.randrange(3)
            if k == 0: s.add("nia", "arri")
            elif k == 1: s.add("nim", "mapi")
            else: h = s.add("nt %d" % rng.choice([0, 24, 2 ** 64 - 1]), "tag"); s.tagfull[s.ident[h]] = False
        elif r < 0.40:
            # stores and marks
            ints = [h for h in s.live({"int"}) if s.ident[h] in s.width]
            flts = [h for h in s.live({"float"}) if s.ident[h] in s.width]
            ctls = [h for h in s.live({"ctrl"}) if s.ident[h] in s.ctrl]
            k = rng.randrange(5)
            if k == 0 and ints:
                h = rng.choice(ints); i = s.ident[h]; w = s.width[i]
                s.op("su %d %d %d" % (w, h, rng.choice([0, 23, 24, (1 << w) - 1, rng.randrange(1 << w), min((1 << w) + 5, 2 ** 64 - 1)]))); s.unset.discard(i)
            elif k == 1 and ints:
                h = rng.choice(ints); i = s.ident[h]; n = rng.randrange(2)
                s.op("%s %d" % ("mkn" if n else "mku", h)); s.neg[i] = n
            elif k == 2 and flts:
                h = rng.choice(flts); i = s.ident[h]; w = s.width[i]
                b = rng.choice(F16_AS_F32 if w == 16 else F32_PATS if w == 32 else F64_PATS)
                s.op("sf %d %d %x" % (w, h, b)); s.unset.discard(i)
            elif k == 3 and ctls:
                h = rng.choice(ctls); i = s.ident[h]; v = rng.choice([0, 20, 21, 22, 23, 24, 255, rng.randrange(256)])
                s.op("sc %d %d" % (h, v)); s.ctrl[i] = v
            elif k == 4 and ctls:
                bl = [h for h in ctls if s.ctrl[s.ident[h]] in (20, 21)]
                if bl:
                    h = rng.choice(bl); b = rng.randrange(2); s.op("sb %d %d" % (h, b)); s.ctrl[s.ident[h]] = 20 + b
        elif r < 0.50 and arrs and ready:
            a = rng.choice(arrs); x = rng.choice(ready)
            if s.reaches(s.ident[x], s.ident[a]): continue
            if rng.random() < 0.5:
                if not room(a): continue
                s.op("pushmv %d %d" % (a, x)); s.own[x] -= 1; insert(a, [s.ident[x]])
            else:
                s.op("push %d %d" % (a, x))
                if room(a): insert(a, [s.ident[x]])
        elif r < 0.55 and arrs:
            a = rng.choice(arrs); ia = s.ident[a]
            i = rng.randrange(0, s.size.get(ia, 0) + 2)
            if i < s.size.get(ia, 0):
                h = s.add("get %d %d" % (a, i), None, ident=s.children[ia][i]); s.kind[h] = kind_of(s, s.children[ia][i])
            else:
                h = s.add("get %d %d" % (a, i), None); s.own[h] = 0
        elif r < 0.59 and arrs and ready:
            a = rng.choice(arrs); ia = s.ident[a]; x = rng.choice(ready)
            if s.reaches(s.ident[x], ia): continue
            i = rng.randrange(0, s.size.get(ia, 0) + 3)
            which = rng.choice(["set", "repl"])
            s.op("%s %d %d %d" % (which, a, i, x))
            n = s.size.get(ia, 0)
            if i < n: s.children[ia][i] = s.ident[x]
            elif i == n and which == "set" and room(a): insert(a, [s.ident[x]])
        elif r < 0.66 and maps and ready:
            m = rng.choice(maps); k = rng.choice(ready); v = rng.choice(ready); im = s.ident[m]
            if s.reaches(s.ident[k], im) or s.reaches(s.ident[v], im): continue
            if rng.random() < 0.5:
                if not room(m) or (k == v and s.own[k] < 2): continue
                s.op("maddmv %d %d %d" % (m, k, v)); s.own[k] -= 1; s.own[v] -= 1; insert(m, [s.ident[k], s.ident[v]])
            else:
                s.op("madd %d %d %d" % (m, k, v))
                if room(m): insert(m, [s.ident[k], s.ident[v]])
        elif r < 0.69 and chs:
            c = rng.choice(chs); want = "bs" if s.kind[c] == "bsi" else "ts"
            xs = s.live({want})
            if not xs: continue
            x = rng.choice(xs)
            s.op("chunk %d %d" % (c, x)); s.children[s.ident[c]].append(s.ident[x])
        elif r < 0.75 and tags:
            t = rng.choice(tags); it = s.ident[t]
            k = rng.randrange(3)
            if k < 2 and not s.tagfull.get(it, True) and ready:
                x = rng.choice(ready)
                if s.reaches(s.ident[x], it): continue
                if k == 0: s.op("tsetmv %d %d" % (t, x)); s.own[x] -= 1
                else: s.op("tset %d %d" % (t, x))
                s.children[it] = [s.ident[x]]; s.tagfull[it] = True
            elif k == 2 and s.tagfull.get(it):
                h = s.add("titem %d" % t, None, ident=s.children[it][0]); s.kind[h] = kind_of(s, s.children[it][0])
        elif r < 0.79 and ready:
            x = rng.choice(ready)
            if rng.random() < 0.5:
                h = s.add("btmv %d %d" % (rng.choice([1, 100, 2 ** 32]), x), "tag"); s.own[x] -= 1
            else:
                h = s.add("bt %d %d" % (rng.choice([1, 100, 2 ** 32]), x), "tag")
            s.children[s.ident[h]] = [s.ident[x]]; s.tagfull[s.ident[h]] = True
        elif r < 0.82:
            h = rng.choice(live); s.op("inc %d" % h); s.own[h] += 1
        elif r < 0.84:
            # cbor_move alone: only when the client holds a second reference of its own
            hs = [h for h in live if s.total_own(s.ident[h]) >= 2]
            if hs: h = rng.choice(hs); s.op("mv %d" % h); s.own[h] -= 1
        elif r < 0.89:
            h = rng.choice(live); s.op(rng.choice(["dec %d", "idec %d"]) % h); s.own[h] -= 1
        elif r < 0.91 and ready:
            h = rng.choice(ready)
            if not complete(s, s.ident[h]): continue
            if soak is not None and _expanded(s, s.ident[h], soak.get("copy_cap", 400) + 1) > soak.get("copy_cap", 400): continue
            n = s.add("copy %d" % h, s.kind[h]); clone(s, s.ident[h], s.ident[n])
            for d in (s.width, s.neg, s.ctrl):
                if s.ident[h] in d: d[s.ident[n]] = d[s.ident[h]]
        elif r < 0.94:
            s.op("preds %d" % rng.choice(live))
        elif ready:
            h = rng.choice(ready)
            if not complete(s, s.ident[h]) or s.kind[h] in (None, "loaded"): continue
            if soak is not None and _expanded(s, s.ident[h], soak.get("read_cap", 3000) + 1) > soak.get("read_cap", 3000): continue
            kd = s.kind[h]; i = s.ident[h]
            sk = {"float": "fc", "ctrl": "fc", "bs": "bytes", "bsi": "bytes", "ts": "string", "tsi": "string", "arr": "array", "arri": "array",
                  "map": "map", "mapi": "map", "tag": "tag"}.get(kd)
            if kd == "int" and i in s.neg: sk = "negint" if s.neg[i] else "uint"
            choices = ["vals %d" % h, "vals %d" % h, "ssize %d" % h, "ser %d %d" % (h, rng.randrange(0, 12)), "salloc %d" % h, "desc %d" % h]
            if kd != "float": choices.append("val %d" % h)
            if sk: choices += ["sert %s %d %d" % (sk, h, rng.randrange(0, 12))] * 2
            s.op(rng.choice(choices))
    for h in range(len(s.kind)):
        while s.own[h] > 0:
            s.op("dec %d" % h); s.own[h] -= 1
    return s

def render3(s, probe_max=None, full_every=64):
    """probe_max: at most that many handles are probed after an op (the newest and a rotating sample), all of
    them every full_every ops: the extracted model's heap is a chain of closures, a probe costs its length"""
    own, out = [], []
    for i, text in enumerate(s.ops):
        _effects3(text.split(), own)
        live = [h for h in range(len(own)) if own[h] > 0]
        if probe_max is not None and len(live) > probe_max and i % full_every:
            k = probe_max // 2
            rot = [live[(i * 2654435761 + j * 40503) % len(live)] for j in range(probe_max - k)]
            live = sorted(set(live[-k:] + rot))
        out.append(text + (" ? " + " ".join(map(str, live)) if live else ""))
    return "; ".join(out)

def _subtree(s, ident, cap=400, seen=None):
    seen = seen if seen is not None else set()
    if ident in seen or len(seen) > cap: return 0
    seen.add(ident)
    return 1 + sum(_subtree(s, c, cap, seen) for c in s.children.get(ident, []))

def _expanded(s, ident, cap, memo=None):
    """number of nodes of the tree below ident counted WITH multiplicity (what cbor_copy / the serializer
    traverse), saturating at cap"""
    memo = memo if memo is not None else {}
    if ident in memo: return memo[ident]
    memo[ident] = cap            # guards against (impossible) cycles
    n = 1
    for c in s.children.get(ident, []):
        n += _expanded(s, c, cap, memo)
        if n >= cap: n = cap; break
    memo[ident] = n
    return n

def _soak_account(s, done):
    """estimate of the extracted model's work for the ops appended since `done` (see gen_history3)"""
    if not hasattr(s, "cost"): s.cost = 0.0; s.A = 0.0; s.D = 0.0
    hcount = getattr(s, "hseen", 0)
    for text in s.ops[done:]:
        w = text.split(); o = w[0]; dcalls = 0
        if o in CREATORS3:
            s.A += 1; s.D += 2
            if o in ("bs", "bs0", "nis", "nda", "ndm"): s.A += 1
            if o == "load":
                n = max(1, len(w[1]) // 3); s.A += 2 * n; s.D += 5 * n; dcalls += n
            elif o == "copy":
                n = _expanded(s, s.ident[int(w[1])], 5000); s.A += 2 * n; s.D += 6 * n; dcalls += n
            elif o in ("bt", "btmv"): s.D += 3
        elif o in ("push", "pushmv", "madd", "maddmv", "chunk", "tset", "tsetmv"):
            s.D += 3; s.A += 0.15
        elif o in ("set", "repl"): s.D += 4; dcalls += 1
        elif o in ("dec", "idec"): s.D += 4; dcalls += 1
        elif o == "seth": s.A += 1; s.D += 1
        else: s.D += 1
        s.cost += dcalls * s.A * s.D
    return len(s.ops)

def _soak_step(s, rng, cfg, insert, room):
    """the heavy families of the soak histories; returns True when it emitted ops"""
    from .cborgen import random_enc
    live = s.live(); ready = s.ready(live)
    r = rng.random()
    if len(live) > cfg["hi"] and r < 0.6:
        h = rng.choice(live); s.op(rng.choice(["dec %d", "idec %d"]) % h); s.own[h] -= 1; return True
    if len(live) < cfg["lo"] and r < 0.5:
        text, kind = leaf_op(rng)
        if kind == "float": text = "bf 32 3fc00000"
        s.add(text, kind); return True
    if r >= 0.30: return False
    k = rng.randrange(9)
    if k == 0:      # cbor_load of a random well-formed item
        e = random_enc(rng, rng.choice([1, 2, 3, 4]))
        if not 0 < len(e.bs) <= 600: return False
        s.add("load %s" % hx(e.bs), "loaded"); return True
    if k == 1 and ready:      # a deep chain of tags on top of an item; only the top stays with the client
        x = rng.choice(ready)
        if not complete(s, s.ident[x]): return False
        cur = x
        for d in range(rng.choice([5, 9, 17, 33])):
            h = s.add("bt %d %d" % (rng.choice([0, 23, 24, 255, 65536, 2 ** 32, 2 ** 64 - 1]), cur), "tag")
            s.children[s.ident[h]] = [s.ident[cur]]; s.tagfull[s.ident[h]] = True
            if d > 0: s.op("dec %d" % cur); s.own[cur] -= 1
            cur = h
        return True
    if k == 2 and ready:      # one container across many growth steps
        kind = rng.choice(["arri", "mapi", "chunk"])
        n = rng.choice([20, 40, 70, 130, 260])
        if kind == "arri":
            cs = s.live({"arri"}); a = rng.choice(cs) if cs and rng.random() < 0.5 else s.add("nia", "arri")
            x = rng.choice(ready)
            if s.reaches(s.ident[x], s.ident[a]): return False
            for _ in range(n): s.op("push %d %d" % (a, x)); insert(a, [s.ident[x]])
        elif kind == "mapi":
            cs = s.live({"mapi"}); m = rng.choice(cs) if cs and rng.random() < 0.5 else s.add("nim", "mapi")
            kx = rng.choice(ready); vx = rng.choice(ready)
            if s.reaches(s.ident[kx], s.ident[m]) or s.reaches(s.ident[vx], s.ident[m]): return False
            for _ in range(n // 2): s.op("madd %d %d %d" % (m, kx, vx)); insert(m, [s.ident[kx], s.ident[vx]])
        else:
            t = rng.randrange(2)
            xs = s.live({"ts" if t else "bs"})
            if not xs: return False
            c = s.add("nis %d" % t, "tsi" if t else "bsi"); x = rng.choice(xs)
            for _ in range(n): s.op("chunk %d %d" % (c, x)); s.children[s.ident[c]].append(s.ident[x])
        return True
    if k == 3 and cfg.get("client_buffers", True):      # a client-provided buffer: new definite string + set_handle
        # (not under refusal schedules: when the client's own buffer request is refused the string stays without buffer, and
        #  reading such a string is memcpy(dst, NULL, 0) in the library -- reported separately, see DESIGN 12.3)
        t = rng.randrange(2); n = rng.choice([0, 1, 5, 24, 60, 300])
        data = [rng.choice([0x41, 0x7A, 0x20, 0xC3, 0xA9, 0xE2, 0x82, 0xAC, 0x00]) if t else rng.randrange(256) for _ in range(n)]
        h = s.add("nds %d" % t, "ts" if t else "bs"); s.op("seth %d %s" % (h, hx(data))); s.slen[s.ident[h]] = n
        return True
    if k == 4:      # shortening in place
        hs = [h for h in live if s.ident[h] in s.slen]
        if not hs: return False
        h = rng.choice(hs); i = s.ident[h]; n = rng.randrange(0, s.slen[i] + 1)
        s.op("shorten %d %d" % (h, n)); s.slen[i] = n; return True
    if k == 5 and ready:      # cbor_copy of the largest tree among a sample
        cs = [h for h in rng.sample(ready, min(8, len(ready))) if complete(s, s.ident[h]) and s.kind[h] is not None
              and _expanded(s, s.ident[h], cfg.get("copy_cap", 400) + 1) <= cfg.get("copy_cap", 400)]
        if not cs: return False
        h = max(cs, key=lambda h: _expanded(s, s.ident[h], 10 ** 6))
        n = s.add("copy %d" % h, s.kind[h]); clone(s, s.ident[h], s.ident[n])
        for d in (s.width, s.neg, s.ctrl):
            if s.ident[h] in d: d[s.ident[n]] = d[s.ident[h]]
        return True
    if k == 6 and ready:      # one item in many containers
        x = rng.choice(ready); ix = s.ident[x]; did = False
        for a in rng.sample(live, min(10, len(live))):
            ia = s.ident[a]
            if a == x or s.reaches(ix, ia): continue
            if s.kind[a] in ("arr", "arri") and room(a): s.op("push %d %d" % (a, x)); insert(a, [ix]); did = True
            elif s.kind[a] in ("map", "mapi") and room(a): s.op("madd %d %d %d" % (a, x, x)); insert(a, [ix, ix]); did = True
            elif s.kind[a] == "tag" and not s.tagfull.get(ia, True): s.op("tset %d %d" % (a, x)); s.children[ia] = [ix]; s.tagfull[ia] = True; did = True
        return did
    if k == 7 and ready:      # whole-tree readers on the largest tree among a sample (also decoded ones)
        cs = [h for h in rng.sample(ready, min(8, len(ready))) if complete(s, s.ident[h])
              and _expanded(s, s.ident[h], cfg.get("read_cap", 3000) + 1) <= cfg.get("read_cap", 3000)]
        if not cs: return False
        h = max(cs, key=lambda h: _expanded(s, s.ident[h], 10 ** 6))
        s.op(rng.choice(["salloc %d" % h, "ssize %d" % h, "desc %d" % h, "ser %d %d" % (h, rng.choice([0, 1, 9, 64, 4096])), "vals %d" % h, "preds %d" % h]))
        return True
    if k == 8 and ready:      # the move idioms in a row: fresh items moved into one container
        cs = s.live({"arri", "mapi"})
        if not cs: return False
        a = rng.choice(cs)
        for _ in range(rng.choice([3, 8, 20])):
            if s.kind[a] == "arri":
                h = s.add(rng.choice(["ni 8", "bb 1", "nn", "bs0 6162"]), None)
                if s.ops[-1].startswith("ni"): s.op("su 8 %d %d" % (h, rng.randrange(256)))
                s.op("pushmv %d %d" % (a, h)); s.own[h] -= 1; insert(a, [s.ident[h]])
            else:
                h1 = s.add("bs0 %s" % hx([rng.randrange(0x61, 0x7B) for _ in range(rng.randrange(1, 6))]), "ts")
                h2 = s.add(rng.choice(["bb 0", "nu", "bc 255"]), "ctrl")
                s.op("maddmv %d %d %d" % (a, h1, h2)); s.own[h1] -= 1; s.own[h2] -= 1; insert(a, [s.ident[h1], s.ident[h2]])
        return True
    return False

# measured (DESIGN 12.1, soak): the extracted model needs about 2e-8 s per unit of the estimate of _soak_account;
# 1.5e9 keeps one history near 30-40 s, which in practice ends histories with 30-80 live handles at 900-1200 calls
SOAK = {"lo": 30, "hi": 80, "budget": 1.5e9, "copy_cap": 400, "read_cap": 3000}

def soak_cases_sized(n_cases, lengths=(300, 600, 1000, 1500)):
    def gen(ctx):
        rng = ctx.rng
        return [render3(gen_history3(rng, rng.choice(lengths), soak=SOAK), probe_max=8) for _ in range(n_cases)]
    return gen

def soak_fault_cases(ctx):
    """soak-style histories, short enough for the exhaustive refusal enumeration of the fault stream
    (request k alone / every request from k on, for EVERY k up to the number of requests of the fault-free run:
    the middle and the end of the history included)"""
    rng = ctx.rng
    return [render3(gen_history3(rng, rng.choice([20, 30, 45, 60]), soak={"lo": 4, "hi": 14, "client_buffers": False}), probe_max=8) for _ in range(160)]

def thr_soak_cases(ctx):
    """16 threads, each a soak history of 200-400 calls over all three layers (decoding, float work, copies, growth)"""
    rng = ctx.rng
    out = []
    for _ in range(6):
        hs = [render3(gen_history3(rng, rng.choice([200, 300, 400]), soak={"lo": 10, "hi": 30}), probe_max=4) for _ in range(16)]
        out.append(" || ".join(hs))
    return out

def api3_cases(ctx):
    """(a) scenario families for every call of HHist3.v, (b) random rule-following histories mixing them with the older calls"""
    rng = ctx.rng
    out = api3_scenarios(ctx)
    n = 500 if ctx.tier == "quick" else 8000
    for i in range(n):
        length = rng.choice([4, 8, 12, 20, 40]) if i % 10 else rng.choice([80, 150])
        out.append(render3(gen_history3(rng, length)))
    return out


# ------------------------------------------------------------------ model-fidelity audit (AUDIT.md)
# Branches of model H that the older scenario lists did not reach, each with the observable that tells the two
# behaviours apart.  New op words (harness/hx_heap.inc, driver.ml): decn (cbor_decref(&p): was p set to NULL?),
# sallocn (cbor_serialize_alloc with buffer_size == NULL), mkey / mvalue (_cbor_map_add_key / _cbor_map_add_value alone).
U64 = 2 ** 64

def audit_cases(ctx):
    out = []
    A = lambda ops: out.append(_close3(ops))
    R = lambda text: out.append(text)          # histories whose releases are spelled out (decn consumes a reference)
    # ---- cbor_decref(&p): p becomes NULL exactly when the item is deallocated (common.h), for every node kind
    R("bi 0 8 1 ? 0; decn 0")
    R("bi 0 8 1 ? 0; inc 0 ? 0; decn 0 ? 0; decn 0")
    R("nia ? 0; bi 0 8 1 ? 0 1; push 0 1 ? 0 1; decn 1 ? 0; get 0 0 ? 0 2; decn 2 ? 0; decn 0")
    R("bi 0 8 1 ? 0; bt 5 0 ? 0 1; decn 0 ? 1; decn 1")
    R("bs 1 c3a9 ? 0; nis 1 ? 0 1; chunk 1 0 ? 0 1; decn 0 ? 1; decn 1")
    R("nim ? 0; bf 64 7ff8000000000000 ? 0 1; madd 0 1 1 ? 0 1; decn 1 ? 0; copy 0 ? 0 2; decn 0 ? 2; decn 2")
    R("load 83019f02ffa10304 ? 0; get 0 1 ? 0 1; decn 0 ? 1; ser 1 8; decn 1")
    R("nds 0 ? 0; decn 0")
    # ---- a definite string that has no buffer yet (documented state of cbor_new_definite_(byte)string: handle NULL, length 0)
    #      is copied / serialized / described / used as a chunk like any other empty string (AUDIT.md D1)
    for t in (0, 1):
        A(["nds %d" % t, "copy 0", "ser 0 4", "ssize 0", "salloc 0", "desc 0", "val 0", "ser 1 4"])
        A(["nds %d" % t, "nia", "push 1 0", "copy 1", "ser 1 8", "ser 2 8", "salloc 1"])
        A(["nds %d" % t, "nis %d" % t, "chunk 1 0", "ser 1 8", "copy 1", "desc 1"])
        A(["nds %d" % t, "bt 3 0", "copy 1", "ser 2 8"])
    R("nt 7 ? 0; decn 0")
    # ---- cbor_serialize_alloc(item, &buf, NULL)
    R("bi 0 64 18446744073709551615 ? 0; sallocn 0; nia ? 0 1; push 1 0 ? 0 1; sallocn 1; salloc 1; dec 0; dec 1")
    R("nt 3 ? 0; bs 1 c3a9 ? 0 1; tset 0 1; sallocn 0 ? 0 1; salloc 0; dec 0; dec 1")
    R("load bf6161f97e00ff ? 0; sallocn 0; dec 0")
    # ---- the two halves of cbor_map_add on their own: a pair whose value is still NULL is released key-only;
    #      a second _add_value overwrites the slot (the client inherits the reference of the overwritten value)
    R("nim ? 0; bi 0 8 1 ? 0 1; bs 1 61 ? 0 1 2; mkey 0 1 ? 0 1 2; mvalue 0 2 ? 0 1 2; ser 0 16; mkey 0 2 ? 0 1 2; mvalue 0 1 ? 0 1 2; ser 0 16; "
      "copy 0 ? 0 1 2 3; dec 0; dec 1; dec 2; dec 3")
    R("ndm 1 ? 0; bi 0 8 1 ? 0 1; mkey 0 1 ? 0 1; mkey 0 1 ? 0 1; mvalue 0 1 ? 0 1; mvalue 0 1 ? 0 1; ser 0 8; dec 0 ? 1; dec 1; dec 1")
    R("nim ? 0; bi 0 8 1 ? 0 1; mkey 0 1 ? 0 1; mkey 0 1 ? 0 1; mkey 0 1 ? 0 1; dec 0 ? 1; dec 1")
    R("ndm 2 ? 0; bi 0 8 1 ? 0 1; mkey 0 1 ? 0 1; mkey 0 1 ? 0 1; mvalue 0 1 ? 0 1; mkey 0 1 ? 0 1; dec 0 ? 1; dec 1")
    R("ndm 0 ? 0; bi 0 8 1 ? 0 1; mkey 0 1 ? 0 1; madd 0 1 1 ? 0 1; dec 0; dec 1")
    R("load a10102 ? 0; bi 0 8 9 ? 0 1; mkey 0 1 ? 0 1; madd 0 1 1 ? 0 1; ser 0 8; dec 0; dec 1")
    # ---- key == value, the same item many times in one container
    R("nim ? 0; bi 0 8 7 ? 0 1; madd 0 1 1 ? 0 1; madd 0 1 1 ? 0 1; ser 0 8; dec 1 ? 0; ser 0 8; copy 0 ? 0 2; dec 0; dec 2")
    R("ndm 1 ? 0; bs 1 c3a9 ? 0 1; madd 0 1 1 ? 0 1; madd 0 1 1 ? 0 1; vals 0; ser 0 8; dec 0 ? 1; dec 1")
    R("bs 0 61 ? 0; nis 0 ? 0 1; chunk 1 0 ? 0 1; chunk 1 0 ? 0 1; chunk 1 0 ? 0 1; ser 1 12; dec 0 ? 1; copy 1 ? 1 2; dec 1; dec 2")
    # ---- reference count at 0 and at SIZE_MAX: cbor_move at 0 wraps to 2^64-1, cbor_incref at 2^64-1 wraps to 0 (unsigned arithmetic, no release)
    R("bi 0 8 1 ? 0; inc 0 ? 0; mv 0 ? 0; mv 0 ? 0; preds 0; mv 0; preds 0; inc 0; preds 0; inc 0 ? 0; preds 0; dec 0")
    R("nia ? 0; mv 0; mv 0; preds 0; inc 0; inc 0 ? 0; bi 0 8 1 ? 0 1; pushmv 0 1 ? 0; ser 0 4; dec 0")
    # ---- constructors at the guard / cap boundaries: _cbor_alloc_multiple refuses without a request (2^60 pointers, 2^59 pairs),
    #      the allocator refuses the request (just below), the cap boundary (2^20 bytes), size 0
    R("nda 1152921504606846975 ? 0; nda 1152921504606846976 ? 0 1; nda 2305843009213693952 ? 0 1 2; nda 18446744073709551615 ? 0 1 2 3; "
      "nda 131072 ? 4; nda 131073 ? 4 5; dec 4")
    R("ndm 576460752303423487 ? 0; ndm 576460752303423488 ? 0 1; ndm 1152921504606846976 ? 0 1 2; ndm 18446744073709551615 ? 0 1 2 3; "
      "ndm 65536 ? 4; ndm 65537 ? 4 5; dec 4")
    R("nda 0 ? 0; bi 0 8 1 ? 0 1; push 0 1 ? 0 1; set 0 0 1 ? 0 1; repl 0 0 1 ? 0 1; get 0 0 ? 0 1 2; ser 0 2; copy 0 ? 0 1 3; dec 0; dec 1; dec 3")
    R("ndm 0 ? 0; bi 0 8 1 ? 0 1; madd 0 1 1 ? 0 1; ser 0 2; copy 0 ? 0 1 2; dec 0; dec 1; dec 2")
    # ---- cbor_array_set at index == size (push path: refused when a definite array is full, growth when indefinite), size + 1, in range
    R("bi 0 8 1 ? 0; nda 2 ? 0 1; set 1 0 0 ? 0 1; set 1 1 0 ? 0 1; set 1 2 0 ? 0 1; set 1 3 0 ? 0 1; set 1 1 0 ? 0 1; nia ? 0 1 2; set 2 0 0 ? 0 1 2; "
      "set 2 1 0 ? 0 1 2; set 2 2 0 ? 0 1 2; set 2 4 0 ? 0 1 2; set 2 3 0 ? 0 1 2; dec 0; dec 1; dec 2")
    R("bi 0 8 1 ? 0; bi 0 8 2 ? 0 1; nia ? 0 1 2; push 2 0 ? 0 1 2; inc 0 ? 0 1 2; repl 2 0 0 ? 0 1 2; repl 2 0 1 ? 0 1 2; repl 2 0 1 ? 0 1 2; ser 2 8; "
      "dec 0; dec 0; dec 1; dec 2")
    # ---- cbor_copy sizes the copy by size, not by capacity; chunk tables of copies grow 0, 1, 2, 4
    R("bi 0 8 1 ? 0; nda 5 ? 0 1; push 1 0 ? 0 1; push 1 0 ? 0 1; copy 1 ? 0 1 2; push 2 0 ? 0 1 2; ser 2 8; ser 1 8; push 1 0 ? 0 1 2; dec 0; dec 1; dec 2")
    R("bi 0 8 1 ? 0; bs 1 6162 ? 0 1; ndm 4 ? 0 1 2; madd 2 0 1 ? 0 1 2; copy 2 ? 0 1 2 3; madd 3 0 1 ? 0 1 2 3; ser 3 12; dec 0; dec 1; dec 2; dec 3")
    R("bs 0 61 ? 0; nis 0 ? 0 1; copy 1 ? 0 1 2; chunk 1 0 ? 0 1 2; copy 1 ? 0 1 2 3; chunk 1 0 ? 0 1 2 3; copy 1 ? 0 1 2 3 4; chunk 1 0 ? 0 1 2 3 4; "
      "copy 1 ? 0 1 2 3 4 5; chunk 5 0 ? 0 1 2 3 4 5; chunk 5 0 ? 0 1 2 3 4 5; ser 5 16; dec 0; dec 1; dec 2; dec 3; dec 4; dec 5")
    # ---- cbor_new_ctrl stores CBOR_CTRL_NONE (0): readable at once, unlike cbor_new_intN / cbor_new_floatN
    R("nc ? 0; preds 0; vals 0; ser 0 4; ssize 0; copy 0 ? 0 1; vals 1; sc 0 255; vals 0; ser 0 4; sc 0 24; ser 0 4; sc 0 23; ser 0 4; dec 0; dec 1")
    # ---- every builder callback x position through the heap-level decoder, then every read-only observation and a copy
    from .cborgen import AUDIT_HEADS, hx as _hx
    for h in AUDIT_HEADS:
        for enc in (h, [0x82] + h + h, [0xBF] + h + h + [0xFF], [0xA1, 0x01, 0xC1] + h, [0x9F, 0x81] + h + [0xFF]):
            R("load %s ? 0; preds 0; ssize 0; ser 0 40; copy 0 ? 0 1; sallocn 1; decn 0; decn 1" % _hx(enc))
    return out

def audit_fault_cases(ctx):
    """the same calls with every single request (and every request from k on) refused"""
    from .cborgen import AUDIT_HEADS, hx as _hx
    out = ["bi 0 8 1 ? 0; nia ? 0 1; push 1 0 ? 0 1; sallocn 1 ? 0 1; decn 1 ? 0; decn 0",
           "bi 0 16 300 ? 0; bt 9 0 ? 0 1; sallocn 1 ? 0 1; salloc 1 ? 0 1; copy 1 ? 0 1 2; decn 2; decn 1; decn 0",
           "nim ? 0; bi 0 8 7 ? 0 1; madd 0 1 1 ? 0 1; madd 0 1 1 ? 0 1; madd 0 1 1 ? 0 1; copy 0 ? 0 1 2; dec 0; dec 1; dec 2",
           "nda 0 ? 0; ndm 0 ? 0 1; copy 0 ? 0 1 2; copy 1 ? 0 1 2 3; dec 0; dec 1; dec 2; dec 3"]
    for h in AUDIT_HEADS:
        for enc in ([0xA1, 0x01, 0xC1] + h, [0x9F, 0xBF] + h + h + [0xFF, 0xFF], [0x82] + h + h):
            out.append("load %s ? 0; dec 0" % _hx(enc))
    return out

def audit_cap_cases(ctx):
    """histories under SMALL allocator caps (stream arguments 64 / 48): model H applies the cap to every request, so item
    blocks, stack records, payloads and growth steps are refused exactly where the size-cap allocator of the harness refuses"""
    return ["load 9f0102030405060708090a0b0c0d0e0f1011ff ? 0; dec 0", "load bf01020304050607080910111213141516171819ff ? 0; dec 0",
            "load 5f4100410141024103410441054106410741084109ff ? 0; dec 0", "load 8101 ? 0; dec 0", "load 1bffffffffffffffff ? 0; dec 0",
            "load 4100 ? 0; dec 0", "load c1f97e00 ? 0; dec 0", "load 7f6161ff ? 0; dec 0", "load 5828" + "41" * 40 + " ? 0; dec 0",
            "load 5840" + "41" * 64 + " ? 0; dec 0", "load 5841" + "41" * 65 + " ? 0; dec 0", "load 88" + "00" * 8 + " ? 0; dec 0", "load 89" + "00" * 9 + " ? 0; dec 0",
            "load a4" + "0001" * 4 + " ? 0; dec 0", "load a5" + "0001" * 5 + " ? 0; dec 0",
            "bi 0 8 1 ? 0; bi 0 64 1 ? 0 1; nia ? 0 1 2; " + "; ".join(["push 2 0 ? 0 1 2"] * 9) + "; copy 2 ? 0 1 2 3; salloc 2; dec 0; dec 1; dec 2; dec 3",
            "nda 8 ? 0; nda 9 ? 0 1; ndm 4 ? 0 1 2; ndm 5 ? 0 1 2 3; bs 0 " + "41" * 64 + " ? 0 1 2 3 4; bs 0 " + "41" * 65 + " ? 0 1 2 3 4 5; dec 0; dec 1; dec 2; dec 3; dec 4; dec 5"]


def audit_assert_cases(ctx):
    """one history per CBOR_ASSERT that model H renders as assert_ / FType on a client-reachable path: the assert-enabled
    build must abort on THAT assertion where the model says Fault (compared after canonicalisation, dbg flavour only; in the
    release build these calls are undefined behaviour and are not run)"""
    return [
        "ni 8 ? 0; su 16 0 5", "ni 64 ? 0; su 32 0 5", "bs 0 61 ? 0; su 8 0 5", "bs 0 61 ? 0; mku 0", "nia ? 0; mkn 0",
        "ni 8 ? 0; sf 32 0 0", "nf 16 ? 0; sf 32 0 0", "nf 64 ? 0; sf 16 0 0", "nf 32 ? 0; sf 64 0 0",
        "bi 0 8 1 ? 0; sc 0 5", "bf 32 0 ? 0; sc 0 5", "bc 5 ? 0; sb 0 1", "nc ? 0; sb 0 0", "bi 0 8 1 ? 0; sb 0 1", "bf 64 0 ? 0; sb 0 1",
        "bi 0 8 1 ? 0; inc 0 ? 0; mv 0 ? 0; mv 0 ? 0; dec 0", "bi 0 8 1 ? 0; inc 0 ? 0; mv 0 ? 0; mv 0 ? 0; idec 0",
        "bi 0 8 1 ? 0; bi 0 8 2 ? 0 1; push 0 1", "bi 0 8 1 ? 0; bi 0 8 2 ? 0 1; madd 0 1 1", "bi 0 8 1 ? 0; bi 0 8 2 ? 0 1; tset 0 1",
        "bi 0 8 1 ? 0; titem 0", "bs 0 61 ? 0; bs 0 62 ? 0 1; chunk 0 1", "bs 1 61 ? 0; bs 1 62 ? 0 1; chunk 0 1", "nis 0 ? 0; seth 0 6162", "nis 1 ? 0; seth 0 6162",
        "bi 1 8 1 ? 0; sert uint 0 4", "bi 0 8 1 ? 0; sert negint 0 4", "bs 1 61 ? 0; sert bytes 0 4", "bs 0 61 ? 0; sert string 0 4",
        "nim ? 0; sert array 0 4", "nia ? 0; sert map 0 4", "nia ? 0; sert tag 0 4", "nt 1 ? 0; sert fc 0 4", "bf 16 0 ? 0; sert uint 0 4", "bc 20 ? 0; sert tag 0 1",
        # AUDIT.md D3: cbor_bytestring_add_chunk asserts cbor_isa_bytestring(chunk) and cbor_bytestring_is_definite(chunk)
        # (model: FAssert 20 / 21); cbor_string_add_chunk asserts nothing about the chunk
        "bi 0 8 1 ? 0; nis 0 ? 0 1; chunk 1 0", "bs 1 61 ? 0; nis 0 ? 0 1; chunk 1 0", "nis 0 ? 0; nis 0 ? 0 1; chunk 1 0",
        "nis 1 ? 0; nis 0 ? 0 1; chunk 1 0", "nia ? 0; nis 0 ? 0 1; chunk 1 0", "nt 1 ? 0; nis 0 ? 0 1; chunk 1 0", "bf 32 0 ? 0; nis 0 ? 0 1; chunk 1 0",
        # D3b: a text string accepts any chunk, and cbor_serialize_string then asserts cbor_isa_string on it (model: FAssert 73)
        "bs 0 61 ? 0; nis 1 ? 0 1; chunk 1 0 ? 0 1; ser 1 8", "bi 0 8 1 ? 0; nis 1 ? 0 1; chunk 1 0 ? 0 1; ser 1 8",
        "nia ? 0; nis 1 ? 0 1; chunk 1 0 ? 0 1; ser 1 8", "nt 1 ? 0; nis 1 ? 0 1; chunk 1 0 ? 0 1; ser 1 8",
        "nis 0 ? 0; nis 1 ? 0 1; chunk 1 0 ? 0 1; ser 1 8", "bs 0 61 ? 0; nis 1 ? 0 1; chunk 1 0 ? 0 1; salloc 1",
        # ... while cbor_copy and cbor_decref of such a text string assert nothing (cbor_string_add_chunk takes the copy as it is)
        "bs 0 61 ? 0; nis 1 ? 0 1; chunk 1 0 ? 0 1; copy 1 ? 0 1 2; dec 2; dec 1 ? 0; dec 0",
        "bi 0 8 1 ? 0; nis 1 ? 0 1; chunk 1 0 ? 0 1; copy 1 ? 0 1 2; dec 0 ? 1 2; dec 1 ? 2; dec 2",
        # the chunk of a byte string is copied by cbor_copy and handed to cbor_bytestring_add_chunk: definite byte strings pass
        "bs 0 61 ? 0; nis 0 ? 0 1; chunk 1 0 ? 0 1; copy 1 ? 0 1 2; ser 2 8; dec 2; dec 1; dec 0",
    ]
