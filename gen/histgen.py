"""Legal API histories (C04 C06 C11 C12 C13): a shadow of the client's own references keeps
every generated history rule-following: the client touches an item only through a handle for
which it still holds a reference of its own; containers stay acyclic (an item is only ever
inserted into a container created after... no: into a container that is not reachable from it)."""
from .cborgen import hx
from .treegen import half_to_f32bits

class Shadow:
    def __init__(self, rng):
        self.rng = rng
        self.ops = []          # text of each op (without probes)
        self.kind = []         # per handle: kind string or None (NULL-able results are still tracked optimistically)
        self.own = []          # per handle: references the client holds through this handle
        self.reach = []        # per handle: set of handle-ids (by identity group) reachable from it (for acyclicity)
        self.ident = []        # per handle: identity id (handles from get/titem alias an existing item)
        self.children = {}     # ident -> list of idents contained
        self.nid = 0
        self.defcap = {}       # ident -> remaining capacity of a definite container
        self.size = {}         # ident -> number of entries
        self.tagfull = {}      # ident -> tag has a child
    def add(self, text, kind, ident=None):
        self.ops.append(text)
        if ident is None:
            ident = self.nid; self.nid += 1
            self.children[ident] = []
        self.kind.append(kind); self.own.append(1); self.ident.append(ident)
        return len(self.kind) - 1
    def op(self, text):
        self.ops.append(text)
    def live(self, kinds=None):
        return [h for h in range(len(self.kind)) if self.own[h] > 0 and (kinds is None or self.kind[h] in kinds)]
    def reaches(self, a, b, seen=None):
        """can ident a reach ident b through containment?"""
        if a == b: return True
        seen = seen or set()
        if a in seen: return False
        seen.add(a)
        return any(self.reaches(c, b, seen) for c in self.children.get(a, []))
    def probes(self):
        return [h for h in range(len(self.kind)) if self.own[h] > 0]

def leaf_op(rng):
    k = rng.randrange(6)
    if k == 0:
        w = rng.choice([8, 16, 32, 64])
        return "bi %d %d %d" % (rng.randrange(2), w, rng.choice([0, 23, 24, (1 << w) - 1, rng.randrange(1 << w)])), "int"
    if k == 1:
        w = rng.choice([16, 32, 64])
        bits = half_to_f32bits(rng.randrange(65536)) if w == 16 else rng.randrange(1 << w)
        return "bf %d %x" % (w, bits), "float"
    if k == 2:
        return "bc %d" % rng.choice([20, 21, 22, 23, 0, 255]), "ctrl"
    n = rng.choice([0, 1, 3, 24])
    t = rng.randrange(2)
    return "bs %d %s" % (t, hx([rng.randrange(0x41, 0x7B) for _ in range(n)])), ("ts" if t else "bs")

def gen_history(rng, length, with_load=True, containers_only=False):
    s = Shadow(rng)
    for _ in range(length):
        r = rng.random()
        live = s.live()
        arrs = s.live({"arr", "arri"}); maps = s.live({"map", "mapi"}); tags = s.live({"tag"})
        chs = s.live({"bsi", "tsi"})
        if r < 0.22 or not live:
            text, kind = leaf_op(rng); s.add(text, kind)
        elif r < 0.34:
            k = rng.randrange(7)
            if k == 0:
                n = rng.randrange(0, 4); h = s.add("nda %d" % n, "arr"); s.defcap[s.ident[h]] = n
            elif k == 1: s.add("nia", "arri")
            elif k == 2:
                n = rng.randrange(0, 3); h = s.add("ndm %d" % n, "map"); s.defcap[s.ident[h]] = n
            elif k == 3: s.add("nim", "mapi")
            elif k == 4: h = s.add("nt %d" % rng.choice([0, 24, 2 ** 64 - 1]), "tag"); s.tagfull[s.ident[h]] = False
            elif k == 5: s.add("nis 0", "bsi")
            else: s.add("nis 1", "tsi")
        elif r < 0.50 and arrs:
            a = rng.choice(arrs); x = rng.choice(live)
            if s.reaches(s.ident[x], s.ident[a]):
                continue
            s.op("push %d %d" % (a, x))
            ia = s.ident[a]
            if s.kind[a] == "arri" or s.defcap.get(ia, 0) > 0:
                s.children[ia].append(s.ident[x]); s.size[ia] = s.size.get(ia, 0) + 1
                if s.kind[a] == "arr": s.defcap[ia] -= 1
        elif r < 0.58 and arrs:
            a = rng.choice(arrs); ia = s.ident[a]
            i = rng.randrange(0, s.size.get(ia, 0) + 3)
            if i < s.size.get(ia, 0):
                s.add("get %d %d" % (a, i), None, ident=None)
                # the handle aliases the element: find its identity
                h = len(s.kind) - 1
                s.ident[h] = s.children[ia][i]
                s.kind[h] = s.kind_of_ident(s.children[ia][i]) if hasattr(s, "kind_of_ident") else kind_of(s, s.children[ia][i])
            else:
                h = s.add("get %d %d" % (a, i), None); s.own[h] = 0     # NULL result
        elif r < 0.64 and arrs:
            a = rng.choice(arrs); ia = s.ident[a]; x = rng.choice(live)
            if s.reaches(s.ident[x], ia):
                continue
            i = rng.randrange(0, s.size.get(ia, 0) + 3)
            which = rng.choice(["set", "repl"])
            s.op("%s %d %d %d" % (which, a, i, x))
            n = s.size.get(ia, 0)
            if i < n:
                s.children[ia][i] = s.ident[x]
            elif i == n and which == "set":
                if s.kind[a] == "arri" or s.defcap.get(ia, 0) > 0:
                    s.children[ia].append(s.ident[x]); s.size[ia] = n + 1
                    if s.kind[a] == "arr": s.defcap[ia] -= 1
        elif r < 0.72 and maps:
            m = rng.choice(maps); k = rng.choice(live); v = rng.choice(live); im = s.ident[m]
            if s.reaches(s.ident[k], im) or s.reaches(s.ident[v], im):
                continue
            s.op("madd %d %d %d" % (m, k, v))
            if s.kind[m] == "mapi" or s.defcap.get(im, 0) > 0:
                s.children[im] += [s.ident[k], s.ident[v]]; s.size[im] = s.size.get(im, 0) + 1
                if s.kind[m] == "map": s.defcap[im] -= 1
        elif r < 0.77 and chs:
            c = rng.choice(chs); want = "bs" if s.kind[c] == "bsi" else "ts"
            xs = s.live({want})
            if not xs: continue
            x = rng.choice(xs)
            s.op("chunk %d %d" % (c, x)); s.children[s.ident[c]].append(s.ident[x])
        elif r < 0.82 and tags:
            t = rng.choice(tags); it = s.ident[t]
            k = rng.randrange(3)
            if k == 0 and not s.tagfull.get(it, True):
                x = rng.choice(live)
                if s.reaches(s.ident[x], it): continue
                s.op("tset %d %d" % (t, x)); s.children[it] = [s.ident[x]]; s.tagfull[it] = True
            elif k == 1 and s.tagfull.get(it):
                h = s.add("titem %d" % t, None, ident=s.children[it][0]); s.kind[h] = kind_of(s, s.children[it][0])
            else:
                continue
        elif r < 0.85:
            x = rng.choice(live)
            h = s.add("bt %d %d" % (rng.choice([1, 100, 2 ** 32]), x), "tag")
            s.children[s.ident[h]] = [s.ident[x]]; s.tagfull[s.ident[h]] = True
        elif r < 0.88:
            h = rng.choice(live); s.op("inc %d" % h); s.own[h] += 1
        elif r < 0.94:
            h = rng.choice(live); s.op("dec %d" % h); s.own[h] -= 1
        elif r < 0.97:
            h = rng.choice(live)
            if not complete(s, s.ident[h]): continue
            n = s.add("copy %d" % h, s.kind[h])
            clone(s, s.ident[h], s.ident[n])
        elif r < 0.985:
            h = rng.choice(live)
            if not complete(s, s.ident[h]): continue
            if s.kind[h] is None: continue
            s.op(rng.choice(["ssize %d" % h, "ser %d %d" % (h, rng.randrange(0, 12)), "salloc %d" % h, "desc %d" % h, "val %d" % h, "val %d" % h]))
        elif with_load:
            from .cborgen import random_enc
            e = random_enc(rng, 2)
            bs = e.bs if rng.random() < 0.7 else e.bs[:rng.randrange(len(e.bs) + 1)]
            h = s.add("load %s" % hx(bs), "loaded")
            s.own[h] = 0   # result may be NULL: the shadow does not use it further except to release it
            s.ops[-1] = s.ops[-1]
            s.op("dec %d" % h)
    # release everything the client still holds
    for h in range(len(s.kind)):
        while s.own[h] > 0:
            s.op("dec %d" % h); s.own[h] -= 1
    return s

def kind_of(s, ident):
    for h in range(len(s.kind)):
        if s.ident[h] == ident and s.kind[h]:
            return s.kind[h]
    return "int"

def complete(s, ident, seen=None):
    """every tag below has its child (serialize/copy of a childless tag dereferences NULL)"""
    seen = seen or set()
    if ident in seen: return True
    seen.add(ident)
    if ident in s.tagfull and not s.tagfull[ident]:
        return False
    return all(complete(s, c, seen) for c in s.children.get(ident, []))

def clone(s, src, dst):
    s.size[dst] = s.size.get(src, 0)
    if src in s.tagfull: s.tagfull[dst] = s.tagfull[src]
    if src in s.defcap: s.defcap[dst] = 0
    kids = []
    for c in s.children.get(src, []):
        n = s.nid; s.nid += 1; s.children[n] = []
        clone(s, c, n); kids.append(n)
    s.children[dst] = kids

def render(s, probes=True):
    """attach probes: after each op, every handle for which the client holds a reference"""
    # recompute ownership step by step to know who is live after each op
    own = []
    out = []
    for text in s.ops:
        w = text.split()
        o = w[0]
        creates = o in ("bi", "bf", "bc", "bs", "nis", "nda", "nia", "ndm", "nim", "nt", "bt", "get", "titem", "copy", "load")
        if creates:
            own.append(1)
        if o == "inc": own[int(w[1])] += 1
        if o == "dec": own[int(w[1])] -= 1
        live = [h for h in range(len(own)) if own[h] > 0]
        out.append(text + (" ? " + " ".join(map(str, live)) if probes and live else ""))
    return "; ".join(out)

def hist_cases(ctx):
    rng = ctx.rng
    from .cborgen import nest, hx as _hx
    out = []
    n = 400 if ctx.tier == "quick" else 6000
    for i in range(n):
        length = rng.choice([3, 5, 8, 12, 20, 40]) if i % 10 else rng.choice([80, 150])
        out.append(render(gen_history(rng, length)))
    return out

def fault_cases(ctx):
    rng = ctx.rng
    out = structured_fault_cases(ctx) + load_fault_cases(ctx)
    n = 120 if ctx.tier == "quick" else 2500
    for i in range(n):
        out.append(render(gen_history(rng, rng.choice([2, 3, 4, 6, 8, 10]))))
    return out

def thr_cases(ctx):
    rng = ctx.rng
    out = []
    runs = 24 if ctx.tier == "quick" else 500
    for i in range(runs):
        n = rng.choice([2, 3, 4, 8, 16])
        hs = [render(gen_history(rng, rng.choice([10, 30, 60]))) for _ in range(n)]
        # every thread also decodes half / single / double floats, text and nested containers
        hs = [_close(["load f9%04x" % rng.randrange(65536), "load 82f93c00fa7fc00000", "load 7f6161ff", "desc 1"]) + "; " + h.replace("? ", "? ") if False else h for h in hs]
        hs = [_close(["load f9%04x" % rng.randrange(65536), "load 83f93c00fa7fc00000c16161"]) if i % 2 == 0 else h for i, h in enumerate(hs)] + hs[:1]
        out.append(" || ".join(hs))
    return out

def shared_cases(ctx):
    from . import treegen
    trees = treegen.enumerated_trees(ctx)
    rng = ctx.rng
    big = "(arr " + " ".join(treegen.random_tree(rng, 3) for _ in range(40)) + ")"
    picks = [t for t in trees if "(tag" in t or "(map" in t][:: (20 if ctx.tier == "quick" else 3)] + [big]
    return ["%d %s" % (rng.choice([2, 4, 8, 16]), t) for t in picks]

# ------------------------------------------------------------------ structured fault scenarios
def _hist(ops):
    """attach probes / final releases to a plain op list (handles numbered in creation order)"""
    from vlib.props import close_history  # late import (registry defines it)
    return close_history(ops)

def structured_fault_cases(ctx):
    """growth at every capacity boundary, copy and load of containers of every size: so that the
    fault enumeration refuses the 1st, 2nd, 3rd ... growth request, not only the first"""
    from .cborgen import hx as _hx
    out = []
    maxn = 6 if ctx.tier == "quick" else 10
    for n in range(1, maxn):
        out.append(["bi 0 8 1", "nia"] + ["push 1 0"] * n)
        out.append(["bi 1 16 300", "nim", "bs 1 6162"] + ["madd 1 0 2"] * n)
        out.append(["bs 0 6162", "nis 0"] + ["chunk 1 0"] * n)
        out.append(["bs 1 c3a9", "nis 1"] + ["chunk 1 0"] * n)
    for n in (1, 2, 3, 5):
        out.append(["bi 1 8 5", "nia"] + ["push 1 0"] * n + ["copy 1"])
        out.append(["bi 1 64 99", "nim", "bf 32 3f800000"] + ["madd 1 0 2"] * n + ["copy 1"])
        out.append(["bs 0 00", "nis 0"] + ["chunk 1 0"] * n + ["copy 1"])
        out.append(["bi 0 8 1", "nda %d" % n] + ["push 1 0"] * n + ["copy 1", "salloc 1"])
        out.append(["bi 1 8 1", "bt 7 0", "bt 8 1", "copy 2", "salloc 2"])
    return [_close(o) for o in out]

LOAD_FAULT_INPUTS = [
    [0x01], [0x39, 0x01, 0x00], [0x44, 1, 2, 3, 4], [0x65, 0x68, 0x65, 0x6C, 0x6C, 0x6F], [0xF9, 0x3C, 0x00], [0xF6],
    [0x82, 0x01, 0x02], [0x9F, 0x01, 0x02, 0xFF], [0x9F, 0x01, 0x02, 0x03, 0x04, 0x05, 0xFF], [0xA1, 0x01, 0x02], [0xBF, 0x01, 0x02, 0x03, 0x04, 0x05, 0x06, 0xFF],
    [0xC1, 0x01], [0xC1, 0xC2, 0x80], [0x5F, 0x41, 0x00, 0x42, 0x01, 0x02, 0x41, 0x03, 0xFF], [0x7F, 0x61, 0x61, 0x61, 0x62, 0x61, 0x63, 0xFF],
    [0xA1, 0x01, 0x82, 0xC1, 0x02, 0x9F, 0x03, 0xFF], [0x83, 0x9F, 0xFF, 0xBF, 0xFF, 0x5F, 0xFF], [0x82, 0x01],   # truncated
    [0x9F, 0x01, 0x1C], [0x82, 0xFF], [0x5F, 0x01, 0xFF], [0xBF, 0x01, 0xFF],                                      # malformed / syntax errors with partial trees
    [0x82, 0x61, 0x61, 0xA2, 0x01, 0x9F, 0x02, 0x03, 0xFF, 0x04, 0xC5, 0x44, 9, 9, 9, 9],
]

def load_fault_cases(ctx):
    from .cborgen import hx as _hx, random_enc
    out = []
    for b in LOAD_FAULT_INPUTS:
        out.append(_close(["load %s" % _hx(b)]))
    for _ in range(10 if ctx.tier == "quick" else 300):
        e = random_enc(ctx.rng, 3)
        if 0 < len(e.bs) <= 40:
            out.append(_close(["load %s" % _hx(e.bs)]))
    return out

def _close(ops):
    own, text = [], []
    for o in ops:
        w = o.split()
        if w[0] in ("bi", "bf", "bc", "bs", "nis", "nda", "nia", "ndm", "nim", "nt", "bt", "get", "titem", "copy", "load", "nds"):
            own.append(1)
        if w[0] == "inc": own[int(w[1])] += 1
        if w[0] == "dec": own[int(w[1])] -= 1
        live = [h for h in range(len(own)) if own[h] > 0]
        text.append(o + (" ? " + " ".join(map(str, live)) if live else ""))
    for h in range(len(own)):
        for _ in range(max(0, own[h])):
            text.append("dec %d" % h)
    return "; ".join(text)


def limit_load_cases(L):
    def gen(ctx):
        from .cborgen import nest, hx as _hx
        out = []
        for k in ("tag", "arr", "arri", "mapv", "mapiv"):
            for d in (L - 1, L, L + 1, L + 2):
                if d >= 0:
                    out.append(_close(["bi 0 8 1", "load %s" % _hx(nest(k, d, (0x01,))), "load %s" % _hx(nest(k, d, (0x5F, 0x41, 0x00, 0xFF)))]))
        return out
    return gen


def sethandle_cases(ctx):
    """client-provided buffers: new definite string, set_handle, shorten in place, use in containers, copy, release"""
    rng = ctx.rng
    out = []
    for t in (0, 1):
        for data in ("-", "61", "c3a96162", "000102030405060708090a0b0c0d0e0f101112131415161718"):
            n = 0 if data == "-" else len(data) // 2
            out.append(_close(["nds %d" % t, "seth 0 %s" % data, "val 0", "ser 0 40"]))
            for k in sorted({0, n // 2, max(0, n - 1), n}):
                out.append(_close(["nds %d" % t, "seth 0 %s" % data, "shorten 0 %d" % k, "val 0", "ser 0 40", "copy 0", "ssize 1"]))
            out.append(_close(["nds %d" % t, "seth 0 %s" % data, "nia", "push 1 0", "shorten 0 %d" % (n // 2), "copy 1", "ser 2 40"]))
            out.append(_close(["nds %d" % t, "seth 0 %s" % data, "nis %d" % t, "chunk 1 0", "shorten 0 %d" % max(0, n - 1), "ser 1 40", "copy 1"]))
    return out
