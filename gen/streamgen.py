"""Case generators for dec1 / enc / frag / mem streams (C08 C09 C10 C15 C20 C07)."""
from .cborgen import hx, head, enumerated, random_enc, Enc, leaf_encs

B32 = [0, 1, 23, 24, 255, 256, 65535, 65536, 2 ** 31 - 1, 2 ** 31, 2 ** 32 - 2, 2 ** 32 - 1]
B64 = B32 + [2 ** 32, 2 ** 32 + 1, 2 ** 53, 2 ** 63 - 1, 2 ** 63, 2 ** 64 - 10, 2 ** 64 - 9, 2 ** 64 - 8, 2 ** 64 - 2, 2 ** 64 - 1]

def pow2pm(bits):
    s = set()
    for i in range(bits + 1):
        for d in (-1, 0, 1):
            v = (1 << i) + d
            if 0 <= v < (1 << bits):
                s.add(v)
    return sorted(s)

def arg_len(ib):
    ai = ib & 31
    return {24: 1, 25: 2, 26: 4, 27: 8}.get(ai, 0)

def dec1_cases(ctx):
    rng = ctx.rng
    out = [[]]
    payload = [0x61 + (i % 26) for i in range(64)]
    for ib in range(256):
        k = arg_len(ib)
        mt = ib >> 5
        # argument values
        if k == 0:
            args = [[]]
        elif k == 1:
            args = [[v] for v in range(256)] if ctx.tier != "quick" or mt in (0, 2, 3, 7) else [[v] for v in (0, 1, 23, 24, 31, 32, 127, 128, 255)]
        elif k == 2:
            if ib == 0xF9 or (ib == 0x19 and ctx.tier != "quick"):
                args = [[v >> 8, v & 255] for v in range(65536)]
            elif ib == 0x19:
                args = [[v >> 8, v & 255] for v in range(0, 65536, 7)] + [[255, 255]]
            else:
                args = [list(v.to_bytes(2, "big")) for v in (0, 1, 23, 24, 255, 256, 257, 4096, 32767, 32768, 65534, 65535)]
        elif k == 4:
            args = [list(v.to_bytes(4, "big")) for v in B32 + [rng.randrange(2 ** 32) for _ in range(6)]]
        else:
            args = [list(v.to_bytes(8, "big")) for v in B64 + [rng.randrange(2 ** 64) for _ in range(6)]]
        many = len(args) > 300
        for a in args:
            full = [ib] + a
            if mt in (2, 3) and (ib & 31) < 28:
                n = int.from_bytes(bytes(a), "big") if a else (ib & 31)
                if n <= 40:
                    full = full + payload[:n]
                    if many:
                        out.append(full); out.append(full[:-1] if n else full); out.append(full + [0xEE])
                        continue
                    for l in range(len(full) + 1):
                        out.append(full[:l])
                    out.append(full + [0xEE])
                else:
                    # declared length far beyond the buffer
                    for extra in (0, 1, 3, 9):
                        out.append(full + payload[:extra])
                    continue
            else:
                if many:
                    out.append(full); out.append(full + [0xEE])
                    continue
                for l in range(len(full) + 1):
                    out.append(full[:l])
                out.append(full + [0xEE])
                out.append(full + [0xEE, 0xFF])
    # a FINISHED result must not depend on any byte beyond those reported as read: every initial byte with its
    # smallest complete head (+ payload), followed by every possible next byte, and by a copy of itself
    for ib in range(256):
        full = min_token(ib)
        for t in range(256):
            out.append(full + [t])
        out.append(full + full)
    # what a head reader does may not depend on HOW MUCH input follows the head (a wide load on a long buffer, a fast path
    # when "enough" bytes are available): one representative of every initial byte with a non-trivial argument (value 2 in the
    # low byte, and a value using every argument byte), followed by 2..17 further bytes
    for ib in range(256):
        k = arg_len(ib)
        mt = ib >> 5
        forms = [min_token(ib)]
        if k:
            a = [2] if k == 1 else [0] * (k - 1) + [2]
            b = list(range(1, k + 1))
            forms = [[ib] + a, [ib] + b]
            if mt in (2, 3):
                forms = [[ib] + a + [0x61, 0x62]]
        for full in forms:
            for extra in (2, 3, 4, 7, 8, 9, 15, 16, 17):
                out.append(full + [0x01 + (i % 5) for i in range(extra)])
    return [hx(b) for b in out]

def min_token(ib):
    """the shortest complete head (with payload for definite strings) starting with initial byte ib"""
    k = arg_len(ib)
    mt = ib >> 5
    if mt in (2, 3) and (ib & 31) < 28:
        if k == 0:
            return [ib] + [0x61] * (ib & 31)
        return [ib] + [0] * (k - 1) + [1, 0x61]
    return [ib] + [0] * (k - 1) + ([1] if k else [])

# one initial byte per (major type, argument form) class, reserved / unsupported ones included
HEAD_CLASSES = [0x00, 0x17, 0x18, 0x19, 0x1A, 0x1B, 0x1C, 0x1F, 0x20, 0x38, 0x3B, 0x40, 0x41, 0x58, 0x5B, 0x5F, 0x60, 0x61, 0x78, 0x7F,
                0x80, 0x81, 0x98, 0x9B, 0x9F, 0xA0, 0xA1, 0xB8, 0xBF, 0xC0, 0xD8, 0xDB, 0xE0, 0xF4, 0xF6, 0xF7, 0xF8, 0xF9, 0xFA, 0xFB, 0xFC, 0xFF]

# ------------------------------------------------------------------ encoders
ENC_INT = {"uint8": 8, "uint16": 16, "uint32": 32, "uint64": 64, "uint": 64, "negint8": 8, "negint16": 16, "negint32": 32, "negint64": 64,
           "negint": 64, "bytestring_start": 64, "string_start": 64, "array_start": 64, "map_start": 64, "tag": 64, "ctrl": 8}
ENC_NOARG = ["indef_bytestring_start", "indef_string_start", "indef_array_start", "indef_map_start", "null", "undef", "break"]

def enc_values(name, bits, ctx):
    if bits == 8:
        return list(range(256))
    if bits == 16:
        return list(range(65536)) if (ctx.tier != "quick" or name == "uint16") else pow2pm(16) + list(range(0, 65536, 97))
    vals = set(pow2pm(bits)) | {v for v in B64 if v < (1 << bits)}
    for _ in range(40 if ctx.tier == "quick" else 2000):
        vals.add(ctx.rng.randrange(1 << bits))
    return sorted(vals)

def enc_cases(ctx):
    out = []
    for name, bits in ENC_INT.items():
        vals = enc_values(name, bits, ctx)
        for v in vals:
            sizes = range(0, 11) if (len(vals) <= 400 or v in (0, 23, 24, 255, 256, 65535)) else (9, 2)
            for n in sizes:
                out.append("%s %d %d" % (name, v, n))
    for name in ENC_NOARG:
        for n in range(0, 4):
            out.append("%s 0 %d" % (name, n))
    for v in (0, 1):
        for n in range(0, 3):
            out.append("bool %d %d" % (v, n))
    # floats: half encoder on every exponent class x boundary mantissas, singles / doubles on boundaries
    for bits in float32_patterns(ctx):
        for n in ((3, 2, 0) if bits % 7 == 0 else (3,)):
            out.append("half 0x%x %d" % (bits, n))
        out.append("single 0x%x 5" % bits)
    for bits in (0, 1, 0x7F800000, 0x7FC00000, 0x7F800001, 0xFFC00001, 0x3F800000):
        for n in range(0, 7):
            out.append("single 0x%x %d" % (bits, n))
    for bits in float64_patterns(ctx):
        out.append("double 0x%x 9" % bits)
    for bits in (0, 0x7FF0000000000000, 0x7FF8000000000000, 0x7FF0000000000001, 0xFFF8000000000001, 0x3FF0000000000000):
        for n in range(0, 11):
            out.append("double 0x%x %d" % (bits, n))
    return out

def float32_patterns(ctx):
    s = set()
    mants = [0, 1, 2, 0x1000, 0x1FFF, 0x2000, 0x3FFFFF, 0x400000, 0x400001, 0x7FE000, 0x7FFFFE, 0x7FFFFF]
    for e in range(256):
        for m in mants:
            for sign in (0, 1):
                s.add((sign << 31) | (e << 23) | m)
    for _ in range(200 if ctx.tier == "quick" else 20000):
        s.add(ctx.rng.randrange(2 ** 32))
    if ctx.tier != "quick":
        for v in range(0, 2 ** 32, 65537):
            s.add(v)
    return sorted(s)

def float64_patterns(ctx):
    s = set()
    mants = [0, 1, 2 ** 51, 2 ** 51 + 1, 2 ** 52 - 1, 2 ** 29, 2 ** 42 - 1]
    for e in range(2048):
        for m in (mants if e in (0, 1, 1022, 1023, 1024, 2046, 2047) or ctx.tier != "quick" else mants[:2]):
            for sign in (0, 1):
                s.add((sign << 63) | (e << 52) | m)
    for _ in range(200 if ctx.tier == "quick" else 20000):
        s.add(ctx.rng.randrange(2 ** 64))
    return sorted(s)

def float_dec_cases(ctx):
    """decoder side of C15: all halves, pattern sets of singles and doubles"""
    out = [[0xF9, v >> 8, v & 255] for v in range(65536)]
    out += [[0xFA] + list(v.to_bytes(4, "big")) for v in float32_patterns(ctx)]
    out += [[0xFB] + list(v.to_bytes(8, "big")) for v in float64_patterns(ctx)]
    return [hx(b) for b in out]

def half_roundtrip_cases(ctx):
    """(f16 <binary32 bits of each half value>) trees: serialize must reproduce the half"""
    return None

# ------------------------------------------------------------------ guards
def mem_cases(ctx):
    vals = set()
    for i in range(65):
        for d in (-2, -1, 0, 1, 2):
            v = (1 << i) + d
            if 0 <= v < 2 ** 64:
                vals.add(v)
    vals |= {3, 5, 6, 7, 24, 255, 256, 65535, 65536, 2 ** 32 - 1, 2 ** 64 - 9}
    vals = sorted(vals)
    out = []
    for a in vals:
        out.append("hb %d 0" % a)
        out.append("hdr %d 0" % a)
        out.append("grow %d 0" % a)
        out.append("growm %d 0" % a)
        out.append("growc %d 0" % a)
        out.append("growc %d 1" % a)
    pairs = [(a, b) for a in vals for b in vals] if ctx.tier != "quick" else \
            [(a, b) for i, a in enumerate(vals) for j, b in enumerate(vals) if (i + j) % 3 == 0 or a < 4 or b < 4 or abs(a.bit_length() + b.bit_length() - 64) <= 1]
    for a, b in pairs:
        out.append("mul %d %d" % (a, b))
        out.append("add %d %d" % (a, b))
        out.append("sadd %d %d" % (a, b))
    for a in (1, 8, 16, 24, 48):
        for b in vals:
            out.append("allocm %d %d" % (a, b))
    for _ in range(300 if ctx.tier == "quick" else 20000):
        a, b = ctx.rng.randrange(2 ** ctx.rng.randrange(1, 65)), ctx.rng.randrange(2 ** ctx.rng.randrange(1, 65))
        out.append("mul %d %d" % (a, b)); out.append("add %d %d" % (a, b)); out.append("sadd %d %d" % (a, b))
    return out

# ------------------------------------------------------------------ fragments
def frag_cases(ctx):
    rng = ctx.rng
    streams = []
    enum = enumerated(1)
    step = 4 if ctx.tier == "quick" else 1
    for i in range(0, len(enum) - 2, step):
        streams.append(enum[i].bs + enum[i + 1].bs)
    for _ in range(150 if ctx.tier == "quick" else 3000):
        s = []
        for _ in range(rng.randrange(1, 5)):
            s += random_enc(rng, rng.randrange(3)).bs
        streams.append(s)
    # raw head sequences (not well-formed items; the tokeniser does not care), long strings, bad heads
    streams += [[0x9F, 0x01, 0xFF, 0xFF, 0x81], [0x5F, 0x01, 0x61, 0x41], [0x58, 0x20] + [0x41] * 0x20 + [0x01],
                [0x79, 0x01, 0x00] + [0x62] * 256 + [0xF6], [0x01, 0x1C, 0x02], [0x83, 0x01, 0xF8, 0x01], [0xFB, 1, 2, 3, 4, 5, 6, 7, 8, 0x00],
                [0x5B, 0xFF, 0xFF, 0xFF, 0xFF, 0xFF, 0xFF, 0xFF, 0xFF, 0x01, 0x02], [0x7B, 0xFF, 0xFF, 0xFF, 0xFF, 0xFF, 0xFF, 0xFF, 0xF7, 0x01],
                [0x5A, 0xFF, 0xFF, 0xFF, 0xFF, 0x00]]
    out = []
    # every ordered pair of head classes, and every initial byte followed by itself: one-shot, cut at the token
    # boundary, byte-at-a-time (a decoder that peeks at the next token answers differently in the three deliveries)
    pairs = [(a, b) for a in HEAD_CLASSES for b in HEAD_CLASSES] + [(a, a) for a in range(256)]
    for a, b in pairs:
        ta, tb = min_token(a), min_token(b)
        s = ta + tb
        out.append([s]); out.append([ta, tb]); out.append([[x] for x in s])
        if len(ta) > 1:
            out.append([ta[:1], ta[1:] + tb])
    for s in streams:
        n = len(s)
        if n == 0:
            continue
        out.append([s])
        cuts = range(1, n) if n <= 48 else sorted(set(rng.randrange(1, n) for _ in range(24)))
        for c in cuts:                       # every single cut point
            out.append([s[:c], s[c:]])
        if n <= 64:
            out.append([[b] for b in s])     # byte-at-a-time
        for _ in range(2):                   # random cuts
            pts = sorted(set(rng.randrange(0, n + 1) for _ in range(rng.randrange(1, 5))))
            fr, prev = [], 0
            for p in pts + [n]:
                fr.append(s[prev:p]); prev = p
            out.append(fr)
    return [" ".join(hx(f) for f in fr) for fr in out]


# ------------------------------------------------------------------ model-fidelity audit (AUDIT.md)
def audit_frag_cases(ctx):
    """the client loop of C09 with EMPTY deliveries in every place (before, between, inside a head, after the end), deliveries
    after an ERROR, and `required` exactly at / one below the saturation point of claim_bytes"""
    out = ["-", "- -", "- 01", "01 -", "01 - -", "- - 19 - 01 - 00 -", "1c 01", "01 1c 01", "01 - 1c - 01", "f9 7e - 00 ff", "ff - ff",
           "5b ffffffffffffffff 01", "5b fffffffffffffff7 -", "5b fffffffffffffff6 01", "5b fffffffffffffff5 - 01", "7b - ffffffffffffffff",
           "5b 00 00 00 00 00 00 00 00 01", "5b0000000000000000 - 01", "5f - 41 - 00 - ff", "bf - ff", "19", "19 -", "19 01", "19 01 -"]
    for ib in (0x18, 0x19, 0x1A, 0x1B, 0x58, 0x79, 0x9A, 0xBB, 0xD8, 0xF9, 0xFA, 0xFB):
        t = min_token(ib)
        for k in range(1, len(t)):
            out.append("%s - %s - 01" % (hx(t[:k]), hx(t[k:])))
    return out

def audit_dec1_cases(ctx):
    """one call per head form with the buffer ending at every offset, the library's own no-op callback table is run on the same
    buffer by the harness (EMPTYCB marker)"""
    out = [[]]
    for ib in (0x00, 0x17, 0x18, 0x1B, 0x1C, 0x37, 0x3B, 0x40, 0x57, 0x58, 0x5B, 0x5F, 0x77, 0x7B, 0x7F, 0x97, 0x9B, 0x9F, 0xB7, 0xBB, 0xBF, 0xD7, 0xDB,
               0xE0, 0xF3, 0xF4, 0xF5, 0xF6, 0xF7, 0xF8, 0xF9, 0xFA, 0xFB, 0xFC, 0xFF):
        t = min_token(ib)
        for k in range(1, len(t) + 1):
            out.append(t[:k])
        out.append(t + [0x00])
    return [hx(b) for b in out]

def audit_cases(ctx):
    """the dec1 family (the frag family is audit_frag_cases)"""
    return audit_dec1_cases(ctx)
