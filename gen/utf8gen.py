"""Case generators for the utf8 / dfa streams (C16)."""
REPS = [0x00, 0x41, 0x7F, 0x80, 0x8F, 0x90, 0x9F, 0xA0, 0xBF, 0xC0, 0xC1, 0xC2, 0xDF, 0xE0, 0xE1, 0xEC,
        0xED, 0xEE, 0xEF, 0xF0, 0xF1, 0xF3, 0xF4, 0xF5, 0xFF]

def hx(bs):
    return "".join("%02x" % b for b in bs) if bs else "-"

def enc_scalar(cp):
    if cp < 0x80: return [cp]
    if cp < 0x800: return [0xC0 | cp >> 6, 0x80 | cp & 63]
    if cp < 0x10000: return [0xE0 | cp >> 12, 0x80 | (cp >> 6) & 63, 0x80 | cp & 63]
    return [0xF0 | cp >> 18, 0x80 | (cp >> 12) & 63, 0x80 | (cp >> 6) & 63, 0x80 | cp & 63]

BOUNDARY_CPS = [0, 0x7F, 0x80, 0x7FF, 0x800, 0xFFF, 0x1000, 0xCFFF, 0xD000, 0xD7FF, 0xE000, 0xFFFF, 0x10000,
                0x3FFFF, 0x40000, 0xFFFFF, 0x100000, 0x10FFFF]

def utf8_cases(ctx):
    out = [[]]
    out += [[a] for a in range(256)]
    out += [[a, b] for a in range(256) for b in range(256)]
    if ctx.tier == "quick":
        out += [[a, b, c] for a in REPS for b in REPS for c in REPS]
        out += [[a, b, c, d] for a in (0xF0, 0xF1, 0xF4, 0xE0, 0xED) for b in REPS for c in REPS for d in (0x7F, 0x80, 0xBF, 0xC0)]
        nrand = 2000
    else:
        out += [[a, b, c] for a in range(256) for b in REPS for c in REPS]
        out += [[a, b, c, d] for a in REPS for b in REPS for c in REPS for d in REPS]
        nrand = 30000
    rng = ctx.rng
    for _ in range(nrand):
        n = rng.randint(1, 6)
        cps = []
        for _ in range(n):
            r = rng.random()
            if r < 0.3:
                cp = rng.choice(BOUNDARY_CPS)
            elif r < 0.5:
                cp = rng.randint(0, 0x7F)
            elif r < 0.7:
                cp = rng.randint(0x80, 0xFFFF)
            else:
                cp = rng.randint(0x10000, 0x10FFFF)
            if 0xD800 <= cp <= 0xDFFF:
                cp = 0xE000
            cps.append(cp)
        bs = [b for cp in cps for b in enc_scalar(cp)]
        out.append(bs)
        # one injected fault at every position: overwrite / delete / insert continuation
        pos = rng.randrange(len(bs))
        for p in ([pos] if ctx.tier == "quick" else range(len(bs))):
            out.append(bs[:p] + [rng.choice(REPS)] + bs[p + 1:])
            out.append(bs[:p] + bs[p + 1:])
            out.append(bs[:p] + [0x80] + bs[p:])
    # run-length structure: a multi-byte character split by a run of ASCII (or other) bytes of every
    # length 1..9 at every position (aimed at loops that process several bytes per iteration)
    for cp in (0xE9, 0x20AC, 0x1F600, 0x7FF, 0x800, 0xFFFF, 0x10000):
        e = enc_scalar(cp)
        for p in range(1, len(e)):
            for k in range(1, 10):
                for fill in ([0x61], [0x80], [0xC3, 0xA9]):
                    run = (fill * k)[:k]
                    out.append(e[:p] + run + e[p:])
                    out.append([0x41] * (k - 1) + e[:p] + run + e[p:] + [0x42] * (k % 3))
        for k in range(0, 10):
            out.append([0x61] * k + e + [0x62] * k)
            out.append([0x61] * k + e[:-1])
            out.append(e[:1] + [0x61] * k)
    # surrogates, overlongs, above U+10FFFF
    out += [[0xED, 0xA0, 0x80], [0xED, 0xBF, 0xBF], [0xED, 0x9F, 0xBF], [0xC0, 0x80], [0xC1, 0xBF], [0xE0, 0x80, 0x80],
            [0xE0, 0x9F, 0xBF], [0xE0, 0xA0, 0x80], [0xF0, 0x80, 0x80, 0x80], [0xF0, 0x8F, 0xBF, 0xBF], [0xF0, 0x90, 0x80, 0x80],
            [0xF4, 0x8F, 0xBF, 0xBF], [0xF4, 0x90, 0x80, 0x80], [0xF5, 0x80, 0x80, 0x80], [0xF8, 0x88, 0x80, 0x80, 0x80]]
    return [hx(b) for b in out]

def dfa_cases(ctx):
    return ["%d %d" % (s, b) for s in (0, 2, 3, 4, 5, 6, 7, 8) for b in range(256)]
