"""Item trees as S-expressions (input of the ser / copy streams): enumerated and random
construction-call shapes over every builder, width and boundary value."""
import struct

BV = {8: [0, 1, 23, 24, 255], 16: [0, 23, 24, 255, 256, 65535], 32: [0, 24, 65535, 65536, 2 ** 32 - 1],
      64: [0, 24, 2 ** 32 - 1, 2 ** 32, 2 ** 64 - 1]}

def half_to_f32bits(h):
    f = struct.unpack(">e", struct.pack(">H", h))[0]
    if f != f:
        return 0x7FC00000
    return struct.unpack(">I", struct.pack(">f", f))[0]

def hexs(bs):
    return bytes(bs).hex() if bs else "-"

def leaves(rng=None):
    out = []
    for w, vs in BV.items():
        for v in vs:
            out.append("(u%d %d)" % (w, v)); out.append("(n%d %d)" % (w, v))
    for d in ([], [0x61], [0x00, 0xFF], list(range(24)), list(range(0x41, 0x41 + 25)), [0xC3, 0xA9], [0xED, 0xA0, 0x80], [0x80]):
        out.append("(bs %s)" % hexs(d)); out.append("(ts %s)" % hexs(d))
    out.append("(bs %s)" % hexs([0x55] * 256)); out.append("(ts %s)" % hexs([0x41] * 300))
    for c in (0, 1, 19, 20, 21, 22, 23, 24, 31, 32, 100, 255):
        out.append("(ctrl %d)" % c)
    for h in (0x0000, 0x8000, 0x0001, 0x03FF, 0x0400, 0x3C00, 0x7BFF, 0x7C00, 0xFC00, 0x7E00, 0x7C01, 0xC000, 0x3555):
        out.append("(f16 %x)" % half_to_f32bits(h))
    for b in (0, 0x80000000, 0x3F800000, 0x7F800000, 0xFF800000, 0x7FC00000, 0x7F800001, 0xFFFFFFFF, 0x00000001, 0x33800000, 0x477FE000):
        out.append("(f32 %x)" % b)
    for b in (0, 1 << 63, 0x3FF0000000000000, 0x7FF0000000000000, 0x7FF8000000000000, 0x7FF0000000000001, 0xFFFFFFFFFFFFFFFF, 1):
        out.append("(f64 %x)" % b)
    return out

def chunked():
    out = []
    for k in ("bsi", "tsi"):
        out += ["(%s)" % k, "(%s -)" % k, "(%s 61)" % k, "(%s 6162 - 63)" % k, "(%s %s 01)" % (k, hexs(list(range(30)))), "(%s 01 02 03 04 05)" % k]
    return out

def wrap(x, y="(u8 1)"):
    return ["(tag 0 %s)" % x, "(tag 23 %s)" % x, "(tag 24 %s)" % x, "(tag 65536 %s)" % x, "(tag 18446744073709551615 %s)" % x,
            "(arr %s)" % x, "(arr %s %s)" % (y, x), "(arri %s)" % x, "(arri %s %s %s)" % (x, y, x),
            "(map %s %s)" % (x, y), "(map %s %s)" % (y, x), "(mapi %s %s)" % (x, y), "(mapi %s %s %s %s)" % (y, x, x, y)]

def enumerated_trees(ctx):
    lv = leaves()
    out = list(lv) + chunked() + ["(arr)", "(arri)", "(map)", "(mapi)"]
    base = ["(u8 24)", "(n64 18446744073709551615)", "(bs 0102)", "(ts c3a9)", "(bsi 61 62)", "(tsi)", "(arr)", "(arri)", "(map)", "(mapi)",
            "(ctrl 22)", "(f16 3f800000)", "(f32 7fc00000)", "(f64 3ff0000000000000)", "(tag 1 (u8 0))"]
    l1 = []
    for x in base:
        l1 += wrap(x)
    out += l1
    for x in l1[:: (7 if ctx.tier == "quick" else 2)]:
        out += wrap(x)[:: (3 if ctx.tier == "quick" else 1)]
    # wide containers: 23 / 24 / 25 entries, 255 / 256 entries (header width boundaries)
    for n in (23, 24, 25, 255, 256):
        out.append("(arr %s)" % " ".join("(u8 %d)" % (i % 24) for i in range(n)))
        out.append("(map %s)" % " ".join("(u8 %d) (ctrl 20)" % (i % 24) for i in range(n)))
        out.append("(arri %s)" % " ".join("(u8 1)" for i in range(n)))
    for x in lv[::5]:
        out += wrap(x)[:4]
    # partially filled definite containers (capacity > size), also nested and still empty
    for cap in (1, 2, 4, 24, 25, 300):
        out += ["(arrd %d)" % cap, "(mapd %d)" % cap, "(arrd %d (u8 1))" % (cap + 1), "(mapd %d (u8 1) (ts 61))" % (cap + 1),
                "(arri (arrd %d (u8 1) (u8 2)) (u8 3))" % (cap + 2), "(tag 9 (mapd %d (u8 1) (arrd %d)))" % (cap + 1, cap)]
    return out

def random_tree(rng, depth):
    r = rng.random()
    if depth <= 0 or r < 0.4:
        k = rng.randrange(8)
        if k < 2:
            w = rng.choice([8, 16, 32, 64])
            v = rng.choice(BV[w] + [rng.randrange(1 << w)])
            return "(%s%d %d)" % ("u" if k == 0 else "n", w, v)
        if k < 4:
            n = rng.choice([0, 1, 3, 23, 24, 40])
            return "(%s %s)" % ("bs" if k == 2 else "ts", hexs([rng.randrange(256) for _ in range(n)]))
        if k == 4:
            return "(%s%s)" % (rng.choice(["bsi", "tsi"]), "".join(" " + hexs([rng.randrange(0x41, 0x7B) for _ in range(rng.randrange(3))]) for _ in range(rng.randrange(4))))
        if k == 5:
            return "(ctrl %d)" % rng.choice([20, 21, 22, 23, 0, 19, 24, 32, 255, rng.randrange(256)])
        if k == 6:
            return "(f16 %x)" % half_to_f32bits(rng.randrange(65536))
        if rng.random() < 0.5:
            return "(f32 %x)" % rng.choice([rng.randrange(2 ** 32), 0x7F800001, 0x7FC00000, 0])
        return "(f64 %x)" % rng.choice([rng.randrange(2 ** 64), 0x7FF0000000000001, 0x7FF8000000000000, 0])
    k = rng.randrange(5)
    if rng.random() < 0.08:
        n = rng.randrange(3)
        return "(arrd %d%s)" % (n + rng.randrange(1, 4), "".join(" " + random_tree(rng, depth - 1) for _ in range(n)))
    if k == 0:
        return "(tag %d %s)" % (rng.choice([0, 23, 24, 255, 256, 65535, 65536, 2 ** 32, 2 ** 64 - 1, rng.randrange(2 ** 64)]), random_tree(rng, depth - 1))
    n = rng.randrange(4)
    if k in (1, 2):
        return "(%s%s)" % ("arr" if k == 1 else "arri", "".join(" " + random_tree(rng, depth - 1) for _ in range(n)))
    return "(%s%s)" % ("map" if k == 3 else "mapi", "".join(" " + random_tree(rng, depth - 1) for _ in range(2 * n)))

def ser_cases(ctx):
    out = enumerated_trees(ctx)
    for _ in range(400 if ctx.tier == "quick" else 20000):
        out.append(random_tree(ctx.rng, ctx.rng.randrange(4)))
    return out

def sizesser_cases(ctx):
    """the sizes cases in which every declared length is at least 2^32 (so no buffer of a few bytes can hold them)"""
    import re
    out = []
    for c in sizes_cases(ctx):
        ns = [int(y) for grp in re.findall(r"\((?:bsz|tsz|bszi|tszi)((?: \d+)+)\)", c) for y in grp.split()]
        if ns and all(n >= 2 ** 32 for n in ns):
            out.append(c)
    return out

def sizes_cases(ctx):
    """trees with declared string lengths near 2^61..2^64: partial sums that fit, wrap exactly, wrap by one"""
    rng = ctx.rng
    big = [2 ** 61, 2 ** 62, 2 ** 63 - 1, 2 ** 63, 2 ** 63 + 1, 2 ** 64 - 30, 2 ** 64 - 20, 2 ** 64 - 12, 2 ** 64 - 10, 2 ** 64 - 9, 2 ** 64 - 2, 2 ** 64 - 1, 0, 1, 23, 24, 2 ** 32]
    out = []
    for a in big:
        out += ["(bsz %d)" % a, "(tsz %d)" % a, "(tag 1 (bsz %d))" % a, "(arr (bsz %d))" % a, "(arri (tsz %d) (u8 1))" % a,
                "(map (u8 1) (bsz %d))" % a, "(map (bsz %d) (u8 1))" % a, "(mapi (bsz %d) (u64 5))" % a, "(bszi %d)" % a, "(tszi 1 %d 2)" % a]
    for a in big[:10]:
        for b in big[:10]:
            out += ["(map (bsz %d) (tsz %d))" % (a, b), "(arr (bsz %d) (tsz %d))" % (a, b), "(mapi (u8 1) (u8 2) (bsz %d) (bsz %d))" % (a, b),
                    "(bszi %d %d)" % (a, b), "(tag %d (arr (tsz %d) (u8 0)))" % (b, a), "(map (arr (bsz %d)) (arri (bsz %d)))" % (a, b)]
    for _ in range(200 if ctx.tier == "quick" else 5000):
        k = rng.randrange(2, 5)
        parts = " ".join("(bsz %d)" % rng.choice([rng.randrange(2 ** 64), 2 ** 64 // k, 2 ** 64 // k - 9, 2 ** 62, 5]) for _ in range(k))
        out.append(rng.choice(["(arr %s)", "(arri %s)", "(tag 7 (arr %s))"]) % parts)
        out.append("(map %s)" % " ".join("(bsz %d)" % rng.choice([2 ** 63 - 5, 2 ** 63 - 4, 2 ** 63, 7, 2 ** 62]) for _ in range(2 * rng.randrange(1, 3))))
    return out


# ------------------------------------------------------------------ model-fidelity audit (AUDIT.md)
def audit_cases(ctx):
    """trees for the ser / rt / copy / rdonly family that sit on the remaining case splits of PItem.ssize / serialize_into:
    capacity-0 and partially filled definite containers in every position (head from size, never from capacity), empty
    chunks at either end, simple values on both sides of the one-byte form, half items holding values NO half can represent
    (cbor_encode_half rounds / flushes: the model's bit-level function must agree through the item path too), all NaN kinds"""
    out = ["(arrd 0)", "(mapd 0)", "(tag 0 (arrd 0))", "(map (arrd 3) (mapd 2))", "(map (arrd 3 (u8 1)) (mapd 2 (u8 1) (u8 2)))",
           "(arri (arrd 24) (mapd 24) (arrd 25 (ctrl 20)))", "(mapi (tag 24 (arrd 1)) (arrd 256 (u8 0)))",
           "(bsi - - -)", "(tsi - c3a9 -)", "(bsi - 61)", "(tsi 61 -)", "(arr (bsi) (tsi) (bs -) (ts -))",
           "(arr (ctrl 0) (ctrl 23) (ctrl 24) (ctrl 31) (ctrl 32) (ctrl 255))", "(map (ctrl 24) (ctrl 23))", "(tag 23 (ctrl 24))"]
    for b in (0x33800000, 0x33000000, 0x33000001, 0x337fffff, 0x33800001, 0x38800000, 0x387fc000, 0x387fe000, 0x387ff000, 0x477fe000, 0x477ff000, 0x47800000,
              0x7f7fffff, 0xff7fffff, 0x00000001, 0x80000001, 0x007fffff, 0x3f800001, 0x3f801000, 0x3f802000, 0x3f803000, 0x7f800001, 0xff800001, 0x7fffffff, 0xffc00000):
        out.append("(f16 %x)" % b)
        out.append("(arr (f16 %x))" % b)
    for b in (0x7f800001, 0xffc00001, 0x7fbfffff, 0xffffffff):
        out.append("(tag 1 (f32 %x))" % b)
    for b in (0x7ff0000000000001, 0xfff8000000000001, 0x7ff7ffffffffffff, 0xffffffffffffffff):
        out.append("(mapi (f64 %x) (f64 %x))" % (b, b))
    return out
