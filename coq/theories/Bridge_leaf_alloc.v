(* generated memory_utils.c: _cbor_alloc_multiple / _cbor_realloc_multiple = the model's
   allocator request alloc_multiple_req (this run's AST).  Some n = "the allocator is asked for
   n bytes", None = "NULL without a request". *)
From Coq Require Import ZArith NArith List Bool Lia ZifyBool ZifyN ZifyNat.
Import ListNotations.
From CB Require Import Word PStream PEnc PMem GenLeafTypes BridgeTac Bridge_leaf_mem.
From CBGen Require Import Gen_leaf.
Ltac Zify.zify_post_hook ::= Z.div_mod_to_equations.
Local Open Scope Z_scope.

Lemma safe_to_multiply_comm w a b : safe_to_multiply w a b = safe_to_multiply w b a.
Proof. unfold safe_to_multiply. rewrite orb_comm, N.add_comm. reflexivity. Qed.

(* the guard call is replaced by the model's guard (in either argument order), then the usual
   normalise / split / lia sweep decides the rest (the product, its wrap, the branch taken) *)
Ltac alloc_bridge a b Ha Hb :=
  cbv zeta;
  rewrite ?(bridge_safe_to_multiply a b Ha Hb), ?(bridge_safe_to_multiply b a Hb Ha), ?(safe_to_multiply_comm 64 b a);
  unfold alloc_multiple_req;
  destruct (safe_to_multiply 64 a b); norm; cbn [negb andb orb option_map];
  splits; cbn [option_map]; try reflexivity; try (f_equal; lia); try (exfalso; lia).

Lemma bridge_alloc_multiple a b : (a < 2^64)%N -> (b < 2^64)%N ->
  g_cbor_alloc_multiple (Z.of_N a) (Z.of_N b) = option_map Z.of_N (alloc_multiple_req 64 a b).
Proof.
  intros Ha Hb.
  lazymatch eval compute in g_cbor_alloc_multiple_supported with
  | true => unfold g_cbor_alloc_multiple; alloc_bridge a b Ha Hb
  | false => unfold g_cbor_alloc_multiple, fb_cbor_alloc_multiple; rewrite !N2Z.id; reflexivity
  end.
Qed.

Lemma bridge_realloc_multiple a b : (a < 2^64)%N -> (b < 2^64)%N ->
  g_cbor_realloc_multiple (Z.of_N a) (Z.of_N b) = option_map Z.of_N (alloc_multiple_req 64 a b).
Proof.
  intros Ha Hb.
  lazymatch eval compute in g_cbor_realloc_multiple_supported with
  | true => unfold g_cbor_realloc_multiple; alloc_bridge a b Ha Hb
  | false => unfold g_cbor_realloc_multiple, fb_cbor_realloc_multiple; rewrite !N2Z.id; reflexivity
  end.
Qed.
Print Assumptions bridge_alloc_multiple.
Print Assumptions bridge_realloc_multiple.
