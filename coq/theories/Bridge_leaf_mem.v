(* generated memory_utils.c / _cbor_encoded_header_size = the model's guards (this run's AST) *)
From Coq Require Import ZArith NArith List Bool Lia ZifyBool ZifyN ZifyNat.
Import ListNotations.
From CB Require Import Word PStream PEnc PMem GenLeafTypes BridgeTac.
From CBGen Require Import Gen_leaf.
Ltac Zify.zify_post_hook ::= Z.div_mod_to_equations.
Local Open Scope Z_scope.
(* ---- memory_utils.c ---- *)
(* the loop of _cbor_highest_bit, whatever its rendering: any loop (through the generic combinator wloop), over
   any state type, with two projections `bit` and `number` such that the condition is "number != 0" and the
   body maps them to "bit + 1, number / 2" on in-range states computes highest_bit_f.  The projections are
   found by trying the components of the state tuple; the side conditions are discharged by the normalise /
   split / lia automation, so `for` vs `while`, the order of the updates, `>>= 1` vs `/= 2`, renamed or
   additional loop-carried locals do not matter. *)
Lemma wloop_hb_gen {S : Type} (pb pn : S -> Z) (cond : S -> bool) (body : S -> S) :
  (forall s b n, pb s = Z.of_N b -> pn s = Z.of_N n -> (n < 2^64)%N -> (b < 2^64)%N -> cond s = negb (n =? 0)%N) ->
  (forall s b n, pb s = Z.of_N b -> pn s = Z.of_N n -> (n < 2^64)%N -> (b + 1 < 2^64)%N -> n <> 0%N ->
     pb (body s) = Z.of_N (b + 1) /\ pn (body s) = Z.of_N (n / 2)) ->
  forall fuel s b n, pb s = Z.of_N b -> pn s = Z.of_N n -> (n < 2^64)%N -> (b + N.of_nat fuel < 2^64)%N ->
  pb (wloop fuel cond body s) = Z.of_N (highest_bit_f fuel n b).
Proof.
  intros Hc Hb. induction fuel as [|f IH]; intros s b n Eb En Hn Hf; [exact Eb|].
  cbn [wloop highest_bit_f]. rewrite (Hc s b n Eb En Hn) by lia.
  destruct (N.eqb_spec n 0) as [->|Hne]; cbn [negb]; [exact Eb|].
  destruct (Hb s b n Eb En Hn ltac:(lia) Hne) as [Eb' En'].
  apply IH; [exact Eb'|exact En'| |lia]. pows. apply N.div_lt_upper_bound; lia.
Qed.

Ltac hb_side :=
  let s := fresh "s" in let Eb := fresh "Eb" in let En := fresh "En" in
  intros s ? ? Eb En; intros; destruct_pairs; cbn [fst snd] in Eb, En; subst;
  cbv beta iota zeta; cbn [fst snd]; try split; bridge.
Lemma bridge_highest_bit n : (n < 2^64)%N -> g_cbor_highest_bit (Z.of_N n) = Z.of_N (highest_bit 64 n).
Proof.
  intros Hn.
  lazymatch eval compute in g_cbor_highest_bit_supported with
  | false => unfold g_cbor_highest_bit, fb_cbor_highest_bit; rewrite !N2Z.id; reflexivity
  | true =>
    unfold g_cbor_highest_bit, highest_bit; cbv zeta; change (S (N.to_nat 64)) with 65%nat;
    lazymatch goal with
    | |- context [@wloop ?T ?fuel ?C ?B ?init] =>
        let k := tuple_arity T in
        upto k ltac:(fun ib => upto k ltac:(fun inn =>
          neq_nat ib inn;
          let pb := tuple_proj T k ib in let pn := tuple_proj T k inn in
          let H := fresh "H" in
          pose proof (wloop_hb_gen pb pn C B ltac:(hb_side) ltac:(hb_side) fuel init 0%N n
                        ltac:(cbn [fst snd]; norm; lia) ltac:(cbn [fst snd]; norm; lia) Hn ltac:(pows; lia)) as H;
          let W := fresh "W" in
          remember (wloop fuel C B init) as W eqn:EW; clear EW; destruct_pairs;
          cbv beta in H; cbn [fst snd] in H; cbv beta iota zeta; subst; solve [bridge]))
    end
  end.
Qed.

Lemma hbf_le : forall f n b, (highest_bit_f f n b <= b + N.of_nat f)%N.
Proof.
  induction f as [|f IH]; intros n b; cbn [highest_bit_f]; [lia|].
  destruct (n =? 0)%N; [lia|]. specialize (IH (n / 2)%N (b + 1)%N). lia.
Qed.

Lemma bridge_safe_to_multiply a b : (a < 2^64)%N -> (b < 2^64)%N ->
  g_cbor_safe_to_multiply (Z.of_N a) (Z.of_N b) = b2z (safe_to_multiply 64 a b).
Proof.
  intros Ha Hb.
  first
  [ unfold g_cbor_safe_to_multiply, safe_to_multiply;
    rewrite !bridge_highest_bit by assumption;
    pose proof (hbf_le 65 a 0) as Ba; pose proof (hbf_le 65 b 0) as Bb;
    unfold highest_bit in *; change (S (N.to_nat 64)) with 65%nat in *;
    set (ha := highest_bit_f 65 a 0) in *; set (hb := highest_bit_f 65 b 0) in *; clearbody ha hb;
    solve [bridge]
  | unfold g_cbor_safe_to_multiply, fb_cbor_safe_to_multiply; rewrite !N2Z.id; reflexivity ].
Qed.

Lemma bridge_safe_to_add a b : (a < 2^64)%N -> (b < 2^64)%N ->
  g_cbor_safe_to_add (Z.of_N a) (Z.of_N b) = b2z (safe_to_add 64 a b).
Proof.
  intros Ha Hb.
  first [ unfold g_cbor_safe_to_add, safe_to_add; cbv zeta; solve [bridge]
        | unfold g_cbor_safe_to_add, fb_cbor_safe_to_add; rewrite !N2Z.id; reflexivity ].
Qed.

Lemma bridge_safe_signaling_add a b : (a < 2^64)%N -> (b < 2^64)%N ->
  g_cbor_safe_signaling_add (Z.of_N a) (Z.of_N b) = Z.of_N (safe_signaling_add 64 a b).
Proof.
  intros Ha Hb.
  first [ unfold g_cbor_safe_signaling_add, safe_signaling_add; cbv zeta;
          rewrite ?bridge_safe_to_add by assumption; destruct (safe_to_add 64 a b); solve [bridge]
        | (* the guard is inlined / re-derived (e.g. `b > SIZE_MAX - a`): compare the arithmetic directly *)
          unfold g_cbor_safe_signaling_add, g_cbor_safe_to_add, safe_signaling_add, safe_to_add; cbv zeta; solve [bridge]
        | unfold g_cbor_safe_signaling_add, fb_cbor_safe_signaling_add; rewrite !N2Z.id; reflexivity ].
Qed.

Lemma bridge_header_size s : g_cbor_encoded_header_size (Z.of_N s) = Z.of_N (header_size s).
Proof.
  first [ unfold g_cbor_encoded_header_size, header_size; cbv zeta; solve [bridge]
        | unfold g_cbor_encoded_header_size, fb_cbor_encoded_header_size; rewrite !N2Z.id; reflexivity ].
Qed.

