(* generated memory_utils.c / _cbor_encoded_header_size = the model's guards (this run's AST) *)
From Coq Require Import ZArith NArith List Bool Lia ZifyBool ZifyN ZifyNat.
Import ListNotations.
From CB Require Import Word PStream PEnc PMem GenLeafTypes BridgeTac.
From CBGen Require Import Gen_leaf.
Ltac Zify.zify_post_hook ::= Z.div_mod_to_equations.
Local Open Scope Z_scope.
(* ---- memory_utils.c ---- *)
Lemma hb_loop_bridge : forall fuel number bit, (number < 2^64)%N -> (bit + N.of_nat fuel < 2^64)%N ->
  fst (g_cbor_highest_bit_loop0 fuel (Z.of_N bit) (Z.of_N number)) = Z.of_N (highest_bit_f fuel number bit).
Proof.
  induction fuel as [|f IH]; intros number bit Hn Hb; [reflexivity|].
  cbn [highest_bit_f g_cbor_highest_bit_loop0]. destruct (N.eqb_spec number 0) as [->|Hne].
  - reflexivity.
  - assert (E : nz (b2z (negb (Z.of_N number =? 0))) = true) by (unfold nz, b2z; destruct (Z.eqb_spec (Z.of_N number) 0); [lia|reflexivity]).
    rewrite E. cbv zeta.
    replace (wrapz 64 (Z.of_N bit + 1)) with (Z.of_N (bit + 1)) by (norm; lia).
    replace (Z.shiftr (Z.of_N number) 1) with (Z.of_N (number / 2)) by (shifts; pows; lia).
    apply IH; pows; [|lia]. apply N.div_lt_upper_bound; lia.
Qed.

Lemma bridge_highest_bit n : (n < 2^64)%N -> g_cbor_highest_bit (Z.of_N n) = Z.of_N (highest_bit 64 n).
Proof.
  intros Hn. unfold g_cbor_highest_bit, highest_bit. cbv zeta.
  change (S (N.to_nat 64)) with 65%nat.
  pose proof (hb_loop_bridge 65 n 0 Hn ltac:(pows; lia)) as H. change (Z.of_N 0) with 0 in H.
  destruct (g_cbor_highest_bit_loop0 65 0 (Z.of_N n)) as [b m]. exact H.
Qed.

Lemma hbf_le : forall f n b, (highest_bit_f f n b <= b + N.of_nat f)%N.
Proof.
  induction f as [|f IH]; intros n b; cbn [highest_bit_f]; [lia|].
  destruct (n =? 0)%N; [lia|]. specialize (IH (n / 2)%N (b + 1)%N). lia.
Qed.

Lemma bridge_safe_to_multiply a b : (a < 2^64)%N -> (b < 2^64)%N ->
  g_cbor_safe_to_multiply (Z.of_N a) (Z.of_N b) = b2z (safe_to_multiply 64 a b).
Proof.
  intros Ha Hb. unfold g_cbor_safe_to_multiply, safe_to_multiply.
  rewrite !bridge_highest_bit by assumption.
  pose proof (hbf_le 65 a 0) as Ba. pose proof (hbf_le 65 b 0) as Bb.
  unfold highest_bit in *. change (S (N.to_nat 64)) with 65%nat in *.
  set (ha := highest_bit_f 65 a 0) in *. set (hb := highest_bit_f 65 b 0) in *. clearbody ha hb.
  bridge.
Qed.

Lemma bridge_safe_to_add a b : (a < 2^64)%N -> (b < 2^64)%N ->
  g_cbor_safe_to_add (Z.of_N a) (Z.of_N b) = b2z (safe_to_add 64 a b).
Proof. intros Ha Hb. unfold g_cbor_safe_to_add, safe_to_add. cbv zeta. bridge. Qed.

Lemma bridge_safe_signaling_add a b : (a < 2^64)%N -> (b < 2^64)%N ->
  g_cbor_safe_signaling_add (Z.of_N a) (Z.of_N b) = Z.of_N (safe_signaling_add 64 a b).
Proof.
  intros Ha Hb. unfold g_cbor_safe_signaling_add, safe_signaling_add.
  rewrite bridge_safe_to_add by assumption. destruct (safe_to_add 64 a b); bridge.
Qed.

Lemma bridge_header_size s : g_cbor_encoded_header_size (Z.of_N s) = Z.of_N (header_size s).
Proof. unfold g_cbor_encoded_header_size, header_size. bridge. Qed.

