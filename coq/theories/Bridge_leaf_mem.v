(* generated memory_utils.c / _cbor_encoded_header_size = the model's guards (this run's AST) *)
From Coq Require Import ZArith NArith List Bool Lia ZifyBool ZifyN ZifyNat.
Import ListNotations.
From CB Require Import Word PStream PEnc PMem GenLeafTypes BridgeTac.
From CBGen Require Import Gen_leaf.
Ltac Zify.zify_post_hook ::= Z.div_mod_to_equations.
Local Open Scope Z_scope.
(* ---- memory_utils.c ---- *)
(* the loop of _cbor_highest_bit, whatever its rendering: any loop (through the generic combinator wloop)
   whose condition is "number != 0" and whose body is "bit + 1, number / 2" on in-range states computes
   highest_bit_f; both orders of the state pair are covered.  The side conditions are discharged by the
   normalise / split / lia automation, so `for` vs `while`, the order of the two updates, `>>= 1` vs `/= 2`
   do not matter. *)
Lemma wloop_hb (cond : Z * Z -> bool) (body : Z * Z -> Z * Z) :
  (forall b n, (n < 2^64)%N -> (b < 2^64)%N -> cond (Z.of_N b, Z.of_N n) = negb (n =? 0)%N) ->
  (forall b n, (n < 2^64)%N -> (b + 1 < 2^64)%N -> n <> 0%N -> body (Z.of_N b, Z.of_N n) = (Z.of_N (b + 1), Z.of_N (n / 2))) ->
  forall fuel n b, (n < 2^64)%N -> (b + N.of_nat fuel < 2^64)%N ->
  fst (wloop fuel cond body (Z.of_N b, Z.of_N n)) = Z.of_N (highest_bit_f fuel n b).
Proof.
  intros Hc Hb. induction fuel as [|f IH]; intros n b Hn Hf; [reflexivity|].
  cbn [wloop highest_bit_f]. rewrite Hc by lia. destruct (N.eqb_spec n 0) as [->|Hne]; cbn [negb]; [reflexivity|].
  rewrite Hb by lia. apply IH; [|lia]. pows. apply N.div_lt_upper_bound; lia.
Qed.
Lemma wloop_hb_swapped (cond : Z * Z -> bool) (body : Z * Z -> Z * Z) :
  (forall b n, (n < 2^64)%N -> (b < 2^64)%N -> cond (Z.of_N n, Z.of_N b) = negb (n =? 0)%N) ->
  (forall b n, (n < 2^64)%N -> (b + 1 < 2^64)%N -> n <> 0%N -> body (Z.of_N n, Z.of_N b) = (Z.of_N (n / 2), Z.of_N (b + 1))) ->
  forall fuel n b, (n < 2^64)%N -> (b + N.of_nat fuel < 2^64)%N ->
  snd (wloop fuel cond body (Z.of_N n, Z.of_N b)) = Z.of_N (highest_bit_f fuel n b).
Proof.
  intros Hc Hb. induction fuel as [|f IH]; intros n b Hn Hf; [reflexivity|].
  cbn [wloop highest_bit_f]. rewrite Hc by lia. destruct (N.eqb_spec n 0) as [->|Hne]; cbn [negb]; [reflexivity|].
  rewrite Hb by lia. apply IH; [|lia]. pows. apply N.div_lt_upper_bound; lia.
Qed.

Ltac hb_side := intros; cbv beta iota zeta; repeat f_equal; bridge.
Lemma bridge_highest_bit n : (n < 2^64)%N -> g_cbor_highest_bit (Z.of_N n) = Z.of_N (highest_bit 64 n).
Proof.
  intros Hn.
  lazymatch eval compute in g_cbor_highest_bit_supported with
  | false => unfold g_cbor_highest_bit, fb_cbor_highest_bit; rewrite !N2Z.id; reflexivity
  | true =>
    unfold g_cbor_highest_bit, highest_bit; cbv zeta; change (S (N.to_nat 64)) with 65%nat;
    lazymatch goal with
    | |- context [wloop ?fuel ?C ?B (?x, ?y)] =>
        first
        [ (* state (bit, number) *)
          pose proof (wloop_hb C B ltac:(hb_side) ltac:(hb_side) fuel n 0%N Hn ltac:(pows; lia)) as H;
          change (wloop fuel C B (Z.of_N 0, Z.of_N n)) with (wloop fuel C B (x, y)) in H;
          destruct (wloop fuel C B (x, y)) as [r1 r2]; cbn [fst] in H; subst r1; solve [bridge]
        | (* state (number, bit) *)
          pose proof (wloop_hb_swapped C B ltac:(hb_side) ltac:(hb_side) fuel n 0%N Hn ltac:(pows; lia)) as H;
          change (wloop fuel C B (Z.of_N n, Z.of_N 0)) with (wloop fuel C B (x, y)) in H;
          destruct (wloop fuel C B (x, y)) as [r1 r2]; cbn [snd] in H; subst r2; solve [bridge] ]
    end
  end.
Qed.

Lemma hbf_le : forall f n b, (highest_bit_f f n b <= b + N.of_nat f)%N.
Proof.
  induction f as [|f IH]; intros n b; cbn [highest_bit_f]; [lia|].
  destruct (n =? 0)%N; [lia|]. specialize (IH (n / 2)%N (b + 1)%N). lia.
Qed.

Lemma bridge_safe_to_multiply a b : (a < 2^64)%N -> (b < 2^64)%N ->
  g_cbor_safe_to_multiply (Z.of_N a) (Z.of_N b) = b2z (safe_to_multiply 64 a b).
Proof.
  intros Ha Hb.
  first
  [ unfold g_cbor_safe_to_multiply, safe_to_multiply;
    rewrite !bridge_highest_bit by assumption;
    pose proof (hbf_le 65 a 0) as Ba; pose proof (hbf_le 65 b 0) as Bb;
    unfold highest_bit in *; change (S (N.to_nat 64)) with 65%nat in *;
    set (ha := highest_bit_f 65 a 0) in *; set (hb := highest_bit_f 65 b 0) in *; clearbody ha hb;
    solve [bridge]
  | unfold g_cbor_safe_to_multiply, fb_cbor_safe_to_multiply; rewrite !N2Z.id; reflexivity ].
Qed.

Lemma bridge_safe_to_add a b : (a < 2^64)%N -> (b < 2^64)%N ->
  g_cbor_safe_to_add (Z.of_N a) (Z.of_N b) = b2z (safe_to_add 64 a b).
Proof.
  intros Ha Hb.
  first [ unfold g_cbor_safe_to_add, safe_to_add; cbv zeta; solve [bridge]
        | unfold g_cbor_safe_to_add, fb_cbor_safe_to_add; rewrite !N2Z.id; reflexivity ].
Qed.

Lemma bridge_safe_signaling_add a b : (a < 2^64)%N -> (b < 2^64)%N ->
  g_cbor_safe_signaling_add (Z.of_N a) (Z.of_N b) = Z.of_N (safe_signaling_add 64 a b).
Proof.
  intros Ha Hb.
  first [ unfold g_cbor_safe_signaling_add, safe_signaling_add; cbv zeta;
          rewrite ?bridge_safe_to_add by assumption; destruct (safe_to_add 64 a b); solve [bridge]
        | unfold g_cbor_safe_signaling_add, fb_cbor_safe_signaling_add; rewrite !N2Z.id; reflexivity ].
Qed.

Lemma bridge_header_size s : g_cbor_encoded_header_size (Z.of_N s) = Z.of_N (header_size s).
Proof.
  first [ unfold g_cbor_encoded_header_size, header_size; cbv zeta; solve [bridge]
        | unfold g_cbor_encoded_header_size, fb_cbor_encoded_header_size; rewrite !N2Z.id; reflexivity ].
Qed.

