(* Model H, property C13 over whole API histories: the allocator protocol.

   The allocator event trace of a run ([trace w], newest first; [rev (trace w)] is chronological)
   obeys the malloc / realloc / free protocol:
   - every [EvFree (Some p)] and every [EvRealloc (Some p) _ _] names a block that an EARLIER
     [EvMalloc _ (Some p)] / [EvRealloc _ _ (Some p)] returned and that has not been given back since
     (freed, or moved by a granted realloc; a refused realloc leaves the old block alone);
   - no address is returned twice.
   Hence each block is handed to free at most once, only while live, and nothing that did not come
   from the allocator is ever freed or resized.

   Route: the world invariant [TrInv] (the live cells of the heap are exactly the addresses returned
   and not yet given back in the trace, all below the bump pointer, and the trace so far obeys the
   protocol) is preserved by the six primitives of the monad whenever they return; by the generic
   walk over the code of all 26 client operations (HStepInv_proofs.step_keeps, with every address
   "known") it is preserved by every call that returns, legal or not; the ownership rules are what
   makes a history return ([C04_history]: a call that would free or resize a dead block is a [Fault]
   of the model, and legal histories never fault).

   Main statements: [C13_history_trace_ok], [C13_history_all_freed], and the rule-free
   [C13_any_run_trace_ok].  [trace_okb] is an executable checker: [trace_okb_iff]. *)
From CB Require Import Word Word_proofs PMem PItem HHeap HItems HOps HHist HHist2 HHist3.
From CB Require Import HRef_proofs HCont_proofs HRead_proofs HCopy_proofs HHist_proofs HHist3_proofs HStepInv_proofs.
From Coq Require Import Lia ZArith List Permutation.
Import ListNotations.
Local Open Scope N_scope.

(* ------------------------------------------------------------------------------------------ *)
(* 1. the protocol                                                                             *)
(* ------------------------------------------------------------------------------------------ *)

(* the address an event hands out *)
Definition returned (e : event) : list addr :=
  match e with
  | EvMalloc _ (Some p) => [p]
  | EvRealloc _ _ (Some p) => [p]
  | _ => []
  end.
(* the block an event names as its argument: free(p), realloc(p, _) *)
Definition named (e : event) : list addr :=
  match e with
  | EvFree (Some p) => [p]
  | EvRealloc (Some o) _ _ => [o]
  | _ => []
  end.
(* the block that dies with the event: free(p); realloc(p, _) when it is granted *)
Definition released (e : event) : list addr :=
  match e with
  | EvFree (Some p) => [p]
  | EvRealloc (Some o) _ (Some _) => [o]
  | _ => []
  end.
Definition returned_in (evs : list event) : list addr := flat_map returned evs.
Definition released_in (evs : list event) : list addr := flat_map released evs.

(* [evs] in chronological order *)
Definition trace_ok (evs : list event) : Prop :=
  forall before e after, evs = before ++ e :: after ->
    (forall p, In p (named e) -> In p (returned_in before) /\ ~ In p (released_in before)) /\
    (forall p, In p (returned e) -> ~ In p (returned_in before)).

(* the same, as a recursive predicate on the newest-first trace of a world *)
Fixpoint tr_ok_rev (tr : list event) : Prop :=
  match tr with
  | [] => True
  | e :: older =>
      tr_ok_rev older /\
      (forall p, In p (named e) -> In p (returned_in older) /\ ~ In p (released_in older)) /\
      (forall p, In p (returned e) -> ~ In p (returned_in older))
  end.

Lemma in_flat_map_rev {A B} (f : A -> list B) l x : In x (flat_map f (rev l)) <-> In x (flat_map f l).
Proof.
  rewrite !in_flat_map. split; intros (y & Hy & Hx); exists y; (split; [|exact Hx]).
  - apply in_rev. exact Hy.
  - apply -> in_rev. exact Hy.
Qed.

Lemma tr_ok_rev_split : forall newer e older, tr_ok_rev (newer ++ e :: older) ->
  (forall p, In p (named e) -> In p (returned_in older) /\ ~ In p (released_in older)) /\
  (forall p, In p (returned e) -> ~ In p (returned_in older)).
Proof.
  induction newer as [|x newer IH]; intros e older H; cbn [app tr_ok_rev] in H.
  - destruct H as (_ & H1 & H2). split; assumption.
  - destruct H as (H & _). apply IH. exact H.
Qed.

Lemma tr_ok_rev_ok tr : tr_ok_rev tr -> trace_ok (rev tr).
Proof.
  intros H before e after E.
  assert (E' : tr = rev after ++ e :: rev before).
  { rewrite <- (rev_involutive tr), E, rev_app_distr. cbn [rev]. rewrite <- app_assoc. reflexivity. }
  rewrite E' in H. apply tr_ok_rev_split in H. destruct H as [H1 H2].
  unfold returned_in, released_in in *. split.
  - intros p Hp. destruct (H1 p Hp) as [A B]. split.
    + apply in_flat_map_rev. exact A.
    + intros C. apply B. apply in_flat_map_rev. exact C.
  - intros p Hp C. apply (H2 p Hp). apply in_flat_map_rev. exact C.
Qed.

(* consequences, in the terms of the informal statement *)
Lemma released_named e p : In p (released e) -> In p (named e).
Proof. destruct e as [sz r|[o|] sz [r|]|[q|]]; cbn [released named]; intros H; try exact H; destruct H. Qed.

(* a block is given back at most once *)
Lemma tr_ok_rev_released_nodup tr : tr_ok_rev tr -> NoDup (released_in tr).
Proof.
  induction tr as [|e older IH]; intros H; cbn [released_in flat_map]; [constructor|].
  destruct H as (Ho & Hn & _). specialize (IH Ho).
  assert (He : released e = [] \/ exists p, released e = [p]).
  { destruct e as [sz r|[o|] sz [r|]|[q|]]; cbn [released]; eauto. }
  destruct He as [->|(p & Ep)]; [exact IH|]. rewrite Ep. cbn [app]. constructor; [|exact IH].
  apply (Hn p). apply released_named. rewrite Ep. left. reflexivity.
Qed.
(* no address is returned twice *)
Lemma tr_ok_rev_returned_nodup tr : tr_ok_rev tr -> NoDup (returned_in tr).
Proof.
  induction tr as [|e older IH]; intros H; cbn [returned_in flat_map]; [constructor|].
  destruct H as (Ho & _ & Hr). specialize (IH Ho).
  assert (He : returned e = [] \/ exists p, returned e = [p]).
  { destruct e as [sz [r|]|o sz [r|]|q]; cbn [returned]; eauto. }
  destruct He as [->|(p & Ep)]; [exact IH|]. rewrite Ep. cbn [app]. constructor; [|exact IH].
  apply (Hr p). rewrite Ep. left. reflexivity.
Qed.
(* only blocks that came from the allocator are given back *)
Lemma tr_ok_rev_released_returned tr : tr_ok_rev tr -> forall p, In p (released_in tr) -> In p (returned_in tr).
Proof.
  induction tr as [|e older IH]; intros H p Hp; [destruct Hp|].
  destruct H as (Ho & Hn & _). cbn [released_in returned_in flat_map] in *.
  apply in_or_app. right. apply in_app_or in Hp. destruct Hp as [Hp|Hp].
  - apply (Hn p). apply released_named. exact Hp.
  - apply IH; assumption.
Qed.

Lemma perm_flat_map_rev {A B} (f : A -> list B) l : Permutation (flat_map f (rev l)) (flat_map f l).
Proof. apply Permutation_flat_map. apply Permutation_sym, Permutation_rev. Qed.

Theorem trace_ok_freed_at_most_once tr : tr_ok_rev tr ->
  NoDup (released_in (rev tr)) /\ NoDup (returned_in (rev tr)) /\
  (forall p, In p (released_in (rev tr)) -> In p (returned_in (rev tr))).
Proof.
  intros H. split; [|split].
  - eapply Permutation_NoDup; [apply Permutation_sym, perm_flat_map_rev|]. apply tr_ok_rev_released_nodup. exact H.
  - eapply Permutation_NoDup; [apply Permutation_sym, perm_flat_map_rev|]. apply tr_ok_rev_returned_nodup. exact H.
  - intros p Hp. apply (proj2 (in_flat_map_rev returned tr p)). apply (tr_ok_rev_released_returned tr H).
    apply (proj1 (in_flat_map_rev released tr p)). exact Hp.
Qed.

(* ------------------------------------------------------------------------------------------ *)
(* 2. an executable checker that decides [trace_ok]                                            *)
(* ------------------------------------------------------------------------------------------ *)

Definition memb (p : addr) (l : list addr) : bool := existsb (N.eqb p) l.
Lemma memb_in p l : memb p l = true <-> In p l.
Proof.
  unfold memb. rewrite existsb_exists. split.
  - intros (x & Hx & E). apply N.eqb_eq in E. subst. exact Hx.
  - intros H. exists p. split; [exact H|apply N.eqb_refl].
Qed.

(* [live]: returned and not yet given back; [ever]: returned so far *)
Fixpoint tr_check (live ever : list addr) (evs : list event) : bool :=
  match evs with
  | [] => true
  | e :: r =>
      forallb (fun p => memb p live) (named e) &&
      forallb (fun p => negb (memb p ever)) (returned e) &&
      tr_check (returned e ++ filter (fun x => negb (memb x (released e))) live) (returned e ++ ever) r
  end.
Definition trace_okb (evs : list event) : bool := tr_check [] [] evs.

Lemma tr_check_sound : forall evs pre live ever,
  (forall p, In p live -> In p (returned_in pre) /\ ~ In p (released_in pre)) ->
  (forall p, In p (returned_in pre) -> In p ever) ->
  (forall p, In p (released_in pre) -> In p (returned_in pre)) ->
  tr_check live ever evs = true ->
  forall before e after, evs = before ++ e :: after ->
    (forall p, In p (named e) -> In p (returned_in (pre ++ before)) /\ ~ In p (released_in (pre ++ before))) /\
    (forall p, In p (returned e) -> ~ In p (returned_in (pre ++ before))).
Proof.
  induction evs as [|x r IH]; intros pre live ever Hl He Hrr Hc before e after E.
  { destruct before; discriminate E. }
  cbn [tr_check] in Hc. apply andb_prop in Hc. destruct Hc as [Hc C3]. apply andb_prop in Hc. destruct Hc as [C1 C2].
  rewrite forallb_forall in C1, C2.
  assert (N1 : forall p, In p (named x) -> In p (returned_in pre) /\ ~ In p (released_in pre)).
  { intros p Hp. apply Hl. apply memb_in. apply C1. exact Hp. }
  assert (N2 : forall p, In p (returned x) -> ~ In p (returned_in pre)).
  { intros p Hp Hin. specialize (C2 p Hp). apply He in Hin. apply memb_in in Hin. rewrite Hin in C2. discriminate C2. }
  destruct before as [|y before]; cbn [app] in E.
  - injection E as -> ->. rewrite app_nil_r. split; assumption.
  - injection E as <- ->. replace (pre ++ x :: before) with ((pre ++ [x]) ++ before) by (rewrite <- app_assoc; reflexivity).
    eapply (IH (pre ++ [x])); [| | |exact C3|reflexivity].
    + intros p Hp. unfold returned_in, released_in. rewrite !flat_map_app. cbn [flat_map]. rewrite !app_nil_r.
      apply in_app_or in Hp. destruct Hp as [Hp|Hp].
      * split; [apply in_or_app; right; exact Hp|]. intros Hq. apply in_app_or in Hq. destruct Hq as [Hq|Hq].
        -- apply (N2 p Hp). apply Hrr. exact Hq.
        -- apply (N2 p Hp). apply (N1 p). apply released_named. exact Hq.
      * apply filter_In in Hp. destruct Hp as [Hp Hf]. destruct (Hl p Hp) as [A B].
        split; [apply in_or_app; left; exact A|]. intros Hq. apply in_app_or in Hq. destruct Hq as [Hq|Hq]; [exact (B Hq)|].
        apply memb_in in Hq. rewrite Hq in Hf. discriminate Hf.
    + intros p Hp. unfold returned_in in Hp. rewrite flat_map_app in Hp. cbn [flat_map] in Hp. rewrite app_nil_r in Hp.
      apply in_or_app. apply in_app_or in Hp. destruct Hp as [Hp|Hp]; [right; apply He; exact Hp|left; exact Hp].
    + intros p Hp. unfold returned_in, released_in in *. rewrite flat_map_app in *. cbn [flat_map] in *. rewrite app_nil_r in *.
      apply in_or_app. left. apply in_app_or in Hp. destruct Hp as [Hp|Hp]; [apply Hrr; exact Hp|].
      apply (N1 p). apply released_named. exact Hp.
Qed.

Theorem trace_okb_sound evs : trace_okb evs = true -> trace_ok evs.
Proof.
  intros H before e after E.
  apply (tr_check_sound evs [] [] [] ltac:(intros p []) ltac:(intros p []) ltac:(intros p []) H before e after E).
Qed.

(* ... and complete: the checker decides [trace_ok] *)
Lemma memb_false p l : memb p l = false <-> ~ In p l.
Proof.
  split.
  - intros H Hin. apply memb_in in Hin. rewrite Hin in H. discriminate H.
  - intros H. destruct (memb p l) eqn:E; [|reflexivity]. exfalso. apply H. apply memb_in. exact E.
Qed.

Lemma tr_check_complete : forall evs pre live ever,
  (forall p, In p live <-> In p (returned_in pre) /\ ~ In p (released_in pre)) ->
  (forall p, In p ever <-> In p (returned_in pre)) ->
  (forall p, In p (released_in pre) -> In p (returned_in pre)) ->
  (forall before e after, evs = before ++ e :: after ->
    (forall p, In p (named e) -> In p (returned_in (pre ++ before)) /\ ~ In p (released_in (pre ++ before))) /\
    (forall p, In p (returned e) -> ~ In p (returned_in (pre ++ before)))) ->
  tr_check live ever evs = true.
Proof.
  induction evs as [|x r IH]; intros pre live ever Hl He Hrr H; [reflexivity|].
  destruct (H [] x r eq_refl) as [N1 N2]. rewrite app_nil_r in N1, N2.
  cbn [tr_check]. apply andb_true_intro. split; [apply andb_true_intro; split|].
  - apply forallb_forall. intros p Hp. apply memb_in. apply Hl. apply N1. exact Hp.
  - apply forallb_forall. intros p Hp. apply Bool.negb_true_iff. apply memb_false. intros Hin.
    apply (N2 p Hp). apply He. exact Hin.
  - apply (IH (pre ++ [x])).
    + intros p. unfold returned_in, released_in. rewrite !flat_map_app. cbn [flat_map]. rewrite !app_nil_r.
      rewrite !in_app_iff, filter_In, (Hl p), Bool.negb_true_iff, memb_false. split.
      * intros [Hp|[[A B] C]].
        -- split; [right; exact Hp|]. intros [Hq|Hq].
           ++ apply (N2 p Hp). apply Hrr. exact Hq.
           ++ apply (N2 p Hp). apply (N1 p). apply released_named. exact Hq.
        -- split; [left; exact A|]. intros [Hq|Hq]; [exact (B Hq)|exact (C Hq)].
      * intros [[A|A] B]; [|left; exact A]. right. split; [split; [exact A|]|]; intros Hq; apply B; [left|right]; exact Hq.
    + intros p. unfold returned_in. rewrite flat_map_app. cbn [flat_map]. rewrite app_nil_r, !in_app_iff, (He p). tauto.
    + intros p. unfold returned_in, released_in. rewrite !flat_map_app. cbn [flat_map]. rewrite !app_nil_r, !in_app_iff.
      intros [Hp|Hp]; [left; apply Hrr; exact Hp|]. left. apply (N1 p). apply released_named. exact Hp.
    + intros before e after E. specialize (H (x :: before) e after). cbn [app] in H. rewrite E in H. specialize (H eq_refl).
      replace ((pre ++ [x]) ++ before) with (pre ++ x :: before) by (rewrite <- app_assoc; reflexivity). exact H.
Qed.

Theorem trace_okb_complete evs : trace_ok evs -> trace_okb evs = true.
Proof.
  intros H. apply (tr_check_complete evs [] [] []).
  - intros p. cbn. tauto.
  - intros p. cbn. tauto.
  - intros p [].
  - intros before e after E. exact (H before e after E).
Qed.

Theorem trace_okb_iff evs : trace_okb evs = true <-> trace_ok evs.
Proof. split; [apply trace_okb_sound|apply trace_okb_complete]. Qed.

(* ------------------------------------------------------------------------------------------ *)
(* 3. the world invariant and its preservation by every client call                            *)
(* ------------------------------------------------------------------------------------------ *)

Definition TrInv (w : world) : Prop :=
  tr_ok_rev (trace w) /\
  (forall p, heap w p <> None <-> In p (returned_in (trace w)) /\ ~ In p (released_in (trace w))) /\
  (forall p, In p (returned_in (trace w)) -> p < next w).

Lemma TrInv_world0 : TrInv world0.
Proof.
  split; [exact I|]. split.
  - intros p. cbn. split; [intros H; exfalso; apply H; reflexivity|intros [[] _]].
  - intros p [].
Qed.

(* a world that differs only in cells that stay live / stay dead, with the same trace *)
Lemma TrInv_same w w' : TrInv w -> trace w' = trace w -> next w' = next w ->
  (forall p, heap w' p <> None <-> heap w p <> None) -> TrInv w'.
Proof.
  intros (A & B & C) Ht Hn Hh. unfold TrInv. rewrite Ht, Hn. split; [exact A|]. split; [|exact C].
  intros p. rewrite Hh. apply B.
Qed.

Definition anyK : addr -> Prop := fun _ => True.
Lemma nodeK_any n : nodeK anyK n.
Proof.
  destruct n; cbn [nodeK]; unfold optK, allK, pairsK, anyK; repeat split; intros; exact I.
Qed.

Lemma upd_live_iff (h : addr -> option cell) a c p : h a <> None ->
  (upd h a (Some c) p <> None <-> h p <> None).
Proof.
  intros Ha. unfold upd. destruct (N.eqb_spec p a) as [->|]; [|reflexivity]. split; [intros _; exact Ha|discriminate].
Qed.

Section Prims.
Variable refuse : N -> N -> bool.

Lemma Tr_rd a w c w' : TrInv w -> anyK a -> rd_item a w = Ret c w' -> TrInv w' /\ nodeK anyK (snd c).
Proof.
  intros Iw _ E. split; [|apply nodeK_any]. unfold rd_item in E.
  destruct (heap w a) as [[rc n|sz]|]; try discriminate E. injection E as _ <-.
  eapply TrInv_same; [exact Iw|reflexivity|reflexivity|]. intros p. reflexivity.
Qed.
Lemma Tr_wr a rc n w u w' : TrInv w -> anyK a -> nodeK anyK n -> wr_item a rc n w = Ret u w' -> TrInv w'.
Proof.
  intros Iw _ _ E. unfold wr_item in E.
  destruct (heap w a) as [[rc0 n0|sz]|] eqn:Ea; try discriminate E. injection E as _ <-.
  eapply TrInv_same; [exact Iw|reflexivity|reflexivity|]. intros p. cbn [heap]. apply upd_live_iff. rewrite Ea. discriminate.
Qed.
Lemma Tr_touch wr p w u w' : TrInv w -> optK anyK p -> touch_data wr p w = Ret u w' -> TrInv w'.
Proof.
  intros Iw _ E. unfold touch_data in E. destruct p as [d|]; [|discriminate E].
  destruct (heap w d) as [[rc n|sz]|]; try discriminate E. injection E as _ <-.
  eapply TrInv_same; [exact Iw|reflexivity|reflexivity|]. intros q. reflexivity.
Qed.

Lemma Tr_free p w u w' : TrInv w -> optK anyK p -> free p w = Ret u w' -> TrInv w'.
Proof.
  intros (A & B & C) _ E. unfold free in E. destruct p as [a|].
  - destruct (heap w a) as [c|] eqn:Ea; [|discriminate E]. injection E as _ <-.
    assert (La : In a (returned_in (trace w)) /\ ~ In a (released_in (trace w))).
    { apply B. rewrite Ea. discriminate. }
    unfold TrInv. cbn [trace heap next]. split; [|split].
    + cbn [tr_ok_rev named returned]. split; [exact A|]. split.
      * intros q [<-|[]]. exact La.
      * intros q [].
    + intros q. cbn [returned_in released_in flat_map returned released app]. unfold upd.
      destruct (N.eqb_spec q a) as [->|Hq].
      * split; [intros H; exfalso; apply H; reflexivity|]. intros [_ H]. exfalso. apply H. left. reflexivity.
      * rewrite B. split; intros [H1 H2]; (split; [exact H1|]).
        -- intros [H|H]; [congruence|exact (H2 H)].
        -- intros H. apply H2. right. exact H.
    + intros q Hq. cbn [returned_in flat_map returned app] in Hq. apply C. exact Hq.
  - injection E as _ <-. unfold TrInv. cbn [trace heap next]. split; [|split].
    + cbn [tr_ok_rev named returned]. split; [exact A|]. split; intros q [].
    + intros q. cbn [returned_in released_in flat_map returned released app]. apply B.
    + intros q Hq. apply C. exact Hq.
Qed.

(* a granted request hands out the bump pointer: never returned before *)
Lemma TrInv_fresh w : TrInv w -> ~ In (next w) (returned_in (trace w)).
Proof. intros (_ & _ & C) H. specialize (C _ H). lia. Qed.

Lemma Tr_malloc sz c w r w' : TrInv w -> cellK anyK c -> malloc refuse sz c w = Ret r w' -> TrInv w' /\ optK anyK r.
Proof.
  intros Iw _ E. split; [|intros a _; exact I]. pose proof (TrInv_fresh w Iw) as Fr. destruct Iw as (A & B & C).
  unfold malloc in E. destruct (refuse (nreq w) sz); injection E as _ <-; unfold TrInv; cbn [trace heap next].
  - split; [|split].
    + cbn [tr_ok_rev named returned]. split; [exact A|]. split; intros q [].
    + intros q. cbn [returned_in released_in flat_map returned released app]. apply B.
    + intros q Hq. apply C. exact Hq.
  - split; [|split].
    + cbn [tr_ok_rev named returned]. split; [exact A|]. split; [intros q []|]. intros q [<-|[]]. exact Fr.
    + intros q. cbn [returned_in released_in flat_map returned released app]. unfold upd.
      destruct (N.eqb_spec q (next w)) as [->|Hq].
      * split; [|discriminate]. intros _. split; [left; reflexivity|]. intros H. apply Fr.
        apply tr_ok_rev_released_returned; assumption.
      * rewrite B. split; intros [H1 H2]; (split; [|exact H2]).
        -- right. exact H1.
        -- destruct H1 as [H1|H1]; [congruence|exact H1].
    + intros q Hq. cbn [returned_in flat_map returned app] in Hq. destruct Hq as [<-|Hq]; [lia|].
      specialize (C q Hq). lia.
Qed.

Lemma Tr_realloc old sz w r w' : TrInv w -> optK anyK old -> realloc refuse old sz w = Ret r w' -> TrInv w' /\ optK anyK r.
Proof.
  intros Iw _ E. split; [|intros a _; exact I]. pose proof (TrInv_fresh w Iw) as Fr. destruct Iw as (A & B & C).
  unfold realloc in E. destruct (realloc_bad old w) eqn:Rb; [discriminate E|].
  assert (Lo : forall o, old = Some o -> In o (returned_in (trace w)) /\ ~ In o (released_in (trace w))).
  { intros o ->. apply B. unfold realloc_bad in Rb. destruct (heap w o) as [[rc n|sz0]|]; try discriminate Rb. discriminate. }
  destruct (refuse (nreq w) sz); injection E as _ <-; unfold TrInv; cbn [trace heap next].
  - split; [|split].
    + cbn [tr_ok_rev]. split; [exact A|]. split.
      * intros q Hq. destruct old as [o|]; [|destruct Hq]. destruct Hq as [<-|[]]. apply Lo. reflexivity.
      * intros q [].
    + intros q. cbn [returned_in released_in flat_map returned released]. destruct old; cbn [app]; apply B.
    + intros q Hq. apply C. cbn [returned_in flat_map returned] in Hq. destruct old; exact Hq.
  - split; [|split].
    + cbn [tr_ok_rev]. split; [exact A|]. split.
      * intros q Hq. destruct old as [o|]; [|destruct Hq]. destruct Hq as [<-|[]]. apply Lo. reflexivity.
      * intros q Hq. cbn [returned] in Hq. destruct Hq as [<-|[]]. exact Fr.
    + intros q. cbn [returned_in released_in flat_map returned].
      destruct (N.eq_dec q (next w)) as [->|Hq]; [rewrite upd_same|rewrite upd_other by exact Hq].
      * split; [|discriminate]. intros _. split; [left; reflexivity|]. intros H. apply in_app_or in H.
        destruct H as [H|H].
        -- destruct old as [o|]; [|destruct H]. destruct H as [H|[]]. subst o. apply Fr. apply (Lo _ eq_refl).
        -- apply Fr. apply tr_ok_rev_released_returned; assumption.
      * destruct old as [o|]; cbn [released app].
        -- destruct (N.eq_dec q o) as [->|Hqo]; [rewrite upd_same|rewrite upd_other by exact Hqo].
           ++ split; [intros H; exfalso; apply H; reflexivity|]. intros [_ H]. exfalso. apply H. left. reflexivity.
           ++ rewrite B. split; intros [H1 H2].
              ** split; [right; exact H1|]. intros [H|H]; [congruence|exact (H2 H)].
              ** split; [destruct H1 as [H1|H1]; [congruence|exact H1]|]. intros H. apply H2. right. exact H.
        -- rewrite B. split; intros [H1 H2]; (split; [|exact H2]).
           ++ right. exact H1.
           ++ destruct H1 as [H1|H1]; [congruence|exact H1].
    + intros q Hq. cbn [returned_in flat_map returned app] in Hq. destruct Hq as [<-|Hq]; [lia|].
      specialize (C q Hq). lia.
Qed.

Variable L : N.

(* every client call that returns keeps the invariant - no rule needed *)
Theorem TrInv_step s o w r w' : TrInv w -> step refuse L s o w = Ret r w' -> TrInv w'.
Proof.
  intros Iw E.
  eapply (step_keeps refuse TrInv anyK Tr_rd Tr_wr Tr_touch Tr_free Tr_malloc Tr_realloc L s o w r w'); [|exact Iw|exact E].
  intros h a _ _. exact I.
Qed.

Theorem TrInv_run : forall ops s acc w r w', TrInv w -> run_hist refuse L ops s acc w = Ret r w' -> TrInv w'.
Proof.
  induction ops as [|o ops IH]; intros s acc w r w' Iw E; cbn [run_hist] in E.
  - unfold ret in E. injection E as _ <-. exact Iw.
  - apply bind_inv in E. destruct E as (so & w1 & E1 & E2).
    eapply IH; [|exact E2]. eapply TrInv_step; eassumption.
Qed.

(* ------------------------------------------------------------------------------------------ *)
(* 4. histories                                                                                *)
(* ------------------------------------------------------------------------------------------ *)

(* whatever the client does: if the run returns, its allocator trace obeys the protocol (a call
   that would break it - free or realloc of a block that is not live - is a Fault of the model and
   stops the run before the event is recorded) *)
Theorem C13_any_run_trace_ok : forall ops s' outs w',
  run_hist refuse L ops s0 [] world0 = Ret (s', outs) w' ->
  trace_ok (rev (trace w')) /\
  (forall p, heap w' p <> None <-> In p (returned_in (rev (trace w'))) /\ ~ In p (released_in (rev (trace w')))).
Proof.
  intros ops s' outs w' E. pose proof (TrInv_run ops s0 [] world0 _ _ TrInv_world0 E) as (A & B & _).
  split; [apply tr_ok_rev_ok; exact A|].
  intros p. rewrite B. unfold returned_in, released_in. rewrite !in_flat_map_rev. reflexivity.
Qed.

(* C13 for all API histories: a history that follows the ownership rules runs to its end without a
   fault, and its whole allocator trace obeys the protocol *)
Theorem C13_history_trace_ok : forall ops,
  legal_history refuse L ops s0 own0 world0 ->
  exists s' outs w', run_hist refuse L ops s0 [] world0 = Ret (s', outs) w' /\
    trace_ok (rev (trace w')).
Proof.
  intros ops Lg. destruct (C04_history refuse L ops Lg) as (s' & outs & w' & E & _).
  exists s', outs, w'. split; [exact E|]. apply (C13_any_run_trace_ok ops s' outs w' E).
Qed.

(* each block is given back at most once, only blocks that came from the allocator are given back,
   no address is handed out twice *)
Corollary C13_history_released_once : forall ops,
  legal_history refuse L ops s0 own0 world0 ->
  exists s' outs w', run_hist refuse L ops s0 [] world0 = Ret (s', outs) w' /\
    NoDup (released_in (rev (trace w'))) /\ NoDup (returned_in (rev (trace w'))) /\
    (forall p, In p (released_in (rev (trace w'))) -> In p (returned_in (rev (trace w')))).
Proof.
  intros ops Lg. destruct (C04_history refuse L ops Lg) as (s' & outs & w' & E & _).
  exists s', outs, w'. split; [exact E|].
  pose proof (TrInv_run ops s0 [] world0 _ _ TrInv_world0 E) as (A & _).
  apply trace_ok_freed_at_most_once. exact A.
Qed.

(* ... and once the client has dropped all of its references (history following the ownership and
   no-cycle rules), every address the allocator ever returned during the run has been given back
   (freed, or consumed by a granted realloc) exactly once *)
Theorem C13_history_all_freed : forall ops s' outs w',
  rules_history refuse L ops s0 own0 world0 ->
  run_hist refuse L ops s0 [] world0 = Ret (s', outs) w' ->
  (forall a, own_hist refuse L ops s0 own0 world0 a = 0) ->
  trace_ok (rev (trace w')) /\
  forall p, In p (returned_in (rev (trace w'))) ->
    count_occ N.eq_dec (released_in (rev (trace w'))) p = 1%nat.
Proof.
  intros ops s' outs w' Rl E O.
  pose proof (C04_history_no_leak_acyclic refuse L ops s' outs w' Rl E O) as Dead.
  pose proof (TrInv_run ops s0 [] world0 _ _ TrInv_world0 E) as (A & B & _).
  split; [apply tr_ok_rev_ok; exact A|].
  intros p Hp. destruct (trace_ok_freed_at_most_once _ A) as (ND & _ & _).
  assert (Hin : In p (released_in (rev (trace w')))).
  { unfold returned_in, released_in in *. rewrite in_flat_map_rev in *.
    destruct (in_dec N.eq_dec p (flat_map released (trace w'))) as [Y|Nn]; [exact Y|].
    exfalso. assert (Hl : heap w' p <> None) by (apply B; split; assumption). apply Hl. apply Dead. }
  apply NoDup_count_occ' with (decA := N.eq_dec) in Hin; assumption.
Qed.

(* ---- the same for the third layer of client calls (HHist3: step3 / run_hist3, which embeds the
   calls of the two earlier layers) ---- *)
Theorem TrInv_step3 s o w r w' : TrInv w -> step3 refuse L s o w = Ret r w' -> TrInv w'.
Proof.
  intros Iw E.
  eapply (step3_keeps refuse TrInv anyK Tr_rd Tr_wr Tr_touch Tr_free Tr_malloc Tr_realloc L s o w r w'); [|exact Iw|exact E].
  intros h a _ _. exact I.
Qed.

Theorem TrInv_run3 : forall ops s acc w r w', TrInv w -> run_hist3 refuse L ops s acc w = Ret r w' -> TrInv w'.
Proof.
  induction ops as [|o ops IH]; intros s acc w r w' Iw E; cbn [run_hist3] in E.
  - unfold ret in E. injection E as _ <-. exact Iw.
  - apply bind_inv in E. destruct E as (so & w1 & E1 & E2).
    eapply IH; [|exact E2]. eapply TrInv_step3; eassumption.
Qed.

Theorem C13_any_run3_trace_ok : forall ops s' outs w',
  run_hist3 refuse L ops s3_0 [] world0 = Ret (s', outs) w' ->
  trace_ok (rev (trace w')) /\
  (forall p, heap w' p <> None <-> In p (returned_in (rev (trace w'))) /\ ~ In p (released_in (rev (trace w')))).
Proof.
  intros ops s' outs w' E. pose proof (TrInv_run3 ops s3_0 [] world0 _ _ TrInv_world0 E) as (A & B & _).
  split; [apply tr_ok_rev_ok; exact A|].
  intros p. rewrite B. unfold returned_in, released_in. rewrite !in_flat_map_rev. reflexivity.
Qed.

Theorem C13_history3_trace_ok : forall ops,
  legal_history3 refuse L ops s3_0 own0 world0 ->
  exists s' outs w', run_hist3 refuse L ops s3_0 [] world0 = Ret (s', outs) w' /\
    trace_ok (rev (trace w')) /\
    NoDup (released_in (rev (trace w'))) /\ NoDup (returned_in (rev (trace w'))) /\
    (forall p, In p (released_in (rev (trace w'))) -> In p (returned_in (rev (trace w')))).
Proof.
  intros ops Lg. destruct (C04_history3 refuse L ops Lg) as (s' & outs & w' & E & _).
  exists s', outs, w'. split; [exact E|]. split; [apply (C13_any_run3_trace_ok ops s' outs w' E)|].
  pose proof (TrInv_run3 ops s3_0 [] world0 _ _ TrInv_world0 E) as (A & _).
  apply trace_ok_freed_at_most_once. exact A.
Qed.

End Prims.

(* ------------------------------------------------------------------------------------------ *)
(* 5. non-vacuity: a concrete history with granted, moving and refused reallocations           *)
(* ------------------------------------------------------------------------------------------ *)

(* an indefinite array grows 0 -> 1 -> 2 (the second growth moves the block), the third growth is
   refused by the allocator (request number 4), a text string is built and pushed (growth 2 -> 4
   granted), and the client gives back all three references *)
Definition ex13_refuse : N -> N -> bool := fun i _ => i =? 4.
Definition ex13_ops : list op :=
  [ONewIndefArray; OBuildInt false I8 7; OPush 0 1; OPush 0 1; OPush 0 1; OBuildString true [104%N; 105%N];
   OPush 0 2; ODecref 1; ODecref 2; ODecref 0]%nat.

Ltac ex13_push_legal :=
  let p := fresh "p" in let q := fresh "q" in let Hp := fresh "Hp" in let Hq := fresh "Hq" in
  intros p q Hp Hq; ex_h Hp; ex_h Hq;
  split; [vm_compute; reflexivity|]; split; [vm_compute; reflexivity|]; split; [discriminate|];
  split; [ex_room|]; vm_compute; repeat eexists.
Ltac ex13_rank :=
  let p := fresh "p" in let q := fresh "q" in let Hp := fresh "Hp" in let Hq := fresh "Hq" in
  intros p q Hp Hq; ex_h Hp; ex_h Hq;
  exists (fun x => if x =? 1 then 1%nat else 0%nat); split; [|vm_compute; lia];
  let a := fresh "a" in let k := fresh "k" in let rc := fresh "rc" in let n := fresh "n" in
  let E := fresh "E" in let R := fresh "R" in let K := fresh "K" in
  intros a k (rc & n & E & R & K);
  destruct a as [|a]; [|do 3 (try destruct a as [a|a|])]; vm_compute in E; try discriminate E;
  injection E as <- <-; cbn in K; repeat (destruct K as [<-|K]; [vm_compute; lia|]); destruct K.
Ltac ex13_decref_legal :=
  let p := fresh "p" in let Hp := fresh "Hp" in intros p Hp; ex_h Hp; vm_compute; reflexivity.

Example ex13_rules : rules_history ex13_refuse 8 ex13_ops s0 own0 world0.
Proof.
  unfold ex13_ops.
  split; [exact I|]. split; [exact I|ex_next].
  split; [exact I|]. split; [exact I|ex_next].
  split; [ex13_push_legal|]. split; [ex13_rank|ex_next].
  split; [ex13_push_legal|]. split; [ex13_rank|ex_next].
  split; [ex13_push_legal|]. split; [ex13_rank|ex_next].
  split; [exact I|]. split; [exact I|ex_next].
  split; [ex13_push_legal|]. split; [ex13_rank|ex_next].
  split; [ex13_decref_legal|]. split; [exact I|ex_next].
  split; [ex13_decref_legal|]. split; [exact I|ex_next].
  split; [ex13_decref_legal|]. split; [exact I|ex_next].
  exact I.
Qed.

Example ex13_trace :
  match run_hist ex13_refuse 8 ex13_ops s0 [] world0 with
  | Ret (s', outs) w' =>
      rev (trace w') =
        [EvMalloc 48 (Some 1); EvMalloc 49 (Some 2); EvRealloc None 8 (Some 3); EvRealloc (Some 3) 16 (Some 4);
         EvRealloc (Some 4) 32 None; EvMalloc 48 (Some 5); EvMalloc 2 (Some 6); EvRealloc (Some 4) 32 (Some 7);
         EvFree (Some 2); EvFree (Some 6); EvFree (Some 5); EvFree (Some 7); EvFree (Some 1)] /\
      trace_okb (rev (trace w')) = true /\
      returned_in (rev (trace w')) = [1; 2; 3; 4; 5; 6; 7] /\
      released_in (rev (trace w')) = [3; 4; 2; 6; 5; 7; 1]
  | Fault _ => False
  end.
Proof. vm_compute. repeat split. Qed.

Example ex13_theorem_applies :
  exists s' outs w', run_hist ex13_refuse 8 ex13_ops s0 [] world0 = Ret (s', outs) w' /\ trace_ok (rev (trace w')).
Proof. apply C13_history_trace_ok. apply rules_legal. exact ex13_rules. Qed.

Lemma ex13_own_zero : forall a, own_hist ex13_refuse 8 ex13_ops s0 own0 world0 a = 0.
Proof.
  intros a.
  destruct (C04_history ex13_refuse 8 ex13_ops (rules_legal _ _ _ _ _ _ ex13_rules)) as (s' & outs & w' & E & I).
  apply (Inv_dead_own _ _ _ _ a I).
  vm_compute in E. injection E as _ _ <-.
  destruct a as [|a]; [reflexivity|]. do 3 (try destruct a as [a|a|]); vm_compute; reflexivity.
Qed.

Example ex13_all_freed : forall s' outs w',
  run_hist ex13_refuse 8 ex13_ops s0 [] world0 = Ret (s', outs) w' ->
  trace_ok (rev (trace w')) /\
  forall p, In p (returned_in (rev (trace w'))) -> count_occ N.eq_dec (released_in (rev (trace w'))) p = 1%nat.
Proof. intros s' outs w' E. exact (C13_history_all_freed ex13_refuse 8 ex13_ops s' outs w' ex13_rules E ex13_own_zero). Qed.

(* the trace of a run that breaks the rules and still returns obeys the protocol too; the
   double release is stopped by a Fault before any event is recorded *)
Example ex13_illegal_faults :
  run_hist never 8 [OBuildInt false I8 7; ODecref 0; ODecref 0]%nat s0 [] world0 = Fault (FUseAfterFree 1).
Proof. vm_compute. reflexivity. Qed.
(* a trace that frees twice, or frees a block that was never returned, is rejected *)
Example ex13_checker_rejects :
  trace_okb [EvMalloc 8 (Some 1); EvFree (Some 1); EvFree (Some 1)] = false /\
  trace_okb [EvFree (Some 1)] = false /\
  trace_okb [EvMalloc 8 (Some 1); EvRealloc (Some 1) 16 (Some 2); EvFree (Some 1)] = false /\
  trace_okb [EvMalloc 8 (Some 1); EvRealloc (Some 1) 16 None; EvFree (Some 1)] = true /\
  trace_okb [EvMalloc 8 (Some 1); EvFree (Some 1); EvMalloc 8 (Some 1)] = false.
Proof. vm_compute. repeat split. Qed.

Print Assumptions TrInv_step.
Print Assumptions C13_any_run_trace_ok.
Print Assumptions C13_history_trace_ok.
Print Assumptions C13_history_released_once.
Print Assumptions C13_history_all_freed.
Print Assumptions C13_any_run3_trace_ok.
Print Assumptions C13_history3_trace_ok.
Print Assumptions trace_okb_iff.
Print Assumptions ex13_rules.
