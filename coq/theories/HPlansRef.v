(* Plans of the release path of the reference counting: void cbor_decref(cbor_item_t** item_ref)
   (src/cbor/common.c), written by hand from HItems.v ([drain], [release_tasks]).  Definitions only;
   same vocabulary as HPlans.v.  Only what the function writes is reported in p_fields (the
   decremented count); frees and the recursive releases are ORDERED events; loops are cut at their
   heads with the round number k as input (loops: 0 = chunks of a byte string, 1 = chunks of a
   text string, 2 = elements of an array, 3 = pairs of a map). *)
From Coq Require Import ZArith NArith List Bool String.
Import ListNotations.
From CB Require Import Word GenLeafTypes HItems HPlans.
Local Open Scope string_scope.
Local Open Scope N_scope.

(* the item *item_ref, its data block, the chunk array of an indefinite string *)
Definition the_item : ptr := PField (PArg 0) "*".
Definition its_data : ptr := PField the_item "data".
Definition its_chunks : ptr := PField its_data "chunks".
Definition release (p : ptr) : req := ReqCall "cbor_decref" [AP p].

(* the item is gone: after these events the caller's pointer is cleared *)
Definition gone (fields : list (string * Z)) (evs : list req) : plan :=
  mkplan RVoid fields evs [SetPtr (PArg 0) "" PNull].

(* one reference less; at 0 the item is released: children in storage order (loops), then the data
   block(s), then the item itself.  Integers and floats are one block; a definite string owns its
   payload; a tag releases its child if it has one and frees its (NULL) data pointer *)
Definition decref_plan (rc : N) (ty : Z) (definite : bool) (has_child : bool) : plan :=
  let rc' := sub64 rc 1 in
  let f := [("refcount", zN rc')] in
  let loop i := mkplan (RLoop i) (f ++ [("round", 0%Z)]) [] [] in
  if negb (rc' =? 0) then mkplan RVoid f [] []
  else if ((ty =? 2) || (ty =? 3))%Z then
    if definite then gone f [ReqFree its_data; ReqFree the_item] else loop (if (ty =? 2)%Z then 0%nat else 1%nat)
  else if (ty =? TY_ARRAY)%Z then loop 2%nat
  else if (ty =? TY_MAP)%Z then loop 3%nat
  else if (ty =? TY_TAG)%Z then
    gone f ((if has_child then [release (PField the_item "metadata.tagged_item")] else [])
            ++ [ReqFree its_data; ReqFree the_item])
  else gone f [ReqFree the_item].

Definition next_round (i : nat) (k : N) (evs : list req) : plan := mkplan (RLoop i) [("round", zN (k + 1))] evs [].

(* chunks of an indefinite string: each chunk, then the chunk array, the header, the item *)
Definition decref_chunks_round_plan (i : nat) (chunk_count k : N) : plan :=
  if k <? chunk_count then next_round i k [release (PSlot its_chunks (zN k) "")]
  else gone [] [ReqFree its_chunks; ReqFree its_data; ReqFree the_item].

(* elements of an array (a NULL slot is skipped), then the slot block, the item *)
Definition decref_array_round_plan (size k : N) (has_elem : bool) : plan :=
  if k <? size then next_round 2 k (if has_elem then [release (PSlot its_data (zN k) "")] else [])
  else gone [] [ReqFree its_data; ReqFree the_item].

(* pairs of a map: the key, then the value if it is there *)
Definition decref_map_round_plan (size k : N) (has_value : bool) : plan :=
  if k <? size then
    next_round 3 k (release (PSlot its_data (zN k) "key") :: (if has_value then [release (PSlot its_data (zN k) "value")] else []))
  else gone [] [ReqFree its_data; ReqFree the_item].

(* ---------- fallbacks (same binders as the generated functions) ---------- *)
Definition fbplan_cbor_decref (cc dst e rc ty k : Z) (nn_child nn_elem nn_value : bool) :=
  decref_plan (Z.to_N rc) ty (dst_b dst) nn_child.
Definition fbplan_cbor_decref_loop0 (cc dst e rc ty k : Z) (nn_child nn_elem nn_value : bool) :=
  decref_chunks_round_plan 0 (Z.to_N cc) (Z.to_N k).
Definition fbplan_cbor_decref_loop1 (cc dst e rc ty k : Z) (nn_child nn_elem nn_value : bool) :=
  decref_chunks_round_plan 1 (Z.to_N cc) (Z.to_N k).
Definition fbplan_cbor_decref_loop2 (cc dst e rc ty k : Z) (nn_child nn_elem nn_value : bool) :=
  decref_array_round_plan (Z.to_N e) (Z.to_N k) nn_elem.
Definition fbplan_cbor_decref_loop3 (cc dst e rc ty k : Z) (nn_child nn_elem nn_value : bool) :=
  decref_map_round_plan (Z.to_N e) (Z.to_N k) nn_value.
