(* Model P, UTF-8 DFA: src/cbor/internal/unicode.c.  Definitions only. *)
From CB Require Export Word.
Local Open Scope N_scope.

(* static const uint8_t utf8d[] — hand copy; Bridge.v proves it equal to the table the
   translator regenerates from the source on every run *)
Definition utf8d : list N := [
  0;0;0;0;0;0;0;0;0;0;0;0;0;0;0;0;0;0;0;0;0;0;0;0;0;0;0;0;0;0;0;0;
  0;0;0;0;0;0;0;0;0;0;0;0;0;0;0;0;0;0;0;0;0;0;0;0;0;0;0;0;0;0;0;0;
  0;0;0;0;0;0;0;0;0;0;0;0;0;0;0;0;0;0;0;0;0;0;0;0;0;0;0;0;0;0;0;0;
  0;0;0;0;0;0;0;0;0;0;0;0;0;0;0;0;0;0;0;0;0;0;0;0;0;0;0;0;0;0;0;0;
  1;1;1;1;1;1;1;1;1;1;1;1;1;1;1;1;9;9;9;9;9;9;9;9;9;9;9;9;9;9;9;9;
  7;7;7;7;7;7;7;7;7;7;7;7;7;7;7;7;7;7;7;7;7;7;7;7;7;7;7;7;7;7;7;7;
  8;8;2;2;2;2;2;2;2;2;2;2;2;2;2;2;2;2;2;2;2;2;2;2;2;2;2;2;2;2;2;2;
  10;3;3;3;3;3;3;3;3;3;3;3;3;4;3;3;11;6;6;6;5;8;8;8;8;8;8;8;8;8;8;8;
  0;1;2;3;5;8;7;1;1;1;4;6;1;1;1;1;1;1;1;1;1;1;1;1;1;1;1;1;1;1;1;1;
  1;0;1;1;1;1;1;0;1;0;1;1;1;1;1;1;1;2;1;1;1;1;1;2;1;2;1;1;1;1;1;1;
  1;1;1;1;1;1;1;2;1;1;1;1;1;1;1;1;1;2;1;1;1;1;1;1;1;2;1;1;1;1;1;1;
  1;1;1;1;1;1;1;3;1;3;1;1;1;1;1;1;1;3;1;1;1;1;1;3;1;3;1;1;1;1;1;1;
  1;3;1;1;1;1;1;1;1;1;1;1;1;1;1;1
].

Definition UTF8_ACCEPT : N := 0.
Definition UTF8_REJECT : N := 1.

(* a read of table[i]; None = out of the array (undefined behaviour) *)
Definition tbl (table : list N) (i : N) : option N := nth_error table (N.to_nat i).

(* _cbor_unicode_decode: the new state (the code point is computed but does not influence it) *)
Definition unicode_decode (table : list N) (state byte : N) : option N :=
  match tbl table byte with
  | None => None
  | Some type => tbl table (256 + state * 16 + type)
  end.

(* _cbor_unicode_codepoint_count: Some (count, ok) — ok = false is _CBOR_UNICODE_BADCP *)
Fixpoint cp_loop (table : list N) (bs : list N) (state count : N) : option (N * bool) :=
  match bs with
  | [] => if state =? UTF8_ACCEPT then Some (count, true) else Some (0, false)
  | b :: r =>
      match unicode_decode table state b with
      | None => None
      | Some res =>
          if res =? UTF8_ACCEPT then cp_loop table r res (count + 1)
          else if res =? UTF8_REJECT then Some (0, false)
          else cp_loop table r res count
      end
  end.
Definition codepoint_count (table : list N) (bs : list N) : option (N * bool) :=
  cp_loop table bs UTF8_ACCEPT 0.

(* what cbor_string_set_handle stores in metadata.string_metadata.codepoint_count *)
Definition stored_codepoints (table : list N) (bs : list N) : option N :=
  match codepoint_count table bs with
  | None => None
  | Some (c, true) => Some c
  | Some (_, false) => Some 0
  end.

(* ---- specification: RFC 3629 section 4 ----
   UTF8-char = UTF8-1 / UTF8-2 / UTF8-3 / UTF8-4; [lead b] gives, for a first octet, the
   ranges the following octets of that character must lie in *)
Definition utf8_tail : N * N := (0x80, 0xBF).
Definition lead (b : N) : option (list (N * N)) :=
  if b <=? 0x7F then Some []                                             (* UTF8-1 *)
  else if (0xC2 <=? b) && (b <=? 0xDF) then Some [utf8_tail]             (* UTF8-2 *)
  else if b =? 0xE0 then Some [(0xA0, 0xBF); utf8_tail]                  (* UTF8-3 *)
  else if (0xE1 <=? b) && (b <=? 0xEC) then Some [utf8_tail; utf8_tail]
  else if b =? 0xED then Some [(0x80, 0x9F); utf8_tail]
  else if (0xEE <=? b) && (b <=? 0xEF) then Some [utf8_tail; utf8_tail]
  else if b =? 0xF0 then Some [(0x90, 0xBF); utf8_tail; utf8_tail]       (* UTF8-4 *)
  else if (0xF1 <=? b) && (b <=? 0xF3) then Some [utf8_tail; utf8_tail; utf8_tail]
  else if b =? 0xF4 then Some [(0x80, 0x8F); utf8_tail; utf8_tail]
  else None.

(* number of characters of a valid UTF8-octets string whose current character still needs
   the octets described by [pend]; None = not valid *)
Fixpoint utf8_from (pend : list (N * N)) (bs : list N) : option N :=
  match bs with
  | [] => match pend with [] => Some 0 | _ => None end
  | b :: r =>
      match pend with
      | [] => match lead b with
              | Some p => option_map N.succ (utf8_from p r)
              | None => None
              end
      | (lo, hi) :: p => if (lo <=? b) && (b <=? hi) then utf8_from p r else None
      end
  end.
Definition utf8_spec (bs : list N) : option N := utf8_from [] bs.

(* the code point count the property prescribes *)
Definition spec_codepoints (bs : list N) : N :=
  match utf8_spec bs with Some n => n | None => 0 end.
