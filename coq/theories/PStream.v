(* Model P, streaming decoder: src/cbor/streaming.c (claim_bytes, cbor_stream_decode) and
   src/cbor/internal/loaders.c.  Definitions only. *)
From CB Require Export Word.
Local Open Scope N_scope.

Inductive status := Finished | Nedata | DError.
Record dres := mkdres { st : status; rd : N; req : N }.

(* required + result->read, saturating at SIZE_MAX (streaming.c, claim_bytes) *)
Definition sat_add64 (a b : N) : N := if SIZE_MAX - b <? a then SIZE_MAX else a + b.

(* static bool claim_bytes(size_t required, size_t provided, struct cbor_decoder_result* result) *)
Definition claim_bytes (required provided : N) (r : dres) : bool * dres :=
  if sub64 provided (rd r) <? required
  then (false, mkdres Nedata 0 (sat_add64 required (rd r)))
  else (true, mkdres (st r) (wrap64 (rd r + required)) 0).

Inductive iwidth := I8 | I16 | I32 | I64.
Inductive fwidth := F16 | F32 | F64.

(* one constructor per member of struct cbor_callbacks; string payloads carry the offset of
   the payload pointer relative to [source] and the bytes it points at *)
Inductive tok :=
| TUint (w : iwidth) (v : N)
| TNegint (w : iwidth) (v : N)
| TBytes (off : N) (data : list N)
| TBytesStart
| TText (off : N) (data : list N)
| TTextStart
| TArray (n : N)
| TArrayStart
| TMap (n : N)
| TMapStart
| TTag (v : N)
| TFloat (w : fwidth) (bits : N)   (* F16/F32: binary32 bits of the float argument; F64: binary64 bits; NaN canonical *)
| TBool (b : bool)
| TNull
| TUndef
| TBreak.

(* callback slots of struct cbor_callbacks *)
Inductive cbid :=
| cb_uint8 | cb_uint16 | cb_uint32 | cb_uint64
| cb_negint8 | cb_negint16 | cb_negint32 | cb_negint64
| cb_byte_string | cb_byte_string_start | cb_string | cb_string_start
| cb_array_start | cb_indef_array_start | cb_map_start | cb_indef_map_start
| cb_tag | cb_float2 | cb_float4 | cb_float8
| cb_undefined | cb_null | cb_boolean | cb_indef_break.

(* normal form of one case of the switch in cbor_stream_decode *)
Inductive action :=
| AErr                              (* return (struct cbor_decoder_result){.status = CBOR_DECODER_ERROR} *)
| AImm (cb : cbid) (sub : N)        (* cb(ctx, _cbor_load_uint8(source) - sub) *)
| AArg (cb : cbid) (k : N)          (* if (claim_bytes(k)) cb(ctx, _cbor_load_uintK(source + 1)) *)
| AStrImm (cb : cbid) (sub : N)     (* length = load_uint8(source) - sub; CLAIM_BYTES_AND_INVOKE(cb, length, 0) *)
| AStrArg (cb : cbid) (k : N)       (* READ_CLAIM_INVOKE(cb, _cbor_load_uintK, k) *)
| ANoArg (cb : cbid)                (* cb(ctx) *)
| ABool (b : bool)                  (* callbacks->boolean(ctx, b) *)
| AFloat (cb : cbid) (k : N).       (* if (claim_bytes(k)) cb(ctx, _cbor_load_half/float/double(source + 1)) *)

Definition inr_ (lo hi b : N) : bool := (lo <=? b) && (b <=? hi).

(* the switch, by ranges of the initial byte *)
Definition dispatch (b : N) : action :=
  if inr_ 0x00 0x17 b then AImm cb_uint8 0 else
  if b =? 0x18 then AArg cb_uint8 1 else
  if b =? 0x19 then AArg cb_uint16 2 else
  if b =? 0x1A then AArg cb_uint32 4 else
  if b =? 0x1B then AArg cb_uint64 8 else
  if inr_ 0x1C 0x1F b then AErr else
  if inr_ 0x20 0x37 b then AImm cb_negint8 0x20 else
  if b =? 0x38 then AArg cb_negint8 1 else
  if b =? 0x39 then AArg cb_negint16 2 else
  if b =? 0x3A then AArg cb_negint32 4 else
  if b =? 0x3B then AArg cb_negint64 8 else
  if inr_ 0x3C 0x3F b then AErr else
  if inr_ 0x40 0x57 b then AStrImm cb_byte_string 0x40 else
  if b =? 0x58 then AStrArg cb_byte_string 1 else
  if b =? 0x59 then AStrArg cb_byte_string 2 else
  if b =? 0x5A then AStrArg cb_byte_string 4 else
  if b =? 0x5B then AStrArg cb_byte_string 8 else
  if inr_ 0x5C 0x5E b then AErr else
  if b =? 0x5F then ANoArg cb_byte_string_start else
  if inr_ 0x60 0x77 b then AStrImm cb_string 0x60 else
  if b =? 0x78 then AStrArg cb_string 1 else
  if b =? 0x79 then AStrArg cb_string 2 else
  if b =? 0x7A then AStrArg cb_string 4 else
  if b =? 0x7B then AStrArg cb_string 8 else
  if inr_ 0x7C 0x7E b then AErr else
  if b =? 0x7F then ANoArg cb_string_start else
  if inr_ 0x80 0x97 b then AImm cb_array_start 0x80 else
  if b =? 0x98 then AArg cb_array_start 1 else
  if b =? 0x99 then AArg cb_array_start 2 else
  if b =? 0x9A then AArg cb_array_start 4 else
  if b =? 0x9B then AArg cb_array_start 8 else
  if inr_ 0x9C 0x9E b then AErr else
  if b =? 0x9F then ANoArg cb_indef_array_start else
  if inr_ 0xA0 0xB7 b then AImm cb_map_start 0xA0 else
  if b =? 0xB8 then AArg cb_map_start 1 else
  if b =? 0xB9 then AArg cb_map_start 2 else
  if b =? 0xBA then AArg cb_map_start 4 else
  if b =? 0xBB then AArg cb_map_start 8 else
  if inr_ 0xBC 0xBE b then AErr else
  if b =? 0xBF then ANoArg cb_indef_map_start else
  if inr_ 0xC0 0xD7 b then AImm cb_tag 0xC0 else
  if b =? 0xD8 then AArg cb_tag 1 else
  if b =? 0xD9 then AArg cb_tag 2 else
  if b =? 0xDA then AArg cb_tag 4 else
  if b =? 0xDB then AArg cb_tag 8 else
  if inr_ 0xDC 0xDF b then AErr else
  if inr_ 0xE0 0xF3 b then AErr else
  if b =? 0xF4 then ABool false else
  if b =? 0xF5 then ABool true else
  if b =? 0xF6 then ANoArg cb_null else
  if b =? 0xF7 then ANoArg cb_undefined else
  if b =? 0xF8 then AErr else
  if b =? 0xF9 then AFloat cb_float2 2 else
  if b =? 0xFA then AFloat cb_float4 4 else
  if b =? 0xFB then AFloat cb_float8 8 else
  if inr_ 0xFC 0xFE b then AErr else
  if b =? 0xFF then ANoArg cb_indef_break else AErr.

(* ---- floats on bit patterns (loaders.c: _cbor_decode_half, _cbor_load_float/double) ---- *)
Definition F32_NAN : N := 0x7FC00000.
Definition F64_NAN : N := 0x7FF8000000000000.
Definition f32_is_nan (b : N) : bool := ((b / 2^23) mod 256 =? 255) && negb (b mod 2^23 =? 0).
Definition f64_is_nan (b : N) : bool := ((b / 2^52) mod 2048 =? 2047) && negb (b mod 2^52 =? 0).
Definition canon32 (b : N) : N := if f32_is_nan b then F32_NAN else b.
Definition canon64 (b : N) : N := if f64_is_nan b then F64_NAN else b.

(* position of the highest set bit of a 10-bit mantissa (0 for 0) *)
Definition hb10 (m : N) : N := N.log2 m.

(* (float) of the double computed by _cbor_decode_half, as binary32 bits.
   exp = 0: ldexp(mant, -24); 0 < exp < 31: ldexp(mant + 1024, exp - 25); exp = 31: inf / NaN *)
Definition decode_half (h : N) : N :=
  let sign := (h / 2^15) mod 2 in
  let e := (h / 2^10) mod 32 in
  let m := h mod 2^10 in
  let mag :=
    if e =? 0 then
      if m =? 0 then 0
      else let p := hb10 m in (p + 103) * 2^23 + (m - 2^p) * 2^(23 - p)
    else if e =? 31 then
      if m =? 0 then 0x7F800000 else F32_NAN
    else (e + 112) * 2^23 + m * 2^13 in
  if (e =? 31) && negb (m =? 0) then F32_NAN else sign * 2^31 + mag.

(* ---- reads ---- *)
(* k bytes at offset off, or None when the read would leave the buffer (= undefined behaviour) *)
Definition rd_bytes (buf : list N) (off k : N) : option (list N) :=
  if off + k <=? len buf then Some (firstnN k (skipnN off buf)) else None.

Inductive sres := SFault | SRes (r : dres) (e : option tok).

Definition int_tok (cb : cbid) (v : N) : option tok :=
  match cb with
  | cb_uint8 => Some (TUint I8 (v mod 2^8)) | cb_uint16 => Some (TUint I16 (v mod 2^16))
  | cb_uint32 => Some (TUint I32 (v mod 2^32)) | cb_uint64 => Some (TUint I64 (v mod 2^64))
  | cb_negint8 => Some (TNegint I8 (v mod 2^8)) | cb_negint16 => Some (TNegint I16 (v mod 2^16))
  | cb_negint32 => Some (TNegint I32 (v mod 2^32)) | cb_negint64 => Some (TNegint I64 (v mod 2^64))
  | cb_array_start => Some (TArray (v mod 2^64)) | cb_map_start => Some (TMap (v mod 2^64))
  | cb_tag => Some (TTag (v mod 2^64))
  | _ => None
  end.

Definition str_tok (cb : cbid) (off : N) (data : list N) : option tok :=
  match cb with
  | cb_byte_string => Some (TBytes off data)
  | cb_string => Some (TText off data)
  | _ => None
  end.

Definition noarg_tok (cb : cbid) : option tok :=
  match cb with
  | cb_byte_string_start => Some TBytesStart | cb_string_start => Some TTextStart
  | cb_indef_array_start => Some TArrayStart | cb_indef_map_start => Some TMapStart
  | cb_null => Some TNull | cb_undefined => Some TUndef | cb_indef_break => Some TBreak
  | _ => None
  end.

Definition float_tok (cb : cbid) (v : N) : option tok :=
  match cb with
  | cb_float2 => Some (TFloat F16 (decode_half v))
  | cb_float4 => Some (TFloat F32 (canon32 v))
  | cb_float8 => Some (TFloat F64 (canon64 v))
  | _ => None
  end.

Definition opt_res (r : dres) (o : option tok) : sres :=
  match o with Some t => SRes r (Some t) | None => SFault end.

(* CLAIM_BYTES_AND_INVOKE(cb, length, extra) after [r] has claimed 1 + extra bytes *)
Definition claim_and_invoke (cb : cbid) (length extra : N) (buf : list N) (r : dres) : sres :=
  let (ok, r') := claim_bytes length (len buf) r in
  if ok then
    match rd_bytes buf (1 + extra) length with
    | Some data => opt_res r' (str_tok cb (1 + extra) data)
    | None => SFault
    end
  else SRes r' None.

Definition stream_decode (buf : list N) : sres :=
  let r0 := mkdres Finished 0 0 in
  let (ok, r1) := claim_bytes 1 (len buf) r0 in
  if negb ok then SRes r1 None else
  match buf with
  | [] => SFault
  | b :: _ =>
    match dispatch b with
    | AErr => SRes (mkdres DError 0 0) None
    | AImm cb sub => opt_res r1 (int_tok cb (b + W64 - sub))
    | AArg cb k =>
        let (ok, r2) := claim_bytes k (len buf) r1 in
        if ok then
          match rd_bytes buf 1 k with
          | Some a => opt_res r2 (int_tok cb (be_val a))
          | None => SFault
          end
        else SRes r2 None
    | AStrImm cb sub => claim_and_invoke cb (wrap64 (b + W64 - sub)) 0 buf r1
    | AStrArg cb k =>
        let (ok, r2) := claim_bytes k (len buf) r1 in
        if ok then
          match rd_bytes buf 1 k with
          | Some a => claim_and_invoke cb (be_val a) k buf r2
          | None => SFault
          end
        else SRes r2 None
    | ANoArg cb => opt_res r1 (noarg_tok cb)
    | ABool v => SRes r1 (Some (TBool v))
    | AFloat cb k =>
        let (ok, r2) := claim_bytes k (len buf) r1 in
        if ok then
          match rd_bytes buf 1 k with
          | Some a => opt_res r2 (float_tok cb (be_val a))
          | None => SFault
          end
        else SRes r2 None
    end
  end.
