(* generated plans (translator/effects.py, this run's clang AST of arrays.c maps.c bytestrings.c
   strings.c tags.c common.c internal/stack.c) = the hand-written plans of HPlans.v.

   Automation only: unfold; normalise the C-style boolean layers; case split on every remaining
   condition (pruning impossible combinations with lia); compare the two plan records constructor
   by constructor with lia at the integer leaves (never under mod).  A behaviour-preserving rewrite
   of the C code regenerates different Gallina and still checks; a changed comparison, constant,
   width, index, request size, a missing or extra reference-count call or store makes a lemma
   fail.  HPlans_proofs.v ties the hand-written plans to the heap model H. *)
From Coq Require Import ZArith NArith List Bool String Lia ZifyBool ZifyN ZifyNat.
Import ListNotations.
From CB Require Import Word PStream PEnc PMem GenLeafTypes BridgeTac BridgeEffTac HHeap HItems HOps HCont_proofs HPlans HPlans_proofs.
From CBGen Require Import Gen_config Gen_effects.
Ltac Zify.zify_post_hook ::= Z.div_mod_to_equations.
Local Open Scope Z_scope.

Ltac plan_unfold :=
  cbv beta zeta delta
    [Gcbor_array_push Gcbor_array_get Gcbor_array_replace Gcbor_array_set Gcbor_new_definite_array
     Gcbor_new_indefinite_array G_cbor_map_add_key G_cbor_map_add_value Gcbor_map_add Gcbor_new_definite_map
     Gcbor_bytestring_add_chunk Gcbor_string_add_chunk Gcbor_new_tag Gcbor_tag_set_item Gcbor_tag_item
     Gcbor_incref Gcbor_move G_cbor_stack_push G_cbor_stack_pop
     fbplan_cbor_array_push fbplan_cbor_array_get fbplan_cbor_array_replace fbplan_cbor_array_set
     fbplan_cbor_new_definite_array fbplan_cbor_new_indefinite_array fbplan_cbor_map_add_key
     fbplan_cbor_map_add_value fbplan_cbor_map_add fbplan_cbor_new_definite_map
     fbplan_cbor_bytestring_add_chunk fbplan_cbor_string_add_chunk fbplan_cbor_new_tag
     fbplan_cbor_tag_set_item fbplan_cbor_tag_item fbplan_cbor_incref fbplan_cbor_move
     fbplan_cbor_stack_push fbplan_cbor_stack_pop
     array_push_plan map_add_key_plan add_chunk_plan append_plan array_get_plan array_replace_plan
     array_set_plan map_add_value_plan map_add_plan new_definite_array_plan new_indefinite_array_plan
     new_definite_map_plan new_tag_plan tag_set_item_plan tag_item_plan incref_plan move_plan
     stack_push_plan stack_pop_plan arr_fields chk_fields item_ints seq_meta
     zN dst_z dst_b fb_cbor_safe_to_multiply grow_capacity CBOR_BUFFER_GROWTH sub64
     SZ_PTR SZ_PAIR SZ_ITEM SZ_REC SZ_ISD TY_ARRAY TY_MAP TY_TAG gen_CBOR_MAX_STACK_SIZE].

Ltac plan_bridge :=
  plan_unfold; rewrite ?N2Z.id; change (Z.to_N 2) with 2%N; cbn [app];
  repeat match goal with
  | |- context [safe_to_multiply 64 2 ?x] =>
      let sm := fresh "sm" in set (sm := safe_to_multiply 64 2 x); clearbody sm
  end;
  norm; pows; psplits; peq.

(* ---- the enumerations the plans mention ---- *)
Lemma bridge_plan_enums :
  E_CBOR_METADATA_DEFINITE = dst_z true /\ E_CBOR_METADATA_INDEFINITE = dst_z false /\
  ECBOR_TYPE_ARRAY = TY_ARRAY /\ ECBOR_TYPE_MAP = TY_MAP /\ ECBOR_TYPE_TAG = TY_TAG.
Proof. repeat split; vm_compute; reflexivity. Qed.

(* ---- arrays.c ---- *)
Lemma bridge_plan_array_push definite e al ok : (e < 2^64)%N -> (al < 2^64)%N ->
  Gcbor_array_push (Z.of_N al) (dst_z definite) (Z.of_N e) ok = array_push_plan definite e al ok.
Proof. intros He Ha. destruct definite, ok; plan_bridge. Qed.

Lemma bridge_plan_array_get al dst e i : (e < 2^64)%N -> (i < 2^64)%N ->
  Gcbor_array_get (Z.of_N al) dst (Z.of_N e) (Z.of_N i) = array_get_plan al dst e i.
Proof. intros He Hi. plan_bridge. Qed.

Lemma bridge_plan_array_replace al dst e i : (e < 2^64)%N -> (i < 2^64)%N ->
  Gcbor_array_replace (Z.of_N al) dst (Z.of_N e) (Z.of_N i) = array_replace_plan al dst e i.
Proof. intros He Hi. plan_bridge. Qed.

Lemma bridge_plan_array_set al dst e i c : (e < 2^64)%N -> (i < 2^64)%N ->
  Gcbor_array_set (Z.of_N al) dst (Z.of_N e) (Z.of_N i) c = array_set_plan al dst e i c.
Proof. intros He Hi. plan_bridge. Qed.

Lemma bridge_plan_new_definite_array n ok0 ok1 : (n < 2^64)%N ->
  Gcbor_new_definite_array (Z.of_N n) ok0 ok1 = new_definite_array_plan n ok0 ok1.
Proof. intros Hn. destruct ok0, ok1; plan_bridge. Qed.

Lemma bridge_plan_new_indefinite_array ok0 :
  Gcbor_new_indefinite_array ok0 = new_indefinite_array_plan ok0.
Proof. destruct ok0; plan_bridge. Qed.

(* ---- maps.c ---- *)
Lemma bridge_plan_map_add_key definite e al ok : (e < 2^64)%N -> (al < 2^64)%N ->
  G_cbor_map_add_key (Z.of_N al) (dst_z definite) (Z.of_N e) ok = map_add_key_plan definite e al ok.
Proof. intros He Ha. destruct definite, ok; plan_bridge. Qed.

Lemma bridge_plan_map_add_value al dst e : (e < 2^64)%N ->
  G_cbor_map_add_value (Z.of_N al) dst (Z.of_N e) = map_add_value_plan al dst e.
Proof. intros He. plan_bridge. Qed.

Lemma bridge_plan_map_add c0 c1 : Gcbor_map_add c0 c1 = map_add_plan c0 c1.
Proof. plan_bridge. Qed.

Lemma bridge_plan_new_definite_map n ok0 ok1 : (n < 2^64)%N ->
  Gcbor_new_definite_map (Z.of_N n) ok0 ok1 = new_definite_map_plan n ok0 ok1.
Proof. intros Hn. destruct ok0, ok1; plan_bridge. Qed.

(* ---- bytestrings.c / strings.c ---- *)
Lemma bridge_plan_bytestring_add_chunk cnt cap ok : (cnt < 2^64)%N -> (cap < 2^64)%N ->
  Gcbor_bytestring_add_chunk (Z.of_N cap) (Z.of_N cnt) ok = add_chunk_plan cnt cap ok.
Proof. intros Hc Hp. destruct ok; plan_bridge. Qed.

Lemma bridge_plan_string_add_chunk cnt cap ok : (cnt < 2^64)%N -> (cap < 2^64)%N ->
  Gcbor_string_add_chunk (Z.of_N cap) (Z.of_N cnt) ok = add_chunk_plan cnt cap ok.
Proof. intros Hc Hp. destruct ok; plan_bridge. Qed.

(* ---- tags.c ---- *)
Lemma bridge_plan_new_tag v ok0 : (v < 2^64)%N -> Gcbor_new_tag (Z.of_N v) ok0 = new_tag_plan v ok0.
Proof. intros Hv. destruct ok0; plan_bridge. Qed.

Lemma bridge_plan_tag_set_item : Gcbor_tag_set_item = tag_set_item_plan.
Proof. plan_bridge. Qed.

Lemma bridge_plan_tag_item : Gcbor_tag_item = tag_item_plan.
Proof. plan_bridge. Qed.

(* ---- common.c ---- *)
Lemma bridge_plan_incref rc : (rc < 2^64)%N -> Gcbor_incref (Z.of_N rc) = incref_plan rc.
Proof. intros Hr. plan_bridge. Qed.

Lemma bridge_plan_move rc : (rc < 2^64)%N -> Gcbor_move (Z.of_N rc) = move_plan rc.
Proof. intros Hr. plan_bridge. Qed.

(* ---- internal/stack.c: the limit is the configured CBOR_MAX_STACK_SIZE (Gen_config) ---- *)
Lemma bridge_plan_stack_push sz sub ok : (sz < 2^64)%N -> (sub < 2^64)%N ->
  G_cbor_stack_push (Z.of_N sz) (Z.of_N sub) ok = stack_push_plan gen_CBOR_MAX_STACK_SIZE sz sub ok.
Proof. intros Hs Hb. destruct ok; plan_bridge. Qed.

Lemma bridge_plan_stack_pop sz : (sz < 2^64)%N -> G_cbor_stack_pop (Z.of_N sz) = stack_pop_plan sz.
Proof. intros Hs. plan_bridge. Qed.

(* ---- composition: the operations of the heap model H follow the plans GENERATED from the C
   source of this run (bridge lemma, then the hand-proved theorem of HPlans_proofs.v) ---- *)
Local Open Scope N_scope.

Theorem code_array_push_followed refuse a x w rc indef data allocated elems rcx nx :
  wf w ->
  heap w a = Some (CItem rc (NArr indef data allocated elems)) ->
  block_inv w data allocated ->
  heap w x = Some (CItem rcx nx) ->
  a <> x ->
  allocated < 2 ^ 64 -> len elems <= allocated ->
  let p := Gcbor_array_push (Z.of_N allocated) (dst_z (negb indef)) (Z.of_N (len elems))
                            (grow_ok refuse (nreq w) SZ_PTR allocated) in
  let elems' := if ret_bool p then elems ++ [x] else elems in
  exists w' data',
    array_push refuse a x w = Ret (ret_bool p) w' /\
    heap w' a = Some (CItem rc (NArr indef data' (fieldN "allocated" p) elems')) /\
    len elems' = fieldN "end_ptr" p /\
    heap w' x = Some (CItem (bump (increfs_arg 1 p) rcx) nx) /\
    trace w' = req_events data (if ret_bool p then Some (next w) else None) (p_reqs p) ++ trace w /\
    (ret_bool p = false -> same_heap w w').
Proof.
  intros Hwf Ha Hb Hx Hax H64 Hle. rewrite bridge_plan_array_push by lia.
  apply array_push_follows_plan; assumption.
Qed.

Theorem code_map_add_key_followed refuse a k w rc indef data allocated pairs rck nk :
  wf w ->
  heap w a = Some (CItem rc (NMap indef data allocated pairs)) ->
  block_inv w data allocated ->
  heap w k = Some (CItem rck nk) ->
  a <> k ->
  allocated < 2 ^ 64 -> len pairs <= allocated ->
  let p := G_cbor_map_add_key (Z.of_N allocated) (dst_z (negb indef)) (Z.of_N (len pairs))
                              (grow_ok refuse (nreq w) SZ_PAIR allocated) in
  let pairs' := if ret_bool p then pairs ++ [(k, None)] else pairs in
  exists w' data',
    map_add_key refuse a k w = Ret (ret_bool p) w' /\
    heap w' a = Some (CItem rc (NMap indef data' (fieldN "allocated" p) pairs')) /\
    len pairs' = fieldN "end_ptr" p /\
    heap w' k = Some (CItem (bump (increfs_arg 1 p) rck) nk) /\
    trace w' = req_events data (if ret_bool p then Some (next w) else None) (p_reqs p) ++ trace w /\
    (ret_bool p = false -> same_heap w w').
Proof.
  intros Hwf Ha Hb Hx Hax H64 Hle. rewrite bridge_plan_map_add_key by lia.
  apply map_add_key_follows_plan; assumption.
Qed.

Theorem code_add_chunk_followed refuse a x w rc text hdr hsz arr cap chunks rcx nx :
  wf w ->
  heap w a = Some (CItem rc (NChunked text hdr arr cap chunks)) ->
  heap w hdr = Some (CData hsz) ->
  block_inv w arr cap -> arr <> Some hdr ->
  heap w x = Some (CItem rcx nx) -> chunk_ok text nx ->
  a <> x ->
  cap < 2 ^ 64 -> len chunks <= cap ->
  let p := (if text then Gcbor_string_add_chunk else Gcbor_bytestring_add_chunk)
             (Z.of_N cap) (Z.of_N (len chunks)) (grow_ok refuse (nreq w) SZ_PTR cap) in
  let chunks' := if ret_bool p then chunks ++ [x] else chunks in
  exists w' arr',
    add_chunk refuse a x w = Ret (ret_bool p) w' /\
    heap w' a = Some (CItem rc (NChunked text hdr arr' (fieldN "chunk_capacity" p) chunks')) /\
    len chunks' = fieldN "chunk_count" p /\
    heap w' x = Some (CItem (bump (increfs_arg 1 p) rcx) nx) /\
    trace w' = req_events arr (if ret_bool p then Some (next w) else None) (p_reqs p) ++ trace w /\
    (ret_bool p = false -> same_heap w w').
Proof.
  intros Hwf Ha Hh Hb Hah Hx Hk Hax H64 Hle.
  destruct text; [rewrite bridge_plan_string_add_chunk by lia | rewrite bridge_plan_bytestring_add_chunk by lia];
    eapply add_chunk_follows_plan; eassumption.
Qed.

Theorem code_stack_push_followed refuse res sub stk w :
  sub < 2 ^ 64 -> len stk <= gen_CBOR_MAX_STACK_SIZE ->
  let L := gen_CBOR_MAX_STACK_SIZE in
  let p := G_cbor_stack_push (Z.of_N (len stk)) (Z.of_N sub) (malloc_ok refuse (nreq w) SZ_REC) in
  (ret_null p = true ->
     fieldN "size" p = len stk /\
     push_ctx refuse L res sub stk w =
       (decref res ;;; ret (mkhctx stk None true false))
         (if len stk =? L then w else w_refused (EvMalloc SZ_REC None) w) /\
     p_reqs p = (if len stk =? L then [] else [ReqMalloc (Z.of_N SZ_REC)])) /\
  (ret_null p = false ->
     len stk < L /\ p_reqs p = [ReqMalloc (Z.of_N SZ_REC)] /\
     push_ctx refuse L res sub stk w =
       Ret (mkhctx ((next w, res, sub) :: stk) None false false) (w_malloc SZ_REC (CData SZ_REC) w) /\
     len ((next w, res, sub) :: stk) = fieldN "size" p /\
     In (SetInt (PNew 0) "subitems" (Z.of_N sub)) (p_effs p) /\
     In (SetPtr (PNew 0) "item" (PArg 1)) (p_effs p)).
Proof.
  intros Hs Hle L. subst L.
  assert (HL : gen_CBOR_MAX_STACK_SIZE < 2 ^ 64) by (vm_compute; reflexivity).
  rewrite bridge_plan_stack_push by lia.
  apply stack_push_follows_plan; assumption.
Qed.

(* C20 on the generated text: the one request cbor_array_push can make *)
Theorem code_array_push_request definite e al ok r : e < 2^64 -> al < 2^64 ->
  In r (p_reqs (Gcbor_array_push (Z.of_N al) (dst_z definite) (Z.of_N e) ok)) ->
  exists c, r = ReqReallocMultiple (PField (PArg 0) "data") (Z.of_N SZ_PTR) (Z.of_N c) /\
            c = N.max 1 (2 * al) /\ al < c /\ c < 2 ^ 64.
Proof.
  intros He Ha. rewrite bridge_plan_array_push by assumption. unfold array_push_plan. intros H.
  destruct (append_plan_requests _ _ _ _ _ _ _ _ _ _ _ Ha H) as (c & -> & _ & Hc & Hlt & H64 & _).
  exists c. auto.
Qed.
