(* Model P, the tree builder and cbor_load: src/cbor.c (cbor_load),
   src/cbor/internal/builder_callbacks.c, src/cbor/internal/stack.c.  Definitions only.

   Parameters: [L] = CBOR_MAX_STACK_SIZE; [cap] = the largest request the allocator grants
   (the size-cap allocator of the harness).  Only the requests whose size is declared by the
   input (string payloads, definite array / map storage) are refusable in P; refusing the k-th
   request belongs to model H. *)
From CB Require Export PItem.
Local Open Scope N_scope.

Inductive frame :=
| FArr (indef : bool) (racc : list item) (allocated subitems : N)
| FMap (indef : bool) (racc : list (item * item)) (key : option item) (allocated subitems : N)
| FTag (v : N)
| FBytes (racc : list (list N))
| FText (racc : list (list N)).

(* struct _cbor_decoder_context after a callback; [fault] = the C code would have touched
   memory out of bounds / read an uninitialised field *)
Record bctx := mkctx {
  stack : list frame; root : option item;
  creation_failed : bool; syntax_error : bool; fault : bool }.

Definition ok_stack (s : list frame) : bctx := mkctx s None false false false.
Definition ok_root (t : item) : bctx := mkctx [] (Some t) false false false.
Definition fail_mem (s : list frame) : bctx := mkctx s None true false false.
Definition fail_syntax (s : list frame) : bctx := mkctx s None false true false.
Definition fail_fault (s : list frame) : bctx := mkctx s None false false true.

Definition odd (n : N) : bool := N.odd n.

(* void _cbor_builder_append(cbor_item_t* item, struct _cbor_decoder_context* ctx) *)
Fixpoint append (it : item) (stk : list frame) : bctx :=
  match stk with
  | [] => ok_root it
  | FArr false racc allocated subitems :: rest =>
      (* cbor_array_push on a definite array *)
      if allocated <=? len racc then fail_mem stk
      else
        let sub' := sub64 subitems 1 in
        if sub' =? 0 then append (IArray false (rev (it :: racc))) rest
        else ok_stack (FArr false (it :: racc) allocated sub' :: rest)
  | FArr true racc allocated subitems :: rest =>
      ok_stack (FArr true (it :: racc) allocated subitems :: rest)
  | FMap indef racc key allocated subitems :: rest =>
      let added :=
        if odd subitems then
          (* _cbor_map_add_value: writes handle[end_ptr - 1].value *)
          match key with
          | Some k => Some ((k, it) :: racc, None)
          | None => None
          end
        else
          match key with
          | Some _ => None
          | None => Some (racc, Some it)
          end in
      if negb (odd subitems) && negb indef && (allocated <=? len racc) then fail_mem stk
      else
      match added with
      | None => fail_fault stk
      | Some (racc', key') =>
          if indef then ok_stack (FMap true racc' key' allocated (N.lxor subitems 1) :: rest)
          else
            let sub' := sub64 subitems 1 in
            if sub' =? 0 then
              match key' with
              | None => append (IMap false (rev racc')) rest
              | Some _ => fail_fault stk
              end
            else ok_stack (FMap false racc' key' allocated sub' :: rest)
      end
  | FTag v :: rest => append (ITag v it) rest
  | FBytes _ :: _ | FText _ :: _ => fail_syntax stk
  end.

Section Limits.
Variable L : N.     (* CBOR_MAX_STACK_SIZE *)
Variable cap : N.   (* allocator grants a request iff its size <= cap *)

(* PUSH_CTX_STACK: _cbor_stack_push refuses at stack->size == CBOR_MAX_STACK_SIZE *)
Definition push (f : frame) (stk : list frame) : bctx :=
  if len stk =? L then fail_mem stk else ok_stack (f :: stk).

Definition alloc_ok (w : N) (item_size count : N) : bool :=
  match alloc_multiple_req w item_size count with
  | Some n => n <=? cap
  | None => false
  end.

(* the builder callback for one decoded head *)
Definition callback (tk : tok) (stk : list frame) : bctx :=
  match tk with
  | TUint w v => append (IUint w v) stk
  | TNegint w v => append (INegint w v) stk
  | TBytes _ d =>
      if cap <? len d then fail_mem stk else
      match stk with
      | FBytes racc :: rest => ok_stack (FBytes (d :: racc) :: rest)
      | _ => append (IBytes d) stk
      end
  | TText _ d =>
      if cap <? len d then fail_mem stk else
      match stk with
      | FText racc :: rest => ok_stack (FText (d :: racc) :: rest)
      | _ => append (IText d) stk
      end
  | TBytesStart => push (FBytes []) stk
  | TTextStart => push (FText []) stk
  | TArray n =>
      if negb (alloc_ok 64 8 n) then fail_mem stk
      else if 0 <? n then push (FArr false [] n n) stk
      else append (IArray false []) stk
  | TArrayStart => push (FArr true [] 0 0) stk
  | TMap n =>
      if negb (alloc_ok 64 16 n) then fail_mem stk
      else if 0 <? n then push (FMap false [] None n (wrap64 (n * 2))) stk
      else append (IMap false []) stk
  | TMapStart => push (FMap true [] None 0 0) stk
  | TTag v => push (FTag v) stk
  | TFloat w b => append (IFloat w b) stk
  | TBool b => append (ICtrl (if b then 21 else 20)) stk
  | TNull => append (ICtrl 22) stk
  | TUndef => append (ICtrl 23) stk
  | TBreak =>
      match stk with
      | FArr true racc _ _ :: rest => append (IArray true (rev racc)) rest
      | FMap true racc key _ subitems :: rest =>
          if odd subitems then fail_syntax stk
          else match key with
               | None => append (IMap true (rev racc)) rest
               | Some _ => fail_fault stk
               end
      | FBytes racc :: rest => append (IBytesI (rev racc)) rest
      | FText racc :: rest => append (ITextI (rev racc)) rest
      | _ => fail_syntax stk
      end
  end.

Inductive lerr := ENone | ENotEnough | ENoData | EMalformed | EMem | ESyntax.
(* cbor_load: LOk tree read | LErr code position read | LFault (undefined behaviour / out of fuel) *)
Inductive lres := LFault | LOk (t : item) (read : N) | LErr (code : lerr) (pos read : N).

(* the do-while loop of cbor_load *)
Fixpoint load_loop (fuel : nat) (buf : list N) (read : N) (stk : list frame) : lres :=
  match fuel with
  | O => LFault
  | S f =>
    if len buf <=? read then LErr ENotEnough read read else
    match stream_decode (skipnN read buf) with
    | SFault => LFault
    | SRes r e =>
      match st r with
      | Nedata => LErr ENotEnough read read
      | DError => LErr EMalformed read read
      | Finished =>
        let read' := wrap64 (read + rd r) in
        match e with
        | None => LFault
        | Some tk =>
          let c := callback tk stk in
          if fault c then LFault
          else if creation_failed c then LErr EMem read' read'
          else if syntax_error c then LErr ESyntax read' read'
          else match stack c with
               | [] => match root c with Some t => LOk t read' | None => LFault end
               | stk' => load_loop f buf read' stk'
               end
        end
      end
    end
  end.

Definition load (buf : list N) : lres :=
  if len buf =? 0 then LErr ENoData 0 0
  else load_loop (S (length buf)) buf 0 [].

End Limits.
