(* Model H, property C17 for whole schedules.

   "When the allocator is configured once before threads start, any number of threads may concurrently
    decode, build, copy, serialize, describe and release items, provided no item is shared between
    threads: ... every thread obtains the same results as it would running alone."

   HFrame_proofs.v has the frame / footprint / independence of ONE call between two worlds with the same
   bump pointer.  In an interleaved run the addresses a thread receives differ from the ones it receives
   alone, so what is needed is that the model is EQUIVARIANT under injective renamings of addresses:

   - [step_equivariant], [step3_equivariant] (HEquiv_prims.v: renamings, [Sim], the primitives;
     HEquiv_ops.v: the binary walk over the code of every modelled function): if a call returns in [w1]
     (the thread running alone) and [Sim f w1 w2], the handle tables being related by [f], then the same
     call returns in [w2] with the SAME observable output, tables related by an extension [f'] of [f],
     [Sim f' w1' w2'], and every cell of [w2] outside the image of [f] is unchanged.  All 26 + 24 calls of
     HHist3.op3: none had to be excluded (the pointer getters [ptrs3], which print raw addresses, and
     [set_allocs], whose legality is a property of the whole heap, are outside [op3] already).
     Oracle: [index_independent refuse] (forall i j sz, refuse i sz = refuse j sz).

   - [C17_interleaving] (definitions in HInterleave.v): for every complete interleaving of the programs of
     k threads, if every thread run ALONE from [world0] returns, the interleaved run from [world0]
     returns, every thread's outputs are exactly those of its run alone, and the final shared heap is the
     disjoint union of renamed copies of the threads' final heaps: a family [f_t] with pairwise disjoint
     images covering [1, next w), [Sim f_t w_t w].
   - [C17_schedule_independent]: two complete schedules give the same per-thread outputs. *)
From CB Require Import Word Word_proofs PMem PItem HHeap HItems HOps HHist HHist2 HHist3.
From CB Require Import HRef_proofs HCont_proofs HCopy_proofs HFrame_proofs HEquiv_prims HEquiv_ops HInterleave.
From Coq Require Import Lia ZArith List Arith.
Import ListNotations.
Local Open Scope N_scope.

(* ------------------------------------------------------------------------------------------ *)
(* one call                                                                                    *)
(* ------------------------------------------------------------------------------------------ *)
Lemma newer_app {A} (acc l : list A) : newer (acc ++ l) l = acc.
Proof.
  unfold newer. rewrite app_length. replace (length acc + length l - length l)%nat with (length acc) by lia.
  rewrite firstn_app, firstn_all, Nat.sub_diag. cbn [firstn]. apply app_nil_r.
Qed.
Lemma touched_in f w1 w2 f' w1' w2' : Stp f w1 w2 f' w1' w2' ->
  forall p, In p (touched w2 w2') -> exists a, f' a = Some p.
Proof.
  intros T p Hp. destruct (T_acc _ _ _ _ _ _ T) as (acc & Ea & Ha). destruct (T_evs _ _ _ _ _ _ T) as (evs & Ee & He).
  unfold touched in Hp. rewrite Ea, Ee, !newer_app in Hp. apply in_app_or in Hp. destruct Hp as [Hp|Hp].
  - apply in_map_iff in Hp. destruct Hp as (x & <- & Hx). apply Ha, Hx.
  - apply in_flat_map in Hp. destruct Hp as (e & Hin & Hpe). eapply He; eassumption.
Qed.

Section Step.
Variable refuse : N -> N -> bool.
Hypothesis refuse_ii : index_independent refuse.
Variable L : N.

Theorem step_equivariant : forall f s1 s2 o w1 w2 s1' out w1',
  Sim f w1 w2 -> Rcs f s1 s2 ->
  step refuse L s1 o w1 = Ret (s1', out) w1' ->
  exists f' s2' w2',
    step refuse L s2 o w2 = Ret (s2', out) w2' /\
    ext f f' /\ Rcs f' s1' s2' /\ Sim f' w1' w2' /\
    (* every cell of [w2] outside the image of [f] is unchanged *)
    (forall b, b < next w2 -> (forall a, f a <> Some b) -> heap w2' b = heap w2 b) /\
    (* the new pairs of [f'] are fresh on both sides; every address allocated in [w2] is in its image *)
    (forall a b, f' a = Some b -> f a = Some b \/ (next w1 <= a /\ next w2 <= b)) /\
    (forall b, next w2 <= b -> b < next w2' -> exists a, f' a = Some b) /\
    next w1 <= next w1' /\ next w2 <= next w2' /\
    (* every cell the call reads or writes in [w2], every block it frees, reallocates or obtains, is in the
       image of [f'] *)
    (forall p, In p (touched w2 w2') -> exists a, f' a = Some p).
Proof.
  intros f s1 s2 o w1 w2 s1' out w1' S HR E.
  destruct (kpe_step refuse refuse_ii L f s1 s2 o HR w1 w2 _ _ S E) as (f' & [s2' out2] & w2' & E2 & T & S' & [HRs Ho]).
  cbn [fst snd] in HRs, Ho. unfold Req in Ho. subst out2.
  exists f', s2', w2'. split; [exact E2|]. pose proof T as [T1 T2 T3 T4 T5 T6 _ _].
  split; [exact T1|]. split; [exact HRs|]. split; [exact S'|]. split; [exact T5|]. split; [exact T2|]. split; [exact T6|].
  split; [exact T3|]. split; [exact T4|]. eapply touched_in; eassumption.
Qed.

Theorem step3_equivariant : forall f s1 s2 o w1 w2 s1' out w1',
  Sim f w1 w2 -> Rcs3 f s1 s2 ->
  step3 refuse L s1 o w1 = Ret (s1', out) w1' ->
  exists f' s2' w2',
    step3 refuse L s2 o w2 = Ret (s2', out) w2' /\
    ext f f' /\ Rcs3 f' s1' s2' /\ Sim f' w1' w2' /\
    (forall b, b < next w2 -> (forall a, f a <> Some b) -> heap w2' b = heap w2 b) /\
    (forall a b, f' a = Some b -> f a = Some b \/ (next w1 <= a /\ next w2 <= b)) /\
    (forall b, next w2 <= b -> b < next w2' -> exists a, f' a = Some b) /\
    next w1 <= next w1' /\ next w2 <= next w2' /\
    (* every cell the call reads or writes in [w2], every block it frees, reallocates or obtains, is in the
       image of [f'] *)
    (forall p, In p (touched w2 w2') -> exists a, f' a = Some p).
Proof.
  intros f s1 s2 o w1 w2 s1' out w1' S HR E.
  destruct (kpe_step3 refuse refuse_ii L f s1 s2 o (S_inj _ _ _ S) HR w1 w2 _ _ S E)
    as (f' & [s2' out2] & w2' & E2 & T & S' & [HRs Ho]).
  cbn [fst snd] in HRs, Ho. unfold Req in Ho. subst out2.
  exists f', s2', w2'. split; [exact E2|]. pose proof T as [T1 T2 T3 T4 T5 T6 _ _].
  split; [exact T1|]. split; [exact HRs|]. split; [exact S'|]. split; [exact T5|]. split; [exact T2|]. split; [exact T6|].
  split; [exact T3|]. split; [exact T4|]. eapply touched_in; eassumption.
Qed.

(* whole histories of one client: the run in [w2] produces the same list of outputs *)
Theorem run_hist3_equivariant : forall ops f s1 s2 acc w1 w2 s1' outs w1',
  Sim f w1 w2 -> Rcs3 f s1 s2 ->
  run_hist3 refuse L ops s1 acc w1 = Ret (s1', outs) w1' ->
  exists f' s2' w2',
    run_hist3 refuse L ops s2 acc w2 = Ret (s2', outs) w2' /\
    ext f f' /\ Rcs3 f' s1' s2' /\ Sim f' w1' w2' /\
    (forall b, b < next w2 -> (forall a, f a <> Some b) -> heap w2' b = heap w2 b).
Proof.
  induction ops as [|o r IH]; intros f s1 s2 acc w1 w2 s1' outs w1' S HR E; cbn [run_hist3] in *.
  - unfold ret in E. injection E as <- <- <-. exists f, s2, w2. split; [reflexivity|]. split; [apply ext_refl|].
    split; [exact HR|]. split; [exact S|]. intros; reflexivity.
  - apply bind_inv in E. destruct E as ([sa out] & wa & E1 & E2). cbn [fst snd] in E2.
    destruct (step3_equivariant f s1 s2 o w1 w2 sa out wa S HR E1) as (fa & sb & wb & Eb & Xa & HRa & Sa & Fa & Na & _ & _ & N2 & _).
    destruct (IH fa sa sb (out :: acc) wa wb s1' outs w1' Sa HRa E2) as (f' & s2' & w2' & E' & X' & HR' & S' & F').
    exists f', s2', w2'. split; [unfold bind; rewrite Eb; exact E'|]. split; [eapply ext_trans; eassumption|].
    split; [exact HR'|]. split; [exact S'|].
    intros b Hb Hn. rewrite F'.
    + apply Fa; assumption.
    + lia.
    + intros a Ha. destruct (Na a b Ha) as [H|[_ H]]; [exact (Hn a H)|lia].
Qed.
End Step.

(* ------------------------------------------------------------------------------------------ *)
(* schedules                                                                                   *)
(* ------------------------------------------------------------------------------------------ *)
Lemma set_nth_length {A} (l : list A) i x : length (set_nth l i x) = length l.
Proof. revert i. induction l as [|y l IH]; intros [|i]; cbn [set_nth length]; try reflexivity. rewrite IH. reflexivity. Qed.
Lemma nth_error_set_nth_eq {A} (l : list A) i x y : nth_error l i = Some y -> nth_error (set_nth l i x) i = Some x.
Proof. revert i. induction l as [|z l IH]; intros [|i] E; cbn [set_nth nth_error] in *; try discriminate E; [reflexivity|apply IH, E]. Qed.
Lemma nth_error_set_nth_ne {A} (l : list A) i j x : i <> j -> nth_error (set_nth l i x) j = nth_error l j.
Proof.
  revert i j. induction l as [|z l IH]; intros [|i] [|j] Ne; cbn [set_nth nth_error]; try reflexivity; try contradiction.
  apply IH. intros ->. apply Ne. reflexivity.
Qed.

Lemma nth_error_ext' {A} : forall l l' : list A, (forall n, nth_error l n = nth_error l' n) -> l = l'.
Proof.
  induction l as [|x l IH]; intros [|y l'] H.
  - reflexivity.
  - specialize (H O). discriminate H.
  - specialize (H O). discriminate H.
  - pose proof (H O) as H0. injection H0 as ->. f_equal. apply IH. intros n. exact (H (S n)).
Qed.

(* the state of a thread's run ALONE at the same point of its program, and the renaming that takes it
   to the shared world *)
Record ghost := mkghost { g_s : cstate3; g_w : world; g_f : ren }.
Definition fin := (cstate3 * list out3 * world)%type.

Section Sched.
Variable refuse : N -> N -> bool.
Hypothesis refuse_ii : index_independent refuse.
Variable L : N.

(* thread [th] of the interleaved run in the shared world [w], its run alone [g], and the final result
   [fi] of the run alone: the rest of the program takes the run alone from [g] to [fi] (same outputs so
   far), and [g] is a renamed copy of the thread's part of [w] *)
Definition TI (w : world) (th : thread) (g : ghost) (fi : fin) : Prop :=
  run_hist3 refuse L (t_prog th) (g_s g) (t_outs th) (g_w g) = Ret (fst (fst fi), snd (fst fi)) (snd fi) /\
  Sim (g_f g) (g_w g) w /\ Rcs3 (g_f g) (g_s g) (t_state th).

Definition disjoint_images (fs : list ren) : Prop :=
  forall t t' f f' a a' b, t <> t' -> nth_error fs t = Some f -> nth_error fs t' = Some f' ->
    f a = Some b -> f' a' = Some b -> False.
Definition covered (fs : list ren) (w : world) : Prop :=
  forall b, 1 <= b -> b < next w -> exists t f a, nth_error fs t = Some f /\ f a = Some b.

Definition Inv (ths : list thread) (gs : list ghost) (fins : list fin) (w : world) : Prop :=
  length gs = length ths /\ length fins = length ths /\
  (forall t th g fi, nth_error ths t = Some th -> nth_error gs t = Some g -> nth_error fins t = Some fi -> TI w th g fi) /\
  disjoint_images (map g_f gs) /\ covered (map g_f gs) w.

Lemma nth_error_map_gf gs t f : nth_error (map g_f gs) t = Some f <-> exists g, nth_error gs t = Some g /\ g_f g = f.
Proof.
  rewrite nth_error_map. destruct (nth_error gs t) as [g|]; cbn [option_map]; split.
  - intros E. injection E as <-. exists g. split; reflexivity.
  - intros (g0 & E & <-). injection E as <-. reflexivity.
  - intros E. discriminate E.
  - intros (g0 & E & _). discriminate E.
Qed.

Lemma sched_sim : forall sched ths gs fins w,
  Inv ths gs fins w -> complete sched ths ->
  exists ths' gs' w', run_sched refuse L sched ths w = Ret ths' w' /\ Inv ths' gs' fins w' /\
    (forall t th', nth_error ths' t = Some th' -> t_prog th' = []) /\
    (* the renamings only grow *)
    (forall t g, nth_error gs t = Some g -> exists g', nth_error gs' t = Some g' /\ ext (g_f g) (g_f g')) /\
    (* what a call of thread [t] touches is in the image of the renaming of thread [t] *)
    (forall t A p, In (t, A) (sched_log refuse L sched ths w) -> In p A ->
       exists g' a, nth_error gs' t = Some g' /\ g_f g' a = Some p) /\
    map fst (sched_log refuse L sched ths w) = sched.
Proof.
  induction sched as [|t r IH]; intros ths gs fins w HI HC.
  { exists ths, gs, w. split; [reflexivity|]. split; [exact HI|]. split; [|split; [|split]].
    - intros t th' E. specialize (HC t).
      cbn [count_occ] in HC. rewrite E in HC. destruct (t_prog th'); [reflexivity|discriminate HC].
    - intros t g E. exists g. split; [exact E|apply ext_refl].
    - intros t A p [].
    - reflexivity. }
  pose proof (HC t) as Ct. cbn [count_occ] in Ct. destruct (Nat.eq_dec t t) as [_|N]; [|contradiction].
  destruct (nth_error ths t) as [th|] eqn:Eth; [|discriminate Ct].
  destruct th as [prog s2 acc]. cbn [t_prog] in Ct. destruct prog as [|o prog']; [discriminate Ct|].
  destruct HI as (Lg & Lf & HT & HD & HCov).
  assert (Lt : (t < length ths)%nat) by (apply nth_error_Some; rewrite Eth; discriminate).
  destruct (nth_error gs t) as [g|] eqn:Eg. 2:{ apply nth_error_None in Eg. lia. }
  destruct (nth_error fins t) as [fi|] eqn:Ef. 2:{ apply nth_error_None in Ef. lia. }
  destruct (HT t _ g fi Eth Eg Ef) as (Hrun & HS & HR). cbn [t_prog t_state t_outs] in *.
  cbn [run_hist3] in Hrun. apply bind_inv in Hrun. destruct Hrun as ([s1' out] & w1' & Estep & Hrest). cbn [fst snd] in Hrest.
  destruct (step3_equivariant refuse refuse_ii L (g_f g) (g_s g) s2 o (g_w g) w s1' out w1' HS HR Estep)
    as (f' & s2' & w' & E2 & X & HR' & HS' & Fr & New & Cov & _ & Hn2 & Tch).
  (* the images of all renamings lie below the bump pointer of the shared world *)
  assert (Hdom : forall t0 g0 a b, nth_error gs t0 = Some g0 -> g_f g0 a = Some b -> b < next w).
  { intros t0 g0 a b E0 Hab.
    assert (L0 : (t0 < length gs)%nat) by (apply nth_error_Some; rewrite E0; discriminate).
    destruct (nth_error ths t0) as [th0|] eqn:Et0. 2:{ apply nth_error_None in Et0. lia. }
    destruct (nth_error fins t0) as [fi0|] eqn:Ef0. 2:{ apply nth_error_None in Ef0. lia. }
    destruct (HT t0 _ _ _ Et0 E0 Ef0) as (_ & S0 & _). destruct (S_dom _ _ _ S0 a b Hab) as [_ H]. exact H. }
  set (th' := mkthread prog' s2' (out :: acc)). set (g' := mkghost s1' w1' f').
  destruct (IH (set_nth ths t th') (set_nth gs t g') fins w') as (ths'' & gs'' & w'' & Erun & HI'' & Hdone & Hmono & Hlog & Hfst).
  - (* the invariant after the call *)
    split; [rewrite !set_nth_length; exact Lg|]. split; [rewrite set_nth_length; exact Lf|]. split; [|split].
    + intros t0 th0 g0 fi0 E1 E3 E4. destruct (Nat.eq_dec t t0) as [<-|Ne].
      * rewrite (nth_error_set_nth_eq _ _ _ _ Eth) in E1. rewrite (nth_error_set_nth_eq _ _ _ _ Eg) in E3.
        injection E1 as <-. injection E3 as <-. rewrite Ef in E4. injection E4 as <-.
        split; [exact Hrest|]. split; [exact HS'|exact HR'].
      * rewrite nth_error_set_nth_ne in E1 by exact Ne. rewrite nth_error_set_nth_ne in E3 by exact Ne.
        destruct (HT t0 _ _ _ E1 E3 E4) as (A & B & C). split; [exact A|]. split; [|exact C].
        eapply Sim_frame; [exact B|apply (S_wf2 _ _ _ HS')|exact Hn2|].
        intros a b Hab. apply Fr; [eapply Hdom; eassumption|].
        intros a0 Ha0. apply (HD t t0 (g_f g) (g_f g0) a0 a b Ne); try assumption.
        -- apply nth_error_map_gf. exists g. split; [exact Eg|reflexivity].
        -- apply nth_error_map_gf. exists g0. split; [exact E3|reflexivity].
    + intros t1 t2 f1 f2 a a' b Ne E1 E3 H1 H2.
      apply nth_error_map_gf in E1. destruct E1 as (g1 & E1 & <-).
      apply nth_error_map_gf in E3. destruct E3 as (g2 & E3 & <-).
      destruct (Nat.eq_dec t t1) as [<-|N1]; [|destruct (Nat.eq_dec t t2) as [<-|N2]].
      * rewrite (nth_error_set_nth_eq _ _ _ _ Eg) in E1. injection E1 as <-. cbn [g_f g'] in H1.
        rewrite nth_error_set_nth_ne in E3 by exact Ne.
        pose proof (Hdom _ _ _ _ E3 H2) as Lb.
        destruct (New a b H1) as [H|[_ H]]; [|lia].
        apply (HD t t2 (g_f g) (g_f g2) a a' b Ne); try assumption.
        -- apply nth_error_map_gf. exists g. split; [exact Eg|reflexivity].
        -- apply nth_error_map_gf. exists g2. split; [exact E3|reflexivity].
      * rewrite (nth_error_set_nth_eq _ _ _ _ Eg) in E3. injection E3 as <-. cbn [g_f g'] in H2.
        rewrite nth_error_set_nth_ne in E1 by exact N1.
        pose proof (Hdom _ _ _ _ E1 H1) as Lb.
        destruct (New a' b H2) as [H|[_ H]]; [|lia].
        apply (HD t1 t (g_f g1) (g_f g) a a' b Ne); try assumption.
        -- apply nth_error_map_gf. exists g1. split; [exact E1|reflexivity].
        -- apply nth_error_map_gf. exists g. split; [exact Eg|reflexivity].
      * rewrite nth_error_set_nth_ne in E1 by exact N1. rewrite nth_error_set_nth_ne in E3 by exact N2.
        apply (HD t1 t2 (g_f g1) (g_f g2) a a' b Ne); try assumption.
        -- apply nth_error_map_gf. exists g1. split; [exact E1|reflexivity].
        -- apply nth_error_map_gf. exists g2. split; [exact E3|reflexivity].
    + intros b B1 B2. destruct (N.lt_ge_cases b (next w)) as [Lb|Gb].
      * destruct (HCov b B1 Lb) as (t0 & f0 & a & E0 & Hab). apply nth_error_map_gf in E0. destruct E0 as (g0 & E0 & <-).
        destruct (Nat.eq_dec t t0) as [<-|Ne].
        -- exists t, f', a. split; [apply nth_error_map_gf; exists g'; split; [apply (nth_error_set_nth_eq _ _ _ _ Eg)|reflexivity]|].
           rewrite Eg in E0. injection E0 as <-. apply X, Hab.
        -- exists t0, (g_f g0), a. split; [|exact Hab]. apply nth_error_map_gf. exists g0. split; [|reflexivity].
           rewrite nth_error_set_nth_ne by exact Ne. exact E0.
      * destruct (Cov b Gb B2) as [a Hab]. exists t, f', a. split; [|exact Hab].
        apply nth_error_map_gf. exists g'. split; [apply (nth_error_set_nth_eq _ _ _ _ Eg)|reflexivity].
  - (* the rest of the schedule is a complete interleaving of the rest of the programs *)
    intros t0. specialize (HC t0). cbn [count_occ] in HC. destruct (Nat.eq_dec t t0) as [<-|Ne].
    + rewrite (nth_error_set_nth_eq _ _ _ _ Eth). rewrite Eth in HC. cbn [t_prog th' length] in *. lia.
    + rewrite nth_error_set_nth_ne by exact Ne. exact HC.
  - exists ths'', gs'', w''. split; [|split; [exact HI''|split; [exact Hdone|split; [|split]]]].
    + cbn [run_sched]. rewrite Eth. unfold bind. rewrite E2. cbn [fst snd]. exact Erun.
    + intros t0 g0 E0. destruct (Nat.eq_dec t t0) as [<-|Ne].
      * rewrite Eg in E0. injection E0 as <-.
        destruct (Hmono t g' (nth_error_set_nth_eq _ _ _ _ Eg)) as (g1 & E1 & X1). exists g1. split; [exact E1|].
        eapply ext_trans; [exact X|exact X1].
      * apply Hmono. rewrite nth_error_set_nth_ne by exact Ne. exact E0.
    + intros t0 A p Hin Hp. cbn [sched_log] in Hin. rewrite Eth, E2 in Hin. cbn [fst snd] in Hin.
      destruct Hin as [Hin|Hin]; [|eapply Hlog; eassumption]. injection Hin as <- <-.
      destruct (Tch p Hp) as [a Ha].
      destruct (Hmono t g' (nth_error_set_nth_eq _ _ _ _ Eg)) as (g1 & E1 & X1). exists g1, a. split; [exact E1|]. apply X1, Ha.
    + cbn [sched_log]. rewrite Eth, E2. cbn [fst snd map]. fold th'. rewrite Hfst. reflexivity.
Qed.

(* the final result of a program run alone *)
Definition alone (prog : list op3) : res (cstate3 * list out3) := run_hist3 refuse L prog s3_0 [] world0.
Definition fin_of (prog : list op3) : fin :=
  match alone prog with Ret (s, outs) w => (s, outs, w) | Fault _ => (s3_0, [], world0) end.
Definition ghost0 : ghost := mkghost s3_0 world0 (fun _ => None).

Lemma Sim0 : Sim (fun _ => None) world0 world0.
Proof.
  constructor.
  - apply wf_world0.
  - apply wf_world0.
  - lia.
  - intros a b E. discriminate E.
  - intros a a' b E. discriminate E.
  - intros a b E. discriminate E.
  - intros a c E. discriminate E.
Qed.

Lemma Inv0 progs : (forall prog, In prog progs -> exists s outs w, alone prog = Ret (s, outs) w) ->
  Inv (map thread0 progs) (map (fun _ => ghost0) progs) (map fin_of progs) world0.
Proof.
  intros Hal. split; [rewrite !map_length; reflexivity|]. split; [rewrite !map_length; reflexivity|]. split; [|split].
  - intros t th g fi E1 E2 E3. rewrite nth_error_map in E1, E2, E3.
    destruct (nth_error progs t) as [prog|] eqn:Ep; [|discriminate E1]. cbn [option_map] in *.
    injection E1 as <-. injection E2 as <-. injection E3 as <-.
    destruct (Hal prog (nth_error_In _ _ Ep)) as (s & outs & w & Ea).
    split; [|split].
    + cbn [thread0 t_prog t_outs ghost0 g_s g_w]. unfold fin_of. fold (alone prog). rewrite Ea. reflexivity.
    + apply Sim0.
    + split; constructor.
  - intros t t' f f' a a' b _ E _ H _. apply nth_error_map_gf in E. destruct E as (g & E & <-).
    rewrite nth_error_map in E. destruct (nth_error progs t); [|discriminate E]. injection E as <-. discriminate H.
  - intros b B1 B2. cbn [world0 next] in B2. lia.
Qed.

(* ------------------------------------------------------------------------------------------ *)
(* C17 for whole schedules                                                                     *)
(* ------------------------------------------------------------------------------------------ *)
Theorem C17_interleaving : forall progs sched,
  complete sched (map thread0 progs) ->
  (forall prog, In prog progs -> exists s outs w, run_hist3 refuse L prog s3_0 [] world0 = Ret (s, outs) w) ->
  exists ths w fs,
    run_sched refuse L sched (map thread0 progs) world0 = Ret ths w /\
    length ths = length progs /\ length fs = length progs /\
    (* every thread has finished and has observed exactly the outputs of its run alone; its final table
       and its final heap are renamed copies of those of the run alone *)
    (forall t prog s outs wt, nth_error progs t = Some prog ->
       run_hist3 refuse L prog s3_0 [] world0 = Ret (s, outs) wt ->
       exists th f, nth_error ths t = Some th /\ nth_error fs t = Some f /\
         t_prog th = [] /\ outputs th = outs /\ Rcs3 f s (t_state th) /\ Sim f wt w) /\
    (* the final shared heap is the disjoint union of the renamed copies *)
    disjoint_images fs /\ covered fs w.
Proof.
  intros progs sched HC Hal.
  destruct (sched_sim sched _ _ _ world0 (Inv0 progs Hal) HC) as (ths & gs & w & Erun & (Lg & Lf & HT & HD & HCov) & Hdone & _).
  rewrite !map_length in Lf.
  exists ths, w, (map g_f gs). split; [exact Erun|]. split; [lia|]. split; [rewrite map_length; lia|].
  split; [|split; assumption].
  intros t prog s outs wt Ep Ea.
  assert (Lt : (t < length progs)%nat) by (apply nth_error_Some; rewrite Ep; discriminate).
  destruct (nth_error ths t) as [th|] eqn:Eth. 2:{ apply nth_error_None in Eth. lia. }
  destruct (nth_error gs t) as [g|] eqn:Eg. 2:{ apply nth_error_None in Eg. lia. }
  assert (Ef : nth_error (map fin_of progs) t = Some (s, outs, wt)).
  { rewrite nth_error_map, Ep. cbn [option_map]. unfold fin_of, alone. rewrite Ea. reflexivity. }
  destruct (HT t th g _ Eth Eg Ef) as (Hrun & HS & HR). cbn [fst snd] in Hrun.
  pose proof (Hdone t th Eth) as Hp. rewrite Hp in Hrun. cbn [run_hist3] in Hrun. unfold ret in Hrun.
  injection Hrun as <- <- <-.
  exists th, (g_f g). split; [reflexivity|]. split; [apply nth_error_map_gf; exists g; split; [exact Eg|reflexivity]|].
  split; [exact Hp|]. split; [reflexivity|]. split; assumption.
Qed.

(* two complete schedules: every thread observes the same outputs in both *)
Corollary C17_schedule_independent : forall progs sched1 sched2,
  complete sched1 (map thread0 progs) -> complete sched2 (map thread0 progs) ->
  (forall prog, In prog progs -> exists s outs w, run_hist3 refuse L prog s3_0 [] world0 = Ret (s, outs) w) ->
  exists ths1 w1 ths2 w2,
    run_sched refuse L sched1 (map thread0 progs) world0 = Ret ths1 w1 /\
    run_sched refuse L sched2 (map thread0 progs) world0 = Ret ths2 w2 /\
    map outputs ths1 = map outputs ths2.
Proof.
  intros progs sched1 sched2 C1 C2 Hal.
  destruct (C17_interleaving progs sched1 C1 Hal) as (ths1 & w1 & fs1 & E1 & L1 & _ & H1 & _).
  destruct (C17_interleaving progs sched2 C2 Hal) as (ths2 & w2 & fs2 & E2 & L2 & _ & H2 & _).
  exists ths1, w1, ths2, w2. split; [exact E1|]. split; [exact E2|].
  apply nth_error_ext'. intros t. rewrite !nth_error_map.
  destruct (nth_error progs t) as [prog|] eqn:Ep.
  - destruct (Hal prog (nth_error_In _ _ Ep)) as (s & outs & wt & Ea).
    destruct (H1 t prog s outs wt Ep Ea) as (th1 & _ & -> & _ & _ & O1 & _).
    destruct (H2 t prog s outs wt Ep Ea) as (th2 & _ & -> & _ & _ & O2 & _).
    cbn [option_map]. rewrite O1, O2. reflexivity.
  - apply nth_error_None in Ep.
    assert (N1 : nth_error ths1 t = None) by (apply nth_error_None; lia).
    assert (N2 : nth_error ths2 t = None) by (apply nth_error_None; lia).
    rewrite N1, N2. reflexivity.
Qed.

(* no data race: in the complete run, an address touched by a call of one thread (a cell it reads or
   writes, a block it frees, reallocates or obtains) is never touched by a call of another thread - so no
   finer-grained interleaving of the calls' memory accesses can contain two conflicting accesses *)
Theorem C17_no_shared_access : forall progs sched,
  complete sched (map thread0 progs) ->
  (forall prog, In prog progs -> exists s outs w, run_hist3 refuse L prog s3_0 [] world0 = Ret (s, outs) w) ->
  let log := sched_log refuse L sched (map thread0 progs) world0 in
  map fst log = sched /\
  forall t A t' A' p, In (t, A) log -> In (t', A') log -> t <> t' -> In p A -> In p A' -> False.
Proof.
  intros progs sched HC Hal log.
  destruct (sched_sim sched _ _ _ world0 (Inv0 progs Hal) HC)
    as (ths & gs & w & Erun & (Lg & Lf & HT & HD & HCov) & Hdone & _ & Hlog & Hfst).
  split; [exact Hfst|]. intros t A t' A' p H1 H2 Ne P1 P2.
  destruct (Hlog t A p H1 P1) as (g1 & a1 & E1 & F1). destruct (Hlog t' A' p H2 P2) as (g2 & a2 & E2 & F2).
  apply (HD t t' (g_f g1) (g_f g2) a1 a2 p Ne); try assumption.
  - apply nth_error_map_gf. exists g1. split; [exact E1|reflexivity].
  - apply nth_error_map_gf. exists g2. split; [exact E2|reflexivity].
Qed.

End Sched.

(* ------------------------------------------------------------------------------------------ *)
(* non-vacuity: two threads, one interleaving                                                  *)
(* ------------------------------------------------------------------------------------------ *)
Definition exA : list op3 :=
  [O3Old (ONewDefArray 2); O3Old (OBuildInt false I8 7); O3Old (OPush 0 1); O3Old (ODecref 1); O3Old (OSerSize 0)]%nat.
Definition exB : list op3 :=
  [O3NewInt I8; O3SetUint I8 0 9; O3Old ONewIndefArray; O3Old (OPush 1 0); O3Preds 1; O3Old (ODecref 1)]%nat.
Definition ex_sched : list nat := [0; 1; 1; 0; 1; 0; 1; 0; 1; 0; 1]%nat.
Definition ex_sched' : list nat := [1; 1; 1; 1; 1; 1; 0; 0; 0; 0; 0]%nat.

Lemma never_ii : index_independent never.
Proof. intros i j sz. reflexivity. Qed.

Example ex_complete : complete ex_sched (map thread0 [exA; exB]).
Proof. intros [|[|[|t]]]; reflexivity. Qed.
Example ex_complete' : complete ex_sched' (map thread0 [exA; exB]).
Proof. intros [|[|[|t]]]; reflexivity. Qed.

Example ex_alone : forall prog, In prog [exA; exB] -> exists s outs w, run_hist3 never 8 prog s3_0 [] world0 = Ret (s, outs) w.
Proof. intros prog [<-|[<-|[]]]; vm_compute; eauto. Qed.

(* the interleaved run returns, and each thread has observed what it observes alone *)
Example ex_interleaved :
  match run_sched never 8 ex_sched (map thread0 [exA; exB]) world0,
        run_hist3 never 8 exA s3_0 [] world0, run_hist3 never 8 exB s3_0 [] world0 with
  | Ret [thA; thB] w, Ret (_, outsA) wA, Ret (_, outsB) wB =>
      outputs thA = outsA /\ outputs thB = outsB /\
      outsA = [Out (OutHandle true); Out (OutHandle true); Out (OutBool true); Out OutUnit; Out (OutNum 2)] /\
      (* alone, thread A gets the addresses 1, 2, 3; here 1, 2, 4 (3 went to thread B) *)
      handles (base (t_state thA)) = [Some 1; Some 4] /\ next wA = 4 /\ next wB = 4 /\ next w = 7
  | _, _, _ => False
  end.
Proof. vm_compute. repeat split. Qed.

(* the tagged log of that run: which thread touched which addresses, call by call *)
Example ex_log :
  sched_log never 8 ex_sched (map thread0 [exA; exB]) world0 =
  [(0%nat, [1; 2; 1]); (1%nat, [3]); (1%nat, [3; 3]); (0%nat, [4]); (1%nat, [5]); (0%nat, [4; 4; 1; 2; 1]);
   (1%nat, [3; 3; 5; 6; 5; 6]); (0%nat, [4; 4]); (1%nat, [5]); (0%nat, [4; 2; 1]); (1%nat, [3; 3; 5; 5; 5; 6])].
Proof. vm_compute. reflexivity. Qed.

(* the same through the theorem, for this and for another schedule *)
Example ex_by_theorem :
  exists ths1 w1 ths2 w2,
    run_sched never 8 ex_sched (map thread0 [exA; exB]) world0 = Ret ths1 w1 /\
    run_sched never 8 ex_sched' (map thread0 [exA; exB]) world0 = Ret ths2 w2 /\
    map outputs ths1 = map outputs ths2.
Proof. exact (C17_schedule_independent never never_ii 8 [exA; exB] ex_sched ex_sched' ex_complete ex_complete' ex_alone). Qed.

Print Assumptions step_equivariant.
Print Assumptions step3_equivariant.
Print Assumptions run_hist3_equivariant.
Print Assumptions C17_interleaving.
Print Assumptions C17_schedule_independent.
Print Assumptions C17_no_shared_access.
Print Assumptions ex_by_theorem.
