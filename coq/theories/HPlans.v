(* Plans: the decision and arithmetic core of the struct-manipulating container functions of
   libcbor (arrays.c maps.c bytestrings.c strings.c tags.c common.c internal/stack.c), written by
   hand from the header documentation and from HItems.v.  Definitions only.

   A plan says, as a function of the integer fields a C function reads, of its integer arguments
   and of one boolean oracle per allocator call ("did it return non-NULL?"):
     p_ret     what the function returns,
     p_fields  the final value of each integer field it may write,
     p_reqs    the allocator requests / frees / calls of other listed functions, IN ORDER,
     p_effs    every other effect, SUMMARISED in a canonical order that is independent of the
               program order: reference-count calls, slot stores, final values of pointer fields
               and of the integer fields of fresh blocks.
   Pointers are never modelled; a pointer is a symbolic token.

   translator/effects.py renders the same thing from the clang AST of the C source on every run
   (coq/gen/Gen_effects.v); Bridge_effects.v proves the two equal by automation only;
   HPlans_proofs.v proves by hand that the operations of the heap model H (HItems.v, HOps.v)
   behave according to these plans.  So the guards and the size arithmetic of H have a
   translator tie in addition to the correspondence runs. *)
From Coq Require Import ZArith NArith List Bool String.
Import ListNotations.
From CB Require Import Word PMem GenLeafTypes HItems.
Local Open Scope string_scope.
Local Open Scope N_scope.

(* ---------- pointer tokens ---------- *)
Inductive ptr :=
| PNull
| PArg (i : nat)                             (* the i-th parameter of the function (0-based); for a
                                                struct passed by value: that struct *)
| PField (b : ptr) (f : string)              (* the value b->f had on entry (union arms are not named:
                                                "metadata.end_ptr", "metadata.tagged_item") *)
| PSlot (b : ptr) (idx : Z) (m : string)     (* the value of b[idx].m on entry ("" for a plain slot) *)
| PNew (k : nat)                             (* the result of the k-th allocator call on this path
                                                (NULL when its oracle is false); in the decoder
                                                glue also of the k-th library constructor / pusher *)
| PLocal (ty : string)                       (* the local variable of struct type ty (named by its type,
                                                so that renaming or reordering locals changes nothing) *)
| PRes (k : nat)                             (* the struct returned by value by the k-th such call *)
| PPost (b : ptr) (f : string)              (* the value of b->f after the last opaque call that may
                                                have changed it *)
| PCarry (j : nat).                          (* in the plan of a loop round: the j-th pointer local that is
                                                carried into the loop unchanged but whose value depends on the
                                                path to the loop head (an allocation result: the copy under
                                                construction); the plan that arrives at the head says what it is
                                                (effect Carry j v) *)

(* what the translator writes for the result of the k-th allocator call: NULL when the request was refused *)
Definition pnew (ok : bool) (k : nat) : ptr := if ok then PNew k else PNull.

Inductive arg :=
| AP (p : ptr) | AZ (z : Z)
| APO (p : ptr) (off : Z)                    (* byte pointer p + off *)
| AOpaque (i : nat)                          (* the i-th parameter, of a type that is not modelled (float) *)
| AVal (f : string) (p : ptr)               (* the value the payload getter f returns for the item p
                                                (cbor_float_get_float4 ...): not modelled *)
| AStruct (fields : list arg).               (* a struct passed by value: its members in order *)

(* ---------- ordered part: what reaches the allocator, and calls of other listed functions ---------- *)
Inductive req :=
| ReqMalloc (bytes : Z)                          (* _cbor_malloc(bytes) *)
| ReqRealloc (p : ptr) (bytes : Z)               (* _cbor_realloc(p, bytes) *)
| ReqAllocMultiple (isz cnt : Z)                 (* _cbor_alloc_multiple(isz, cnt) *)
| ReqReallocMultiple (p : ptr) (isz cnt : Z)     (* _cbor_realloc_multiple(p, isz, cnt) *)
| ReqFree (p : ptr)                              (* _cbor_free(p) *)
| ReqCall (f : string) (args : list arg).        (* call of another function of the list; its result
                                                    is the next integer oracle c_k *)

(* ---------- summarised part.  Canonical order: by constructor as listed here; within one
   constructor by the first pointer token (PNull < PArg i < PField < PSlot < PNew k < PLocal < PRes
   < PPost), then by the
   member / field name, then by the stored token ---------- *)
Inductive eff :=
| Incref (p : ptr)                               (* cbor_incref(p) *)
| Decref (p : ptr)                               (* cbor_decref(&p) / cbor_intermediate_decref(p) *)
| Move (p : ptr)                                 (* cbor_move(p) *)
| Store (b : ptr) (idx : Z) (m : string) (v : ptr)   (* b[idx].m = v *)
| Fill (b : ptr) (n : Z) (v : ptr)               (* b[i] = v for every i < n *)
| Copy (dst src : ptr) (n : Z)                   (* memcpy(dst, src, n) *)
| CopyAt (dst : ptr) (off : Z) (src : ptr) (n : Z)   (* memcpy(dst + off, src, n) *)
| SetPtr (o : ptr) (f : string) (v : ptr)        (* final value of the pointer field o->f *)
| SetInt (o : ptr) (f : string) (v : Z)         (* final value of an integer field of a block that
                                                    has no entry value (fresh), or that the plan does
                                                    not list among p_fields *)
| Carry (j : nat) (v : ptr).                      (* at the loop head this plan arrives at, PCarry j is v *)

(* RLoop k: control arrives at the head of the k-th loop of the function (source order); a function
   with loops is rendered as one plan from its entry and one plan from the head of each loop *)
Inductive rv := RVoid | RZ (z : Z) | RP (p : ptr) | RLoop (k : nat).

Record plan := mkplan { p_ret : rv; p_fields : list (string * Z); p_reqs : list req; p_effs : list eff }.

(* ---------- encodings ---------- *)
Definition dst_z (definite : bool) : Z := if definite then 0%Z else 1%Z.   (* _cbor_dst_metadata *)
Definition TY_ARRAY : Z := 4%Z.   (* cbor_type = the major type *)
Definition TY_MAP : Z := 5%Z.
Definition TY_TAG : Z := 6%Z.
Definition fbE_CBOR_METADATA_DEFINITE : Z := dst_z true.
Definition fbE_CBOR_METADATA_INDEFINITE : Z := dst_z false.
Definition fbECBOR_TYPE_ARRAY : Z := TY_ARRAY.
Definition fbECBOR_TYPE_MAP : Z := TY_MAP.
Definition fbECBOR_TYPE_TAG : Z := TY_TAG.

Definition zN := Z.of_N.
Definition arr_fields (allocated : N) (dst : Z) (end_ptr : N) : list (string * Z) :=
  [("allocated", zN allocated); ("dst", dst); ("end_ptr", zN end_ptr)].
Definition chk_fields (capacity count : N) : list (string * Z) :=
  [("chunk_capacity", zN capacity); ("chunk_count", zN count)].

(* ---------- appending to a slot block: arrays, maps, chunk lists ----------
   room          -> store at index [count], count + 1, one incref of the new element;
   full, fixed   -> refuse, nothing changes, no request;
   full, growing -> capacity' = 1 if capacity = 0, else CBOR_BUFFER_GROWTH * capacity, refused without
                    a request when that product could overflow ([grow_capacity], PMem.v); one
                    _cbor_realloc_multiple(block, slot size, capacity') ; NULL -> refuse, nothing
                    changes; otherwise the owner is re-pointed to the new block, capacity :=
                    capacity', then as with room. *)
Section Append.
  Variable fields : N -> N -> list (string * Z).   (* capacity, count *)
  Variable owner : ptr.
  Variable fld : string.                           (* owner->fld is the slot block *)
  Variable isz : N.                                (* size of one slot *)
  Variable stores : ptr -> Z -> list eff.          (* the stores of one append: block, index *)

  Definition append_plan (growable full : bool) (capacity count : N) (ok : bool) : plan :=
    let blk := PField owner fld in
    let keep reqs := mkplan (RZ 0) (fields capacity count) reqs [] in
    let put cap' blk' reqs extra :=
      mkplan (RZ 1) (fields cap' (wrap64 (count + 1))) reqs
             (Incref (PArg 1) :: stores blk' (zN count) ++ extra) in
    if negb full then put capacity blk [] []
    else if negb growable then keep []
    else match grow_capacity 64 capacity with
         | None => keep []
         | Some cap' =>
             let rq := [ReqReallocMultiple blk (zN isz) (zN cap')] in
             if ok then put cap' (PNew 0) rq [SetPtr owner fld (PNew 0)] else keep rq
         end.
End Append.

(* bool cbor_array_push(cbor_item_t* array, cbor_item_t* pushee) *)
Definition array_push_plan (definite : bool) (end_ptr allocated : N) (ok : bool) : plan :=
  append_plan (fun cap cnt => arr_fields cap (dst_z definite) cnt) (PArg 0) "data" SZ_PTR
              (fun blk i => [Store blk i "" (PArg 1)])
              (negb definite) (allocated <=? end_ptr) allocated end_ptr ok.

(* bool _cbor_map_add_key(cbor_item_t* item, cbor_item_t* key): the value slot of the pair is cleared *)
Definition map_add_key_plan (definite : bool) (end_ptr allocated : N) (ok : bool) : plan :=
  append_plan (fun cap cnt => arr_fields cap (dst_z definite) cnt) (PArg 0) "data" SZ_PAIR
              (fun blk i => [Store blk i "key" (PArg 1); Store blk i "value" PNull])
              (negb definite) (allocated <=? end_ptr) allocated end_ptr ok.

(* bool cbor_bytestring_add_chunk / cbor_string_add_chunk(cbor_item_t* item, cbor_item_t* chunk) *)
Definition add_chunk_plan (chunk_count chunk_capacity : N) (ok : bool) : plan :=
  append_plan chk_fields (PField (PArg 0) "data") "chunks" SZ_PTR
              (fun blk i => [Store blk i "" (PArg 1)])
              true (chunk_count =? chunk_capacity) chunk_capacity chunk_count ok.

(* cbor_item_t* cbor_array_get(const cbor_item_t* item, size_t index): NULL outside the array,
   otherwise the element, with one more reference *)
Definition array_get_plan (allocated : N) (dst : Z) (end_ptr index : N) : plan :=
  if end_ptr <=? index then mkplan (RP PNull) (arr_fields allocated dst end_ptr) [] []
  else let e := PSlot (PField (PArg 0) "data") (zN index) "" in
       mkplan (RP e) (arr_fields allocated dst end_ptr) [] [Incref e].

(* bool cbor_array_replace(cbor_item_t* item, size_t index, cbor_item_t* value) *)
Definition array_replace_plan (allocated : N) (dst : Z) (end_ptr index : N) : plan :=
  if end_ptr <=? index then mkplan (RZ 0) (arr_fields allocated dst end_ptr) [] []
  else let blk := PField (PArg 0) "data" in
       mkplan (RZ 1) (arr_fields allocated dst end_ptr) []
              [Incref (PArg 2); Decref (PSlot blk (zN index) ""); Store blk (zN index) "" (PArg 2)].

(* bool cbor_array_set(cbor_item_t* item, size_t index, cbor_item_t* value): push at the end,
   replace inside, refuse beyond; [c] is the result of the one call *)
Definition array_set_plan (allocated : N) (dst : Z) (end_ptr index : N) (c : Z) : plan :=
  if index =? end_ptr then mkplan (RZ c) [] [ReqCall "cbor_array_push" [AP (PArg 0); AP (PArg 2)]] []
  else if index <? end_ptr
       then mkplan (RZ c) [] [ReqCall "cbor_array_replace" [AP (PArg 0); AZ (zN index); AP (PArg 2)]] []
       else mkplan (RZ 0) (arr_fields allocated dst end_ptr) [] [].

(* bool _cbor_map_add_value(cbor_item_t* item, cbor_item_t* value): fills the value of the last pair *)
Definition map_add_value_plan (allocated : N) (dst : Z) (end_ptr : N) : plan :=
  mkplan (RZ 1) (arr_fields allocated dst end_ptr) []
         [Incref (PArg 1); Store (PField (PArg 0) "data") (zN (sub64 end_ptr 1)) "value" (PArg 1)].

(* bool cbor_map_add(cbor_item_t* item, struct cbor_pair pair): key, then (only if accepted) value *)
Definition map_add_plan (c0 c1 : Z) : plan :=
  let k := ReqCall "_cbor_map_add_key" [AP (PArg 0); AP (PField (PArg 1) "key")] in
  let v := ReqCall "_cbor_map_add_value" [AP (PArg 0); AP (PField (PArg 1) "value")] in
  if (c0 =? 0)%Z then mkplan (RZ 0) [] [k] [] else mkplan (RZ c1) [] [k; v] [].

(* ---------- constructors ---------- *)
Definition item_ints (ty : Z) (meta : list eff) : list eff :=
  meta ++ [SetInt (PNew 0) "refcount" 1; SetInt (PNew 0) "type" ty].
Definition seq_meta (allocated dst : Z) : list eff :=
  [SetInt (PNew 0) "metadata.allocated" allocated; SetInt (PNew 0) "metadata.end_ptr" 0;
   SetInt (PNew 0) "metadata.type" dst].

(* cbor_item_t* cbor_new_definite_array(size_t size): item, then the slot block (all NULL);
   the item is released when the second allocation fails *)
Definition new_definite_array_plan (size : N) (ok0 ok1 : bool) : plan :=
  let r0 := ReqMalloc (zN SZ_ITEM) in let r1 := ReqAllocMultiple (zN SZ_PTR) (zN size) in
  if negb ok0 then mkplan (RP PNull) [] [r0] []
  else if negb ok1 then mkplan (RP PNull) [] [r0; r1; ReqFree (PNew 0)] []
  else mkplan (RP (PNew 0)) [] [r0; r1]
         (Fill (PNew 1) (zN size) PNull :: SetPtr (PNew 0) "data" (PNew 1)
          :: item_ints TY_ARRAY (seq_meta (zN size) (dst_z true))).

Definition new_indefinite_array_plan (ok0 : bool) : plan :=
  if negb ok0 then mkplan (RP PNull) [] [ReqMalloc (zN SZ_ITEM)] []
  else mkplan (RP (PNew 0)) [] [ReqMalloc (zN SZ_ITEM)]
         (SetPtr (PNew 0) "data" PNull :: item_ints TY_ARRAY (seq_meta 0 (dst_z false))).

Definition new_definite_map_plan (size : N) (ok0 ok1 : bool) : plan :=
  let r0 := ReqMalloc (zN SZ_ITEM) in let r1 := ReqAllocMultiple (zN SZ_PAIR) (zN size) in
  if negb ok0 then mkplan (RP PNull) [] [r0] []
  else if negb ok1 then mkplan (RP PNull) [] [r0; r1; ReqFree (PNew 0)] []
  else mkplan (RP (PNew 0)) [] [r0; r1]
         (SetPtr (PNew 0) "data" (PNew 1) :: item_ints TY_MAP (seq_meta (zN size) (dst_z true))).

(* cbor_item_t* cbor_new_tag(uint64_t value) *)
Definition new_tag_plan (value : N) (ok0 : bool) : plan :=
  if negb ok0 then mkplan (RP PNull) [] [ReqMalloc (zN SZ_ITEM)] []
  else mkplan (RP (PNew 0)) [] [ReqMalloc (zN SZ_ITEM)]
         (SetPtr (PNew 0) "data" PNull :: SetPtr (PNew 0) "metadata.tagged_item" PNull
          :: item_ints TY_TAG [SetInt (PNew 0) "metadata.value" (zN value)]).

(* void cbor_tag_set_item(cbor_item_t* tag, cbor_item_t* tagged_item) *)
Definition tag_set_item_plan : plan :=
  mkplan RVoid [] [] [Incref (PArg 1); SetPtr (PArg 0) "metadata.tagged_item" (PArg 1)].
(* cbor_item_t* cbor_tag_item(const cbor_item_t* tag) *)
Definition tag_item_plan : plan :=
  let x := PField (PArg 0) "metadata.tagged_item" in mkplan (RP x) [] [] [Incref x].

(* cbor_item_t* cbor_incref(cbor_item_t* item) / cbor_move *)
Definition incref_plan (refcount : N) : plan :=
  mkplan (RP (PArg 0)) [("refcount", zN (wrap64 (refcount + 1)))] [] [].
Definition move_plan (refcount : N) : plan :=
  mkplan (RP (PArg 0)) [("refcount", zN (sub64 refcount 1))] [] [].

(* ---------- internal/stack.c ---------- *)
(* struct _cbor_stack_record* _cbor_stack_push(struct _cbor_stack*, cbor_item_t*, size_t):
   NULL without a request at the nesting limit, NULL when the allocator refuses the record *)
Definition stack_push_plan (limit size subitems : N) (ok : bool) : plan :=
  if size =? limit then mkplan (RP PNull) [("size", zN size)] [] []
  else if negb ok then mkplan (RP PNull) [("size", zN size)] [ReqMalloc (zN SZ_REC)] []
  else mkplan (RP (PNew 0)) [("size", zN (wrap64 (size + 1)))] [ReqMalloc (zN SZ_REC)]
         [SetPtr (PArg 0) "top" (PNew 0); SetPtr (PNew 0) "item" (PArg 1);
          SetPtr (PNew 0) "lower" (PField (PArg 0) "top"); SetInt (PNew 0) "subitems" (zN subitems)].

(* void _cbor_stack_pop(struct _cbor_stack* stack) *)
Definition stack_pop_plan (size : N) : plan :=
  mkplan RVoid [("size", zN (sub64 size 1))] [ReqFree (PField (PArg 0) "top")]
         [SetPtr (PArg 0) "top" (PField (PField (PArg 0) "top") "lower")].

(* ---------- fallbacks: what translator/effects.py emits for a function that has left its
   supported subset (same binders as the generated function would have) ---------- *)
Definition dst_b (z : Z) : bool := (z =? 0)%Z.
Definition fbplan_cbor_array_push (al dst e : Z) (ok : bool) := array_push_plan (dst_b dst) (Z.to_N e) (Z.to_N al) ok.
Definition fbplan_cbor_array_get (al dst e i : Z) := array_get_plan (Z.to_N al) dst (Z.to_N e) (Z.to_N i).
Definition fbplan_cbor_array_replace (al dst e i : Z) := array_replace_plan (Z.to_N al) dst (Z.to_N e) (Z.to_N i).
Definition fbplan_cbor_array_set (al dst e i c : Z) := array_set_plan (Z.to_N al) dst (Z.to_N e) (Z.to_N i) c.
Definition fbplan_cbor_new_definite_array (n : Z) (ok0 ok1 : bool) := new_definite_array_plan (Z.to_N n) ok0 ok1.
Definition fbplan_cbor_new_indefinite_array (ok0 : bool) := new_indefinite_array_plan ok0.
Definition fbplan_cbor_map_add_key (al dst e : Z) (ok : bool) := map_add_key_plan (dst_b dst) (Z.to_N e) (Z.to_N al) ok.
Definition fbplan_cbor_map_add_value (al dst e : Z) := map_add_value_plan (Z.to_N al) dst (Z.to_N e).
Definition fbplan_cbor_map_add (c0 c1 : Z) := map_add_plan c0 c1.
Definition fbplan_cbor_new_definite_map (n : Z) (ok0 ok1 : bool) := new_definite_map_plan (Z.to_N n) ok0 ok1.
Definition fbplan_cbor_bytestring_add_chunk (cap cnt : Z) (ok : bool) := add_chunk_plan (Z.to_N cnt) (Z.to_N cap) ok.
Definition fbplan_cbor_string_add_chunk (cap cnt : Z) (ok : bool) := add_chunk_plan (Z.to_N cnt) (Z.to_N cap) ok.
Definition fbplan_cbor_new_tag (v : Z) (ok0 : bool) := new_tag_plan (Z.to_N v) ok0.
Definition fbplan_cbor_tag_set_item := tag_set_item_plan.
Definition fbplan_cbor_tag_item := tag_item_plan.
Definition fbplan_cbor_incref (rc : Z) := incref_plan (Z.to_N rc).
Definition fbplan_cbor_move (rc : Z) := move_plan (Z.to_N rc).
(* the limit of a fallback is the model's default; the generated function carries the literal *)
Definition fbplan_cbor_stack_push (limit : N) (sz sub : Z) (ok : bool) := stack_push_plan limit (Z.to_N sz) (Z.to_N sub) ok.
Definition fbplan_cbor_stack_pop (sz : Z) := stack_pop_plan (Z.to_N sz).
