(* C15: floating-point values keep their exact bits.
   decode_half (PStream) against the IEEE 754 reading of the bit patterns given by Flocq
   (binary16 / binary32), half round trip through cbor_encode_half, totality of
   cbor_encode_half (no undefined shift), and bit preservation for singles and doubles.

   This is the only file of the development that imports Flocq and Reals.  The theorems named
   [*_value] (statements about real numbers) depend on the axioms of the standard library of
   reals; every other theorem is closed under the global context (see the end of the file). *)
From CB Require Import Word Word_proofs PStream PEnc.
From Coq Require Import ZArith NArith Lia Bool Reals ZifyBool ZifyN ZifyNat.
From Flocq Require Import Core IEEE754.Binary IEEE754.Bits.
Local Open Scope N_scope.

(* ---------------------------------------------------------------------------------------- *)
(* IEEE reading of bit patterns                                                              *)

Definition b16 (h : N) : binary_float 11 16 :=
  binary_float_of_bits 10 5 eq_refl eq_refl eq_refl (Z.of_N h).
Definition b32 (v : N) : binary_float 24 128 :=
  binary_float_of_bits 23 8 eq_refl eq_refl eq_refl (Z.of_N v).

(* the computable triples *)
Definition ff16 (h : N) : full_float := binary_float_of_bits_aux 10 5 (Z.of_N h).
Definition ff32 (v : N) : full_float := binary_float_of_bits_aux 23 8 (Z.of_N v).

Lemma B2FF_b16 h : B2FF 11 16 (b16 h) = ff16 h.
Proof. unfold b16, binary_float_of_bits. apply B2FF_FF2B. Qed.
Lemma B2FF_b32 v : B2FF 24 128 (b32 v) = ff32 v.
Proof. unfold b32, binary_float_of_bits. apply B2FF_FF2B. Qed.

Definition half_is_nan (h : N) : bool := ((h / 2^10) mod 32 =? 31) && negb (h mod 2^10 =? 0).

(* same real value, same sign (also of zeros and infinities), same class; false on NaN *)
Definition same_value (x y : full_float) : bool :=
  match x, y with
  | F754_zero s1, F754_zero s2 => Bool.eqb s1 s2
  | F754_finite s1 m1 e1, F754_finite s2 m2 e2 =>
      Bool.eqb s1 s2 &&
      (if (e1 <=? e2)%Z then (Zpos m1 =? Zpos m2 * 2^(e2-e1))%Z
       else (Zpos m2 =? Zpos m1 * 2^(e1-e2))%Z)
  | F754_infinity s1, F754_infinity s2 => Bool.eqb s1 s2
  | _, _ => false
  end.

Lemma same_value_sound p1 x1 p2 x2 (a : binary_float p1 x1) (b : binary_float p2 x2) :
  same_value (B2FF _ _ a) (B2FF _ _ b) = true -> B2R _ _ a = B2R _ _ b.
Proof.
  destruct a as [sa|sa|sa pa Ha|sa ma ea Ha], b as [sb|sb|sb pb Hb|sb mb eb Hb];
    cbn [B2FF B2R same_value]; try discriminate; try reflexivity.
  intros H. apply andb_prop in H. destruct H as [Hs He]. apply Bool.eqb_prop in Hs. subst sb.
  destruct (ea <=? eb)%Z eqn:E.
  - apply Z.leb_le in E. apply Z.eqb_eq in He.
    rewrite (F2R_change_exp radix2 ea (cond_Zopp sa (Z.pos mb)) eb E).
    f_equal. f_equal. change (Z.pow (radix_val radix2)) with (Z.pow 2).
    destruct sa; cbn [cond_Zopp]; lia.
  - apply Z.leb_gt in E. apply Z.eqb_eq in He.
    rewrite (F2R_change_exp radix2 eb (cond_Zopp sa (Z.pos ma)) ea ltac:(lia)).
    f_equal. f_equal. change (Z.pow (radix_val radix2)) with (Z.pow 2).
    destruct sa; cbn [cond_Zopp]; lia.
Qed.

(* what [same_value] says about class and sign, on triples (no axioms) ... *)
Lemma same_value_class_FF (x y : full_float) :
  same_value x y = true ->
  is_nan_FF x = false /\ is_nan_FF y = false /\
  is_finite_FF x = is_finite_FF y /\
  sign_FF x = sign_FF y /\
  (forall s, x = F754_zero s <-> y = F754_zero s) /\
  (forall s, x = F754_infinity s <-> y = F754_infinity s).
Proof.
  destruct x as [sa|sa|sa pa|sa ma ea], y as [sb|sb|sb pb|sb mb eb];
    cbn [is_nan_FF is_finite_FF sign_FF same_value]; try discriminate; intros H;
    try (apply Bool.eqb_prop in H; subst sb);
    try (apply andb_prop in H; destruct H as [H _]; apply Bool.eqb_prop in H; subst sb);
    repeat split; try reflexivity; try discriminate; intros E; inversion E; reflexivity.
Qed.

(* ... and on Flocq's binary floats *)
Lemma same_value_class p1 x1 p2 x2 (a : binary_float p1 x1) (b : binary_float p2 x2) :
  same_value (B2FF _ _ a) (B2FF _ _ b) = true ->
  is_nan _ _ a = false /\ is_nan _ _ b = false /\
  is_finite _ _ a = is_finite _ _ b /\
  Bsign _ _ a = Bsign _ _ b /\
  (forall s, a = B754_zero _ _ s <-> b = B754_zero _ _ s) /\
  (forall s, a = B754_infinity _ _ s <-> b = B754_infinity _ _ s).
Proof.
  destruct a as [sa|sa|sa pa Ha|sa ma ea Ha], b as [sb|sb|sb pb Hb|sb mb eb Hb];
    cbn [B2FF is_nan is_finite Bsign same_value]; try discriminate; intros H;
    try (apply Bool.eqb_prop in H; subst sb);
    try (apply andb_prop in H; destruct H as [H _]; apply Bool.eqb_prop in H; subst sb);
    repeat split; try reflexivity; try discriminate; intros E; inversion E; reflexivity.
Qed.

(* ---------------------------------------------------------------------------------------- *)
(* 1. decode_half                                                                            *)

(* [ff16 h] / [ff32 v] are the sign / mantissa / exponent triples Flocq computes from the bit
   patterns ([B2FF_b16], [B2FF_b32]); statements on them need no axiom.  The term
   [binary_float_of_bits] itself contains Flocq's validity proof
   [binary_float_of_bits_aux_correct], which depends on the axioms of Reals and on
   Classical_Prop.classic, so every statement that mentions [b16] / [b32] inherits them: these
   are the theorems named [*_value]. *)

Definition half_check (h : N) : bool :=
  if half_is_nan h then decode_half h =? 0x7FC00000
  else same_value (ff32 (decode_half h)) (ff16 h).

Lemma half_check_sweep : allb 16 half_check 0 = true.
Proof. vm_compute. reflexivity. Qed.

Lemma half_check_all h : h < 65536 -> half_check h = true.
Proof. apply allb16_forall. exact half_check_sweep. Qed.

Theorem C15_half_nan : forall h, h < 65536 -> half_is_nan h = true -> decode_half h = 0x7FC00000.
Proof.
  intros h Hh Hn. pose proof (half_check_all h Hh) as H. unfold half_check in H.
  rewrite Hn in H. apply N.eqb_eq in H. exact H.
Qed.

Theorem C15_half_same : forall h, h < 65536 -> half_is_nan h = false ->
  same_value (ff32 (decode_half h)) (ff16 h) = true.
Proof.
  intros h Hh Hn. pose proof (half_check_all h Hh) as H. unfold half_check in H.
  rewrite Hn in H. exact H.
Qed.

(* class and sign are preserved: zeros go to zeros and infinities to infinities of the same sign *)
Theorem C15_half_class : forall h, h < 65536 -> half_is_nan h = false ->
  is_nan_FF (ff32 (decode_half h)) = false /\ is_nan_FF (ff16 h) = false /\
  is_finite_FF (ff32 (decode_half h)) = is_finite_FF (ff16 h) /\
  sign_FF (ff32 (decode_half h)) = sign_FF (ff16 h) /\
  (forall s, ff32 (decode_half h) = F754_zero s <-> ff16 h = F754_zero s) /\
  (forall s, ff32 (decode_half h) = F754_infinity s <-> ff16 h = F754_infinity s).
Proof. intros h Hh Hn. apply same_value_class_FF. apply C15_half_same; assumption. Qed.

Theorem C15_half_value : forall h, h < 65536 -> half_is_nan h = false ->
  B2R _ _ (b32 (decode_half h)) = B2R _ _ (b16 h).
Proof.
  intros h Hh Hn. apply same_value_sound. rewrite B2FF_b32, B2FF_b16.
  apply C15_half_same; assumption.
Qed.

Theorem C15_half_class_value : forall h, h < 65536 -> half_is_nan h = false ->
  is_nan _ _ (b32 (decode_half h)) = false /\ is_nan _ _ (b16 h) = false /\
  is_finite _ _ (b32 (decode_half h)) = is_finite _ _ (b16 h) /\
  Bsign _ _ (b32 (decode_half h)) = Bsign _ _ (b16 h) /\
  (forall s, b32 (decode_half h) = B754_zero _ _ s <-> b16 h = B754_zero _ _ s) /\
  (forall s, b32 (decode_half h) = B754_infinity _ _ s <-> b16 h = B754_infinity _ _ s).
Proof.
  intros h Hh Hn. apply same_value_class. rewrite B2FF_b32, B2FF_b16.
  apply C15_half_same; assumption.
Qed.

(* [half_is_nan] is the IEEE NaN test on binary16 patterns, and decode_half of a NaN is a NaN *)
Definition nan_check (h : N) : bool :=
  Bool.eqb (is_nan_FF (ff16 h)) (half_is_nan h) &&
  Bool.eqb (is_nan_FF (ff32 (decode_half h))) (half_is_nan h).
Lemma nan_check_sweep : allb 16 nan_check 0 = true.
Proof. vm_compute. reflexivity. Qed.

Theorem C15_half_is_nan : forall h, h < 65536 ->
  is_nan_FF (ff16 h) = half_is_nan h /\ is_nan_FF (ff32 (decode_half h)) = half_is_nan h.
Proof.
  intros h Hh. pose proof (allb16_forall _ nan_check_sweep h Hh) as H. unfold nan_check in H.
  apply andb_prop in H. destruct H as [H1 H2]. apply Bool.eqb_prop in H1, H2.
  split; assumption.
Qed.

Lemma is_nan_B2FF p x (a : binary_float p x) : is_nan_FF (B2FF _ _ a) = is_nan _ _ a.
Proof. destruct a; reflexivity. Qed.

Theorem C15_half_is_nan_value : forall h, h < 65536 ->
  is_nan _ _ (b16 h) = half_is_nan h /\ is_nan _ _ (b32 (decode_half h)) = half_is_nan h.
Proof.
  intros h Hh. rewrite <- !is_nan_B2FF, B2FF_b16, B2FF_b32. apply C15_half_is_nan. exact Hh.
Qed.

(* ---------------------------------------------------------------------------------------- *)
(* 2. half round trip: cbor_encode_half (decode_half h) gives h back (NaN: canonical 0x7E00)  *)

Definition rt_check (h : N) : bool :=
  match encode_half_bits (decode_half h) with
  | Some r => r =? (if half_is_nan h then 0x7E00 else h)
  | None => false
  end.
Lemma rt_check_sweep : allb 16 rt_check 0 = true.
Proof. vm_compute. reflexivity. Qed.

Theorem C15_half_roundtrip : forall h, h < 65536 ->
  encode_half_bits (decode_half h) = Some (if half_is_nan h then 0x7E00 else h).
Proof.
  intros h Hh. pose proof (allb16_forall _ rt_check_sweep h Hh) as H. unfold rt_check in H.
  destruct (encode_half_bits (decode_half h)) as [r|]; [|discriminate].
  apply N.eqb_eq in H. rewrite H. reflexivity.
Qed.

(* ---------------------------------------------------------------------------------------- *)
(* 3. cbor_encode_half never shifts by an out-of-range amount                                *)

Theorem C15_half_total_all : forall v, encode_half_bits v <> None.
Proof.
  intros v. unfold encode_half_bits.
  set (exp := N.land v 0x7F800000 / 2^23).
  destruct (exp =? 0xFF) eqn:E255.
  { destruct (f32_is_nan v); discriminate. }
  destruct (exp =? 0) eqn:E0; [discriminate|].
  destruct (exp <? 103) eqn:E103; [discriminate|].
  destruct (exp <? 113) eqn:E113.
  - unfold shl32, shr32.
    assert (H1 : (exp - 103 <? 32) = true) by lia. rewrite H1.
    assert (H2 : (125 - exp <? 32) = true) by lia. rewrite H2.
    cbn [obind]. discriminate.
  - unfold shl32. change (10 <? 32) with true. cbn [obind]. discriminate.
Qed.

Theorem C15_half_total : forall v, v < 2^32 -> encode_half_bits v <> None.
Proof. intros v _. apply C15_half_total_all. Qed.

(* ---------------------------------------------------------------------------------------- *)
(* 4. singles and doubles: the bits are written and read back unchanged (NaN: canonical)      *)

Lemma canon32_nonnan v : f32_is_nan v = false -> canon32 v = v.
Proof. unfold canon32. intros ->. reflexivity. Qed.
Lemma canon64_nonnan v : f64_is_nan v = false -> canon64 v = v.
Proof. unfold canon64. intros ->. reflexivity. Qed.

Lemma f32_is_nan_F32_NAN : f32_is_nan 0x7FC00000 = true. Proof. reflexivity. Qed.
Lemma f64_is_nan_F64_NAN : f64_is_nan 0x7FF8000000000000 = true. Proof. reflexivity. Qed.

Lemma canon32_idem v : canon32 (canon32 v) = canon32 v.
Proof. unfold canon32. destruct (f32_is_nan v) eqn:E; [reflexivity|rewrite E; reflexivity]. Qed.
Lemma canon64_idem v : canon64 (canon64 v) = canon64 v.
Proof. unfold canon64. destruct (f64_is_nan v) eqn:E; [reflexivity|rewrite E; reflexivity]. Qed.

Lemma canon32_bound v : v < 2^32 -> canon32 v < 2^32.
Proof. unfold canon32, F32_NAN. destruct (f32_is_nan v); [reflexivity|trivial]. Qed.
Lemma canon64_bound v : v < 2^64 -> canon64 v < 2^64.
Proof. unfold canon64, F64_NAN. destruct (f64_is_nan v); [reflexivity|trivial]. Qed.

Lemma enc_uint32_bytes x size : 5 <= size ->
  enc_uint32 x size 0xE0 = (5, 0xFA :: be_bytes 4 x).
Proof.
  intros Hs. unfold enc_uint32. assert (E : (size <? 5) = false) by lia. rewrite E.
  cbn [be_bytes]. unfold wrap.
  change (256 ^ N.of_nat 3) with (2^24). change (256 ^ N.of_nat 2) with (2^16).
  change (256 ^ N.of_nat 1) with (2^8). change (256 ^ N.of_nat 0) with 1.
  change ((0x1A + 0xE0) mod 2^8) with 0xFA. change (2^8) with 256 at 1 2 3 4.
  rewrite N.div_1_r. reflexivity.
Qed.

Lemma enc_uint64_bytes x size : 9 <= size ->
  enc_uint64 x size 0xE0 = (9, 0xFB :: be_bytes 8 x).
Proof.
  intros Hs. unfold enc_uint64. assert (E : (9 <=? size) = true) by lia. rewrite E.
  cbn [be_bytes]. unfold wrap.
  change (256 ^ N.of_nat 7) with (2^56). change (256 ^ N.of_nat 6) with (2^48).
  change (256 ^ N.of_nat 5) with (2^40). change (256 ^ N.of_nat 4) with (2^32).
  change (256 ^ N.of_nat 3) with (2^24). change (256 ^ N.of_nat 2) with (2^16).
  change (256 ^ N.of_nat 1) with (2^8). change (256 ^ N.of_nat 0) with 1.
  change ((0x1B + 0xE0) mod 2^8) with 0xFB. change (2^8) with 256 at 1 2 3 4 5 6 7 8.
  rewrite N.div_1_r. reflexivity.
Qed.

Theorem C15_single_encode : forall v size, 5 <= size ->
  encode_single v size = (5, 0xFA :: be_bytes 4 (canon32 v)).
Proof.
  intros v size Hs. unfold encode_single, canon32, F32_NAN.
  destruct (f32_is_nan v); apply enc_uint32_bytes; assumption.
Qed.

Theorem C15_double_encode : forall v size, 9 <= size ->
  encode_double v size = (9, 0xFB :: be_bytes 8 (canon64 v)).
Proof.
  intros v size Hs. unfold encode_double, canon64, F64_NAN.
  destruct (f64_is_nan v); apply enc_uint64_bytes; assumption.
Qed.

(* decoding 0xFA / 0xFB followed by the big-endian bytes of x (and anything after them) *)
Lemma stream_decode_float4 x rest : x < 2^32 ->
  stream_decode (0xFA :: be_bytes 4 x ++ rest) = SRes (mkdres Finished 5 0) (Some (TFloat F32 (canon32 x))).
Proof.
  intros Hx. unfold stream_decode.
  set (buf := 0xFA :: be_bytes 4 x ++ rest).
  assert (Hl : len buf = 5 + len rest).
  { unfold buf. rewrite len_cons, len_app. unfold len at 1. rewrite be_bytes_length. lia. }
  unfold claim_bytes at 1. cbn [rd st]. unfold sub64.
  assert (E1 : (0 <=? len buf) = true) by lia. rewrite E1.
  assert (E2 : (len buf - 0 <? 1) = false) by lia. rewrite E2. cbn [negb].
  unfold buf at 1. change (dispatch 0xFA) with (AFloat cb_float4 4).
  unfold claim_bytes. cbn [rd st]. unfold sub64, wrap64.
  change ((0 + 1) mod W64) with 1.
  assert (E3 : (1 <=? len buf) = true) by lia. rewrite E3.
  assert (E4 : (len buf - 1 <? 4) = false) by lia. rewrite E4.
  unfold rd_bytes. assert (E5 : (1 + 4 <=? len buf) = true) by lia. rewrite E5.
  change (skipnN 1 buf) with (be_bytes 4 x ++ rest).
  rewrite firstnN_app by (unfold len; rewrite be_bytes_length; reflexivity).
  rewrite be_val_be_bytes by exact Hx.
  reflexivity.
Qed.

Lemma stream_decode_float8 x rest : x < 2^64 ->
  stream_decode (0xFB :: be_bytes 8 x ++ rest) = SRes (mkdres Finished 9 0) (Some (TFloat F64 (canon64 x))).
Proof.
  intros Hx. unfold stream_decode.
  set (buf := 0xFB :: be_bytes 8 x ++ rest).
  assert (Hl : len buf = 9 + len rest).
  { unfold buf. rewrite len_cons, len_app. unfold len at 1. rewrite be_bytes_length. lia. }
  unfold claim_bytes at 1. cbn [rd st]. unfold sub64.
  assert (E1 : (0 <=? len buf) = true) by lia. rewrite E1.
  assert (E2 : (len buf - 0 <? 1) = false) by lia. rewrite E2. cbn [negb].
  unfold buf at 1. change (dispatch 0xFB) with (AFloat cb_float8 8).
  unfold claim_bytes. cbn [rd st]. unfold sub64, wrap64.
  change ((0 + 1) mod W64) with 1.
  assert (E3 : (1 <=? len buf) = true) by lia. rewrite E3.
  assert (E4 : (len buf - 1 <? 8) = false) by lia. rewrite E4.
  unfold rd_bytes. assert (E5 : (1 + 8 <=? len buf) = true) by lia. rewrite E5.
  change (skipnN 1 buf) with (be_bytes 8 x ++ rest).
  rewrite firstnN_app by (unfold len; rewrite be_bytes_length; reflexivity).
  rewrite be_val_be_bytes by exact Hx.
  reflexivity.
Qed.

Theorem C15_single : forall v, v < 2^32 ->
  snd (encode_single v 5) = 0xFA :: be_bytes 4 (canon32 v) /\
  (forall rest, stream_decode (snd (encode_single v 5) ++ rest)
                = SRes (mkdres Finished 5 0) (Some (TFloat F32 (canon32 v)))) /\
  (f32_is_nan v = false -> canon32 v = v).
Proof.
  intros v Hv. rewrite C15_single_encode by lia. cbn [snd]. split; [reflexivity|]. split.
  - intros rest. rewrite <- app_comm_cons, stream_decode_float4 by (apply canon32_bound; exact Hv).
    rewrite canon32_idem. reflexivity.
  - apply canon32_nonnan.
Qed.

Theorem C15_double : forall v, v < 2^64 ->
  snd (encode_double v 9) = 0xFB :: be_bytes 8 (canon64 v) /\
  (forall rest, stream_decode (snd (encode_double v 9) ++ rest)
                = SRes (mkdres Finished 9 0) (Some (TFloat F64 (canon64 v)))) /\
  (f64_is_nan v = false -> canon64 v = v).
Proof.
  intros v Hv. rewrite C15_double_encode by lia. cbn [snd]. split; [reflexivity|]. split.
  - intros rest. rewrite <- app_comm_cons, stream_decode_float8 by (apply canon64_bound; exact Hv).
    rewrite canon64_idem. reflexivity.
  - apply canon64_nonnan.
Qed.

(* ---------------------------------------------------------------------------------------- *)
(* 5. decode_half against the ldexp description in loaders.c (_cbor_decode_half):
      exp = 0: ldexp(mant, -24); 0 < exp < 31: ldexp(mant + 1024, exp - 25); exp = 31, mant = 0:
      INFINITY; negated when the sign bit is set *)

(* the triple [x] denotes m * 2^e *)
Definition ff_is (x : full_float) (m e : Z) : bool :=
  match x with
  | F754_zero _ => (m =? 0)%Z
  | F754_finite s mx ex =>
      if (ex <=? e)%Z then (cond_Zopp s (Zpos mx) =? m * 2^(e-ex))%Z
      else (m =? cond_Zopp s (Zpos mx) * 2^(ex-e))%Z
  | _ => false
  end.

Lemma ff_is_sound p x (a : binary_float p x) m e :
  ff_is (B2FF _ _ a) m e = true -> B2R _ _ a = F2R (Float radix2 m e).
Proof.
  destruct a as [sa|sa|sa pa Ha|sa ma ea Ha]; cbn [B2FF B2R ff_is]; try discriminate.
  - intros H. apply Z.eqb_eq in H. subst m. symmetry. apply F2R_0.
  - destruct (ea <=? e)%Z eqn:E; intros H; apply Z.eqb_eq in H.
    + apply Z.leb_le in E. rewrite (F2R_change_exp radix2 ea m e E).
      change (Z.pow (radix_val radix2)) with (Z.pow 2). rewrite <- H. reflexivity.
    + apply Z.leb_gt in E.
      rewrite (F2R_change_exp radix2 e (cond_Zopp sa (Z.pos ma)) ea ltac:(lia)).
      change (Z.pow (radix_val radix2)) with (Z.pow 2). rewrite <- H. reflexivity.
Qed.

Definition ldexp_check (h : N) : bool :=
  let s := (h / 2^15) mod 2 =? 1 in
  let e := (h / 2^10) mod 32 in
  let m := h mod 2^10 in
  if e =? 0 then ff_is (ff32 (decode_half h)) (cond_Zopp s (Z.of_N m)) (-24)
  else if e =? 31 then
    if m =? 0 then match ff32 (decode_half h) with F754_infinity s' => Bool.eqb s' s | _ => false end
    else true
  else ff_is (ff32 (decode_half h)) (cond_Zopp s (Z.of_N (m + 1024))) (Z.of_N e - 25).

Lemma ldexp_check_sweep : allb 16 ldexp_check 0 = true.
Proof. vm_compute. reflexivity. Qed.

(* on triples: [ff_is x m e = true] reads "x denotes m * 2^e" ([ff_is_sound]) *)
Theorem C15_half_ldexp : forall h, h < 65536 ->
  let s := (h / 2^15) mod 2 =? 1 in
  let e := (h / 2^10) mod 32 in
  let m := h mod 2^10 in
  (e = 0 -> ff_is (ff32 (decode_half h)) (cond_Zopp s (Z.of_N m)) (-24) = true) /\
  (0 < e < 31 -> ff_is (ff32 (decode_half h)) (cond_Zopp s (Z.of_N (m + 1024))) (Z.of_N e - 25) = true) /\
  (e = 31 -> m = 0 -> ff32 (decode_half h) = F754_infinity s).
Proof.
  intros h Hh s e m. pose proof (allb16_forall _ ldexp_check_sweep h Hh) as H.
  unfold ldexp_check in H. fold s e m in H.
  split; [|split].
  - intros E. rewrite E in H. change (0 =? 0) with true in H. cbv iota in H. exact H.
  - intros E. destruct (e =? 0) eqn:E0; [lia|]. destruct (e =? 31) eqn:E31; [lia|]. exact H.
  - intros E Em. rewrite E, Em in H. change (31 =? 0) with false in H.
    change (31 =? 31) with true in H. change (0 =? 0) with true in H. cbv iota in H.
    destruct (ff32 (decode_half h)) as [sa|sa|sa pa|sa ma ea]; try discriminate.
    apply Bool.eqb_prop in H. rewrite H. reflexivity.
Qed.

Theorem C15_half_ldexp_value : forall h, h < 65536 ->
  let s := (h / 2^15) mod 2 =? 1 in
  let e := (h / 2^10) mod 32 in
  let m := h mod 2^10 in
  (e = 0 -> B2R _ _ (b32 (decode_half h)) = F2R (Float radix2 (cond_Zopp s (Z.of_N m)) (-24))) /\
  (0 < e < 31 -> B2R _ _ (b32 (decode_half h))
                 = F2R (Float radix2 (cond_Zopp s (Z.of_N (m + 1024))) (Z.of_N e - 25))) /\
  (e = 31 -> m = 0 -> b32 (decode_half h) = B754_infinity _ _ s).
Proof.
  intros h Hh s e m. destruct (C15_half_ldexp h Hh) as (H0 & H1 & H2). fold s e m in H0, H1, H2.
  split; [|split].
  - intros E. apply ff_is_sound. rewrite B2FF_b32. exact (H0 E).
  - intros E. apply ff_is_sound. rewrite B2FF_b32. exact (H1 E).
  - intros E Em. specialize (H2 E Em). rewrite <- B2FF_b32 in H2.
    destruct (b32 (decode_half h)) as [sa|sa|sa pa Ha|sa ma ea Ha]; cbn [B2FF] in H2; try discriminate.
    inversion H2. reflexivity.
Qed.

(* ---------------------------------------------------------------------------------------- *)
(* Assumptions.  Only [same_value_sound] and the [*_value] theorems (statements about real numbers
   or about Flocq's [binary_float_of_bits]) depend on axioms: ClassicalDedekindReals.sig_forall_dec,
   ClassicalDedekindReals.sig_not_dec, FunctionalExtensionality.functional_extensionality_dep and
   Classical_Prop.classic (sig_not_dec and classic enter only through Flocq's
   binary_float_of_bits_aux_correct, i.e. through the terms [b16] / [b32] themselves).
   All other theorems are closed under the global context. *)
Print Assumptions same_value_sound.
Print Assumptions C15_half_value.
Print Assumptions C15_half_class_value.
Print Assumptions C15_half_is_nan_value.
Print Assumptions C15_half_ldexp_value.
Print Assumptions same_value_class_FF.
Print Assumptions same_value_class.
Print Assumptions C15_half_ldexp.
Print Assumptions C15_half_nan.
Print Assumptions C15_half_same.
Print Assumptions C15_half_class.
Print Assumptions C15_half_is_nan.
Print Assumptions C15_half_roundtrip.
Print Assumptions C15_half_total_all.
Print Assumptions C15_half_total.
Print Assumptions canon32_nonnan.
Print Assumptions canon64_nonnan.
Print Assumptions canon32_idem.
Print Assumptions canon64_idem.
Print Assumptions C15_single_encode.
Print Assumptions C15_double_encode.
Print Assumptions stream_decode_float4.
Print Assumptions stream_decode_float8.
Print Assumptions C15_single.
Print Assumptions C15_double.
