(* Specification: the item at the start of a token sequence, as a recursive-descent parser over
   the RFC 8949 heads (SpecHead.head_spec), with the nesting budget, the refusable allocations and
   the error classification of cbor_load.  [parse] is the "lazy" variant (what the property C05
   allows: a non-chunk item opened inside a chunked string is judged when it completes). *)
From CB Require Export PBuild SpecHead.
Local Open Scope N_scope.

(* a decoded head with the offset just past it *)
Definition ptok := (tok * N)%type.
(* why the head sequence stops: input exhausted / truncated head at [pos] (NOTENOUGHDATA at pos),
   or reserved / unsupported initial byte at [pos] (MALFORMATED at pos) *)
Inductive tail := TNeed (pos : N) | TBad (pos : N).

Inductive pres (A : Type) := POk (a : A) (e : N) (rest : list ptok) | PErr (code : lerr) (pos : N).
Arguments POk {A}. Arguments PErr {A}.

Section Spec.
Variable cap : N.
Variable tl : tail.

Definition stop {A} : pres A :=
  match tl with TNeed p => PErr ENotEnough p | TBad p => PErr EMalformed p end.

(* definite string of major type [text]? *)
Definition chunk_of (text : bool) (tk : tok) : option (list N) :=
  match tk, text with
  | TBytes _ d, false => Some d
  | TText _ d, true => Some d
  | _, _ => None
  end.

Fixpoint parse (fuel : nat) (d : nat) (ts : list ptok) {struct fuel} : pres item :=
  match fuel with O => PErr ENone 0 | S f =>
  match ts with
  | [] => stop
  | (tk, e) :: r =>
    match tk with
    | TUint w v => POk (IUint w v) e r
    | TNegint w v => POk (INegint w v) e r
    | TBytes _ data => if cap <? len data then PErr EMem e else POk (IBytes data) e r
    | TText _ data => if cap <? len data then PErr EMem e else POk (IText data) e r
    | TFloat w b => POk (IFloat w b) e r
    | TBool b => POk (ICtrl (if b then 21 else 20)) e r
    | TNull => POk (ICtrl 22) e r
    | TUndef => POk (ICtrl 23) e r
    | TBreak => PErr ESyntax e
    | TTag v =>
        match d with O => PErr EMem e | S d' =>
          match parse f d' r with
          | POk x e' r' => POk (ITag v x) e' r'
          | PErr c p => PErr c p
          end
        end
    | TArray n =>
        if negb (alloc_ok cap 64 8 n) then PErr EMem e
        else if n =? 0 then POk (IArray false []) e r
        else match d with O => PErr EMem e | S d' => parse_n f d' n r [] end
    | TArrayStart =>
        match d with O => PErr EMem e | S d' => parse_until f d' r [] end
    | TMap n =>
        if negb (alloc_ok cap 64 16 n) then PErr EMem e
        else if n =? 0 then POk (IMap false []) e r
        else match d with O => PErr EMem e | S d' => parse_pairs f d' n r [] end
    | TMapStart =>
        match d with O => PErr EMem e | S d' => parse_until_map f d' r [] end
    | TBytesStart =>
        match d with O => PErr EMem e | S d' => parse_chunks f d' false r [] end
    | TTextStart =>
        match d with O => PErr EMem e | S d' => parse_chunks f d' true r [] end
    end
  end end
(* exactly n > 0 more array elements *)
with parse_n (fuel : nat) (d : nat) (n : N) (ts : list ptok) (racc : list item) {struct fuel} : pres item :=
  match fuel with O => PErr ENone 0 | S f =>
    match parse f d ts with
    | POk x e r =>
        if n =? 1 then POk (IArray false (rev (x :: racc))) e r
        else parse_n f d (n - 1) r (x :: racc)
    | PErr c p => PErr c p
    end
  end
(* array elements until break *)
with parse_until (fuel : nat) (d : nat) (ts : list ptok) (racc : list item) {struct fuel} : pres item :=
  match fuel with O => PErr ENone 0 | S f =>
    match ts with
    | (TBreak, e) :: r => POk (IArray true (rev racc)) e r
    | _ => match parse f d ts with
           | POk x _ r => parse_until f d r (x :: racc)
           | PErr c p => PErr c p
           end
    end
  end
(* exactly n > 0 more key/value pairs *)
with parse_pairs (fuel : nat) (d : nat) (n : N) (ts : list ptok) (racc : list (item * item)) {struct fuel} : pres item :=
  match fuel with O => PErr ENone 0 | S f =>
    match parse f d ts with
    | POk k _ r =>
        match parse f d r with
        | POk v e r' =>
            if n =? 1 then POk (IMap false (rev ((k, v) :: racc))) e r'
            else parse_pairs f d (n - 1) r' ((k, v) :: racc)
        | PErr c p => PErr c p
        end
    | PErr c p => PErr c p
    end
  end
(* key/value pairs until break; a break in value position is a syntax error *)
with parse_until_map (fuel : nat) (d : nat) (ts : list ptok) (racc : list (item * item)) {struct fuel} : pres item :=
  match fuel with O => PErr ENone 0 | S f =>
    match ts with
    | (TBreak, e) :: r => POk (IMap true (rev racc)) e r
    | _ => match parse f d ts with
           | POk k _ r =>
               match r with
               | (TBreak, e) :: _ => PErr ESyntax e
               | _ => match parse f d r with
                      | POk v _ r' => parse_until_map f d r' ((k, v) :: racc)
                      | PErr c p => PErr c p
                      end
               end
           | PErr c p => PErr c p
           end
    end
  end
(* definite chunks of the string's own type until break; anything else is parsed in full and
   then rejected with SYNTAXERROR just past it (the late report the property allows) *)
with parse_chunks (fuel : nat) (d : nat) (text : bool) (ts : list ptok) (racc : list (list N)) {struct fuel} : pres item :=
  match fuel with O => PErr ENone 0 | S f =>
    match ts with
    | (TBreak, e) :: r => POk (if text then ITextI (rev racc) else IBytesI (rev racc)) e r
    | (tk, e) :: r =>
        match chunk_of text tk with
        | Some data => if cap <? len data then PErr EMem e else parse_chunks f d text r (data :: racc)
        | None => match parse f d ts with
                  | POk _ e' _ => PErr ESyntax e'
                  | PErr c p => PErr c p
                  end
        end
    | [] => stop
    end
  end.

End Spec.

(* ---- the head sequence of a buffer ---- *)
Fixpoint tokenize (fuel : nat) (pos : N) (bs : list N) : list ptok * tail :=
  match fuel with
  | O => ([], TNeed pos)
  | S f =>
      match head_spec bs with
      | HTok t n => let (ts, tl) := tokenize f (pos + n) (skipnN n bs) in ((t, pos + n) :: ts, tl)
      | HNeed _ => ([], TNeed pos)
      | HBad => ([], TBad pos)
      end
  end.

(* the specification of cbor_load *)
Definition load_spec (L cap : N) (buf : list N) : lres :=
  if len buf =? 0 then LErr ENoData 0 0 else
  let (ts, tl) := tokenize (S (length buf)) 0 buf in
  match parse cap tl (S (2 * length ts + 1)) (N.to_nat L) ts with
  | POk t e _ => LOk t e
  | PErr c p => LErr c p p
  end.
