(* The builder of cbor_load (PBuild) implements the recursive-descent specification (SpecParse):
   run_is_parse (C02 / C05 / C19), and the byte-level loop factors through tokenisation. *)
From CB Require Import Word Word_proofs PStream SpecHead PBuild SpecParse PRun.
From Coq Require Import Lia ZArith ZifyBool ZifyN ZifyNat.
Local Open Scope N_scope.
Ltac Zify.zify_post_hook ::= Z.div_mod_to_equations.

Arguments N.pow : simpl never.
Arguments N.mul : simpl never.
Arguments N.add : simpl never.
Arguments N.sub : simpl never.

(* ------------------------------------------------------------------------------------------ *)
(* the allocation guard bounds the declared count                                              *)
(* ------------------------------------------------------------------------------------------ *)

Lemma hbf_ge fuel : forall n bit, bit <= highest_bit_f fuel n bit.
Proof.
  induction fuel as [|f IH]; intros n bit; cbn [highest_bit_f]; [lia|].
  destruct (n =? 0); [lia|]. specialize (IH (n / 2) (bit + 1)). lia.
Qed.

Lemma pow2_pos k : 0 < 2 ^ k.
Proof. apply N.neq_0_lt_0, N.pow_nonzero. discriminate. Qed.

Lemma hbf_bound fuel : forall n bit k, (N.to_nat k < fuel)%nat ->
  highest_bit_f fuel n bit <= bit + k -> n < 2 ^ k.
Proof.
  induction fuel as [|f IH]; intros n bit k Hk H; [lia|].
  cbn [highest_bit_f] in H. destruct (N.eqb_spec n 0) as [->|Hn]; [apply pow2_pos|].
  pose proof (hbf_ge f (n / 2) (bit + 1)) as Hge.
  assert (Hk1 : 1 <= k) by lia.
  specialize (IH (n / 2) (bit + 1) (k - 1)).
  assert (Hlt : n / 2 < 2 ^ (k - 1)) by (apply IH; lia).
  replace k with (N.succ (k - 1)) by lia. rewrite N.pow_succ_r'. lia.
Qed.

Lemma alloc_ok_bound cap isz hb n :
  1 < isz -> highest_bit 64 isz = hb -> hb <= 64 ->
  alloc_ok cap 64 isz n = true -> n <= 1 \/ n < 2 ^ (64 - hb).
Proof.
  intros Hisz Hhb Hle H. unfold alloc_ok, alloc_multiple_req, safe_to_multiply in H.
  destruct (N.leb_spec isz 1) as [|_]; [lia|]. cbn [orb] in H.
  destruct (N.leb_spec n 1) as [|Hn]; [left; assumption|right].
  destruct (N.leb_spec (highest_bit 64 isz + highest_bit 64 n) 64) as [Hb|]; [|discriminate].
  rewrite Hhb in Hb. unfold highest_bit in Hb.
  apply (hbf_bound (S (N.to_nat 64)) n 0 (64 - hb)); lia.
Qed.

Lemma alloc_ok_map_nowrap cap n : alloc_ok cap 64 16 n = true -> n * 2 < W64.
Proof.
  intros H. apply (alloc_ok_bound cap 16 5 n) in H; [|lia|reflexivity|lia].
  change (2 ^ (64 - 5)) with 576460752303423488 in H. unfold W64. lia.
Qed.

(* ------------------------------------------------------------------------------------------ *)
(* end of the token list                                                                       *)
(* ------------------------------------------------------------------------------------------ *)

Lemma stop_cases tl : exists c p, (forall A, @stop tl A = PErr c p) /\ run_stop tl = LErr c p p.
Proof. destruct tl as [p|p]; [exists ENotEnough, p|exists EMalformed, p]; split; reflexivity. Qed.

Lemma stop_not_ok tl A a e r : @stop tl A <> POk a e r.
Proof. destruct tl; discriminate. Qed.

(* ------------------------------------------------------------------------------------------ *)
(* one append on each kind of frame                                                            *)
(* ------------------------------------------------------------------------------------------ *)

Lemma append_arr_def x racc a n st : 0 < n -> a = n + len racc ->
  append x (FArr false racc a n :: st) =
  if n =? 1 then append (IArray false (rev (x :: racc))) st
  else ok_stack (FArr false (x :: racc) a (n - 1) :: st).
Proof.
  intros Hn Ha. cbn [append].
  destruct (N.leb_spec a (len racc)) as [|_]; [lia|].
  rewrite sub64_le by lia.
  destruct (N.eqb_spec n 1) as [->|Hn1]; [reflexivity|].
  destruct (N.eqb_spec (n - 1) 0); [lia|reflexivity].
Qed.

Lemma odd_twice n : odd (n * 2) = false.
Proof. unfold odd. rewrite N.odd_mul. change (N.odd 2) with false. apply andb_false_r. Qed.

Lemma odd_twice_pred n : 0 < n -> odd (n * 2 - 1) = true.
Proof.
  intros Hn. unfold odd. replace (n * 2 - 1) with (1 + 2 * (n - 1)) by lia.
  rewrite N.odd_add_mul_2. reflexivity.
Qed.

Lemma append_map_def_key k racc a n st : 0 < n -> a = n + len racc ->
  append k (FMap false racc None a (n * 2) :: st) =
  ok_stack (FMap false racc (Some k) a (n * 2 - 1) :: st).
Proof.
  intros Hn Ha. cbn [append]. rewrite odd_twice. cbn [negb andb].
  destruct (N.leb_spec a (len racc)) as [|_]; [lia|].
  rewrite sub64_le by lia.
  destruct (N.eqb_spec (n * 2 - 1) 0); [lia|reflexivity].
Qed.

Lemma append_map_def_val v k racc a n st : 0 < n ->
  append v (FMap false racc (Some k) a (n * 2 - 1) :: st) =
  if n =? 1 then append (IMap false (rev ((k, v) :: racc))) st
  else ok_stack (FMap false ((k, v) :: racc) None a ((n - 1) * 2) :: st).
Proof.
  intros Hn. cbn [append]. rewrite odd_twice_pred by assumption. cbn [negb andb].
  rewrite sub64_le by lia.
  destruct (N.eqb_spec n 1) as [->|Hn1]; [reflexivity|].
  destruct (N.eqb_spec (n * 2 - 1 - 1) 0); [lia|].
  replace (n * 2 - 1 - 1) with ((n - 1) * 2) by lia. reflexivity.
Qed.

Lemma append_map_indef_key k racc a st :
  append k (FMap true racc None a 0 :: st) = ok_stack (FMap true racc (Some k) a 1 :: st).
Proof. reflexivity. Qed.

Lemma append_map_indef_val v k racc a st :
  append v (FMap true racc (Some k) a 1 :: st) = ok_stack (FMap true ((k, v) :: racc) None a 0 :: st).
Proof. reflexivity. Qed.

Section Sim.
Variables (L cap : N) (tl : tail).

Local Notation run := (PRun.run L cap tl).
Local Notation parse := (SpecParse.parse cap tl).
Local Notation parse_n := (SpecParse.parse_n cap tl).
Local Notation parse_until := (SpecParse.parse_until cap tl).
Local Notation parse_pairs := (SpecParse.parse_pairs cap tl).
Local Notation parse_until_map := (SpecParse.parse_until_map cap tl).
Local Notation parse_chunks := (SpecParse.parse_chunks cap tl).
Local Notation stop := (@SpecParse.stop tl item).

(* ---- unfolding equations of the specification ---- *)
Lemma parse_S f d ts : parse (S f) d ts =
  match ts with
  | [] => stop
  | (tk, e) :: r =>
    match tk with
    | TUint w v => POk (IUint w v) e r
    | TNegint w v => POk (INegint w v) e r
    | TBytes _ data => if cap <? len data then PErr EMem e else POk (IBytes data) e r
    | TText _ data => if cap <? len data then PErr EMem e else POk (IText data) e r
    | TFloat w b => POk (IFloat w b) e r
    | TBool b => POk (ICtrl (if b then 21 else 20)) e r
    | TNull => POk (ICtrl 22) e r
    | TUndef => POk (ICtrl 23) e r
    | TBreak => PErr ESyntax e
    | TTag v =>
        match d with O => PErr EMem e | S d' =>
          match parse f d' r with
          | POk x e' r' => POk (ITag v x) e' r'
          | PErr c p => PErr c p
          end
        end
    | TArray n =>
        if negb (alloc_ok cap 64 8 n) then PErr EMem e
        else if n =? 0 then POk (IArray false []) e r
        else match d with O => PErr EMem e | S d' => parse_n f d' n r [] end
    | TArrayStart =>
        match d with O => PErr EMem e | S d' => parse_until f d' r [] end
    | TMap n =>
        if negb (alloc_ok cap 64 16 n) then PErr EMem e
        else if n =? 0 then POk (IMap false []) e r
        else match d with O => PErr EMem e | S d' => parse_pairs f d' n r [] end
    | TMapStart =>
        match d with O => PErr EMem e | S d' => parse_until_map f d' r [] end
    | TBytesStart =>
        match d with O => PErr EMem e | S d' => parse_chunks f d' false r [] end
    | TTextStart =>
        match d with O => PErr EMem e | S d' => parse_chunks f d' true r [] end
    end
  end.
Proof. reflexivity. Qed.

Lemma parse_n_S f d n ts racc : parse_n (S f) d n ts racc =
  match parse f d ts with
  | POk x e r =>
      if n =? 1 then POk (IArray false (rev (x :: racc))) e r
      else parse_n f d (n - 1) r (x :: racc)
  | PErr c p => PErr c p
  end.
Proof. reflexivity. Qed.

Definition is_break (ts : list ptok) : option (N * list ptok) :=
  match ts with (TBreak, e) :: r => Some (e, r) | _ => None end.

Lemma match_break {A} ts (b : N -> list ptok -> A) (dflt : A) :
  match ts with (TBreak, e) :: r => b e r | _ => dflt end =
  match is_break ts with Some (e, r) => b e r | None => dflt end.
Proof. destruct ts as [|[[] e] r]; reflexivity. Qed.

Lemma parse_until_S f d ts racc : parse_until (S f) d ts racc =
  match is_break ts with
  | Some (e, r) => POk (IArray true (rev racc)) e r
  | None => match parse f d ts with
            | POk x _ r => parse_until f d r (x :: racc)
            | PErr c p => PErr c p
            end
  end.
Proof. destruct ts as [|[[] e] r]; reflexivity. Qed.

Lemma parse_pairs_S f d n ts racc : parse_pairs (S f) d n ts racc =
  match parse f d ts with
  | POk k _ r =>
      match parse f d r with
      | POk v e r' =>
          if n =? 1 then POk (IMap false (rev ((k, v) :: racc))) e r'
          else parse_pairs f d (n - 1) r' ((k, v) :: racc)
      | PErr c p => PErr c p
      end
  | PErr c p => PErr c p
  end.
Proof. reflexivity. Qed.

Lemma parse_until_map_S f d ts racc : parse_until_map (S f) d ts racc =
  match is_break ts with
  | Some (e, r) => POk (IMap true (rev racc)) e r
  | None => match parse f d ts with
            | POk k _ r =>
                match is_break r with
                | Some (e, _) => PErr ESyntax e
                | None => match parse f d r with
                          | POk v _ r' => parse_until_map f d r' ((k, v) :: racc)
                          | PErr c p => PErr c p
                          end
                end
            | PErr c p => PErr c p
            end
  end.
Proof.
  change (parse_until_map (S f) d ts racc) with
    (match ts with
     | (TBreak, e) :: r => POk (IMap true (rev racc)) e r
     | _ => match parse f d ts with
            | POk k _ r =>
                match r with
                | (TBreak, e) :: _ => PErr ESyntax e
                | _ => match parse f d r with
                       | POk v _ r' => parse_until_map f d r' ((k, v) :: racc)
                       | PErr c p => PErr c p
                       end
                end
            | PErr c p => PErr c p
            end
     end).
  rewrite match_break. destruct (is_break ts) as [[e r]|]; [reflexivity|].
  destruct (parse f d ts) as [k e0 r0|c p]; [|reflexivity].
  rewrite match_break. destruct (is_break r0) as [[e r]|]; reflexivity.
Qed.

Lemma parse_chunks_S f d text ts racc : parse_chunks (S f) d text ts racc =
  match ts with
  | [] => stop
  | (tk, e) :: r =>
      match is_break ts with
      | Some _ => POk (if text then ITextI (rev racc) else IBytesI (rev racc)) e r
      | None =>
        match chunk_of text tk with
        | Some data => if cap <? len data then PErr EMem e else parse_chunks f d text r (data :: racc)
        | None => match parse f d ts with
                  | POk _ e' _ => PErr ESyntax e'
                  | PErr c p => PErr c p
                  end
        end
      end
  end.
Proof. destruct ts as [|[[] e] r]; reflexivity. Qed.

Lemma is_break_some ts e r : is_break ts = Some (e, r) -> ts = (TBreak, e) :: r.
Proof. destruct ts as [|[[] e0] r0]; try discriminate. intros H; inversion H; reflexivity. Qed.

(* ---- every successful parse strictly shortens the token list ---- *)
Lemma consumes : forall fuel,
  (forall d ts x e r, parse fuel d ts = POk x e r -> (length r < length ts)%nat) /\
  (forall d n ts racc x e r, parse_n fuel d n ts racc = POk x e r -> (length r < length ts)%nat) /\
  (forall d ts racc x e r, parse_until fuel d ts racc = POk x e r -> (length r < length ts)%nat) /\
  (forall d n ts racc x e r, parse_pairs fuel d n ts racc = POk x e r -> (length r < length ts)%nat) /\
  (forall d ts racc x e r, parse_until_map fuel d ts racc = POk x e r -> (length r < length ts)%nat) /\
  (forall d text ts racc x e r, parse_chunks fuel d text ts racc = POk x e r -> (length r < length ts)%nat).
Proof.
  induction fuel as [|f (IH1 & IH2 & IH3 & IH4 & IH5 & IH6)].
  { repeat split; intros; discriminate. }
  repeat split.
  - intros d ts x e r H. rewrite parse_S in H.
    destruct ts as [|[tk e0] r0]; [exfalso; exact (stop_not_ok _ _ _ _ _ H)|].
    cbn [length].
    destruct tk;
      repeat match type of H with (if ?c then _ else _) = _ => destruct c end;
      try discriminate;
      try (inversion H; subst; lia);
      (destruct d as [|d']; [discriminate|]).
    + apply IH6 in H. lia.
    + apply IH6 in H. lia.
    + apply IH2 in H. lia.
    + apply IH3 in H. lia.
    + apply IH4 in H. lia.
    + apply IH5 in H. lia.
    + destruct (parse f d' r0) as [y e1 r1|c p] eqn:E; [|discriminate].
      apply IH1 in E. inversion H; subst. lia.
  - intros d n ts racc x e r H. rewrite parse_n_S in H.
    destruct (parse f d ts) as [y e1 r1|c p] eqn:E; [|discriminate]. apply IH1 in E.
    destruct (n =? 1); [inversion H; subst; lia|]. apply IH2 in H. lia.
  - intros d ts racc x e r H. rewrite parse_until_S in H.
    destruct (is_break ts) as [[e0 r0]|] eqn:B.
    + apply is_break_some in B. subst ts. inversion H; subst. cbn [length]. lia.
    + destruct (parse f d ts) as [y e1 r1|c p] eqn:E; [|discriminate]. apply IH1 in E.
      apply IH3 in H. lia.
  - intros d n ts racc x e r H. rewrite parse_pairs_S in H.
    destruct (parse f d ts) as [y e1 r1|c p] eqn:E; [|discriminate]. apply IH1 in E.
    destruct (parse f d r1) as [y2 e2 r2|c p] eqn:E2; [|discriminate]. apply IH1 in E2.
    destruct (n =? 1); [inversion H; subst; lia|]. apply IH4 in H. lia.
  - intros d ts racc x e r H. rewrite parse_until_map_S in H.
    destruct (is_break ts) as [[e0 r0]|] eqn:B.
    + apply is_break_some in B. subst ts. inversion H; subst. cbn [length]. lia.
    + destruct (parse f d ts) as [y e1 r1|c p] eqn:E; [|discriminate]. apply IH1 in E.
      destruct (is_break r1) as [[e0 r0]|]; [discriminate|].
      destruct (parse f d r1) as [y2 e2 r2|c p] eqn:E2; [|discriminate]. apply IH1 in E2.
      apply IH5 in H. lia.
  - intros d text ts racc x e r H. rewrite parse_chunks_S in H.
    destruct ts as [|[tk e0] r0]; [exfalso; exact (stop_not_ok _ _ _ _ _ H)|].
    match type of H with context [is_break ?l] => destruct (is_break l) as [[e1 r1]|] eqn:B end.
    + inversion H; subst. cbn [length]. lia.
    + destruct (chunk_of text tk) as [data|].
      * destruct (cap <? len data); [discriminate|]. apply IH6 in H. cbn [length]. lia.
      * match type of H with context [parse f d ?l] => destruct (parse f d l); discriminate end.
Qed.


(* ---- the machine after one callback ---- *)
Definition after (r : list ptok) (e : N) (c : bctx) : lres :=
  if fault c then LFault
  else if creation_failed c then LErr EMem e e
  else if syntax_error c then LErr ESyntax e e
  else match stack c with
       | [] => match root c with Some t => LOk t e | None => LFault end
       | stk' => run r stk'
       end.

Lemma run_cons tk e r stk : run ((tk, e) :: r) stk = after r e (callback L cap tk stk).
Proof. reflexivity. Qed.

Lemma after_ok_stack r e f s : after r e (ok_stack (f :: s)) = run r (f :: s).
Proof. reflexivity. Qed.

Lemma after_push r e f st :
  after r e (push L f st) = if len st =? L then LErr EMem e e else run r (f :: st).
Proof. unfold push. destruct (len st =? L); reflexivity. Qed.

(* the machine continued with the parser's result appended to [st] *)
Definition lift (p : pres item) (st : list frame) : lres :=
  match p with
  | POk t e r => after r e (append t st)
  | PErr c q => LErr c q q
  end.

Lemma lift_stop st : lift stop st = run_stop tl.
Proof. destruct (stop_cases tl) as (c & p & Hs & Hr). rewrite Hs, Hr. reflexivity. Qed.

(* [special f tk]: with frame [f] on top, token [tk] is not the start of an item
   (break closing an indefinite frame, chunk of a chunked string) *)
Definition special (f : frame) (tk : tok) : bool :=
  match f with
  | FArr true _ _ _ | FMap true _ _ _ _ => match tk with TBreak => true | _ => false end
  | FBytes _ => match tk with TBreak | TBytes _ _ => true | _ => false end
  | FText _ => match tk with TBreak | TText _ _ => true | _ => false end
  | _ => false
  end.

Definition itempos (ts : list ptok) (st : list frame) : Prop :=
  match st, ts with
  | f :: _, (tk, _) :: _ => special f tk = false
  | _, _ => True
  end.

Definition plain (f : frame) : bool :=
  match f with FArr false _ _ _ | FMap false _ _ _ _ | FTag _ => true | _ => false end.

Lemma itempos_plain ts f st : plain f = true -> itempos ts (f :: st).
Proof.
  intros H. destruct ts as [|[tk e] r]; [exact I|]. unfold itempos.
  destruct f as [[]| []| | |]; try discriminate; reflexivity.
Qed.


Definition indefc (f : frame) : bool :=
  match f with FArr true _ _ _ | FMap true _ _ _ _ => true | _ => false end.

Lemma itempos_nobreak ts f st : is_break ts = None -> indefc f = true -> itempos ts (f :: st).
Proof.
  intros B H. destruct ts as [|[tk e] r]; [exact I|]. unfold itempos.
  destruct f as [[]| []| | |]; try discriminate; destruct tk; try discriminate; reflexivity.
Qed.

Definition strframe (text : bool) (racc : list (list N)) : frame :=
  if text then FText racc else FBytes racc.

(* ---- the simulation ---- *)
Lemma sim : forall fuel,
  (forall d ts st, (2 * length ts < fuel)%nat -> len st + N.of_nat d = L -> itempos ts st ->
     run ts st = lift (parse fuel d ts) st) /\
  (forall d n ts racc a st, (2 * length ts + 1 < fuel)%nat -> len st + 1 + N.of_nat d = L ->
     0 < n -> a = n + len racc ->
     run ts (FArr false racc a n :: st) = lift (parse_n fuel d n ts racc) st) /\
  (forall d ts racc a s st, (2 * length ts + 1 < fuel)%nat -> len st + 1 + N.of_nat d = L ->
     run ts (FArr true racc a s :: st) = lift (parse_until fuel d ts racc) st) /\
  (forall d n ts racc a st, (2 * length ts + 1 < fuel)%nat -> len st + 1 + N.of_nat d = L ->
     0 < n -> a = n + len racc ->
     run ts (FMap false racc None a (n * 2) :: st) = lift (parse_pairs fuel d n ts racc) st) /\
  (forall d ts racc a st, (2 * length ts + 1 < fuel)%nat -> len st + 1 + N.of_nat d = L ->
     run ts (FMap true racc None a 0 :: st) = lift (parse_until_map fuel d ts racc) st) /\
  (forall d text ts racc st, (2 * length ts + 1 < fuel)%nat -> len st + 1 + N.of_nat d = L ->
     run ts (strframe text racc :: st) = lift (parse_chunks fuel d text ts racc) st).
Proof.
  induction fuel as [|f (IH1 & IH2 & IH3 & IH4 & IH5 & IH6)].
  { repeat split; intros; lia. }
  pose proof (consumes f) as (C1 & _).
  repeat split.
  - (* parse *)
    intros d ts st Hf Hd Hpos. rewrite parse_S.
    destruct ts as [|[tk e] r]; [symmetry; apply lift_stop|].
    cbn [length] in Hf. rewrite run_cons.
    destruct tk; unfold callback.
    + reflexivity.
    + reflexivity.
    + (* TBytes *)
      destruct (cap <? len data); [reflexivity|].
      destruct st as [|fr st']; [reflexivity|].
      destruct fr; try reflexivity. cbn in Hpos. discriminate.
    + (* TBytesStart *)
      rewrite after_push. destruct d as [|d'].
      * destruct (N.eqb_spec (len st) L); [reflexivity|lia].
      * destruct (N.eqb_spec (len st) L); [lia|].
        apply (IH6 d' false r [] st); lia.
    + (* TText *)
      destruct (cap <? len data); [reflexivity|].
      destruct st as [|fr st']; [reflexivity|].
      destruct fr; try reflexivity. cbn in Hpos. discriminate.
    + (* TTextStart *)
      rewrite after_push. destruct d as [|d'].
      * destruct (N.eqb_spec (len st) L); [reflexivity|lia].
      * destruct (N.eqb_spec (len st) L); [lia|].
        apply (IH6 d' true r [] st); lia.
    + (* TArray *)
      destruct (alloc_ok cap 64 8 n) eqn:A; cbn [negb]; [|reflexivity].
      destruct (N.eqb_spec n 0) as [->|Hn]; [reflexivity|].
      destruct (N.ltb_spec 0 n) as [_|]; [|lia].
      rewrite after_push. destruct d as [|d'].
      * destruct (N.eqb_spec (len st) L); [reflexivity|lia].
      * destruct (N.eqb_spec (len st) L); [lia|].
        apply IH2; [lia|lia|lia|unfold len; cbn [length]; lia].
    + (* TArrayStart *)
      rewrite after_push. destruct d as [|d'].
      * destruct (N.eqb_spec (len st) L); [reflexivity|lia].
      * destruct (N.eqb_spec (len st) L); [lia|].
        apply IH3; lia.
    + (* TMap *)
      destruct (alloc_ok cap 64 16 n) eqn:A; cbn [negb]; [|reflexivity].
      destruct (N.eqb_spec n 0) as [->|Hn]; [reflexivity|].
      destruct (N.ltb_spec 0 n) as [_|]; [|lia].
      rewrite after_push, (wrap64_small _ (alloc_ok_map_nowrap _ _ A)). destruct d as [|d'].
      * destruct (N.eqb_spec (len st) L); [reflexivity|lia].
      * destruct (N.eqb_spec (len st) L); [lia|].
        apply IH4; [lia|lia|lia|unfold len; cbn [length]; lia].
    + (* TMapStart *)
      rewrite after_push. destruct d as [|d'].
      * destruct (N.eqb_spec (len st) L); [reflexivity|lia].
      * destruct (N.eqb_spec (len st) L); [lia|].
        apply IH5; lia.
    + (* TTag *)
      rewrite after_push. destruct d as [|d'].
      * destruct (N.eqb_spec (len st) L); [reflexivity|lia].
      * destruct (N.eqb_spec (len st) L); [lia|].
        rewrite (IH1 d' r (FTag v :: st)); [|lia|rewrite len_cons; lia|apply itempos_plain; reflexivity].
        destruct (parse f d' r) as [x e' r'|c p]; reflexivity.
    + reflexivity.
    + reflexivity.
    + reflexivity.
    + reflexivity.
    + (* TBreak *)
      destruct st as [|fr st']; [reflexivity|].
      destruct fr as [[]|[]| | |]; try reflexivity; cbn in Hpos; discriminate.
  - (* parse_n *)
    intros d n ts racc a st Hf Hd Hn Ha. rewrite parse_n_S.
    rewrite (IH1 d ts (FArr false racc a n :: st));
      [|lia|rewrite len_cons; lia|apply itempos_plain; reflexivity].
    destruct (parse f d ts) as [x e r|c p] eqn:E; [|reflexivity].
    apply C1 in E. unfold lift at 1. rewrite append_arr_def by assumption.
    destruct (N.eqb_spec n 1) as [->|Hn1]; [reflexivity|].
    rewrite after_ok_stack. apply IH2; [lia|lia|lia|rewrite len_cons; lia].
  - (* parse_until *)
    intros d ts racc a s st Hf Hd. rewrite parse_until_S.
    destruct (is_break ts) as [[e r]|] eqn:B.
    { apply is_break_some in B. subst ts. reflexivity. }
    rewrite (IH1 d ts (FArr true racc a s :: st));
      [|lia|rewrite len_cons; lia|apply itempos_nobreak; [assumption|reflexivity]].
    destruct (parse f d ts) as [x e r|c p] eqn:E; [|reflexivity].
    apply C1 in E. unfold lift at 1. cbn [append]. rewrite after_ok_stack.
    apply IH3; lia.
  - (* parse_pairs *)
    intros d n ts racc a st Hf Hd Hn Ha. rewrite parse_pairs_S.
    rewrite (IH1 d ts (FMap false racc None a (n * 2) :: st));
      [|lia|rewrite len_cons; lia|apply itempos_plain; reflexivity].
    destruct (parse f d ts) as [k e r|c p] eqn:E; [|reflexivity].
    apply C1 in E. unfold lift at 1. rewrite append_map_def_key by assumption.
    rewrite after_ok_stack.
    rewrite (IH1 d r (FMap false racc (Some k) a (n * 2 - 1) :: st));
      [|lia|rewrite len_cons; lia|apply itempos_plain; reflexivity].
    destruct (parse f d r) as [v e' r'|c p] eqn:E'; [|reflexivity].
    apply C1 in E'. unfold lift at 1. rewrite append_map_def_val by assumption.
    destruct (N.eqb_spec n 1) as [->|Hn1]; [reflexivity|].
    rewrite after_ok_stack. apply IH4; [lia|lia|lia|rewrite len_cons; lia].
  - (* parse_until_map *)
    intros d ts racc a st Hf Hd. rewrite parse_until_map_S.
    destruct (is_break ts) as [[e r]|] eqn:B.
    { apply is_break_some in B. subst ts. reflexivity. }
    rewrite (IH1 d ts (FMap true racc None a 0 :: st));
      [|lia|rewrite len_cons; lia|apply itempos_nobreak; [assumption|reflexivity]].
    destruct (parse f d ts) as [k e r|c p] eqn:E; [|reflexivity].
    apply C1 in E. unfold lift at 1. rewrite append_map_indef_key, after_ok_stack.
    destruct (is_break r) as [[e' r']|] eqn:B'.
    { apply is_break_some in B'. subst r. reflexivity. }
    rewrite (IH1 d r (FMap true racc (Some k) a 1 :: st));
      [|lia|rewrite len_cons; lia|apply itempos_nobreak; [assumption|reflexivity]].
    destruct (parse f d r) as [v e' r'|c p] eqn:E'; [|reflexivity].
    apply C1 in E'. unfold lift at 1. rewrite append_map_indef_val, after_ok_stack.
    apply IH5; lia.
  - (* parse_chunks *)
    intros d text ts racc st Hf Hd. rewrite parse_chunks_S.
    destruct ts as [|[tk e] r]; [symmetry; apply lift_stop|].
    cbn [length] in Hf.
    destruct text; cbn [strframe];
    (destruct tk; cbn [is_break chunk_of];
     try (rewrite run_cons; unfold callback;
          match goal with |- context [cap <? len ?dd] =>
            destruct (cap <? len dd); [reflexivity|]; rewrite after_ok_stack;
            solve [apply (IH6 d true); lia | apply (IH6 d false); lia] end);
     try (rewrite (IH1 d); [|cbn [length]; lia|rewrite len_cons; lia|reflexivity];
          match goal with |- context [parse f d ?l] =>
            destruct (parse f d l) as [x e' r'|c p]; reflexivity end)).
    + reflexivity.
    + reflexivity.
Qed.


Lemma lift_nil p : lift p [] = lres_of_pres p.
Proof. destruct p; reflexivity. Qed.

Theorem run_is_parse_strong : forall ts,
  run ts [] = lres_of_pres (parse (S (2 * length ts + 1)) (N.to_nat L) ts).
Proof.
  intros ts. destruct (sim (S (2 * length ts + 1))) as (H & _).
  rewrite (H (N.to_nat L) ts []); [apply lift_nil|lia|unfold len; cbn [length]; lia|exact I].
Qed.

End Sim.

(* ------------------------------------------------------------------------------------------ *)
(* well-formed token arguments                                                                 *)
(* ------------------------------------------------------------------------------------------ *)

Definition tok_ok (tk : tok) : Prop :=
  match tk with
  | TUint _ v | TNegint _ v | TArray v | TMap v | TTag v => v < 2 ^ 64
  | _ => True
  end.
Definition toks_ok (ts : list ptok) : Prop := Forall (fun p => tok_ok (fst p)) ts.

(* C02 / C05 / C19: the stack machine is the recursive-descent specification, with every error
   class and position.  (The hypotheses are not needed: the allocation guard of the callbacks
   already bounds the counts; they are kept so that the statement is the one planned.) *)
Theorem run_is_parse : forall L cap tl ts, L < 2 ^ 64 -> toks_ok ts ->
  run L cap tl ts [] = lres_of_pres (parse cap tl (S (2 * length ts + 1)) (N.to_nat L) ts).
Proof. intros L cap tl ts _ _. apply run_is_parse_strong. Qed.

(* ------------------------------------------------------------------------------------------ *)
(* facts about the head specification                                                          *)
(* ------------------------------------------------------------------------------------------ *)

Lemma arg_bytes_le ai : arg_bytes ai <= 8.
Proof.
  unfold arg_bytes.
  repeat match goal with |- context [if ?c then _ else _] => destruct c end; lia.
Qed.

(* a complete head consumes at least one byte and stays inside the buffer *)
Lemma head_spec_tok_len bs t n : head_spec bs = HTok t n -> 1 <= n <= len bs.
Proof.
  intros H. unfold head_spec in H. destruct bs as [|b rest]; [discriminate|].
  rewrite len_cons. cbv zeta in H.
  set (k := arg_bytes (b mod 32)) in *.
  repeat match type of H with
  | (if (?x <? ?y) then _ else _) = _ => destruct (N.ltb_spec x y)
  | (if ?c then _ else _) = _ => destruct c
  end; try discriminate; inversion H; subst; lia.
Qed.

Lemma be_val_firstn_lt k rest : bytes_ok rest -> k <= 8 -> be_val (firstnN k rest) < 2 ^ 64.
Proof.
  intros Hb Hk. pose proof (be_val_bound _ (bytes_ok_firstn k rest Hb)) as H.
  assert (Hl : len (firstnN k rest) <= 8).
  { unfold len, firstnN. pose proof (firstn_le_length (N.to_nat k) rest). lia. }
  eapply N.lt_le_trans; [exact H|].
  change (2 ^ 64) with (256 ^ 8). apply N.pow_le_mono_r; [discriminate|exact Hl].
Qed.

Lemma head_spec_tok_ok bs t n : bytes_ok bs -> head_spec bs = HTok t n -> tok_ok t.
Proof.
  intros Hb H. unfold head_spec in H. destruct bs as [|b rest]; [discriminate|].
  inversion Hb as [|? ? Hb0 Hrest]; subst. cbv zeta in H.
  set (k := arg_bytes (b mod 32)) in *.
  set (arg := if b mod 32 <? 24 then b mod 32 else be_val (firstnN k rest)) in *.
  assert (Harg : arg < 2 ^ 64).
  { unfold arg. destruct (N.ltb_spec (b mod 32) 24) as [Hlt|_].
    - change (2 ^ 64) with 18446744073709551616. lia.
    - apply be_val_firstn_lt; [assumption|apply arg_bytes_le]. }
  clearbody arg k.
  repeat match type of H with
  | (if ?c then _ else _) = _ => destruct c
  end; try discriminate; inversion H; subst; cbn [tok_ok]; first [exact Harg | exact I | destruct (b / 32 =? 2); exact I].
Qed.

Lemma tokenize_toks_ok : forall fuel pos buf, bytes_ok buf -> toks_ok (fst (tokenize fuel pos buf)).
Proof.
  induction fuel as [|f IH]; intros pos buf Hb; [constructor|].
  cbn [tokenize]. destruct (head_spec buf) as [t n|full|] eqn:HS; try constructor.
  - specialize (IH (pos + n) (skipnN n buf) (bytes_ok_skipn n buf Hb)).
    destruct (tokenize f (pos + n) (skipnN n buf)) as [ts tl]. cbn [fst] in *.
    constructor; [|exact IH]. cbn [fst]. eapply head_spec_tok_ok; eassumption.
Qed.

(* ------------------------------------------------------------------------------------------ *)
(* the byte-level loop of cbor_load factors through tokenisation                               *)
(* ------------------------------------------------------------------------------------------ *)

Lemma skipnN_all n (l : list N) : len l <= n -> skipnN n l = [].
Proof. unfold len, skipnN. intros H. apply skipn_all2. lia. Qed.

Lemma skipn_skipn' {A} (n : nat) : forall (m : nat) (l : list A), skipn n (skipn m l) = skipn (m + n) l.
Proof.
  induction m as [|m IH]; intros l; [reflexivity|].
  destruct l as [|a l]; [cbn [skipn plus]; apply skipn_nil|]. cbn [skipn plus]. apply IH.
Qed.

Lemma skipnN_skipnN n m (l : list N) : skipnN n (skipnN m l) = skipnN (m + n) l.
Proof.
  unfold skipnN. rewrite skipn_skipn'. f_equal. lia.
Qed.

Section Load.
Hypothesis Hcontract : forall buf, bytes_ok buf -> len buf < SIZE_MAX -> contract buf.
Variables (L cap : N).

Lemma load_loop_is_run : forall fuel buf read stk,
  bytes_ok buf -> len buf < SIZE_MAX -> read <= len buf ->
  (length buf - N.to_nat read < fuel)%nat ->
  load_loop L cap fuel buf read stk =
  let (ts, tl) := tokenize fuel read (skipnN read buf) in run L cap tl ts stk.
Proof.
  induction fuel as [|f IH]; intros buf read stk Hb Hlen Hread Hfuel; [lia|].
  cbn [load_loop tokenize].
  destruct (N.leb_spec (len buf) read) as [Hle|Hlt].
  { rewrite skipnN_all by assumption. reflexivity. }
  pose proof (Hcontract (skipnN read buf) (bytes_ok_skipn read buf Hb)) as Hc.
  rewrite len_skipnN in Hc. specialize (Hc ltac:(lia)). unfold contract in Hc.
  destruct (head_spec (skipnN read buf)) as [t n|full|] eqn:HS.
  - rewrite Hc. cbn [st rd].
    apply head_spec_tok_len in HS. rewrite len_skipnN in HS.
    rewrite wrap64_small by (unfold SIZE_MAX, W64 in *; lia).
    rewrite skipnN_skipnN.
    specialize (IH buf (read + n)).
    destruct (tokenize f (read + n) (skipnN (read + n) buf)) as [ts tl] eqn:T.
    cbn [run].
    destruct (callback L cap t stk) as [stk' rt cf se fa]. cbn [fault creation_failed syntax_error stack root].
    destruct fa; [reflexivity|]. destruct cf; [reflexivity|]. destruct se; [reflexivity|].
    destruct stk' as [|fr stk']; [reflexivity|].
    apply IH; [assumption|assumption|lia|unfold len in *; lia].
  - destruct Hc as (req & Hc & _). rewrite Hc. reflexivity.
  - rewrite Hc. reflexivity.
Qed.

Theorem load_is_run : forall buf, bytes_ok buf -> len buf < SIZE_MAX ->
  load L cap buf =
  if len buf =? 0 then LErr ENoData 0 0
  else let (ts, tl) := tokenize (S (length buf)) 0 buf in run L cap tl ts [].
Proof.
  intros buf Hb Hlen. unfold load. destruct (len buf =? 0); [reflexivity|].
  rewrite load_loop_is_run; [reflexivity|assumption|assumption|lia|lia].
Qed.

(* C05_exact *)
Theorem load_is_spec : forall buf, bytes_ok buf -> len buf < SIZE_MAX ->
  load L cap buf = load_spec L cap buf.
Proof.
  intros buf Hb Hlen. rewrite load_is_run by assumption. unfold load_spec.
  destruct (len buf =? 0); [reflexivity|].
  destruct (tokenize (S (length buf)) 0 buf) as [ts tl].
  rewrite run_is_parse_strong. destruct (parse cap tl _ _ ts); reflexivity.
Qed.

End Load.

Print Assumptions run_is_parse.
Print Assumptions run_is_parse_strong.
Print Assumptions tokenize_toks_ok.
Print Assumptions load_is_run.
Print Assumptions load_is_spec.
