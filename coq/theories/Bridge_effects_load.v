(* generated plans of the decoder glue (translator/effects.py, this run's clang AST of
   internal/builder_callbacks.c and cbor.c) = the hand-written plans of HPlansLoad.v.
   Automation only (BridgeEffTac): unfold; normalise; case split with lia pruning; constructor-wise
   comparison with lia at the integer leaves.  HPlansLoad_proofs.v ties the hand-written plans to
   the models PBuild.v / HOps.v; the [code_*] corollaries at the end compose the two. *)
From Coq Require Import ZArith NArith List Bool String Lia ZifyBool ZifyN ZifyNat.
Import ListNotations.
From CB Require Import Word Word_proofs PStream PEnc PMem PItem PBuild GenLeafTypes BridgeTac BridgeEffTac HHeap HItems HOps HCont_proofs HPlans HPlansLoad HPlans_proofs HPlansLoad_proofs.
From CBGen Require Import Gen_effects_load.
Ltac Zify.zify_post_hook ::= Z.div_mod_to_equations.
Local Open Scope Z_scope.

Ltac load_unfold :=
  cbv beta zeta delta
    [G_cbor_builder_append G_cbor_is_indefinite Gcbor_builder_indef_break_callback
     Gcbor_builder_byte_string_callback Gcbor_builder_string_callback
     Gcbor_builder_array_start_callback Gcbor_builder_map_start_callback
     Gcbor_builder_indef_array_start_callback Gcbor_builder_indef_map_start_callback
     Gcbor_builder_byte_string_start_callback Gcbor_builder_string_start_callback Gcbor_builder_tag_callback
     Gcbor_builder_uint8_callback Gcbor_builder_uint16_callback Gcbor_builder_uint32_callback Gcbor_builder_uint64_callback
     Gcbor_builder_negint8_callback Gcbor_builder_negint16_callback Gcbor_builder_negint32_callback Gcbor_builder_negint64_callback
     Gcbor_builder_float2_callback Gcbor_builder_float4_callback Gcbor_builder_float8_callback
     Gcbor_builder_null_callback Gcbor_builder_undefined_callback Gcbor_builder_boolean_callback
     Gcbor_load Gcbor_load_loop0 Gcbor_load_loop1
     fbplan_cbor_builder_append fbplan_cbor_is_indefinite fbplan_cbor_builder_indef_break_callback
     fbplan_cbor_builder_byte_string_callback fbplan_cbor_builder_string_callback
     fbplan_cbor_builder_array_start_callback fbplan_cbor_builder_map_start_callback
     fbplan_cbor_builder_indef_array_start_callback fbplan_cbor_builder_indef_map_start_callback
     fbplan_cbor_builder_byte_string_start_callback fbplan_cbor_builder_string_start_callback
     fbplan_cbor_builder_tag_callback fb_int fb_float
     fbplan_cbor_builder_uint8_callback fbplan_cbor_builder_uint16_callback fbplan_cbor_builder_uint32_callback
     fbplan_cbor_builder_uint64_callback fbplan_cbor_builder_negint8_callback fbplan_cbor_builder_negint16_callback
     fbplan_cbor_builder_negint32_callback fbplan_cbor_builder_negint64_callback
     fbplan_cbor_builder_float2_callback fbplan_cbor_builder_float4_callback fbplan_cbor_builder_float8_callback
     fbplan_cbor_builder_null_callback fbplan_cbor_builder_undefined_callback fbplan_cbor_builder_boolean_callback
     fbplan_cbor_load fbplan_cbor_load_loop0 fbplan_cbor_load_loop1
     builder_append_plan is_indefinite_plan break_plan string_cb_plan start_plan array_start_plan map_start_plan
     indef_start_plan tag_cb_plan leaf_cb_plan int_cb_plan float_cb_plan
     load_entry_plan load_step_plan load_unwind_plan load_fields ctx_fields6
     stack_of top_item call_decref call_pop call_append ctxL stackL is_even
     zN dst_z dst_b sub64 TY_ARRAY TY_MAP TY_TAG TY_BYTESTRING TY_STRING
     ERR_NONE ERR_NOTENOUGHDATA ERR_NODATA ERR_MALFORMATED ERR_MEMERROR ERR_SYNTAXERROR
     ST_FINISHED ST_NEDATA ST_ERROR].

(* a reduction modulo 2^w of a value that is provably in range is dropped (fewer quotient variables
   for lia in the case split) *)
Ltac small_mods :=
  repeat match goal with
  | |- context [?x mod ?m] =>
      lazymatch type of x with Z => rewrite (Z.mod_small x m) by lia end
  end.
Ltac load_bridge :=
  load_unfold; rewrite ?N2Z.id; rewrite <- ?of_N_lxor; change (Z.of_N 1) with 1; cbn [app];
  norm; pows; small_mods; psplits; peq.

(* ---- the enumerations the plans mention ---- *)
Lemma bridge_load_enums :
  ECBOR_TYPE_BYTESTRING = TY_BYTESTRING /\ ECBOR_TYPE_STRING = TY_STRING /\
  ECBOR_ERR_NONE = ERR_NONE /\ ECBOR_ERR_NOTENOUGHDATA = ERR_NOTENOUGHDATA /\ ECBOR_ERR_NODATA = ERR_NODATA /\
  ECBOR_ERR_MALFORMATED = ERR_MALFORMATED /\ ECBOR_ERR_MEMERROR = ERR_MEMERROR /\
  ECBOR_ERR_SYNTAXERROR = ERR_SYNTAXERROR /\
  ECBOR_DECODER_FINISHED = ST_FINISHED /\ ECBOR_DECODER_NEDATA = ST_NEDATA /\ ECBOR_DECODER_ERROR = ST_ERROR.
Proof. repeat split; vm_compute; reflexivity. Qed.

(* ---- builder_callbacks.c ---- *)
Lemma bridge_plan_builder_append cf se size sub ty definite c :
  (size < 2^64)%N -> (sub < 2^64)%N -> 0 <= ty < 2^32 ->
  G_cbor_builder_append cf (Z.of_N size) (Z.of_N sub) se (dst_z definite) ty c =
  builder_append_plan cf se size sub ty definite c.
Proof. intros Hs Hb Ht. destruct definite; load_bridge. Qed.

Lemma bridge_plan_is_indefinite ty definite : 0 <= ty < 2^32 ->
  G_cbor_is_indefinite (dst_z definite) ty = is_indefinite_plan ty definite.
Proof. intros Ht. destruct definite; load_bridge. Qed.

Lemma bridge_plan_break_callback se size sub dst ty c :
  (size < 2^64)%N -> (sub < 2^64)%N -> 0 <= ty < 2^32 ->
  Gcbor_builder_indef_break_callback (Z.of_N size) (Z.of_N sub) se dst ty c = break_plan se size sub dst ty c.
Proof. intros Hs Hb Ht. load_bridge. Qed.

Lemma bridge_plan_byte_string_callback cf size sub dst ty len ok0 ok1 c :
  (size < 2^64)%N -> (sub < 2^64)%N -> (len < 2^64)%N -> 0 <= ty < 2^32 -> 0 <= dst < 2^32 ->
  Gcbor_builder_byte_string_callback cf (Z.of_N size) (Z.of_N sub) dst ty (Z.of_N len) ok0 ok1 c =
  string_cb_plan false cf size sub dst ty len ok0 ok1 c.
Proof. intros Hs Hb Hl Ht Hd. destruct ok0, ok1; load_bridge. Qed.

Lemma bridge_plan_string_callback cf size sub dst ty len ok0 ok1 c :
  (size < 2^64)%N -> (sub < 2^64)%N -> (len < 2^64)%N -> 0 <= ty < 2^32 -> 0 <= dst < 2^32 ->
  Gcbor_builder_string_callback cf (Z.of_N size) (Z.of_N sub) dst ty (Z.of_N len) ok0 ok1 c =
  string_cb_plan true cf size sub dst ty len ok0 ok1 c.
Proof. intros Hs Hb Hl Ht Hd. destruct ok0, ok1; load_bridge. Qed.

Lemma bridge_plan_array_start_callback cf size n ok0 ok1 : (size < 2^64)%N -> (n < 2^64)%N ->
  Gcbor_builder_array_start_callback cf (Z.of_N size) (Z.of_N n) ok0 ok1 = array_start_plan cf size n ok0 ok1.
Proof. intros Hs Hn. destruct ok0, ok1; load_bridge. Qed.

Lemma bridge_plan_map_start_callback cf size n ok0 ok1 : (size < 2^64)%N -> (n < 2^64)%N ->
  Gcbor_builder_map_start_callback cf (Z.of_N size) (Z.of_N n) ok0 ok1 = map_start_plan cf size n ok0 ok1.
Proof. intros Hs Hn. destruct ok0, ok1; load_bridge. Qed.

Lemma bridge_plan_indef_start_callbacks cf size ok0 ok1 : (size < 2^64)%N ->
  Gcbor_builder_indef_array_start_callback cf (Z.of_N size) ok0 ok1 = indef_start_plan "cbor_new_indefinite_array" cf size ok0 ok1 /\
  Gcbor_builder_indef_map_start_callback cf (Z.of_N size) ok0 ok1 = indef_start_plan "cbor_new_indefinite_map" cf size ok0 ok1 /\
  Gcbor_builder_byte_string_start_callback cf (Z.of_N size) ok0 ok1 = indef_start_plan "cbor_new_indefinite_bytestring" cf size ok0 ok1 /\
  Gcbor_builder_string_start_callback cf (Z.of_N size) ok0 ok1 = indef_start_plan "cbor_new_indefinite_string" cf size ok0 ok1.
Proof. intros Hs. destruct ok0, ok1; repeat split; load_bridge. Qed.

Lemma bridge_plan_tag_callback cf size v ok0 ok1 : (size < 2^64)%N -> (v < 2^64)%N ->
  Gcbor_builder_tag_callback cf (Z.of_N size) (Z.of_N v) ok0 ok1 = tag_cb_plan cf size v ok0 ok1.
Proof. intros Hs Hv. destruct ok0, ok1; load_bridge. Qed.

Lemma bridge_plan_uint_callbacks cf size v ok0 : (size < 2^64)%N -> (v < 2^64)%N ->
  Gcbor_builder_uint8_callback cf (Z.of_N size) (Z.of_N v) ok0 = int_cb_plan size "cbor_new_int8" "cbor_mark_uint" "cbor_set_uint8" v ok0 /\
  Gcbor_builder_uint16_callback cf (Z.of_N size) (Z.of_N v) ok0 = int_cb_plan size "cbor_new_int16" "cbor_mark_uint" "cbor_set_uint16" v ok0 /\
  Gcbor_builder_uint32_callback cf (Z.of_N size) (Z.of_N v) ok0 = int_cb_plan size "cbor_new_int32" "cbor_mark_uint" "cbor_set_uint32" v ok0 /\
  Gcbor_builder_uint64_callback cf (Z.of_N size) (Z.of_N v) ok0 = int_cb_plan size "cbor_new_int64" "cbor_mark_uint" "cbor_set_uint64" v ok0.
Proof. intros Hs Hv. destruct ok0; repeat split; load_bridge. Qed.

Lemma bridge_plan_negint_callbacks cf size v ok0 : (size < 2^64)%N -> (v < 2^64)%N ->
  Gcbor_builder_negint8_callback cf (Z.of_N size) (Z.of_N v) ok0 = int_cb_plan size "cbor_new_int8" "cbor_mark_negint" "cbor_set_uint8" v ok0 /\
  Gcbor_builder_negint16_callback cf (Z.of_N size) (Z.of_N v) ok0 = int_cb_plan size "cbor_new_int16" "cbor_mark_negint" "cbor_set_uint16" v ok0 /\
  Gcbor_builder_negint32_callback cf (Z.of_N size) (Z.of_N v) ok0 = int_cb_plan size "cbor_new_int32" "cbor_mark_negint" "cbor_set_uint32" v ok0 /\
  Gcbor_builder_negint64_callback cf (Z.of_N size) (Z.of_N v) ok0 = int_cb_plan size "cbor_new_int64" "cbor_mark_negint" "cbor_set_uint64" v ok0.
Proof. intros Hs Hv. destruct ok0; repeat split; load_bridge. Qed.

Lemma bridge_plan_float_callbacks cf size ok0 : (size < 2^64)%N ->
  Gcbor_builder_float2_callback cf (Z.of_N size) ok0 = float_cb_plan size "cbor_new_float2" "cbor_set_float2" ok0 /\
  Gcbor_builder_float4_callback cf (Z.of_N size) ok0 = float_cb_plan size "cbor_new_float4" "cbor_set_float4" ok0 /\
  Gcbor_builder_float8_callback cf (Z.of_N size) ok0 = float_cb_plan size "cbor_new_float8" "cbor_set_float8" ok0.
Proof. intros Hs. destruct ok0; repeat split; load_bridge. Qed.

Lemma bridge_plan_simple_callbacks cf size v ok0 : (size < 2^64)%N ->
  Gcbor_builder_null_callback cf (Z.of_N size) ok0 = leaf_cb_plan size (ReqCall "cbor_new_null" []) [] ok0 /\
  Gcbor_builder_undefined_callback cf (Z.of_N size) ok0 = leaf_cb_plan size (ReqCall "cbor_new_undef" []) [] ok0 /\
  Gcbor_builder_boolean_callback cf (Z.of_N size) v ok0 = leaf_cb_plan size (ReqCall "cbor_build_bool" [AZ v]) [] ok0.
Proof. intros Hs. destruct ok0; repeat split; load_bridge. Qed.

(* ---- cbor.c: cbor_load from its entry, from the head of the decoding loop, from the head of the
   unwinding loop.  [st] and [dr] are the status and the byte count cbor_stream_decode returned;
   the g_ arguments are the flags and the stack depth after that call ---- *)
Lemma bridge_plan_load_entry code cf dr position read size st se cf' size' se' n :
  (n < 2^64)%N ->
  Gcbor_load code cf dr (Z.of_N position) (Z.of_N read) (Z.of_N size) st se cf' size' se' (Z.of_N n) =
  load_entry_plan code cf position read size se n.
Proof. intros Hn. load_bridge. Qed.

Lemma bridge_plan_load_step code cf dr position read size st se cf' size' se' n :
  (n < 2^64)%N -> (read < 2^64)%N -> (dr < 2^64)%N -> (size' < 2^64)%N -> 0 <= st <= 2 ->
  Gcbor_load_loop0 code cf (Z.of_N dr) (Z.of_N position) (Z.of_N read) (Z.of_N size) st se cf' (Z.of_N size') se' (Z.of_N n) =
  load_step_plan code cf position read size se n st dr cf' se' size'.
Proof. intros Hn Hr Hd Hs Hst. load_bridge. Qed.

Lemma bridge_plan_load_unwind code cf dr position read size st se cf' size' se' n :
  (size < 2^64)%N ->
  Gcbor_load_loop1 code cf dr (Z.of_N position) (Z.of_N read) (Z.of_N size) st se cf' size' se' n =
  load_unwind_plan code cf position read size se.
Proof. intros Hs. load_bridge. Qed.

Local Open Scope string_scope.
Local Open Scope list_scope.
(* ---- composition: the models follow the plans GENERATED from the C source of this run ---- *)
Local Open Scope N_scope.

Lemma frame_ty_range f : (0 <= frame_ty f < 2 ^ 32)%Z.
Proof. destruct f; vm_compute; split; congruence. Qed.

Theorem code_append_followed it f rest :
  frame_wf f -> frame_sub f < 2 ^ 64 -> len (f :: rest) < 2 ^ 64 ->
  let stk := f :: rest in
  let p := G_cbor_builder_append 0 (Z.of_N (len stk)) (Z.of_N (frame_sub f)) 0
             (dst_z (negb (frame_indef f))) (frame_ty f) (insert_ok f) in
  PBuild.append it stk =
    if plan_cascades p then PBuild.append (frame_close f it) rest
    else if (fieldZ "creation_failed" p =? 1)%Z then fail_mem stk
    else if (fieldZ "syntax_error" p =? 1)%Z then fail_syntax stk
    else ok_stack (frame_put f it (fieldN "subitems" p) :: rest).
Proof.
  intros Hwf Hs Hl. cbv zeta.
  rewrite bridge_plan_builder_append by (try assumption; apply frame_ty_range).
  apply append_follows_plan; assumption.
Qed.

Theorem code_break_followed L cap f rest dst :
  frame_wf f -> frame_sub f < 2 ^ 64 -> len (f :: rest) < 2 ^ 64 ->
  let stk := f :: rest in
  let p := Gcbor_builder_indef_break_callback (Z.of_N (len stk)) (Z.of_N (frame_sub f)) 0 dst (frame_ty f)
             (if frame_indef f then 1 else 0)%Z in
  callback L cap TBreak stk = (if plan_cascades p then PBuild.append (frame_break_close f) rest else fail_syntax stk) /\
  (plan_cascades p = true ->
     p_reqs p = [ReqCall "_cbor_is_indefinite" [AP (top_item 0)]; call_pop 0; call_append (top_item 0) 0]) /\
  (plan_cascades p = false -> fieldZ "syntax_error" p = 1%Z).
Proof.
  intros Hwf Hs Hl. cbv zeta.
  rewrite bridge_plan_break_callback by (try assumption; apply frame_ty_range).
  apply (break_follows_plan L cap (f :: rest) dst).
  intros f0 rest0 E. injection E as <- <-. exact Hwf.
Qed.

Theorem code_map_start_followed L cap n stk :
  n < 2 ^ 64 -> len stk < 2 ^ 64 ->
  let p := Gcbor_builder_map_start_callback 0 (Z.of_N (len stk)) (Z.of_N n) (alloc_ok cap 64 16 n) (negb (len stk =? L)) in
  callback L cap (TMap n) stk =
    if plan_cascades p then PBuild.append (IMap false []) stk
    else if (fieldZ "creation_failed" p =? 1)%Z then fail_mem stk
    else ok_stack (FMap false [] None n (push_subitems p) :: stk).
Proof.
  intros Hn Hl. cbv zeta. rewrite bridge_plan_map_start_callback by assumption. apply map_start_follows_plan.
Qed.

Theorem code_array_start_followed L cap n stk :
  n < 2 ^ 64 -> len stk < 2 ^ 64 ->
  let p := Gcbor_builder_array_start_callback 0 (Z.of_N (len stk)) (Z.of_N n) (alloc_ok cap 64 8 n) (negb (len stk =? L)) in
  callback L cap (TArray n) stk =
    if plan_cascades p then PBuild.append (IArray false []) stk
    else if (fieldZ "creation_failed" p =? 1)%Z then fail_mem stk
    else ok_stack (FArr false [] n (push_subitems p) :: stk).
Proof.
  intros Hn Hl. cbv zeta. rewrite bridge_plan_array_start_callback by assumption. apply array_start_follows_plan.
Qed.

(* cbor_load: every error exit of a decoding round reports the code, position and read count of the
   generated plan; the NEDATA / ERROR / flag mapping of that plan is [load_outcome_codes] *)
Theorem code_load_error_exits L cap fuel buf read stk code pos r e :
  len buf < 2 ^ 64 -> read < len buf -> len stk < 2 ^ 64 -> rd r < 2 ^ 64 ->
  stream_decode (skipnN read buf) = SRes r e ->
  st r <> Finished ->
  forall cf' se' sz', sz' < 2 ^ 64 ->
  let p := Gcbor_load_loop0 code 0 (Z.of_N (rd r)) (Z.of_N pos) (Z.of_N read) (Z.of_N (len stk)) (zstatus (st r)) 0
             cf' (Z.of_N sz') se' (Z.of_N (len buf)) in
  p_ret p = RLoop 1 /\
  load_loop L cap (S fuel) buf read stk = LErr (code_lerr (fieldZ "code" p)) (fieldN "position" p) (fieldN "read" p) /\
  code_lerr (fieldZ "code" p) = (if (zstatus (st r) =? ST_NEDATA)%Z then ENotEnough else EMalformed) /\
  fieldN "position" p = read /\ fieldN "read" p = read.
Proof.
  intros H64 Hlt Hl Hr Hsd Hne cf' se' sz' Hz. cbv zeta.
  rewrite bridge_plan_load_step by (try assumption; try lia; destruct (st r); cbn; lia).
  destruct (load_step_follows_plan L cap fuel buf read stk code pos H64) as [_ Hstep].
  specialize (Hstep Hlt r e Hsd).
  destruct (st r) eqn:Est; [congruence| |];
    destruct (Hstep cf' se' sz') as [P1 P2]; (split; [exact P1|]); (split; [exact P2|]);
    unfold load_step_plan; (destruct (N.leb_spec (len buf) read); [lia|]); cbn [zstatus];
    unfold fieldZ, fieldN, zN; cbn; rewrite ?N2Z.id; repeat split.
Qed.

Theorem code_load_finished_round L cap fuel buf read stk code pos r tk :
  len buf < 2 ^ 64 -> read < len buf -> len stk < 2 ^ 64 -> rd r < 2 ^ 64 ->
  stream_decode (skipnN read buf) = SRes r (Some tk) ->
  st r = Finished ->
  let c := callback L cap tk stk in
  fault c = false -> len (stack c) < 2 ^ 64 ->
  let p := Gcbor_load_loop0 code 0 (Z.of_N (rd r)) (Z.of_N pos) (Z.of_N read) (Z.of_N (len stk)) ST_FINISHED 0
             (b2Z (creation_failed c)) (Z.of_N (len (stack c))) (b2Z (syntax_error c)) (Z.of_N (len buf)) in
  match p_ret p with
  | RLoop 1 => load_loop L cap (S fuel) buf read stk =
               LErr (code_lerr (fieldZ "code" p)) (fieldN "position" p) (fieldN "read" p)
  | RLoop 0 => stack c <> [] /\
               load_loop L cap (S fuel) buf read stk = load_loop L cap fuel buf (fieldN "read" p) (stack c)
  | RP _ => stack c = [] /\
            forall t, root c = Some t -> load_loop L cap (S fuel) buf read stk = LOk t (fieldN "read" p)
  | _ => False
  end.
Proof.
  intros H64 Hlt Hl Hr Hsd Est c Hf Hsz. cbv zeta.
  rewrite bridge_plan_load_step by (try assumption; try lia; vm_compute; split; congruence).
  destruct (load_step_follows_plan L cap fuel buf read stk code pos H64) as [_ Hstep].
  specialize (Hstep Hlt r (Some tk) Hsd). rewrite Est in Hstep.
  exact (Hstep tk eq_refl Hf).
Qed.

Section CodeCleanup.
Variable refuse : N -> N -> bool.

Theorem code_unwind_followed code cf dr pos rd st se cf' sz' se' n (rc top : addr) (sub : N) (rest : list srec) :
  len ((rc, top, sub) :: rest) < 2 ^ 64 ->
  let stk := (rc, top, sub) :: rest in
  let p := Gcbor_load_loop1 code cf dr (Z.of_N pos) (Z.of_N rd) (Z.of_N (len stk)) st se cf' sz' se' n in
  p_ret p = RLoop 1 /\
  p_reqs p = [call_decref (PField (PField stackL "top") "item"); ReqCall "_cbor_stack_pop" [AP stackL]] /\
  unwind stk = (decref top ;;; stack_pop (rc, top, sub) ;;; unwind rest).
Proof.
  intros Hl. cbv zeta. rewrite bridge_plan_load_unwind by assumption.
  exact (unwind_follows_plan code cf pos rd se ((rc, top, sub) :: rest)).
Qed.

Theorem code_string_cb_failure_followed (text : bool) (d : list N) (stk : list srec) w sub dst ty c :
  wf w -> len stk < 2 ^ 64 -> sub < 2 ^ 64 -> len d < 2 ^ 64 -> (0 <= ty < 2 ^ 32)%Z -> (0 <= dst < 2 ^ 32)%Z ->
  let ok0 := malloc_ok refuse (nreq w) (len d) in
  let ok1 := malloc_ok refuse (nreq w + 1) SZ_ITEM in
  let p := (if text then Gcbor_builder_string_callback else Gcbor_builder_byte_string_callback)
             0%Z (Z.of_N (len stk)) (Z.of_N sub) dst ty (Z.of_N (len d)) ok0 ok1 c in
  let ress := [if ok0 then Some (next w) else None; if ok1 then Some (next w + 1) else None] in
  ok0 && ok1 = false ->
  fieldZ "creation_failed" p = 1%Z /\
  exists w',
    string_cb refuse text d stk w = Ret (cf_ctx stk) w' /\
    trace w' = rev (glue_trace ress ress (p_reqs p)) ++ trace w /\
    heap_eq w w'.
Proof.
  intros Hwf Hl Hs Hd Ht Hdst. cbv zeta.
  destruct text; [rewrite bridge_plan_string_callback by assumption | rewrite bridge_plan_byte_string_callback by assumption];
    apply string_cb_failure_follows_plan; assumption.
Qed.
End CodeCleanup.
