(* C03, round-trip half: loading the bytes the serializer emits (the RFC 8949 encoding of the
   tree, SpecItem.encode_rfc) consumes all of them and yields the original tree up to NaN
   canonicalisation, and encoding that tree again yields the identical bytes. *)
From CB Require Import Word Word_proofs PStream PEnc SpecHead SpecItem PItem PBuild SpecParse PRun
  PStream_proofs PEnc_proofs PItem_proofs PMem_proofs PBuild_proofs PDrive_proofs PFloat_proofs.
From Coq Require Import Lia ZArith ZifyBool ZifyN ZifyNat.
Local Open Scope N_scope.
Ltac Zify.zify_post_hook ::= Z.div_mod_to_equations.

Local Notation head := SpecItem.head.

Arguments N.pow : simpl never.
Arguments N.mul : simpl never.
Arguments N.add : simpl never.
Arguments N.sub : simpl never.

(* ------------------------------------------------------------------------------------------ *)
(* 0. definitions: canonical form, hypotheses of the property                                  *)
(* ------------------------------------------------------------------------------------------ *)

(* the tree the decoder rebuilds: the original one, NaN payloads canonicalised *)
Fixpoint canon (t : item) : item :=
  match t with
  | IArray i xs => IArray i (map canon xs)
  | IMap i kvs => IMap i (map (fun kv => (canon (fst kv), canon (snd kv))) kvs)
  | ITag v x => ITag v (canon x)
  | IFloat F16 b => IFloat F16 (decode_half (half_bits b))
  | IFloat F32 b => IFloat F32 (canon32 b)
  | IFloat F64 b => IFloat F64 (canon64 b)
  | _ => t
  end.

(* local hypotheses: assigned simple values only, half items hold half-representable values,
   no allocation refused (string payloads within the cap, definite containers pass the guard) *)
Fixpoint rt_loc (cap : N) (t : item) : Prop :=
  match t with
  | IUint _ _ | INegint _ _ => True
  | IBytes d | IText d => len d <= cap
  | IBytesI cs | ITextI cs => Forall (fun d => len d <= cap) cs
  | IArray i xs =>
      (fix all (l : list item) : Prop := match l with [] => True | x :: r => rt_loc cap x /\ all r end) xs
      /\ (i = false -> alloc_ok cap 64 8 (len xs) = true)
  | IMap i kvs =>
      (fix all (l : list (item * item)) : Prop :=
         match l with [] => True | kv :: r => rt_loc cap (fst kv) /\ rt_loc cap (snd kv) /\ all r end) kvs
      /\ (i = false -> alloc_ok cap 64 16 (len kvs) = true)
  | ITag _ x => rt_loc cap x
  | ICtrl v => 20 <= v /\ v <= 23
  | IFloat F16 b => exists h, h < 65536 /\ decode_half h = b
  | IFloat _ _ => True
  end.

Definition rt_ok (L cap : N) (t : item) : Prop := wf_item t /\ depth t <= L /\ rt_loc cap t.

Lemma rt_loc_array cap i xs :
  rt_loc cap (IArray i xs) <->
  Forall (rt_loc cap) xs /\ (i = false -> alloc_ok cap 64 8 (len xs) = true).
Proof.
  set (all := fix all (l : list item) : Prop :=
                match l with [] => True | x :: r => rt_loc cap x /\ all r end).
  change (rt_loc cap (IArray i xs)) with (all xs /\ (i = false -> alloc_ok cap 64 8 (len xs) = true)).
  assert (H : all xs <-> Forall (rt_loc cap) xs).
  { induction xs as [|x r IH].
    - split; [constructor | exact (fun _ => I)].
    - change (all (x :: r)) with (rt_loc cap x /\ all r). rewrite IH.
      split; [intros [A B]; constructor; assumption | intros F; inversion F; split; assumption]. }
  rewrite H. reflexivity.
Qed.

Lemma rt_loc_map cap i kvs :
  rt_loc cap (IMap i kvs) <->
  Forall (fun kv => rt_loc cap (fst kv) /\ rt_loc cap (snd kv)) kvs
  /\ (i = false -> alloc_ok cap 64 16 (len kvs) = true).
Proof.
  set (all := fix all (l : list (item * item)) : Prop :=
                match l with [] => True | kv :: r => rt_loc cap (fst kv) /\ rt_loc cap (snd kv) /\ all r end).
  change (rt_loc cap (IMap i kvs)) with (all kvs /\ (i = false -> alloc_ok cap 64 16 (len kvs) = true)).
  assert (H : all kvs <-> Forall (fun kv => rt_loc cap (fst kv) /\ rt_loc cap (snd kv)) kvs).
  { induction kvs as [|x r IH].
    - split; [constructor | exact (fun _ => I)].
    - change (all (x :: r)) with (rt_loc cap (fst x) /\ rt_loc cap (snd x) /\ all r). rewrite IH.
      split; [intros (A & B & C); constructor; [split|]; assumption
             | intros F; inversion F as [|? ? [A B] C]; repeat split; assumption]. }
  rewrite H. reflexivity.
Qed.

(* nesting depth of containers in list form *)
Definition dmax (xs : list item) : N := fold_right (fun x m => N.max (depth x) m) 0 xs.
Definition dmaxp (kvs : list (item * item)) : N :=
  fold_right (fun kv m => N.max (N.max (depth (fst kv)) (depth (snd kv))) m) 0 kvs.

Lemma depth_array_indef xs : depth (IArray true xs) = 1 + dmax xs.
Proof. reflexivity. Qed.
Lemma depth_array_cons x r : depth (IArray false (x :: r)) = 1 + dmax (x :: r).
Proof. reflexivity. Qed.
Lemma depth_map_indef kvs : depth (IMap true kvs) = 1 + dmaxp kvs.
Proof. reflexivity. Qed.
Lemma depth_map_cons kv r : depth (IMap false (kv :: r)) = 1 + dmaxp (kv :: r).
Proof. reflexivity. Qed.

Lemma dmax_le xs m : dmax xs <= m <-> Forall (fun x => depth x <= m) xs.
Proof.
  induction xs as [|x r IH].
  - split; [constructor | intros _; cbn [dmax fold_right]; lia].
  - change (dmax (x :: r)) with (N.max (depth x) (dmax r)). split.
    + intros H. constructor; [lia | apply IH; lia].
    + intros F. inversion F as [|? ? A B]. apply IH in B. lia.
Qed.

Lemma dmaxp_le kvs m :
  dmaxp kvs <= m <-> Forall (fun kv => depth (fst kv) <= m /\ depth (snd kv) <= m) kvs.
Proof.
  induction kvs as [|x r IH].
  - split; [constructor | intros _; cbn [dmaxp fold_right]; lia].
  - change (dmaxp (x :: r)) with (N.max (N.max (depth (fst x)) (depth (snd x))) (dmaxp r)). split.
    + intros H. constructor; [lia | apply IH; lia].
    + intros F. inversion F as [|? ? A B]. apply IH in B. lia.
Qed.

(* ------------------------------------------------------------------------------------------ *)
(* 1. the heads of an encoding                                                                 *)
(* ------------------------------------------------------------------------------------------ *)

(* a head's event with the number of bytes it occupies *)
Notation utok := (tok * N)%type (only parsing).

Definition ctrl_tok (v : N) : tok :=
  if v =? 20 then TBool false else if v =? 21 then TBool true
  else if v =? 22 then TNull else TUndef.

Definition chunk_tok (mt : N) (d : list N) : utok :=
  (if mt =? 2 then TBytes (len (head mt (len d))) d else TText (len (head mt (len d))) d,
   len (head mt (len d)) + len d).

Fixpoint utoks (t : item) : list utok :=
  match t with
  | IUint w v => [(TUint w v, len (head_w 0 w v))]
  | INegint w v => [(TNegint w v, len (head_w 1 w v))]
  | IBytes d => [chunk_tok 2 d]
  | IBytesI cs => [(TBytesStart, 1)] ++ map (chunk_tok 2) cs ++ [(TBreak, 1)]
  | IText d => [chunk_tok 3 d]
  | ITextI cs => [(TTextStart, 1)] ++ map (chunk_tok 3) cs ++ [(TBreak, 1)]
  | IArray false xs => [(TArray (len xs), len (head 4 (len xs)))] ++ concat (map utoks xs)
  | IArray true xs => [(TArrayStart, 1)] ++ concat (map utoks xs) ++ [(TBreak, 1)]
  | IMap false kvs =>
      [(TMap (len kvs), len (head 5 (len kvs)))]
      ++ concat (map (fun kv => utoks (fst kv) ++ utoks (snd kv)) kvs)
  | IMap true kvs =>
      [(TMapStart, 1)] ++ concat (map (fun kv => utoks (fst kv) ++ utoks (snd kv)) kvs) ++ [(TBreak, 1)]
  | ITag v x => [(TTag v, len (head 6 v))] ++ utoks x
  | ICtrl v => [(ctrl_tok v, 1)]
  | IFloat F16 b => [(TFloat F16 (decode_half (half_bits b)), 3)]
  | IFloat F32 b => [(TFloat F32 (canon32 b), 5)]
  | IFloat F64 b => [(TFloat F64 (canon64 b), 9)]
  end.

(* positions: each head is reported with the offset just past it *)
Fixpoint place (pos : N) (l : list utok) : list ptok :=
  match l with
  | [] => []
  | (tk, n) :: r => (tk, pos + n) :: place (pos + n) r
  end.
Fixpoint total (l : list utok) : N :=
  match l with [] => 0 | (_, n) :: r => n + total r end.

Lemma place_cons pos tk n r : place pos ((tk, n) :: r) = (tk, pos + n) :: place (pos + n) r.
Proof. reflexivity. Qed.
Lemma place_app pos a b : place pos (a ++ b) = place pos a ++ place (pos + total a) b.
Proof.
  revert pos. induction a as [|[tk n] r IH]; intros pos.
  - cbn [app place total]. rewrite N.add_0_r. reflexivity.
  - cbn [app place total]. rewrite IH, N.add_assoc. reflexivity.
Qed.
Lemma total_app a b : total (a ++ b) = total a + total b.
Proof.
  induction a as [|[tk n] r IH]; cbn [app total]; [reflexivity|]. rewrite IH. lia.
Qed.
Lemma place_length pos l : length (place pos l) = length l.
Proof. revert pos. induction l as [|[tk n] r IH]; intros pos; cbn [place length]; [|rewrite IH]; reflexivity. Qed.

(* [l] is the head sequence of [bs]: tokenizing bs followed by anything yields l, placed, and
   goes on with what follows *)
Definition tstream (l : list utok) (bs : list N) : Prop :=
  total l = len bs /\ N.of_nat (length l) <= total l /\
  forall f pos rest,
    tokenize (length l + f) pos (bs ++ rest) =
    (place pos l ++ fst (tokenize f (pos + len bs) rest), snd (tokenize f (pos + len bs) rest)).

Lemma tstream_nil : tstream [] [].
Proof.
  split; [reflexivity|]. split; [cbn; lia|]. intros f pos rest.
  cbn [length Nat.add app place]. change (len []) with 0. rewrite N.add_0_r.
  destruct (tokenize f pos rest); reflexivity.
Qed.

Lemma tstream_one tk n bs :
  (forall rest, head_spec (bs ++ rest) = HTok tk n) -> n = len bs -> tstream [(tk, n)] bs.
Proof.
  intros H Hn. split; [cbn [total]; lia|]. split.
  - pose proof (H []) as H0. apply head_tok_bounds in H0. cbn [length total]. lia.
  - intros f pos rest. cbn [length Nat.add]. cbn [tokenize]. rewrite H.
    rewrite skipnN_app by exact Hn. subst n.
    destruct (tokenize f (pos + len bs) rest) as [ts tl]. reflexivity.
Qed.

Lemma tstream_app l1 b1 l2 b2 : tstream l1 b1 -> tstream l2 b2 -> tstream (l1 ++ l2) (b1 ++ b2).
Proof.
  intros (T1 & G1 & H1) (T2 & G2 & H2). split; [rewrite total_app, len_app; lia|]. split.
  - rewrite app_length, total_app. lia.
  - intros f pos rest. rewrite app_length, <- Nat.add_assoc, <- app_assoc, H1, H2.
    cbn [fst snd]. rewrite place_app, T1, len_app, <- app_assoc, N.add_assoc. reflexivity.
Qed.

Lemma tstream_concat {A} (g : A -> list utok) (e : A -> list N) xs :
  Forall (fun x => tstream (g x) (e x)) xs -> tstream (concat (map g xs)) (concat (map e xs)).
Proof.
  induction 1 as [|x r Hx _ IH]; cbn [map concat]; [apply tstream_nil|apply tstream_app; assumption].
Qed.

Lemma concat_map_single {A B} (g : A -> B) xs : concat (map (fun x => [g x]) xs) = map g xs.
Proof. induction xs as [|x r IH]; cbn [map concat app]; [|rewrite IH]; reflexivity. Qed.

Lemma head_byte e b t : byte_enc e 0 = Some (b, t) -> tstream [(t, 1)] [b].
Proof.
  intros H. apply tstream_one; [|reflexivity]. intros rest.
  destruct (C10_byte e 0 1 b t rest H) as [_ H1]; [lia|exact H1].
Qed.

Lemma tstream_chunk mt d : mt = 2 \/ mt = 3 -> len d < 2 ^ 64 ->
  tstream [chunk_tok mt d] (head mt (len d) ++ d).
Proof.
  intros Hmt Hd. unfold chunk_tok. apply tstream_one; [|rewrite len_app; reflexivity].
  intros rest. rewrite <- app_assoc. apply head_spec_str; assumption.
Qed.

Lemma half_bits_rt b : (exists h, h < 65536 /\ decode_half h = b) ->
  half_bits b < 2 ^ 16 /\ half_bits (decode_half (half_bits b)) = half_bits b.
Proof.
  intros (h & Hh & <-). unfold half_bits at 1 3 4. rewrite C15_half_roundtrip by exact Hh.
  destruct (half_is_nan h) eqn:E.
  - split; [reflexivity|]. vm_compute. reflexivity.
  - split; [exact Hh|]. unfold half_bits. rewrite C15_half_roundtrip, E by exact Hh. reflexivity.
Qed.

Theorem tstream_encode cap : forall t, wf_item t -> rt_loc cap t -> tstream (utoks t) (encode_rfc t).
Proof.
  induction t as [w v|w v|d|cs|d|cs|i xs IH|i kvs IH|v x IH|v|w b] using item_ind'; intros Hwf Hrt.
  - apply tstream_one; [|reflexivity]. intros rest.
    exact (head_spec_int_w 0 w v rest (or_introl eq_refl) Hwf).
  - apply tstream_one; [|reflexivity]. intros rest.
    assert (Hm : int_mt 1) by (left; lia).
    exact (head_spec_int_w 1 w v rest Hm Hwf).
  - apply tstream_chunk; [left; reflexivity|apply Hwf].
  - destruct Hwf as [Hcs _]. cbn [utoks encode_rfc].
    apply tstream_app; [exact (head_byte e_indef_bytestring_start _ _ eq_refl)|].
    apply tstream_app; [|exact (head_byte e_break _ _ eq_refl)].
    rewrite <- (concat_map_single (chunk_tok 2)).
    apply tstream_concat. eapply Forall_impl; [|exact Hcs].
    intros d [_ Hd]. apply tstream_chunk; [left; reflexivity|exact Hd].
  - apply tstream_chunk; [right; reflexivity|apply Hwf].
  - destruct Hwf as [Hcs _]. cbn [utoks encode_rfc].
    apply tstream_app; [exact (head_byte e_indef_string_start _ _ eq_refl)|].
    apply tstream_app; [|exact (head_byte e_break _ _ eq_refl)].
    rewrite <- (concat_map_single (chunk_tok 3)).
    apply tstream_concat. eapply Forall_impl; [|exact Hcs].
    intros d [_ Hd]. apply tstream_chunk; [right; reflexivity|exact Hd].
  - apply wf_array in Hwf. destruct Hwf as [Hxs Hlen].
    apply rt_loc_array in Hrt. destruct Hrt as [Rxs _].
    assert (Hel : tstream (concat (map utoks xs)) (concat (map encode_rfc xs))).
    { apply tstream_concat. rewrite Forall_forall in *. intros x Hin. apply IH; auto. }
    destruct i; cbn [utoks encode_rfc].
    + apply tstream_app; [exact (head_byte e_indef_array_start _ _ eq_refl)|].
      apply tstream_app; [exact Hel|exact (head_byte e_break _ _ eq_refl)].
    + apply tstream_app; [|exact Hel].
      apply tstream_one; [|reflexivity]. intros rest.
      assert (Hm : int_mt 4) by (right; lia).
      exact (head_spec_int 4 (len xs) rest Hm Hlen).
  - apply wf_map in Hwf. destruct Hwf as [Hxs Hlen].
    apply rt_loc_map in Hrt. destruct Hrt as [Rxs _].
    assert (Hel : tstream (concat (map (fun kv => utoks (fst kv) ++ utoks (snd kv)) kvs))
                          (concat (map (fun kv => encode_rfc (fst kv) ++ encode_rfc (snd kv)) kvs))).
    { apply tstream_concat. rewrite Forall_forall in *. intros kv Hin.
      destruct (IH kv Hin) as [IHk IHv]. destruct (Hxs kv Hin). destruct (Rxs kv Hin).
      apply tstream_app; auto. }
    destruct i; cbn [utoks encode_rfc].
    + apply tstream_app; [exact (head_byte e_indef_map_start _ _ eq_refl)|].
      apply tstream_app; [exact Hel|exact (head_byte e_break _ _ eq_refl)].
    + apply tstream_app; [|exact Hel].
      apply tstream_one; [|reflexivity]. intros rest.
      assert (Hm : int_mt 5) by (right; lia).
      exact (head_spec_int 5 (len kvs) rest Hm Hlen).
  - destruct Hwf as [Hv Hx]. cbn [utoks encode_rfc]. apply tstream_app; [|apply IH; assumption].
    apply tstream_one; [|reflexivity]. intros rest.
    assert (Hm : int_mt 6) by (right; lia).
    exact (head_spec_int 6 v rest Hm Hv).
  - cbn [wf_item] in Hwf. cbn [rt_loc] in Hrt. cbn [utoks encode_rfc].
    change (if v <? 24 then [0xE0 + v] else [0xF8; v]) with (ctrl_bytes v).
    apply tstream_one.
    + intros rest. destruct (C10_ctrl v 2 rest Hwf) as [_ H]; [lia|]. rewrite H.
      unfold ctrl_spec, ctrl_tok.
      destruct (N.eqb_spec v 20); [reflexivity|]. destruct (N.eqb_spec v 21); [reflexivity|].
      destruct (N.eqb_spec v 22); [reflexivity|]. destruct (N.eqb_spec v 23); [reflexivity|lia].
    + unfold ctrl_bytes. destruct (N.ltb_spec v 24); [reflexivity|lia].
  - destruct w; cbn [utoks encode_rfc].
    + cbn [rt_loc] in Hrt. apply half_bits_rt in Hrt. destruct Hrt as [Hh _].
      apply tstream_one; [|reflexivity]. intros rest.
      change (0xF9 :: be_bytes 2 (half_bits b)) with (head_w 7 I16 (half_bits b)).
      rewrite head_spec_head_w; [reflexivity|reflexivity|exact Hh].
    + cbn [wf_item] in Hwf. apply tstream_one; [|reflexivity]. intros rest.
      destruct (C10_single b 5 rest Hwf) as [_ H]; [lia|exact H].
    + cbn [wf_item] in Hwf. apply tstream_one; [|reflexivity]. intros rest.
      destruct (C10_double b 9 rest Hwf) as [_ H]; [lia|exact H].
Qed.

(* ------------------------------------------------------------------------------------------ *)
(* 2. the recursive-descent parser on the heads of an encoding                                 *)
(* ------------------------------------------------------------------------------------------ *)

Definition utl (xs : list item) : list utok := concat (map utoks xs).
Definition utlp (kvs : list (item * item)) : list utok :=
  concat (map (fun kv => utoks (fst kv) ++ utoks (snd kv)) kvs).
Definition brk : list utok := [(TBreak, 1)].

Lemma utl_cons x r : utl (x :: r) = utoks x ++ utl r.
Proof. reflexivity. Qed.
Lemma utlp_cons kv r : utlp (kv :: r) = utoks (fst kv) ++ utoks (snd kv) ++ utlp r.
Proof. unfold utlp. cbn [map concat]. rewrite <- app_assoc. reflexivity. Qed.

Lemma ctrl_tok_nobreak v : ctrl_tok v <> TBreak.
Proof.
  unfold ctrl_tok. destruct (v =? 20); [discriminate|]. destruct (v =? 21); [discriminate|].
  destruct (v =? 22); discriminate.
Qed.

Lemma utoks_first t : exists tk n l, utoks t = (tk, n) :: l /\ tk <> TBreak.
Proof.
  destruct t as [w v|w v|d|cs|d|cs|[] xs|[] kvs|v x|v|[] b]; cbn [utoks app];
    try (do 3 eexists; split; [reflexivity|discriminate]).
  do 3 eexists; split; [reflexivity|apply ctrl_tok_nobreak].
Qed.

Lemma utoks_nobreak t pos ts' : is_break (place pos (utoks t) ++ ts') = None.
Proof.
  destruct (utoks_first t) as (tk & n & l & -> & H). cbn [place app].
  destruct tk; try reflexivity. congruence.
Qed.

Lemma utoks_len t : (1 <= length (utoks t))%nat.
Proof. destruct (utoks_first t) as (tk & n & l & -> & _). cbn [length]. lia. Qed.

Lemma len_cons_eq1 {A} (x : A) r : (len (x :: r) =? 1) = match r with [] => true | _ => false end.
Proof. destruct r; [reflexivity|]. unfold len. cbn [length]. lia. Qed.
Lemma len_cons_pred {A} (x : A) r : len (x :: r) - 1 = len r.
Proof. unfold len. cbn [length]. lia. Qed.
Lemma len_cons_eq0 {A} (x : A) r : (len (x :: r) =? 0) = false.
Proof. unfold len. cbn [length]. lia. Qed.

Section Parse.
Variables (cap : N) (tl : tail).

Local Notation parse := (SpecParse.parse cap tl).
Local Notation parse_n := (SpecParse.parse_n cap tl).
Local Notation parse_until := (SpecParse.parse_until cap tl).
Local Notation parse_pairs := (SpecParse.parse_pairs cap tl).
Local Notation parse_until_map := (SpecParse.parse_until_map cap tl).
Local Notation parse_chunks := (SpecParse.parse_chunks cap tl).

Definition Pparse (t : item) : Prop :=
  forall fuel d pos ts', rt_loc cap t -> (2 * length (utoks t) <= fuel)%nat -> depth t <= N.of_nat d ->
    parse fuel d (place pos (utoks t) ++ ts') = POk (canon t) (pos + total (utoks t)) ts'.

Lemma parse_n_ok : forall xs, Forall Pparse xs -> forall fuel d racc pos ts',
  xs <> [] -> Forall (rt_loc cap) xs -> (2 * length (utl xs) < fuel)%nat ->
  Forall (fun x => depth x <= N.of_nat d) xs ->
  parse_n fuel d (len xs) (place pos (utl xs) ++ ts') racc =
  POk (IArray false (rev racc ++ map canon xs)) (pos + total (utl xs)) ts'.
Proof.
  induction 1 as [|x r Hx _ IH]; intros fuel d racc pos ts' Hne Hrt Hf Hd; [congruence|].
  inversion Hrt as [|? ? Rx Rr]; subst. inversion Hd as [|? ? Dx Dr]; subst.
  pose proof (utoks_len x) as Hl1.
  rewrite utl_cons, app_length in Hf.
  destruct fuel as [|f]; [lia|].
  rewrite PBuild_proofs.parse_n_S, utl_cons, place_app, <- app_assoc.
  rewrite (Hx f d pos _ Rx) by (assumption || lia).
  rewrite len_cons_eq1, len_cons_pred, total_app, N.add_assoc.
  destruct r as [|y r'].
  - cbn [utl map concat place app total rev]. rewrite N.add_0_r. reflexivity.
  - rewrite IH by (assumption || discriminate || lia).
    cbn [rev map]. rewrite <- app_assoc. reflexivity.
Qed.

Lemma parse_until_ok : forall xs, Forall Pparse xs -> forall fuel d racc pos ts',
  Forall (rt_loc cap) xs -> (2 * length (utl xs) + 1 <= fuel)%nat ->
  Forall (fun x => depth x <= N.of_nat d) xs ->
  parse_until fuel d (place pos (utl xs ++ brk) ++ ts') racc =
  POk (IArray true (rev racc ++ map canon xs)) (pos + total (utl xs ++ brk)) ts'.
Proof.
  induction 1 as [|x r Hx _ IH]; intros fuel d racc pos ts' Hrt Hf Hd.
  - destruct fuel as [|f]; [lia|]. rewrite PBuild_proofs.parse_until_S.
    cbn [utl map concat app brk place is_break total]. rewrite app_nil_r, N.add_0_r. reflexivity.
  - inversion Hrt as [|? ? Rx Rr]; subst. inversion Hd as [|? ? Dx Dr]; subst.
    pose proof (utoks_len x) as Hl1.
    rewrite utl_cons, app_length in Hf.
    destruct fuel as [|f]; [lia|].
    rewrite PBuild_proofs.parse_until_S, utl_cons, <- app_assoc, place_app, <- app_assoc.
    rewrite utoks_nobreak.
    rewrite (Hx f d pos _ Rx) by (assumption || lia).
    rewrite IH by (assumption || lia).
    rewrite !total_app, !N.add_assoc. cbn [rev map]. rewrite <- app_assoc. reflexivity.
Qed.

Lemma parse_pairs_ok : forall kvs, Forall (fun kv => Pparse (fst kv) /\ Pparse (snd kv)) kvs ->
  forall fuel d racc pos ts',
  kvs <> [] -> Forall (fun kv => rt_loc cap (fst kv) /\ rt_loc cap (snd kv)) kvs ->
  (2 * length (utlp kvs) < fuel)%nat ->
  Forall (fun kv => depth (fst kv) <= N.of_nat d /\ depth (snd kv) <= N.of_nat d) kvs ->
  parse_pairs fuel d (len kvs) (place pos (utlp kvs) ++ ts') racc =
  POk (IMap false (rev racc ++ map (fun kv => (canon (fst kv), canon (snd kv))) kvs))
      (pos + total (utlp kvs)) ts'.
Proof.
  induction 1 as [|x r [Hk Hv] _ IH]; intros fuel d racc pos ts' Hne Hrt Hf Hd; [congruence|].
  inversion Hrt as [|? ? [Rk Rv] Rr]; subst. inversion Hd as [|? ? [Dk Dv] Dr]; subst.
  pose proof (utoks_len (fst x)) as Hl1. pose proof (utoks_len (snd x)) as Hl2.
  rewrite utlp_cons, !app_length in Hf.
  destruct fuel as [|f]; [lia|].
  rewrite PBuild_proofs.parse_pairs_S, utlp_cons, place_app, <- app_assoc.
  rewrite (Hk f d pos _ Rk) by (assumption || lia).
  rewrite place_app, <- app_assoc.
  rewrite (Hv f d _ _ Rv) by (assumption || lia).
  rewrite len_cons_eq1, len_cons_pred, !total_app, !N.add_assoc.
  destruct r as [|y r'].
  - cbn [utlp map concat place app total rev]. rewrite N.add_0_r. reflexivity.
  - rewrite IH by (assumption || discriminate || lia).
    cbn [rev map]. rewrite <- app_assoc. reflexivity.
Qed.

Lemma parse_until_map_ok : forall kvs, Forall (fun kv => Pparse (fst kv) /\ Pparse (snd kv)) kvs ->
  forall fuel d racc pos ts',
  Forall (fun kv => rt_loc cap (fst kv) /\ rt_loc cap (snd kv)) kvs ->
  (2 * length (utlp kvs) + 1 <= fuel)%nat ->
  Forall (fun kv => depth (fst kv) <= N.of_nat d /\ depth (snd kv) <= N.of_nat d) kvs ->
  parse_until_map fuel d (place pos (utlp kvs ++ brk) ++ ts') racc =
  POk (IMap true (rev racc ++ map (fun kv => (canon (fst kv), canon (snd kv))) kvs))
      (pos + total (utlp kvs ++ brk)) ts'.
Proof.
  induction 1 as [|x r [Hk Hv] _ IH]; intros fuel d racc pos ts' Hrt Hf Hd.
  - destruct fuel as [|f]; [lia|]. rewrite PBuild_proofs.parse_until_map_S.
    cbn [utlp map concat app brk place is_break total]. rewrite app_nil_r, N.add_0_r. reflexivity.
  - inversion Hrt as [|? ? [Rk Rv] Rr]; subst. inversion Hd as [|? ? [Dk Dv] Dr]; subst.
    pose proof (utoks_len (fst x)) as Hl1. pose proof (utoks_len (snd x)) as Hl2.
    rewrite utlp_cons, !app_length in Hf.
    destruct fuel as [|f]; [lia|].
    rewrite PBuild_proofs.parse_until_map_S, utlp_cons, <- !app_assoc, place_app, <- app_assoc.
    rewrite utoks_nobreak.
    rewrite (Hk f d pos _ Rk) by (assumption || lia).
    rewrite place_app, <- app_assoc, utoks_nobreak.
    rewrite (Hv f d _ _ Rv) by (assumption || lia).
    rewrite IH by (assumption || lia).
    rewrite !total_app, !N.add_assoc. cbn [rev map]. rewrite <- app_assoc. reflexivity.
Qed.

Lemma parse_chunks_ok (text : bool) mt : mt = (if text then 3 else 2) ->
  forall cs fuel d racc pos ts',
  Forall (fun c => len c <= cap) cs -> (length cs + 1 <= fuel)%nat ->
  parse_chunks fuel d text (place pos (map (chunk_tok mt) cs ++ brk) ++ ts') racc =
  POk ((if text then ITextI else IBytesI) (rev racc ++ cs))
      (pos + total (map (chunk_tok mt) cs ++ brk)) ts'.
Proof.
  intros Hmt. induction cs as [|c r IH]; intros fuel d racc pos ts' Hc Hf.
  - destruct fuel as [|f]; [cbn [length] in Hf; lia|]. rewrite PBuild_proofs.parse_chunks_S.
    cbn [map app brk place is_break total]. rewrite app_nil_r, N.add_0_r.
    destruct text; reflexivity.
  - apply Forall_cons_iff in Hc. destruct Hc as [Cc Cr].
    destruct fuel as [|f]; [cbn [length] in Hf; lia|]. cbn [length] in Hf.
    cbn [map]. rewrite <- app_comm_cons.
    destruct text; subst mt.
    + change (chunk_tok 3 c) with (TText (len (head 3 (len c))) c, len (head 3 (len c)) + len c).
      rewrite place_cons, <- app_comm_cons, PBuild_proofs.parse_chunks_S. cbn [is_break chunk_of].
      destruct (N.ltb_spec cap (len c)) as [|_]; [lia|].
      rewrite IH by (assumption || lia).
      cbn [rev total]. rewrite <- app_assoc, !N.add_assoc. reflexivity.
    + change (chunk_tok 2 c) with (TBytes (len (head 2 (len c))) c, len (head 2 (len c)) + len c).
      rewrite place_cons, <- app_comm_cons, PBuild_proofs.parse_chunks_S. cbn [is_break chunk_of].
      destruct (N.ltb_spec cap (len c)) as [|_]; [lia|].
      rewrite IH by (assumption || lia).
      cbn [rev total]. rewrite <- app_assoc, !N.add_assoc. reflexivity.
Qed.

End Parse.

Section ParseItem.
Variables (cap : N) (tl : tail).
Local Notation parse := (SpecParse.parse cap tl).

Lemma leaf_ok tk n (t : item) fuel d pos ts' :
  (2 <= fuel)%nat ->
  (forall f e r, parse (S f) d ((tk, e) :: r) = POk t e r) ->
  parse fuel d (place pos [(tk, n)] ++ ts') = POk t (pos + total [(tk, n)]) ts'.
Proof.
  intros Hf H. destruct fuel as [|f]; [lia|]. cbn [place app total]. rewrite H, N.add_0_r. reflexivity.
Qed.

Theorem parse_utoks : forall t, Pparse cap tl t.
Proof.
  induction t as [w v|w v|c|cs|c|cs|i xs IH|i kvs IH|v x IH|v|w b] using item_ind';
    intros fuel d pos ts' Hrt Hf Hd.
  - apply leaf_ok; [exact Hf|reflexivity].
  - apply leaf_ok; [exact Hf|reflexivity].
  - cbn [rt_loc] in Hrt. apply leaf_ok; [exact Hf|]. intros f e r.
    rewrite PBuild_proofs.parse_S. change (2 =? 2) with true. cbv iota.
    destruct (N.ltb_spec cap (len c)) as [|_]; [lia|reflexivity].
  - cbn [rt_loc] in Hrt. cbn [utoks] in *. rewrite !app_length, map_length in Hf. cbn [length] in Hf.
    destruct fuel as [|f]; [lia|]. rewrite place_app, <- app_assoc. cbn [place app total].
    rewrite PBuild_proofs.parse_S.
    destruct d as [|d']; [cbn [depth] in Hd; lia|].
    change (map (chunk_tok 2) cs ++ [(TBreak, 1)]) with (map (chunk_tok 2) cs ++ brk).
    rewrite (parse_chunks_ok cap tl false 2 eq_refl) by (assumption || lia).
    rewrite N.add_0_r, N.add_assoc. reflexivity.
  - cbn [rt_loc] in Hrt. apply leaf_ok; [exact Hf|]. intros f e r.
    rewrite PBuild_proofs.parse_S. change (3 =? 2) with false. cbv iota.
    destruct (N.ltb_spec cap (len c)) as [|_]; [lia|reflexivity].
  - cbn [rt_loc] in Hrt. cbn [utoks] in *. rewrite !app_length, map_length in Hf. cbn [length] in Hf.
    destruct fuel as [|f]; [lia|]. rewrite place_app, <- app_assoc. cbn [place app total].
    rewrite PBuild_proofs.parse_S.
    destruct d as [|d']; [cbn [depth] in Hd; lia|].
    change (map (chunk_tok 3) cs ++ [(TBreak, 1)]) with (map (chunk_tok 3) cs ++ brk).
    rewrite (parse_chunks_ok cap tl true 3 eq_refl) by (assumption || lia).
    rewrite N.add_0_r, N.add_assoc. reflexivity.
  - apply rt_loc_array in Hrt. destruct Hrt as [Rxs Ha].
    destruct i.
    + (* indefinite array *)
      rewrite depth_array_indef in Hd.
      cbn [utoks canon] in *. fold (utl xs) in *. fold brk in *.
      rewrite !app_length in Hf. cbn [length] in Hf.
      destruct fuel as [|f]; [lia|]. rewrite place_app, <- app_assoc. cbn [place app total].
      rewrite PBuild_proofs.parse_S.
      destruct d as [|d']; [lia|].
      rewrite (parse_until_ok cap tl xs IH); [| assumption | lia | apply dmax_le; lia].
      rewrite N.add_0_r, N.add_assoc. reflexivity.
    + (* definite array *)
      specialize (Ha eq_refl).
      destruct xs as [|x r].
      * destruct fuel as [|f]; [cbn [utoks length app concat map] in Hf; lia|].
        cbn [utoks map concat app place total canon]. rewrite PBuild_proofs.parse_S, Ha.
        cbn [negb]. change (len [] =? 0) with true. cbv iota. rewrite N.add_0_r. reflexivity.
      * rewrite depth_array_cons in Hd.
        cbn [utoks canon] in *. fold (utl (x :: r)) in *.
        rewrite !app_length in Hf. cbn [length] in Hf.
        destruct fuel as [|f]; [lia|]. rewrite place_app, <- app_assoc. cbn [place app total].
        rewrite PBuild_proofs.parse_S, Ha. cbn [negb]. rewrite len_cons_eq0.
        destruct d as [|d']; [lia|].
        rewrite (parse_n_ok cap tl (x :: r) IH);
          [| discriminate | assumption | lia | apply dmax_le; lia].
        rewrite N.add_0_r, N.add_assoc. reflexivity.
  - apply rt_loc_map in Hrt. destruct Hrt as [Rxs Ha].
    destruct i.
    + rewrite depth_map_indef in Hd.
      cbn [utoks canon] in *. fold (utlp kvs) in *. fold brk in *.
      rewrite !app_length in Hf. cbn [length] in Hf.
      destruct fuel as [|f]; [lia|]. rewrite place_app, <- app_assoc. cbn [place app total].
      rewrite PBuild_proofs.parse_S.
      destruct d as [|d']; [lia|].
      rewrite (parse_until_map_ok cap tl kvs IH);
        [| assumption | lia | apply dmaxp_le; lia].
      rewrite N.add_0_r, N.add_assoc. reflexivity.
    + specialize (Ha eq_refl).
      destruct kvs as [|x r].
      * destruct fuel as [|f]; [cbn [utoks length app concat map] in Hf; lia|].
        cbn [utoks map concat app place total canon]. rewrite PBuild_proofs.parse_S, Ha.
        cbn [negb]. change (len [] =? 0) with true. cbv iota. rewrite N.add_0_r. reflexivity.
      * rewrite depth_map_cons in Hd.
        cbn [utoks canon] in *. fold (utlp (x :: r)) in *.
        rewrite !app_length in Hf. cbn [length] in Hf.
        destruct fuel as [|f]; [lia|]. rewrite place_app, <- app_assoc. cbn [place app total].
        rewrite PBuild_proofs.parse_S, Ha. cbn [negb]. rewrite len_cons_eq0.
        destruct d as [|d']; [lia|].
        rewrite (parse_pairs_ok cap tl (x :: r) IH);
          [| discriminate | assumption | lia | apply dmaxp_le; lia].
        rewrite N.add_0_r, N.add_assoc. reflexivity.
  - cbn [rt_loc] in Hrt. cbn [depth] in Hd. cbn [utoks canon] in *.
    rewrite app_length in Hf. cbn [length] in Hf.
    destruct fuel as [|f]; [lia|]. rewrite place_app, <- app_assoc. cbn [place app total].
    rewrite PBuild_proofs.parse_S.
    destruct d as [|d']; [lia|].
    rewrite (IH f d' _ _ Hrt) by lia.
    rewrite N.add_0_r, N.add_assoc. reflexivity.
  - cbn [rt_loc] in Hrt. apply leaf_ok; [exact Hf|]. intros f e r.
    assert (Hv : v = 20 \/ v = 21 \/ v = 22 \/ v = 23) by lia.
    destruct Hv as [-> | [-> | [-> | ->]]]; reflexivity.
  - destruct w; apply leaf_ok; try exact Hf; reflexivity.
Qed.

End ParseItem.

(* ------------------------------------------------------------------------------------------ *)
(* 3. C03                                                                                      *)
(* ------------------------------------------------------------------------------------------ *)

(* the specification of cbor_load on an encoding followed by anything *)
Theorem C03_roundtrip_spec : forall L cap t rest, rt_ok L cap t ->
  load_spec L cap (encode_rfc t ++ rest) = LOk (canon t) (len (encode_rfc t)).
Proof.
  intros L cap t rest (Hwf & Hd & Hrt).
  destruct (tstream_encode cap t Hwf Hrt) as (Ht & Hg & Hs).
  pose proof (encode_rfc_nonempty t) as Hne.
  unfold load_spec.
  destruct (N.eqb_spec (len (encode_rfc t ++ rest)) 0) as [E|_]; [rewrite len_app in E; lia|].
  set (buf := encode_rfc t ++ rest).
  assert (Hfu : exists f, S (length buf) = (length (utoks t) + f)%nat).
  { exists (S (length buf) - length (utoks t))%nat. unfold buf. rewrite app_length.
    unfold len in *. lia. }
  destruct Hfu as [f ->]. unfold buf. rewrite Hs.
  set (ts' := fst (tokenize f (0 + len (encode_rfc t)) rest)).
  set (tl' := snd (tokenize f (0 + len (encode_rfc t)) rest)).
  rewrite (parse_utoks cap tl' t); [rewrite Ht, N.add_0_l; reflexivity | exact Hrt | | lia].
  rewrite app_length, place_length. lia.
Qed.

Theorem C03_roundtrip : forall L cap t rest, rt_ok L cap t -> bytes_ok rest ->
  len (encode_rfc t ++ rest) < SIZE_MAX ->
  load_spec L cap (encode_rfc t ++ rest) = LOk (canon t) (len (encode_rfc t)).
Proof. intros L cap t rest H _ _. apply C03_roundtrip_spec, H. Qed.

(* serializing the loaded tree again yields the identical bytes *)
Lemma canon_encode cap : forall t, rt_loc cap t -> encode_rfc (canon t) = encode_rfc t.
Proof.
  induction t as [w v|w v|c|cs|c|cs|i xs IH|i kvs IH|v x IH|v|w b] using item_ind';
    intros Hrt; try reflexivity.
  - apply rt_loc_array in Hrt. destruct Hrt as [Rxs _].
    assert (E : map encode_rfc (map canon xs) = map encode_rfc xs).
    { rewrite map_map. apply map_ext_in. intros x Hin. rewrite Forall_forall in IH, Rxs. auto. }
    assert (El : len (map canon xs) = len xs) by (unfold len; rewrite map_length; reflexivity).
    destruct i; cbn [canon encode_rfc]; rewrite E, ?El; reflexivity.
  - apply rt_loc_map in Hrt. destruct Hrt as [Rxs _].
    assert (E : map (fun kv => encode_rfc (fst kv) ++ encode_rfc (snd kv))
                    (map (fun kv => (canon (fst kv), canon (snd kv))) kvs) =
                map (fun kv => encode_rfc (fst kv) ++ encode_rfc (snd kv)) kvs).
    { rewrite map_map. apply map_ext_in. intros kv Hin. cbn [fst snd].
      rewrite Forall_forall in IH, Rxs. destruct (IH kv Hin) as [Ik Iv]. destruct (Rxs kv Hin) as [Rk Rv].
      rewrite Ik, Iv by assumption. reflexivity. }
    assert (El : len (map (fun kv => (canon (fst kv), canon (snd kv))) kvs) = len kvs)
      by (unfold len; rewrite map_length; reflexivity).
    destruct i; cbn [canon encode_rfc]; rewrite E, ?El; reflexivity.
  - cbn [rt_loc] in Hrt. cbn [canon encode_rfc]. rewrite IH by exact Hrt. reflexivity.
  - destruct w; cbn [canon encode_rfc].
    + cbn [rt_loc] in Hrt. apply half_bits_rt in Hrt. destruct Hrt as [_ ->]. reflexivity.
    + rewrite PEnc_proofs.canon32_idem. reflexivity.
    + rewrite PEnc_proofs.canon64_idem. reflexivity.
Qed.

Theorem C03_idempotent : forall L cap t, rt_ok L cap t -> encode_rfc (canon t) = encode_rfc t.
Proof. intros L cap t (_ & _ & H). exact (canon_encode cap t H). Qed.

(* canon is a projection; on a half item holding the value of pattern h it keeps the value
   unless h is a NaN, which becomes the canonical single-precision NaN *)
Lemma canon_canon cap : forall t, rt_loc cap t -> canon (canon t) = canon t.
Proof.
  induction t as [w v|w v|c|cs|c|cs|i xs IH|i kvs IH|v x IH|v|w b] using item_ind';
    intros Hrt; try reflexivity.
  - apply rt_loc_array in Hrt. destruct Hrt as [Rxs _]. cbn [canon]. f_equal.
    rewrite map_map. apply map_ext_in. intros x Hin. rewrite Forall_forall in IH, Rxs. auto.
  - apply rt_loc_map in Hrt. destruct Hrt as [Rxs _]. cbn [canon]. f_equal.
    rewrite map_map. apply map_ext_in. intros kv Hin. cbn [fst snd].
    rewrite Forall_forall in IH, Rxs. destruct (IH kv Hin) as [Ik Iv]. destruct (Rxs kv Hin) as [Rk Rv].
    rewrite Ik, Iv by assumption. reflexivity.
  - cbn [rt_loc] in Hrt. cbn [canon]. rewrite IH by exact Hrt. reflexivity.
  - destruct w; cbn [canon].
    + cbn [rt_loc] in Hrt. apply half_bits_rt in Hrt. destruct Hrt as [_ ->]. reflexivity.
    + rewrite PEnc_proofs.canon32_idem. reflexivity.
    + rewrite PEnc_proofs.canon64_idem. reflexivity.
Qed.

Lemma canon_half h : h < 65536 ->
  canon (IFloat F16 (decode_half h)) =
  IFloat F16 (if half_is_nan h then 0x7FC00000 else decode_half h).
Proof.
  intros Hh. cbn [canon]. unfold half_bits. rewrite C15_half_roundtrip by exact Hh.
  destruct (half_is_nan h); [vm_compute|]; reflexivity.
Qed.

(* ------------------------------------------------------------------------------------------ *)
(* 4. the same for the model of cbor_load itself (PBuild.load), through load_is_spec           *)
(* ------------------------------------------------------------------------------------------ *)

Lemma head_ok mt v : mt < 8 -> v < 2 ^ 64 -> bytes_ok (head mt v).
Proof. intros Hmt Hv. rewrite head_shortest. apply head_w_ok; [exact Hmt|apply w_of_bound, Hv]. Qed.

Lemma bytes_ok_concat {A} (e : A -> list N) xs :
  Forall (fun x => bytes_ok (e x)) xs -> bytes_ok (concat (map e xs)).
Proof.
  induction 1 as [|x r Hx _ IH]; cbn [map concat]; [constructor|].
  apply bytes_ok_app. split; assumption.
Qed.

Lemma encode_rfc_bytes_ok : forall t, wf_item t -> bytes_ok (encode_rfc t).
Proof.
  assert (Hb : forall b, b < 256 -> bytes_ok [b]) by (intros b Hb; constructor; [exact Hb|constructor]).
  assert (Hstr : forall mt d, mt < 8 -> bytes_ok d /\ len d < 2 ^ 64 -> bytes_ok (head mt (len d) ++ d)).
  { intros mt d Hmt [Hd Hl]. apply bytes_ok_app. split; [apply head_ok; assumption|exact Hd]. }
  induction t as [w v|w v|c|cs|c|cs|i xs IH|i kvs IH|v x IH|v|w b] using item_ind'; intros Hwf.
  - apply head_w_ok; [lia|exact Hwf].
  - apply head_w_ok; [lia|exact Hwf].
  - apply Hstr; [lia|exact Hwf].
  - destruct Hwf as [Hcs _]. cbn [encode_rfc]. apply bytes_ok_app. split; [apply Hb; lia|].
    apply bytes_ok_app. split; [|apply Hb; lia]. apply bytes_ok_concat.
    eapply Forall_impl; [|exact Hcs]. intros d Hd. apply Hstr; [lia|exact Hd].
  - apply Hstr; [lia|exact Hwf].
  - destruct Hwf as [Hcs _]. cbn [encode_rfc]. apply bytes_ok_app. split; [apply Hb; lia|].
    apply bytes_ok_app. split; [|apply Hb; lia]. apply bytes_ok_concat.
    eapply Forall_impl; [|exact Hcs]. intros d Hd. apply Hstr; [lia|exact Hd].
  - apply wf_array in Hwf. destruct Hwf as [Hxs Hlen].
    assert (Hel : bytes_ok (concat (map encode_rfc xs))).
    { apply bytes_ok_concat. rewrite Forall_forall in *. auto. }
    destruct i; cbn [encode_rfc].
    + apply bytes_ok_app. split; [apply Hb; lia|]. apply bytes_ok_app. split; [exact Hel|apply Hb; lia].
    + apply bytes_ok_app. split; [apply head_ok; [lia|exact Hlen]|exact Hel].
  - apply wf_map in Hwf. destruct Hwf as [Hxs Hlen].
    assert (Hel : bytes_ok (concat (map (fun kv => encode_rfc (fst kv) ++ encode_rfc (snd kv)) kvs))).
    { apply bytes_ok_concat. rewrite Forall_forall in *. intros kv Hin.
      destruct (IH kv Hin). destruct (Hxs kv Hin). apply bytes_ok_app. split; auto. }
    destruct i; cbn [encode_rfc].
    + apply bytes_ok_app. split; [apply Hb; lia|]. apply bytes_ok_app. split; [exact Hel|apply Hb; lia].
    + apply bytes_ok_app. split; [apply head_ok; [lia|exact Hlen]|exact Hel].
  - destruct Hwf as [Hv Hx]. cbn [encode_rfc]. apply bytes_ok_app. split; [apply head_ok; [lia|exact Hv]|auto].
  - cbn [wf_item] in Hwf. cbn [encode_rfc]. destruct (N.ltb_spec v 24).
    + apply Hb. lia.
    + constructor; [lia|apply Hb; exact Hwf].
  - destruct w; cbn [encode_rfc]; (constructor; [lia|apply be_bytes_ok]).
Qed.

Theorem C03_roundtrip_load : forall L cap t rest, rt_ok L cap t -> bytes_ok rest ->
  len (encode_rfc t ++ rest) < SIZE_MAX ->
  load L cap (encode_rfc t ++ rest) = LOk (canon t) (len (encode_rfc t)).
Proof.
  intros L cap t rest H Hr Hl.
  rewrite (load_is_spec C08_contract L cap) by
    (first [exact Hl | apply bytes_ok_app; split; [apply encode_rfc_bytes_ok, H|exact Hr]]).
  apply C03_roundtrip_spec, H.
Qed.

(* the composite for a whole serialization: load, then encode again *)
Corollary C03_load_encode : forall L cap t, rt_ok L cap t -> len (encode_rfc t) < SIZE_MAX ->
  exists t', load L cap (encode_rfc t) = LOk t' (len (encode_rfc t)) /\ t' = canon t /\
             encode_rfc t' = encode_rfc t.
Proof.
  intros L cap t H Hl. exists (canon t). split; [|split; [reflexivity|exact (C03_idempotent L cap t H)]].
  rewrite <- (app_nil_r (encode_rfc t)) at 1.
  apply C03_roundtrip_load; [exact H|constructor|rewrite app_nil_r; exact Hl].
Qed.

Print Assumptions tstream_encode.
Print Assumptions parse_utoks.
Print Assumptions C03_roundtrip_spec.
Print Assumptions C03_roundtrip.
Print Assumptions C03_idempotent.
Print Assumptions canon_canon.
Print Assumptions C03_roundtrip_load.
Print Assumptions C03_load_encode.
