(* Plans of the decoder glue: src/cbor/internal/builder_callbacks.c and cbor_load (src/cbor.c),
   written by hand from the models PBuild.v (append, callback, load_loop) and HOps.v (happend,
   push_ctx, string_cb, hcallback, unwind, hload_loop).  Definitions only; same vocabulary as
   HPlans.v.

   Inputs of a plan: the integer fields the C function reads (stack->size, the type tag and the
   definite / indefinite mark of the item on top of the stack, top->subitems, the two flags of the
   context), its integer arguments, one boolean oracle per allocating call (allocator, library
   constructor, _cbor_stack_push: non-NULL?) and one integer oracle per call of a listed function
   that returns a value.  In this part of the library every call is an ORDERED event of p_reqs,
   including cbor_decref (a release is an allocator-visible event here) — so the order of the
   cleanup on the failure paths is part of the plan.  The recursive call of _cbor_builder_append
   (the cascade that closes a completed container) is the event ReqCall "_cbor_builder_append".

   translator/effects.py renders the same from the C source (coq/gen/Gen_effects_load.v);
   Bridge_effects_load.v proves them equal by automation; HPlansLoad_proofs.v proves that the
   models follow these plans. *)
From Coq Require Import ZArith NArith List Bool String.
Import ListNotations.
From CB Require Import Word PMem GenLeafTypes HItems HPlans.
Local Open Scope string_scope.
Local Open Scope N_scope.

(* ---------- encodings ---------- *)
Definition TY_BYTESTRING : Z := 2%Z.
Definition TY_STRING : Z := 3%Z.
(* cbor_error_code *)
Definition ERR_NONE : Z := 0%Z.
Definition ERR_NOTENOUGHDATA : Z := 1%Z.
Definition ERR_NODATA : Z := 2%Z.
Definition ERR_MALFORMATED : Z := 3%Z.
Definition ERR_MEMERROR : Z := 4%Z.
Definition ERR_SYNTAXERROR : Z := 5%Z.
(* cbor_decoder_status *)
Definition ST_FINISHED : Z := 0%Z.
Definition ST_NEDATA : Z := 1%Z.
Definition ST_ERROR : Z := 2%Z.
Definition fbECBOR_TYPE_BYTESTRING := TY_BYTESTRING.
Definition fbECBOR_TYPE_STRING := TY_STRING.
Definition fbECBOR_ERR_NONE := ERR_NONE.
Definition fbECBOR_ERR_NOTENOUGHDATA := ERR_NOTENOUGHDATA.
Definition fbECBOR_ERR_NODATA := ERR_NODATA.
Definition fbECBOR_ERR_MALFORMATED := ERR_MALFORMATED.
Definition fbECBOR_ERR_MEMERROR := ERR_MEMERROR.
Definition fbECBOR_ERR_SYNTAXERROR := ERR_SYNTAXERROR.
Definition fbECBOR_DECODER_FINISHED := ST_FINISHED.
Definition fbECBOR_DECODER_NEDATA := ST_NEDATA.
Definition fbECBOR_DECODER_ERROR := ST_ERROR.

Definition is_even (n : N) : bool := n mod 2 =? 0.      (* subitems % 2 == 0 *)

(* ---------- the objects a callback sees: c = index of the context parameter ---------- *)
Definition stack_of (c : nat) : ptr := PField (PArg c) "stack".
Definition top_item (c : nat) : ptr := PField (PField (stack_of c) "top") "item".
Definition call_decref (p : ptr) : req := ReqCall "cbor_decref" [AP p].
Definition call_pop (c : nat) : req := ReqCall "_cbor_stack_pop" [AP (stack_of c)].
Definition call_append (it : ptr) (c : nat) : req := ReqCall "_cbor_builder_append" [AP it; AP (PArg c)].

Definition ctx_fields6 (cf : Z) (size subitems : N) (se dst ty : Z) : list (string * Z) :=
  [("creation_failed", cf); ("size", zN size); ("subitems", zN subitems); ("syntax_error", se);
   ("top_dst", dst); ("top_type", ty)].

(* ---------- void _cbor_builder_append(cbor_item_t* item, struct _cbor_decoder_context* ctx) ----------
   empty stack            -> the item is the root;
   array on top           -> push, release our reference; refused -> creation_failed.  Definite: one
                             expected element less, and at 0 the array is complete: pop it and append
                             it to what is below (the cascade);
   map on top             -> subitems odd: the item is a value (never refused), else a key (refused ->
                             creation_failed, nothing else changes); release; definite: count down and
                             cascade at 0; indefinite: flip the parity bit;
   tag on top             -> set the item, release, pop, cascade;
   anything else on top   -> release, syntax_error.
   [c] is the result of the one insertion call. *)
Definition builder_append_plan (cf se : Z) (size subitems : N) (ty : Z) (definite : bool) (c : Z) : plan :=
  let item := PArg 0 in
  let top := top_item 1 in
  let keep cf' sub' se' evs := mkplan RVoid (ctx_fields6 cf' size sub' se' (dst_z definite) ty) evs [] in
  let cascade evs := mkplan RVoid [] (evs ++ [call_pop 1; call_append top 1]) [] in
  let counted cf' evs :=
    let sub' := sub64 subitems 1 in
    if sub' =? 0 then cascade evs else keep cf' sub' se evs in
  if size =? 0 then
    mkplan RVoid (ctx_fields6 cf size subitems se (dst_z definite) ty) [] [SetPtr (PArg 1) "root" item]
  else if (ty =? TY_ARRAY)%Z then
    let evs := [ReqCall "cbor_array_push" [AP top; AP item]; call_decref item] in
    if (c =? 0)%Z then keep 1%Z subitems se evs
    else if definite then counted cf evs else keep cf subitems se evs
  else if (ty =? TY_MAP)%Z then
    if is_even subitems then
      let evs := [ReqCall "_cbor_map_add_key" [AP top; AP item]; call_decref item] in
      if (c =? 0)%Z then keep 1%Z subitems se evs
      else if definite then counted cf evs else keep cf (N.lxor subitems 1) se evs
    else
      let evs := [ReqCall "_cbor_map_add_value" [AP top; AP item]; call_decref item] in
      let cf' := if (c =? 0)%Z then 1%Z else 0%Z in
      if definite then counted cf' evs else keep cf' (N.lxor subitems 1) se evs
  else if (ty =? TY_TAG)%Z then
    cascade [ReqCall "cbor_tag_set_item" [AP top; AP item]; call_decref item]
  else keep cf subitems 1%Z [call_decref item].

(* bool _cbor_is_indefinite(cbor_item_t* item): strings, arrays and maps that are marked indefinite *)
Definition is_indefinite_plan (ty : Z) (definite : bool) : plan :=
  let nested := ((ty =? TY_BYTESTRING) || (ty =? TY_STRING) || (ty =? TY_ARRAY) || (ty =? TY_MAP))%Z in
  mkplan (RZ (if nested && negb definite then 1 else 0)%Z) [("dst", dst_z definite); ("type", ty)] [] [].

(* void cbor_builder_indef_break_callback(void* context): a break closes the item on top of the
   stack iff there is one, it is indefinite ([c], the result of _cbor_is_indefinite) and it is not a
   map that still waits for a value; then pop and append upwards; otherwise syntax_error *)
Definition break_plan (se : Z) (size subitems : N) (dst ty : Z) (c : Z) : plan :=
  let top := top_item 0 in
  let refuse evs :=
    mkplan RVoid [("size", zN size); ("subitems", zN subitems); ("syntax_error", 1%Z);
                  ("top_dst", dst); ("top_type", ty)] evs [] in
  if size =? 0 then refuse []
  else
    let q := ReqCall "_cbor_is_indefinite" [AP top] in
    if negb (c =? 0)%Z && (negb (ty =? TY_MAP)%Z || is_even subitems)
    then mkplan RVoid [] [q; call_pop 0; call_append top 0] []
    else refuse [q].

(* void cbor_builder_(byte_)string_callback(void* context, cbor_data data, uint64_t length):
   payload block, copy, new definite string, set_handle; a failed second allocation frees the
   payload; then a chunk of the indefinite string of the same kind on top of the stack (add_chunk,
   release), or an item of its own (append) *)
Definition string_cb_plan (text : bool) (cf : Z) (size subitems : N) (dst ty : Z) (length : N)
    (ok0 ok1 : bool) (c : Z) : plan :=
  let f5 cf' := [("creation_failed", cf'); ("size", zN size); ("subitems", zN subitems);
                 ("top_dst", dst); ("top_type", ty)] in
  let r0 := ReqMalloc (zN length) in
  let r1 := ReqCall (if text then "cbor_new_definite_string" else "cbor_new_definite_bytestring") [] in
  let seth := ReqCall (if text then "cbor_string_set_handle" else "cbor_bytestring_set_handle")
                      [AP (PNew 1); AP (PNew 0); AZ (zN length)] in
  let copy := [Copy (PNew 0) (PArg 1) (zN length)] in
  if negb ok0 then mkplan RVoid (f5 1%Z) [r0] []
  else if negb ok1 then mkplan RVoid (f5 1%Z) [r0; r1; ReqFree (PNew 0)] []
  else if (0 <? size) && (ty =? (if text then TY_STRING else TY_BYTESTRING))%Z && negb (dst =? dst_z true)%Z then
    mkplan RVoid (f5 (if (c =? 0)%Z then 1%Z else cf))
           [r0; r1; seth;
            ReqCall (if text then "cbor_string_add_chunk" else "cbor_bytestring_add_chunk") [AP (top_item 0); AP (PNew 1)];
            call_decref (PNew 1)] copy
  else mkplan RVoid [] [r0; r1; seth; call_append (PNew 1) 0] copy.

(* the *_start callbacks and the tag callback: construct; then either push a stack record expecting
   [subitems] items (refused -> release the new item, creation_failed) or, for an empty definite
   container, append it at once *)
Definition start_plan (cf : Z) (size : N) (ctor : req) (subitems : Z) (push : bool) (ok0 ok1 : bool) : plan :=
  if negb ok0 then mkplan RVoid [("creation_failed", 1%Z); ("size", zN size)] [ctor] []
  else if push then
    let p := ReqCall "_cbor_stack_push" [AP (stack_of 0); AP (PNew 0); AZ subitems] in
    if negb ok1 then mkplan RVoid [("creation_failed", 1%Z)] [ctor; p; call_decref (PNew 0)] []
    else mkplan RVoid [("creation_failed", cf)] [ctor; p] []
  else mkplan RVoid [] [ctor; call_append (PNew 0) 0] [].

Definition array_start_plan (cf : Z) (size n : N) := start_plan cf size (ReqCall "cbor_new_definite_array" [AZ (zN n)]) (zN n) (0 <? n).
(* a definite map of n pairs expects 2 n items *)
Definition map_start_plan (cf : Z) (size n : N) := start_plan cf size (ReqCall "cbor_new_definite_map" [AZ (zN n)]) (zN (wrap64 (n * 2))) (0 <? n).
Definition indef_start_plan (ctor : string) (cf : Z) (size : N) := start_plan cf size (ReqCall ctor []) 0%Z true.
Definition tag_cb_plan (cf : Z) (size v : N) := start_plan cf size (ReqCall "cbor_new_tag" [AZ (zN v)]) 1%Z true.

(* the integer / float / simple-value callbacks: construct, set, append *)
Definition leaf_cb_plan (size : N) (ctor : req) (setters : list req) (ok0 : bool) : plan :=
  if negb ok0 then mkplan RVoid [("creation_failed", 1%Z); ("size", zN size)] [ctor] []
  else mkplan RVoid [] (ctor :: setters ++ [call_append (PNew 0) 0]) [].
Definition int_cb_plan (size : N) (ctor mark set : string) (v : N) :=
  leaf_cb_plan size (ReqCall ctor []) [ReqCall mark [AP (PNew 0)]; ReqCall set [AP (PNew 0); AZ (zN v)]].
Definition float_cb_plan (size : N) (ctor set : string) :=
  leaf_cb_plan size (ReqCall ctor []) [ReqCall set [AP (PNew 0); AOpaque 1]].

(* ---------- cbor_item_t* cbor_load(cbor_data source, size_t source_size, struct cbor_load_result* result) ----------
   three plans: from the entry, from the head of the decoding loop (loop 0), from the head of the
   loop that unwinds the stack on the error path (loop 1).  Fields: result->error.code,
   result->error.position, result->read, and the decoder's own state (stack.size, the two flags). *)
Definition ctxL : ptr := PLocal "struct _cbor_decoder_context".
Definition stackL : ptr := PLocal "struct _cbor_stack".
Definition load_fields (code cf : Z) (position read size : N) (se : Z) : list (string * Z) :=
  [("code", code); ("creation_failed", cf); ("position", zN position); ("read", zN read);
   ("size", zN size); ("syntax_error", se)].

(* empty input: NODATA at 0, nothing read, nothing allocated; otherwise everything starts at zero *)
Definition load_entry_plan (code cf : Z) (position read size : N) (se : Z) (source_size : N) : plan :=
  if source_size =? 0 then mkplan (RP PNull) (load_fields ERR_NODATA cf 0 0 size se) [] []
  else mkplan (RLoop 0) (load_fields ERR_NONE 0%Z 0 0 0 0%Z) []
              [SetPtr ctxL "root" PNull; SetPtr ctxL "stack" stackL; SetPtr stackL "top" PNull].

(* one round of the decoding loop.  [status], [dread]: what cbor_stream_decode returned; [cf'],
   [se'], [size']: the flags and the stack depth after it (the callbacks ran inside it).
   Nothing left to read -> NOTENOUGHDATA; NEDATA -> NOTENOUGHDATA, ERROR -> MALFORMATED, both at the
   old position; FINISHED -> the head is consumed, then MEMERROR / SYNTAXERROR at the new position
   if a callback flagged it, else another round while the stack is non-empty, else the root.
   Every error exit goes to the unwinding loop with position = read. *)
Definition load_step_plan (code cf : Z) (position read size : N) (se : Z) (source_size : N)
    (status : Z) (dread : N) (cf' se' : Z) (size' : N) : plan :=
  let call := ReqCall "cbor_stream_decode"
                [APO (PArg 0) (zN read); AZ (zN (source_size - read)); AP (PLocal "struct cbor_callbacks"); AP ctxL] in
  let err c rd := mkplan (RLoop 1) [("code", c); ("position", zN rd); ("read", zN rd)] [call] [] in
  if source_size <=? read then mkplan (RLoop 1) (load_fields ERR_NOTENOUGHDATA cf read read size se) [] []
  else if (status =? ST_NEDATA)%Z then err ERR_NOTENOUGHDATA read
  else if (status =? ST_ERROR)%Z then err ERR_MALFORMATED read
  else
    let read' := wrap64 (read + dread) in
    if negb (cf' =? 0)%Z then err ERR_MEMERROR read'
    else if negb (se' =? 0)%Z then err ERR_SYNTAXERROR read'
    else
      let f3 := [("code", code); ("position", zN position); ("read", zN read')] in
      if 0 <? size' then mkplan (RLoop 0) f3 [call] []
      else mkplan (RP (PPost ctxL "root")) f3 [call] [].

(* the error path: while the stack is non-empty, release the item of the top record, THEN pop it *)
Definition load_unwind_plan (code cf : Z) (position read size : N) (se : Z) : plan :=
  if 0 <? size then
    mkplan (RLoop 1) [("code", code); ("creation_failed", cf); ("position", zN position); ("read", zN read);
                      ("syntax_error", se)]
           [call_decref (PField (PField stackL "top") "item"); ReqCall "_cbor_stack_pop" [AP stackL]] []
  else mkplan (RP PNull) (load_fields code cf position read size se) [] [].

(* ---------- fallbacks (same binders as the generated functions) ---------- *)
Definition fbplan_cbor_builder_append (cf size sub se dst ty c : Z) :=
  builder_append_plan cf se (Z.to_N size) (Z.to_N sub) ty (dst_b dst) c.
Definition fbplan_cbor_is_indefinite (dst ty : Z) := is_indefinite_plan ty (dst_b dst).
Definition fbplan_cbor_builder_indef_break_callback (size sub se dst ty c : Z) :=
  break_plan se (Z.to_N size) (Z.to_N sub) dst ty c.
Definition fbplan_cbor_builder_byte_string_callback (cf size sub dst ty len : Z) (ok0 ok1 : bool) (c : Z) :=
  string_cb_plan false cf (Z.to_N size) (Z.to_N sub) dst ty (Z.to_N len) ok0 ok1 c.
Definition fbplan_cbor_builder_string_callback (cf size sub dst ty len : Z) (ok0 ok1 : bool) (c : Z) :=
  string_cb_plan true cf (Z.to_N size) (Z.to_N sub) dst ty (Z.to_N len) ok0 ok1 c.
Definition fbplan_cbor_builder_array_start_callback (cf size n : Z) := array_start_plan cf (Z.to_N size) (Z.to_N n).
Definition fbplan_cbor_builder_map_start_callback (cf size n : Z) := map_start_plan cf (Z.to_N size) (Z.to_N n).
Definition fbplan_cbor_builder_indef_array_start_callback (cf size : Z) := indef_start_plan "cbor_new_indefinite_array" cf (Z.to_N size).
Definition fbplan_cbor_builder_indef_map_start_callback (cf size : Z) := indef_start_plan "cbor_new_indefinite_map" cf (Z.to_N size).
Definition fbplan_cbor_builder_byte_string_start_callback (cf size : Z) := indef_start_plan "cbor_new_indefinite_bytestring" cf (Z.to_N size).
Definition fbplan_cbor_builder_string_start_callback (cf size : Z) := indef_start_plan "cbor_new_indefinite_string" cf (Z.to_N size).
Definition fbplan_cbor_builder_tag_callback (cf size v : Z) := tag_cb_plan cf (Z.to_N size) (Z.to_N v).
Definition fb_int (ctor mark set : string) (cf size v : Z) := int_cb_plan (Z.to_N size) ctor mark set (Z.to_N v).
Definition fbplan_cbor_builder_uint8_callback := fb_int "cbor_new_int8" "cbor_mark_uint" "cbor_set_uint8".
Definition fbplan_cbor_builder_uint16_callback := fb_int "cbor_new_int16" "cbor_mark_uint" "cbor_set_uint16".
Definition fbplan_cbor_builder_uint32_callback := fb_int "cbor_new_int32" "cbor_mark_uint" "cbor_set_uint32".
Definition fbplan_cbor_builder_uint64_callback := fb_int "cbor_new_int64" "cbor_mark_uint" "cbor_set_uint64".
Definition fbplan_cbor_builder_negint8_callback := fb_int "cbor_new_int8" "cbor_mark_negint" "cbor_set_uint8".
Definition fbplan_cbor_builder_negint16_callback := fb_int "cbor_new_int16" "cbor_mark_negint" "cbor_set_uint16".
Definition fbplan_cbor_builder_negint32_callback := fb_int "cbor_new_int32" "cbor_mark_negint" "cbor_set_uint32".
Definition fbplan_cbor_builder_negint64_callback := fb_int "cbor_new_int64" "cbor_mark_negint" "cbor_set_uint64".
Definition fb_float (ctor set : string) (cf size : Z) := float_cb_plan (Z.to_N size) ctor set.
Definition fbplan_cbor_builder_float2_callback := fb_float "cbor_new_float2" "cbor_set_float2".
Definition fbplan_cbor_builder_float4_callback := fb_float "cbor_new_float4" "cbor_set_float4".
Definition fbplan_cbor_builder_float8_callback := fb_float "cbor_new_float8" "cbor_set_float8".
Definition fbplan_cbor_builder_null_callback (cf size : Z) := leaf_cb_plan (Z.to_N size) (ReqCall "cbor_new_null" []) [].
Definition fbplan_cbor_builder_undefined_callback (cf size : Z) := leaf_cb_plan (Z.to_N size) (ReqCall "cbor_new_undef" []) [].
Definition fbplan_cbor_builder_boolean_callback (cf size v : Z) := leaf_cb_plan (Z.to_N size) (ReqCall "cbor_build_bool" [AZ v]) [].
(* cbor_load: code cf dread position read size status se | cf' size' se' | source_size *)
Definition fbplan_cbor_load (code cf dread position read size status se cf' size' se' n : Z) :=
  load_entry_plan code cf (Z.to_N position) (Z.to_N read) (Z.to_N size) se (Z.to_N n).
Definition fbplan_cbor_load_loop0 (code cf dread position read size status se cf' size' se' n : Z) :=
  load_step_plan code cf (Z.to_N position) (Z.to_N read) (Z.to_N size) se (Z.to_N n) status (Z.to_N dread) cf' se' (Z.to_N size').
Definition fbplan_cbor_load_loop1 (code cf dread position read size status se cf' size' se' n : Z) :=
  load_unwind_plan code cf (Z.to_N position) (Z.to_N read) (Z.to_N size) se.
