(* Lemmas about machine words, byte lists and sweeps. *)
From CB Require Import Word.
From Coq Require Import Lia ZArith ZifyBool ZifyN ZifyNat.
Local Open Scope N_scope.
Ltac Zify.zify_post_hook ::= Z.div_mod_to_equations.

Lemma allb_forall k f : forall x, allb k f x = true ->
  forall h, x * 2 ^ (N.of_nat k) <= h < (x + 1) * 2 ^ (N.of_nat k) -> f h = true.
Proof.
  induction k as [|j IH]; intros x H h Hh.
  - cbn in Hh. replace h with x by lia. exact H.
  - cbn [allb] in H. apply andb_prop in H. destruct H as [H0 H1].
    rewrite Nat2N.inj_succ, N.pow_succ_r' in Hh.
    destruct (N.lt_ge_cases h ((2 * x + 1) * 2 ^ N.of_nat j)) as [Hlt|Hge].
    + apply (IH (2 * x) H0). lia.
    + apply (IH (2 * x + 1) H1). lia.
Qed.

Lemma allb8_forall f : allb 8 f 0 = true -> forall b, b < 256 -> f b = true.
Proof. intros H b Hb. apply (allb_forall 8 f 0 H). cbn. lia. Qed.

Lemma allb16_forall f : allb 16 f 0 = true -> forall b, b < 65536 -> f b = true.
Proof. intros H b Hb. apply (allb_forall 16 f 0 H). cbn. lia. Qed.

Lemma len_nil {A} : len (@nil A) = 0. Proof. reflexivity. Qed.
Lemma len_cons {A} (a : A) l : len (a :: l) = len l + 1.
Proof. unfold len. cbn [length]. lia. Qed.
Lemma len_app {A} (l1 l2 : list A) : len (l1 ++ l2) = len l1 + len l2.
Proof. unfold len. rewrite app_length. lia. Qed.
Lemma len_firstnN n (l : list N) : n <= len l -> len (firstnN n l) = n.
Proof. unfold len, firstnN. intros H. rewrite firstn_length. lia. Qed.
Lemma len_skipnN n (l : list N) : len (skipnN n l) = len l - n.
Proof. unfold len, skipnN. rewrite skipn_length. lia. Qed.
Lemma firstnN_skipnN n (l : list N) : firstnN n l ++ skipnN n l = l.
Proof. apply firstn_skipn. Qed.
Lemma skipnN_0 (l : list N) : skipnN 0 l = l. Proof. reflexivity. Qed.
Lemma firstnN_app n (l1 l2 : list N) : n = len l1 -> firstnN n (l1 ++ l2) = l1.
Proof. unfold firstnN, len. intros ->. rewrite Nat2N.id.
  rewrite firstn_app, Nat.sub_diag, firstn_all. cbn. apply app_nil_r. Qed.
Lemma skipnN_app n (l1 l2 : list N) : n = len l1 -> skipnN n (l1 ++ l2) = l2.
Proof. unfold skipnN, len. intros ->. rewrite Nat2N.id.
  rewrite skipn_app, Nat.sub_diag, skipn_all. reflexivity. Qed.

Lemma bytes_ok_app l1 l2 : bytes_ok (l1 ++ l2) <-> bytes_ok l1 /\ bytes_ok l2.
Proof. unfold bytes_ok. apply Forall_app. Qed.
Lemma bytes_ok_firstn n l : bytes_ok l -> bytes_ok (firstnN n l).
Proof. unfold bytes_ok, firstnN. intros H. rewrite <- (firstn_skipn (N.to_nat n) l) in H.
  apply Forall_app in H. tauto. Qed.
Lemma bytes_ok_skipn n l : bytes_ok l -> bytes_ok (skipnN n l).
Proof. unfold bytes_ok, skipnN. intros H. rewrite <- (firstn_skipn (N.to_nat n) l) in H.
  apply Forall_app in H. tauto. Qed.

(* ---- big-endian ---- *)
Lemma pow256_pos k : 0 < 256 ^ k. Proof. apply N.neq_0_lt_0, N.pow_nonzero. discriminate. Qed.

Lemma be_val_bound bs : bytes_ok bs -> be_val bs < 256 ^ (len bs).
Proof.
  induction bs as [|b r IH]; intros H.
  - cbn. lia.
  - inversion H as [|? ? Hb Hr]; subst. specialize (IH Hr).
    cbn [be_val]. rewrite len_cons. unfold len in *.
    rewrite N.pow_add_r. cbn [N.pow]. change (256 ^ 1) with 256.
    pose proof (pow256_pos (N.of_nat (length r))). nia.
Qed.

Lemma be_bytes_length k v : length (be_bytes k v) = k.
Proof. induction k; cbn; congruence. Qed.

Lemma be_bytes_ok k v : bytes_ok (be_bytes k v).
Proof. induction k as [|j IH]; cbn; constructor; [|exact IH]. apply N.mod_lt. discriminate. Qed.

Lemma byte_of_mod v P : 0 < P -> ((v mod (P * 256)) / P) mod 256 = (v / P) mod 256.
Proof.
  intros HP. rewrite N.mod_mul_r by lia.
  rewrite (N.mul_comm P ((v / P) mod 256)), N.div_add by lia.
  rewrite (N.div_small (v mod P) P) by (apply N.mod_lt; lia).
  rewrite N.add_0_l. apply N.mod_mod. discriminate.
Qed.
Lemma mod_of_mod v P : 0 < P -> (v mod (P * 256)) mod P = v mod P.
Proof.
  intros HP. rewrite N.mod_mul_r by lia.
  rewrite (N.mul_comm P ((v / P) mod 256)), N.mod_add by lia.
  apply N.mod_mod. lia.
Qed.

Lemma be_bytes_mod j : forall v, be_bytes j v = be_bytes j (v mod 256 ^ N.of_nat j).
Proof.
  induction j as [|j IH]; intros v; [reflexivity|].
  cbn [be_bytes]. pose proof (pow256_pos (N.of_nat j)) as HP.
  rewrite Nat2N.inj_succ, N.pow_succ_r', (N.mul_comm 256).
  f_equal.
  - symmetry. apply byte_of_mod. exact HP.
  - rewrite (IH v), (IH (v mod (256 ^ N.of_nat j * 256))). f_equal. symmetry. apply mod_of_mod. exact HP.
Qed.

Lemma be_val_be_bytes k v : v < 256 ^ (N.of_nat k) -> be_val (be_bytes k v) = v.
Proof.
  revert v. induction k as [|j IH]; intros v Hv.
  - cbn in *. lia.
  - cbn [be_bytes be_val]. rewrite be_bytes_length.
    rewrite Nat2N.inj_succ, N.pow_succ_r' in Hv.
    pose proof (pow256_pos (N.of_nat j)) as Hp.
    assert (Hq : v / 256 ^ N.of_nat j < 256) by (apply N.div_lt_upper_bound; lia).
    rewrite (N.mod_small _ _ Hq).
    rewrite be_bytes_mod, IH by (apply N.mod_lt; lia).
    rewrite N.mul_comm. symmetry. apply N.div_mod. lia.
Qed.

Lemma be_bytes_be_val bs : bytes_ok bs -> be_bytes (length bs) (be_val bs) = bs.
Proof.
  induction bs as [|b r IH]; intros H; [reflexivity|].
  inversion H as [|? ? Hb Hr]; subst.
  cbn [length be_bytes be_val].
  pose proof (be_val_bound r Hr) as Hbd. unfold len in Hbd.
  pose proof (pow256_pos (N.of_nat (length r))) as Hp.
  f_equal.
  - rewrite N.div_add_l by lia. rewrite (N.div_small (be_val r)) by exact Hbd.
    rewrite N.add_0_r. apply N.mod_small. exact Hb.
  - rewrite be_bytes_mod. rewrite N.add_comm, N.mod_add by lia.
    rewrite N.mod_small by exact Hbd. apply IH. exact Hr.
Qed.

(* ---- wrap / sub64 ---- *)
Lemma W64_eq : W64 = 2 ^ 64. Proof. reflexivity. Qed.
Lemma wrap64_small x : x < W64 -> wrap64 x = x.
Proof. intros. unfold wrap64. apply N.mod_small. assumption. Qed.
Lemma wrap_small w x : x < 2 ^ w -> wrap w x = x.
Proof. intros. unfold wrap. apply N.mod_small. assumption. Qed.
Lemma sub64_le a b : b <= a -> sub64 a b = a - b.
Proof. intros H. unfold sub64. apply N.leb_le in H. rewrite H. reflexivity. Qed.
