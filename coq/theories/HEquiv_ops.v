(* Model H, property C17 (whole schedules), part 2: every function of the API model commutes with a
   renaming of addresses - one binary walk over the monadic code, in the style of HStepInv_proofs.kp_* /
   HFrame_proofs.kp2_*, with two computations (the same code applied to renamed arguments) instead of one.
   [kpe0] for the functions that do not allocate (the renaming stays), [kpe] for those that do. *)
From CB Require Import Word Word_proofs PMem PItem HHeap HItems HOps HHist HHist2 HHist3.
From CB Require Import HRef_proofs HCont_proofs HCopy_proofs HFrame_proofs HEquiv_prims.
From Coq Require Import Lia ZArith List.
Import ListNotations.
Local Open Scope N_scope.

(* lift every relational hypothesis (and every chain [ext g f]) along [E : ext f f'] *)
Ltac lift2 E :=
  match type of E with
  | ext ?f ?f' =>
      repeat match goal with
             | H : ?R f ?x ?y |- _ => apply (mono f f' x y E) in H
             | H : ext ?g f |- _ => apply (fun h => ext_trans g f f' h E) in H
             end
  end.
(* the continuation of [kpe_bind]: introduce the new renaming and move everything to it *)
Tactic Notation "ki" simple_intropattern(p1) simple_intropattern(p2) simple_intropattern(h) :=
  let f' := fresh "f" in let E := fresh "E" in intros f' p1 p2 E h; lift2 E.

Ltac fold_R H := match type of H with Forall2 (?R ?f) ?a ?b => change (Rlist R f a b) in H end.
Ltac dn1 n :=
  destruct n as [neg1 iw1 v1|fw1 bits1|v1|text1 data1 bytes1|text1 hdr1 arr1 cap1 chunks1
                |indef1 data1 al1 elems1|indef1 data1 al1 pairs1|v1 c1].
Ltac dn2 n H :=
  destruct n as [neg2 iw2 v2|fw2 bits2|v2|text2 data2 bytes2|text2 hdr2 arr2 cap2 chunks2
                |indef2 data2 al2 elems2|indef2 data2 al2 pairs2|v2 c2];
  cbn [Rn] in H; try (exfalso; exact H).

Lemma Ro_some f a b : Ra f a b -> Ro f (Some a) (Some b).
Proof. intros H. exact H. Qed.
Lemma Ro_none f : Ro f None None.
Proof. exact I. Qed.

(* ---------------- derived rules ---------------- *)
Lemma kpe0_bind_rd {B} f (RB : ren -> B -> B -> Prop) a1 a2 (g1 g2 : N * node -> M B) :
  Ra f a1 a2 -> (forall rc n1 n2, Rn f n1 n2 -> kpe0 f RB (g1 (rc, n1)) (g2 (rc, n2))) ->
  kpe0 f RB (bind (rd_item a1) g1) (bind (rd_item a2) g2).
Proof.
  intros Ha H. eapply kpe0_bind; [apply kpe0_rd; exact Ha|]. intros [rc1 n1] [rc2 n2] [Hrc Hn].
  cbn [fst snd] in *. unfold Req in Hrc. subst rc2. apply H. exact Hn.
Qed.
Lemma kpe_bind_rd {B} f (RB : ren -> B -> B -> Prop) a1 a2 (g1 g2 : N * node -> M B) :
  Ra f a1 a2 -> (forall rc n1 n2, Rn f n1 n2 -> kpe f RB (g1 (rc, n1)) (g2 (rc, n2))) ->
  kpe f RB (bind (rd_item a1) g1) (bind (rd_item a2) g2).
Proof.
  intros Ha H. eapply kpe_bind0; [apply kpe0_rd; exact Ha|]. intros [rc1 n1] [rc2 n2] [Hrc Hn].
  cbn [fst snd] in *. unfold Req in Hrc. subst rc2. apply H. exact Hn.
Qed.
Lemma kpe0_seq {A B} f (RA : ren -> A -> A -> Prop) (RB : ren -> B -> B -> Prop) (m1 m2 : M A) (k1 k2 : M B) :
  kpe0 f RA m1 m2 -> kpe0 f RB k1 k2 -> kpe0 f RB (m1 ;;; k1) (m2 ;;; k2).
Proof. intros H1 H2. eapply kpe0_bind; [exact H1|]. intros _ _ _. exact H2. Qed.
Lemma kpe_seq0 {A B} f (RA : ren -> A -> A -> Prop) (RB : ren -> B -> B -> Prop) (m1 m2 : M A) (k1 k2 : M B) :
  kpe0 f RA m1 m2 -> kpe f RB k1 k2 -> kpe f RB (m1 ;;; k1) (m2 ;;; k2).
Proof. intros H1 H2. eapply kpe_bind0; [exact H1|]. intros _ _ _. exact H2. Qed.

(* ---------------- reference counts ---------------- *)
Lemma kpe0_incref f a1 a2 : Ra f a1 a2 -> kpe0 f Ra (incref a1) (incref a2).
Proof.
  intros Ha. unfold incref. apply kpe0_bind_rd; [exact Ha|]. intros rc n1 n2 Hn. cbn [fst snd].
  eapply kpe0_seq; [apply kpe0_wr; assumption|]. apply kpe0_ret. exact Ha.
Qed.
Lemma kpe0_move f a1 a2 : Ra f a1 a2 -> kpe0 f Ra (move a1) (move a2).
Proof.
  intros Ha. unfold move. apply kpe0_bind_rd; [exact Ha|]. intros rc n1 n2 Hn. cbn [fst snd].
  eapply kpe0_seq; [apply kpe0_wr; assumption|]. apply kpe0_ret. exact Ha.
Qed.

Definition Rt (f : ren) (t1 t2 : task) : Prop :=
  match t1, t2 with
  | TDecref a, TDecref b => Ra f a b
  | TFreeData p, TFreeData q => Ro f p q
  | TFreeItem a, TFreeItem b => Ra f a b
  | _, _ => False
  end.
Notation Rts := (Rlist Rt).

Lemma Rts_decref f l1 l2 : Rl f l1 l2 -> Rts f (map TDecref l1) (map TDecref l2).
Proof. apply Rlist_map. intros x y H. exact H. Qed.

Lemma release_tasks_R f a1 a2 n1 n2 : Ra f a1 a2 -> Rn f n1 n2 -> Rts f (release_tasks a1 n1) (release_tasks a2 n2).
Proof.
  intros Ha Hn. dn1 n1; dn2 n2 Hn; cbn [release_tasks].
  - apply Rlist_one. exact Ha.
  - apply Rlist_one. exact Ha.
  - apply Rlist_one. exact Ha.
  - destruct Hn as (_ & Hd & _). constructor; [exact Hd|]. apply Rlist_one. exact Ha.
  - destruct Hn as (_ & Hh & Har & _ & Hc). apply Rlist_app; [apply Rts_decref; exact Hc|].
    constructor; [exact Har|]. constructor; [exact Hh|]. apply Rlist_one. exact Ha.
  - destruct Hn as (_ & Hd & _ & He). apply Rlist_app; [apply Rts_decref; exact He|].
    constructor; [exact Hd|]. apply Rlist_one. exact Ha.
  - destruct Hn as (_ & Hd & _ & Hp). apply Rlist_app.
    + induction Hp as [|[k1 ov1] [k2 ov2] r1 r2 [Hk Hov] Hr IH]; cbn [flat_map fst snd] in *; [constructor|].
      constructor; [exact Hk|]. apply Rlist_app; [|exact IH].
      destruct ov1 as [x1|], ov2 as [x2|]; try (destruct Hov; fail); [apply Rlist_one; exact Hov|constructor].
    + constructor; [exact Hd|]. apply Rlist_one. exact Ha.
  - destruct Hn as (_ & Hc). apply Rlist_app.
    + destruct c1 as [x1|], c2 as [x2|]; try (destruct Hc; fail); [apply Rlist_one; exact Hc|constructor].
    + constructor; [exact I|]. apply Rlist_one. exact Ha.
Qed.

Lemma kpe0_drain f : forall fuel ts1 ts2, Rts f ts1 ts2 -> kpe0 f Ru (drain fuel ts1) (drain fuel ts2).
Proof.
  induction fuel as [|fu IH]; intros ts1 ts2 Hts; cbn [drain].
  - destruct Hts; [apply kpe0_ret; reflexivity|apply kpe0_fail].
  - destruct Hts as [|t1 t2 r1 r2 Ht Hr]; [apply kpe0_ret; reflexivity|].
    destruct t1 as [a1|p1|a1], t2 as [a2|p2|a2]; try (destruct Ht; fail); cbn [Rt] in Ht.
    + apply kpe0_bind_rd; [exact Ht|]. intros rc n1 n2 Hn. cbn [fst snd].
      eapply kpe0_seq; [apply kpe0_assert|].
      destruct (rc =? 1); (eapply kpe0_seq; [apply kpe0_wr; assumption|]); apply IH.
      * apply Rlist_app; [apply release_tasks_R; assumption|exact Hr].
      * exact Hr.
    + eapply kpe0_seq; [apply kpe0_free; exact Ht|]. apply IH. exact Hr.
    + eapply kpe0_seq; [apply kpe0_free; exact Ht|]. apply IH. exact Hr.
Qed.
Lemma kpe0_decref f a1 a2 : Ra f a1 a2 -> kpe0 f Ru (decref a1) (decref a2).
Proof. intros Ha. apply kpe0_decref_fuel. intros fuel. apply kpe0_drain. apply Rlist_one. exact Ha. Qed.

(* the decoder's stack records, contexts and results *)
Definition Rsrec (f : ren) (r1 r2 : srec) : Prop :=
  Ra f (fst (fst r1)) (fst (fst r2)) /\ Ra f (snd (fst r1)) (snd (fst r2)) /\ snd r1 = snd r2.
Global Instance Mono_srec : Mono Rsrec.
Proof. intros f f' x y E (A & B & C). split; [apply E, A|]. split; [apply E, B|exact C]. Qed.
Notation Rstk := (Rlist Rsrec).
Definition Rctx (f : ren) (c1 c2 : hctx) : Prop :=
  Rstk f (hstack c1) (hstack c2) /\ Ro f (hroot c1) (hroot c2) /\ hcf c1 = hcf c2 /\ hse c1 = hse c2.
Global Instance Mono_ctx : Mono Rctx.
Proof.
  intros f f' x y E (A & B & C & D). split; [eapply (mono (R:=Rstk)); eassumption|].
  split; [eapply (mono (R:=Ro)); eassumption|]. split; assumption.
Qed.
Notation Rhres := (Rprod (Rprod (Rprod Ro (@Req lerr)) (@Req N)) (@Req N)).

(* handle tables *)
Definition Rcs (f : ren) (s1 s2 : cstate) : Prop := Rlist Ro f (handles s1) (handles s2).
Global Instance Mono_cs : Mono Rcs.
Proof. intros f f' x y E H. unfold Rcs in *. eapply (mono (R:=Rlist Ro)); eassumption. Qed.
Definition Rcs3 (f : ren) (s1 s2 : cstate3) : Prop := Rcs f (base s1) (base s2) /\ Rl f (unset s1) (unset s2).
Global Instance Mono_cs3 : Mono Rcs3.
Proof.
  intros f f' x y E [A B]. split; [eapply (mono (R:=Rcs)); eassumption|eapply (mono (R:=Rl)); eassumption].
Qed.
Notation Rso := (Rprod Rcs (@Req out)).
Notation Rso3 := (Rprod Rcs3 (@Req out3)).

Lemma Rcs_hget f s1 s2 : Rcs f s1 s2 -> forall h, Ro f (hget s1 h) (hget s2 h).
Proof.
  intros H h. unfold hget. pose proof (Rlist_nth _ _ _ _ H h) as Hn.
  destruct (nth_error (handles s1) h) as [o1|], (nth_error (handles s2) h) as [o2|]; try (destruct Hn; fail); [|exact I].
  cbn [Roption] in Hn. destruct o1, o2; try (destruct Hn; fail); [exact Hn|exact I].
Qed.
Lemma Rcs_hpush f s1 s2 o1 o2 : Rcs f s1 s2 -> Ro f o1 o2 -> Rcs f (hpush s1 o1) (hpush s2 o2).
Proof. intros H Ho. unfold Rcs, hpush. cbn [handles]. apply Rlist_app; [exact H|apply Rlist_one; exact Ho]. Qed.

(* the [unset] table: membership and removal commute with an injective renaming *)
Lemma memN_R f a1 a2 l1 l2 : inj f -> Ra f a1 a2 -> Rl f l1 l2 -> memN a1 l1 = memN a2 l2.
Proof.
  intros Hi Ha Hl. induction Hl as [|x y r1 r2 Hx Hr IH]; [reflexivity|]. unfold memN in *. cbn [existsb]. rewrite IH.
  f_equal. destruct (N.eqb_spec a1 x) as [->|Hne].
  - unfold Ra in *. rewrite Ha in Hx. injection Hx as ->. symmetry. apply N.eqb_refl.
  - symmetry. apply N.eqb_neq. intros ->. apply Hne. eapply Hi; eassumption.
Qed.
Lemma remN_R f a1 a2 l1 l2 : inj f -> Ra f a1 a2 -> Rl f l1 l2 -> Rl f (remN a1 l1) (remN a2 l2).
Proof.
  intros Hi Ha Hl. induction Hl as [|x y r1 r2 Hx Hr IH]; [constructor|]. unfold remN in *. cbn [filter].
  assert (E : (x =? a1) = (y =? a2)).
  { destruct (N.eqb_spec x a1) as [->|Hne].
    - unfold Ra in *. rewrite Ha in Hx. injection Hx as ->. symmetry. apply N.eqb_refl.
    - symmetry. apply N.eqb_neq. intros ->. apply Hne. eapply Hi; eassumption. }
  rewrite <- E. destruct (x =? a1); cbn [negb]; [exact IH|constructor; assumption].
Qed.
Lemma is_set_R f s1 s2 h : inj f -> Rcs3 f s1 s2 -> is_set s1 h = is_set s2 h.
Proof.
  intros Hi [Hs Hu]. unfold is_set. pose proof (Rcs_hget _ _ _ Hs h) as Hh.
  destruct (hget (base s1) h) as [a1|], (hget (base s2) h) as [a2|]; try (destruct Hh; fail); [|reflexivity].
  f_equal. eapply memN_R; eassumption.
Qed.
Lemma forallb_is_set f s1 s2 l : inj f -> Rcs3 f s1 s2 -> forallb (is_set s1) l = forallb (is_set s2) l.
Proof. intros Hi Hs. induction l as [|h r IH]; [reflexivity|]. cbn [forallb]. rewrite IH, (is_set_R f s1 s2 h Hi Hs). reflexivity. Qed.

(* the observations of HHist3 do not depend on addresses *)
Lemma node_kind_R f n1 n2 : Rn f n1 n2 -> node_kind n1 = node_kind n2.
Proof.
  intros H. destruct n1, n2; cbn [Rn] in H; try (exfalso; exact H); cbn [node_kind].
  - destruct H as (<- & _). reflexivity.
  - reflexivity.
  - reflexivity.
  - destruct H as (<- & _). reflexivity.
  - destruct H as (<- & _). reflexivity.
  - reflexivity.
  - reflexivity.
  - reflexivity.
Qed.
Lemma preds_of_R f rc n1 n2 : Rn f n1 n2 -> preds_of rc n1 = preds_of rc n2.
Proof.
  intros H. unfold preds_of. rewrite (node_kind_R f n1 n2 H).
  destruct n1, n2; cbn [Rn] in H; try (exfalso; exact H); cbn [meta_of].
  - destruct H as (<- & <- & <-). reflexivity.
  - destruct H as (<- & <-). reflexivity.
  - subst. reflexivity.
  - destruct H as (<- & _ & <-). reflexivity.
  - destruct H as (<- & _ & _ & <- & Hc). rewrite (Rlist_len _ _ _ _ Hc). reflexivity.
  - destruct H as (<- & _ & <- & He). rewrite (Rlist_len _ _ _ _ He). reflexivity.
  - destruct H as (<- & _ & <- & Hp). rewrite (Rlist_len _ _ _ _ Hp). reflexivity.
  - destruct H as (<- & _). reflexivity.
Qed.
Lemma values_of_R f n1 n2 : Rn f n1 n2 -> values_of n1 = values_of n2.
Proof.
  intros H. destruct n1, n2; cbn [Rn] in H; try (exfalso; exact H); cbn [values_of]; try reflexivity.
  - destruct H as (<- & <- & <-). reflexivity.
  - destruct H as (<- & <-). reflexivity.
  - subst. reflexivity.
Qed.

Section Ops.
Variable refuse : N -> N -> bool.
Hypothesis refuse_ii : forall i j sz, refuse i sz = refuse j sz.

Notation kmalloc := (kpe_malloc refuse refuse_ii).
Notation krealloc := (kpe_realloc refuse refuse_ii).

(* ---------------- containers ---------------- *)
Notation Rgrow := (Roption (Rprod (@Req N) Ra)).
Lemma kpe_grow f d1 d2 isz al : Ro f d1 d2 -> kpe f Rgrow (grow refuse d1 isz al) (grow refuse d2 isz al).
Proof.
  intros Hd. unfold grow.
  destruct (grow_capacity 64 al) as [c0|]; [|apply kpe_ret; exact I].
  destruct (alloc_multiple_req 64 isz c0) as [b0|]; [|apply kpe_ret; exact I].
  eapply kpe_bind; [apply krealloc; exact Hd|]. ki [x1|] [x2|] Hr; try (destruct Hr; fail); apply kpe_ret.
  - split; [reflexivity|exact Hr].
  - exact I.
Qed.

(* the state after the optional growth: (block, capacity) *)
Notation Rst := (Roption (Rprod Ro (@Req N))).

Lemma kpe_array_push f a1 a2 x1 x2 : Ra f a1 a2 -> Ra f x1 x2 ->
  kpe f Req (array_push refuse a1 x1) (array_push refuse a2 x2).
Proof.
  intros Ha Hx. unfold array_push. apply kpe_bind_rd; [exact Ha|]. intros rc n1 n2 Hn. cbn [fst snd].
  dn1 n1; try apply kpe_fail. dn2 n2 Hn. destruct Hn as (<- & Hd & <- & He).
  rewrite (Rlist_len _ _ _ _ He). destruct indef1.
  - eapply kpe_bind with (RA := Rst).
    + destruct (al1 <=? len elems1).
      * eapply kpe_bind; [apply kpe_grow; exact Hd|]. ki [[c1 d1']|] [[c2 d2']|] Hg; try (destruct Hg; fail); apply kpe_ret.
        -- destruct Hg as [Hc Hd']. cbn [fst snd] in *. split; [exact Hd'|exact Hc].
        -- exact I.
      * apply kpe_ret. split; [exact Hd|reflexivity].
    + ki [[d1' c1']|] [[d2' c2']|] Hst; try (destruct Hst; fail); [|apply kpe_ret; reflexivity].
      destruct Hst as [Hd' Hc]. cbn [fst snd] in *. unfold Req in Hc. subst c2'.
      eapply kpe_seq0; [apply kpe0_touch; exact Hd'|].
      eapply kpe_seq0; [apply kpe0_wr; [exact Ha|]|].
      { cbn [Rn]. repeat split; try assumption. apply Rlist_app; [exact He|apply Rlist_one; exact Hx]. }
      eapply kpe_seq0; [apply kpe0_incref; exact Hx|]. apply kpe_ret. reflexivity.
  - destruct (al1 <=? len elems1); [apply kpe_ret; reflexivity|].
    eapply kpe_seq0; [apply kpe0_touch; exact Hd|].
    eapply kpe_seq0; [apply kpe0_wr; [exact Ha|]|].
    { cbn [Rn]. repeat split; try assumption. apply Rlist_app; [exact He|apply Rlist_one; exact Hx]. }
    eapply kpe_seq0; [apply kpe0_incref; exact Hx|]. apply kpe_ret. reflexivity.
Qed.

Lemma kpe0_chunk_assert f text x1 x2 : Ra f x1 x2 -> kpe0 f Ru (chunk_assert text x1) (chunk_assert text x2).
Proof.
  intros Hx. unfold chunk_assert. destruct text; [apply kpe0_ret; reflexivity|].
  apply kpe0_bind_rd; [exact Hx|]. intros rc n1 n2 Hn. cbn [snd].
  dn1 n1; dn2 n2 Hn; try apply kpe0_fail.
  - destruct Hn as (<- & _). destruct text1; [apply kpe0_fail|apply kpe0_ret; reflexivity].
  - destruct Hn as (<- & _). destruct text1; apply kpe0_fail.
Qed.

Lemma kpe_add_chunk f a1 a2 x1 x2 : Ra f a1 a2 -> Ra f x1 x2 ->
  kpe f Req (add_chunk refuse a1 x1) (add_chunk refuse a2 x2).
Proof.
  intros Ha Hx. unfold add_chunk. apply kpe_bind_rd; [exact Ha|]. intros rc n1 n2 Hn. cbn [fst snd].
  dn1 n1; try apply kpe_fail. dn2 n2 Hn. destruct Hn as (<- & Hh & Har & <- & Hc).
  rewrite (Rlist_len _ _ _ _ Hc).
  eapply kpe_seq0; [apply kpe0_chunk_assert; exact Hx|].
  eapply kpe_seq0; [apply kpe0_touch; exact Hh|].
  eapply kpe_bind with (RA := Rst).
  - destruct (len chunks1 =? cap1).
    + eapply kpe_bind; [apply kpe_grow; exact Har|]. ki [[c1 d1']|] [[c2 d2']|] Hg; try (destruct Hg; fail).
      * destruct Hg as [Hcc Hd']. cbn [fst snd] in *.
        eapply kpe_seq0; [apply kpe0_touch; exact Hh|]. apply kpe_ret. split; [exact Hd'|exact Hcc].
      * apply kpe_ret. exact I.
    + apply kpe_ret. split; [exact Har|reflexivity].
  - ki [[d1' c1']|] [[d2' c2']|] Hst; try (destruct Hst; fail); [|apply kpe_ret; reflexivity].
    destruct Hst as [Hd' Hcc]. cbn [fst snd] in *. unfold Req in Hcc. subst c2'.
    eapply kpe_seq0; [apply kpe0_incref; exact Hx|].
    eapply kpe_seq0; [apply kpe0_touch; exact Hd'|].
    eapply kpe_seq0; [apply kpe0_touch; exact Hh|].
    eapply kpe_seq0; [apply kpe0_wr; [exact Ha|]|].
    { cbn [Rn]. repeat split; try assumption. apply Rlist_app; [exact Hc|apply Rlist_one; exact Hx]. }
    apply kpe_ret. reflexivity.
Qed.

Lemma kpe0_array_get f a1 a2 i : Ra f a1 a2 -> kpe0 f Ro (array_get a1 i) (array_get a2 i).
Proof.
  intros Ha. unfold array_get. apply kpe0_bind_rd; [exact Ha|]. intros rc n1 n2 Hn. cbn [fst snd].
  dn1 n1; try apply kpe0_fail. dn2 n2 Hn. destruct Hn as (<- & Hd & <- & He).
  rewrite (Rlist_len _ _ _ _ He).
  destruct (len elems1 <=? i); [apply kpe0_ret; exact I|].
  eapply kpe0_seq; [apply kpe0_touch; exact Hd|].
  pose proof (Rlist_nth _ _ _ _ He (N.to_nat i)) as Hn.
  destruct (nth_error elems1 (N.to_nat i)) as [e1|]; [|apply kpe0_fail].
  destruct (nth_error elems2 (N.to_nat i)) as [e2|]; [|destruct Hn]. cbn [Roption] in Hn.
  eapply kpe0_seq; [apply kpe0_incref; exact Hn|]. apply kpe0_ret. exact Hn.
Qed.

Lemma kpe0_array_replace f a1 a2 i x1 x2 : Ra f a1 a2 -> Ra f x1 x2 ->
  kpe0 f Req (array_replace a1 i x1) (array_replace a2 i x2).
Proof.
  intros Ha Hx. unfold array_replace. apply kpe0_bind_rd; [exact Ha|]. intros rc n1 n2 Hn. cbn [fst snd].
  dn1 n1; try apply kpe0_fail. dn2 n2 Hn. destruct Hn as (<- & Hd & <- & He).
  rewrite (Rlist_len _ _ _ _ He).
  destruct (len elems1 <=? i); [apply kpe0_ret; reflexivity|].
  eapply kpe0_seq; [apply kpe0_touch; exact Hd|].
  pose proof (Rlist_nth _ _ _ _ He (N.to_nat i)) as Hn.
  destruct (nth_error elems1 (N.to_nat i)) as [e1|]; [|apply kpe0_fail].
  destruct (nth_error elems2 (N.to_nat i)) as [e2|]; [|destruct Hn]. cbn [Roption] in Hn.
  eapply kpe0_seq; [apply kpe0_decref; exact Hn|].
  eapply kpe0_seq; [apply kpe0_incref; exact Hx|].
  apply kpe0_bind_rd; [exact Ha|]. intros rc' n1' n2' _. cbn [fst snd].
  eapply kpe0_seq; [apply kpe0_touch; exact Hd|].
  eapply kpe0_seq; [apply kpe0_wr; [exact Ha|]|].
  { cbn [Rn]. repeat split; try assumption. apply Rlist_set_nth; assumption. }
  apply kpe0_ret. reflexivity.
Qed.

Lemma kpe_array_set f a1 a2 i x1 x2 : Ra f a1 a2 -> Ra f x1 x2 ->
  kpe f Req (array_set refuse a1 i x1) (array_set refuse a2 i x2).
Proof.
  intros Ha Hx. unfold array_set. apply kpe_bind_rd; [exact Ha|]. intros rc n1 n2 Hn. cbn [fst snd].
  dn1 n1; try apply kpe_fail. dn2 n2 Hn. destruct Hn as (<- & Hd & <- & He).
  rewrite (Rlist_len _ _ _ _ He).
  destruct (i =? len elems1); [apply kpe_array_push; assumption|].
  destruct (i <? len elems1); [apply kpe0_kpe, kpe0_array_replace; assumption|apply kpe_ret; reflexivity].
Qed.

Lemma kpe_map_add_key f a1 a2 k1 k2 : Ra f a1 a2 -> Ra f k1 k2 ->
  kpe f Req (map_add_key refuse a1 k1) (map_add_key refuse a2 k2).
Proof.
  intros Ha Hk. unfold map_add_key. apply kpe_bind_rd; [exact Ha|]. intros rc n1 n2 Hn. cbn [fst snd].
  dn1 n1; try apply kpe_fail. dn2 n2 Hn. destruct Hn as (<- & Hd & <- & Hp).
  rewrite (Rlist_len _ _ _ _ Hp).
  assert (Hnew : forall g, ext f g -> Rp g (pairs1 ++ [(k1, None)]) (pairs2 ++ [(k2, None)])).
  { intros g Eg. lift2 Eg. apply Rlist_app; [exact Hp|]. apply Rlist_one. split; [exact Hk|exact I]. }
  destruct indef1.
  - eapply kpe_bind with (RA := Rst).
    + destruct (al1 <=? len pairs1).
      * eapply kpe_bind; [apply kpe_grow; exact Hd|]. ki [[c1 d1']|] [[c2 d2']|] Hg; try (destruct Hg; fail); apply kpe_ret.
        -- destruct Hg as [Hc Hd']. cbn [fst snd] in *. split; [exact Hd'|exact Hc].
        -- exact I.
      * apply kpe_ret. split; [exact Hd|reflexivity].
    + ki [[d1' c1']|] [[d2' c2']|] Hst; try (destruct Hst; fail); [|apply kpe_ret; reflexivity].
      destruct Hst as [Hd' Hc]. cbn [fst snd] in *. unfold Req in Hc. subst c2'.
      eapply kpe_seq0; [apply kpe0_touch; exact Hd'|].
      eapply kpe_seq0; [apply kpe0_wr; [exact Ha|]|].
      { cbn [Rn]. repeat split; try assumption. apply Hnew. assumption. }
      eapply kpe_seq0; [apply kpe0_incref; exact Hk|]. apply kpe_ret. reflexivity.
  - destruct (al1 <=? len pairs1); [apply kpe_ret; reflexivity|].
    eapply kpe_seq0; [apply kpe0_touch; exact Hd|].
    eapply kpe_seq0; [apply kpe0_wr; [exact Ha|]|].
    { cbn [Rn]. repeat split; try assumption. apply Hnew. apply ext_refl. }
    eapply kpe_seq0; [apply kpe0_incref; exact Hk|]. apply kpe_ret. reflexivity.
Qed.

Lemma kpe0_map_add_value f a1 a2 x1 x2 : Ra f a1 a2 -> Ra f x1 x2 ->
  kpe0 f Req (map_add_value a1 x1) (map_add_value a2 x2).
Proof.
  intros Ha Hx. unfold map_add_value.
  eapply kpe0_seq; [apply kpe0_incref; exact Hx|].
  apply kpe0_bind_rd; [exact Ha|]. intros rc n1 n2 Hn. cbn [fst snd].
  dn1 n1; try apply kpe0_fail. dn2 n2 Hn. destruct Hn as (<- & Hd & <- & Hp).
  apply Rlist_rev in Hp.
  destruct Hp as [|[k1 o1] [k2 o2] rp1 rp2 [Hk _] Hrp]; [apply kpe0_fail|]. cbn [fst snd] in Hk.
  eapply kpe0_seq; [apply kpe0_touch; exact Hd|].
  eapply kpe0_seq; [apply kpe0_wr; [exact Ha|]|].
  { cbn [Rn]. repeat split; try assumption. apply Rlist_app; [apply Rlist_rev; exact Hrp|].
    apply Rlist_one. split; [exact Hk|exact Hx]. }
  apply kpe0_ret. reflexivity.
Qed.

Lemma kpe_map_add f a1 a2 k1 k2 v1 v2 : Ra f a1 a2 -> Ra f k1 k2 -> Ra f v1 v2 ->
  kpe f Req (map_add refuse a1 k1 v1) (map_add refuse a2 k2 v2).
Proof.
  intros Ha Hk Hv. unfold map_add. eapply kpe_bind; [apply kpe_map_add_key; assumption|].
  ki ok1 ok2 Hok. unfold Req in Hok. subst ok2.
  destruct ok1; [apply kpe0_kpe, kpe0_map_add_value; assumption|apply kpe_ret; reflexivity].
Qed.

(* ---------------- tags ---------------- *)
Lemma kpe_new_tag f v : kpe f Ro (new_tag refuse v) (new_tag refuse v).
Proof. apply kmalloc. cbn [Rcl Rn]. repeat split. Qed.
Lemma kpe0_tag_set f t1 t2 x1 x2 : Ra f t1 t2 -> Ra f x1 x2 -> kpe0 f Ru (tag_set_item t1 x1) (tag_set_item t2 x2).
Proof.
  intros Ht Hx. unfold tag_set_item. eapply kpe0_seq; [apply kpe0_incref; exact Hx|].
  apply kpe0_bind_rd; [exact Ht|]. intros rc n1 n2 Hn. cbn [fst snd].
  dn1 n1; try apply kpe0_fail. dn2 n2 Hn. destruct Hn as (<- & _).
  apply kpe0_wr; [exact Ht|]. cbn [Rn]. split; [reflexivity|exact Hx].
Qed.
Lemma kpe0_tag_item f t1 t2 : Ra f t1 t2 -> kpe0 f Ra (tag_item t1) (tag_item t2).
Proof.
  intros Ht. unfold tag_item. apply kpe0_bind_rd; [exact Ht|]. intros rc n1 n2 Hn. cbn [fst snd].
  dn1 n1; try apply kpe0_fail. dn2 n2 Hn. destruct Hn as (<- & Hc).
  destruct c1 as [y1|], c2 as [y2|]; try (destruct Hc; fail); [|apply kpe0_fail]. apply kpe0_incref. exact Hc.
Qed.
Lemma kpe_build_tag f v x1 x2 : Ra f x1 x2 -> kpe f Ro (build_tag refuse v x1) (build_tag refuse v x2).
Proof.
  intros Hx. unfold build_tag. eapply kpe_bind; [apply kpe_new_tag|].
  ki [t1|] [t2|] Ht; try (destruct Ht; fail); [|apply kpe_ret; exact I].
  eapply kpe_seq0; [apply kpe0_tag_set; [exact Ht|exact Hx]|]. apply kpe_ret. exact Ht.
Qed.

(* ---------------- constructors ---------------- *)
Lemma kpe_build_int f neg iw v : kpe f Ro (build_int refuse neg iw v) (build_int refuse neg iw v).
Proof. apply kmalloc. cbn [Rcl Rn]. repeat split. Qed.
Lemma kpe_build_float f fw b : kpe f Ro (build_float refuse fw b) (build_float refuse fw b).
Proof. apply kmalloc. cbn [Rcl Rn]. repeat split. Qed.
Lemma kpe_build_ctrl f v : kpe f Ro (build_ctrl refuse v) (build_ctrl refuse v).
Proof. apply kmalloc. cbn [Rcl Rn]. repeat split. Qed.
Lemma kpe_new_definite_string f text : kpe f Ro (new_definite_string refuse text) (new_definite_string refuse text).
Proof. apply kmalloc. cbn [Rcl Rn]. repeat split. Qed.
Lemma kpe_malloc_data f sz : kpe f Ro (malloc refuse sz (CData sz)) (malloc refuse sz (CData sz)).
Proof. apply kmalloc. reflexivity. Qed.

(* allocate the item, then its block; on failure free the item *)
Lemma kpe_ctor2 f (n0 : node) (sz : N) (mk : addr -> node) :
  (forall g, Rn g n0 n0) -> (forall g d1 d2, Ra g d1 d2 -> Rn g (mk d1) (mk d2)) ->
  let m := (it <- malloc refuse SZ_ITEM (CItem 1 n0) ;;
      match it with
      | None => ret None
      | Some a =>
          d <- malloc refuse sz (CData sz) ;;
          match d with
          | None => free (Some a) ;;; ret None
          | Some p => wr_item a 1 (mk p) ;;; ret (Some a)
          end
      end) in kpe f Ro m m.
Proof.
  intros H0 Hmk m. unfold m. eapply kpe_bind; [apply kmalloc; split; [reflexivity|apply H0]|].
  ki [a1|] [a2|] Ha; try (destruct Ha; fail); [|apply kpe_ret; exact I].
  eapply kpe_bind; [apply kpe_malloc_data|]. ki [p1|] [p2|] Hp; try (destruct Hp; fail).
  - eapply kpe_seq0; [apply kpe0_wr; [exact Ha|apply Hmk; exact Hp]|]. apply kpe_ret. exact Ha.
  - eapply kpe_seq0; [apply kpe0_free; exact Ha|]. apply kpe_ret. exact I.
Qed.

Lemma kpe_build_string f text bytes : kpe f Ro (build_string refuse text bytes) (build_string refuse text bytes).
Proof.
  unfold build_string, new_definite_string.
  apply (kpe_ctor2 f (NStr text None []) (len bytes) (fun d => NStr text (Some d) bytes)).
  - intros g. cbn [Rn]. repeat split.
  - intros g d1 d2 Hd. cbn [Rn]. repeat split. exact Hd.
Qed.
Lemma kpe_new_indefinite_string f text : kpe f Ro (new_indefinite_string refuse text) (new_indefinite_string refuse text).
Proof.
  unfold new_indefinite_string.
  apply (kpe_ctor2 f (NStr text None []) SZ_ISD (fun h => NChunked text h None 0 [])).
  - intros g. cbn [Rn]. repeat split.
  - intros g d1 d2 Hd. cbn [Rn]. repeat split; [exact Hd|constructor].
Qed.
Lemma kpe_new_definite_array f n : kpe f Ro (new_definite_array refuse n) (new_definite_array refuse n).
Proof.
  unfold new_definite_array.
  eapply kpe_bind; [apply kmalloc; cbn [Rcl Rn]; repeat split; constructor|].
  ki [a1|] [a2|] Ha; try (destruct Ha; fail); [|apply kpe_ret; exact I].
  destruct (alloc_multiple_req 64 SZ_PTR n) as [bytes|].
  - eapply kpe_bind; [apply kpe_malloc_data|]. ki [p1|] [p2|] Hp; try (destruct Hp; fail).
    + eapply kpe_seq0; [apply kpe0_wr; [exact Ha|]|]. { cbn [Rn]. repeat split; [exact Hp|constructor]. }
      apply kpe_ret. exact Ha.
    + eapply kpe_seq0; [apply kpe0_free; exact Ha|]. apply kpe_ret. exact I.
  - eapply kpe_seq0; [apply kpe0_free; exact Ha|]. apply kpe_ret. exact I.
Qed.
Lemma kpe_new_definite_map f n : kpe f Ro (new_definite_map refuse n) (new_definite_map refuse n).
Proof.
  unfold new_definite_map.
  eapply kpe_bind; [apply kmalloc; cbn [Rcl Rn]; repeat split; constructor|].
  ki [a1|] [a2|] Ha; try (destruct Ha; fail); [|apply kpe_ret; exact I].
  destruct (alloc_multiple_req 64 SZ_PAIR n) as [bytes|].
  - eapply kpe_bind; [apply kpe_malloc_data|]. ki [p1|] [p2|] Hp; try (destruct Hp; fail).
    + eapply kpe_seq0; [apply kpe0_wr; [exact Ha|]|]. { cbn [Rn]. repeat split; [exact Hp|constructor]. }
      apply kpe_ret. exact Ha.
    + eapply kpe_seq0; [apply kpe0_free; exact Ha|]. apply kpe_ret. exact I.
  - eapply kpe_seq0; [apply kpe0_free; exact Ha|]. apply kpe_ret. exact I.
Qed.
Lemma kpe_new_indefinite_array f : kpe f Ro (new_indefinite_array refuse) (new_indefinite_array refuse).
Proof. apply kmalloc. cbn [Rcl Rn]. repeat split. constructor. Qed.
Lemma kpe_new_indefinite_map f : kpe f Ro (new_indefinite_map refuse) (new_indefinite_map refuse).
Proof. apply kmalloc. cbn [Rcl Rn]. repeat split. constructor. Qed.

(* ---------------- read-only traversal, serialization ---------------- *)
Lemma kpe0_mapM {A B} f (RA : ren -> A -> A -> Prop) (g1 g2 : A -> M B) l1 l2 :
  Rlist RA f l1 l2 -> (forall x y, RA f x y -> kpe0 f Req (g1 x) (g2 y)) -> kpe0 f Req (mapM g1 l1) (mapM g2 l2).
Proof.
  intros Hl Hg. induction Hl as [|x y r1 r2 Hx Hr IH]; cbn [mapM]; [apply kpe0_ret; reflexivity|].
  eapply kpe0_bind; [apply Hg; exact Hx|]. intros b1 b2 Hb. unfold Req in Hb. subst b2.
  eapply kpe0_bind; [exact IH|]. intros bs1 bs2 Hbs. unfold Req in Hbs. subst bs2. apply kpe0_ret. reflexivity.
Qed.

Lemma kpe0_str_guard f (bytes : list N) d1 d2 : Ro f d1 d2 ->
  kpe0 f Ru (if len bytes =? 0 then ret tt else touch_data false d1) (if len bytes =? 0 then ret tt else touch_data false d2).
Proof. intros H. destruct (len bytes =? 0); [apply kpe0_ret; reflexivity|apply kpe0_touch; exact H]. Qed.
Lemma kpe0_list_guard {X} f (R : ren -> X -> X -> Prop) (l1 l2 : list X) d1 d2 : Rlist R f l1 l2 -> Ro f d1 d2 ->
  kpe0 f Ru (match l1 with [] => ret tt | _ => touch_data false d1 end) (match l2 with [] => ret tt | _ => touch_data false d2 end).
Proof. intros Hl H. destruct Hl; [apply kpe0_ret; reflexivity|apply kpe0_touch; exact H]. Qed.

Lemma kpe0_chunk_bytes f tx a1 a2 : Ra f a1 a2 -> kpe0 f Req (chunk_bytes tx a1) (chunk_bytes tx a2).
Proof.
  intros Ha. unfold chunk_bytes. apply kpe0_bind_rd; [exact Ha|]. intros rc n1 n2 Hn. cbn [fst snd].
  dn1 n1; dn2 n2 Hn; try apply kpe0_fail.
  - destruct Hn as (<- & Hd & <-). destruct (Bool.eqb text1 tx); [|apply kpe0_fail].
    eapply kpe0_seq; [apply kpe0_str_guard; exact Hd|]. apply kpe0_ret. reflexivity.
  - destruct Hn as (<- & _). destruct (Bool.eqb text1 tx); apply kpe0_fail.
Qed.

Lemma kpe0_abs f : forall F1 F2, (F1 <= F2)%nat -> forall a1 a2, Ra f a1 a2 -> kpe0 f Req (abs F1 a1) (abs F2 a2).
Proof.
  induction F1 as [|f1 IH]; intros F2 Le a1 a2 Ha; [apply kpe0_fail|].
  destruct F2 as [|f2]; [lia|]. assert (Le' : (f1 <= f2)%nat) by lia. specialize (IH f2 Le').
  cbn [abs]. apply kpe0_bind_rd; [exact Ha|]. intros rc n1 n2 Hn. cbn [fst snd].
  dn1 n1; dn2 n2 Hn.
  - destruct Hn as (<- & <- & <-). apply kpe0_ret. reflexivity.
  - destruct Hn as (<- & <-). apply kpe0_ret. reflexivity.
  - subst v2. apply kpe0_ret. reflexivity.
  - destruct Hn as (<- & Hd & <-). eapply kpe0_seq; [apply kpe0_str_guard; exact Hd|]. apply kpe0_ret. reflexivity.
  - destruct Hn as (<- & Hh & Har & <- & Hc).
    eapply kpe0_seq; [apply kpe0_touch; exact Hh|].
    eapply kpe0_seq; [eapply kpe0_list_guard; [exact Hc|exact Har]|].
    eapply kpe0_bind; [eapply kpe0_mapM; [exact Hc|intros x y Hx; apply kpe0_chunk_bytes; exact Hx]|].
    intros cs1 cs2 Hcs. unfold Req in Hcs. subst cs2. apply kpe0_ret. reflexivity.
  - destruct Hn as (<- & Hd & <- & He).
    eapply kpe0_seq; [eapply kpe0_list_guard; [exact He|exact Hd]|].
    eapply kpe0_bind; [eapply kpe0_mapM; [exact He|intros x y Hx; apply IH; exact Hx]|].
    intros xs1 xs2 Hxs. unfold Req in Hxs. subst xs2. apply kpe0_ret. reflexivity.
  - destruct Hn as (<- & Hd & <- & Hp).
    eapply kpe0_seq; [eapply kpe0_list_guard; [exact Hp|exact Hd]|].
    eapply kpe0_bind; [eapply kpe0_mapM; [exact Hp|]|].
    { intros [k1 ov1] [k2 ov2] [Hk Hov]. cbn [fst snd] in *.
      eapply kpe0_bind; [apply IH; exact Hk|]. intros kt1 kt2 Hkt. unfold Req in Hkt. subst kt2.
      destruct ov1 as [y1|], ov2 as [y2|]; try (destruct Hov; fail); [|apply kpe0_fail].
      eapply kpe0_bind; [apply IH; exact Hov|]. intros vt1 vt2 Hvt. unfold Req in Hvt. subst vt2.
      apply kpe0_ret. reflexivity. }
    intros kvs1 kvs2 Hkvs. unfold Req in Hkvs. subst kvs2. apply kpe0_ret. reflexivity.
  - destruct Hn as (<- & Hc). destruct c1 as [y1|], c2 as [y2|]; try (destruct Hc; fail); [|apply kpe0_fail].
    eapply kpe0_bind; [apply IH; exact Hc|]. intros t1 t2 Ht. unfold Req in Ht. subst t2. apply kpe0_ret. reflexivity.
Qed.
Lemma kpe0_abs_of f a1 a2 : Ra f a1 a2 -> kpe0 f Req (abs_of a1) (abs_of a2).
Proof.
  intros Ha. apply (kpe0_next_fuel f Req (fun F => abs F a1) (fun F => abs F a2)).
  intros F1 F2 Le. apply kpe0_abs; assumption.
Qed.
Lemma kpe0_ser_size f a1 a2 : Ra f a1 a2 -> kpe0 f Req (serialized_size_h a1) (serialized_size_h a2).
Proof.
  intros Ha. unfold serialized_size_h. eapply kpe0_bind; [apply kpe0_abs_of; exact Ha|].
  intros t1 t2 Ht. unfold Req in Ht. subst t2. apply kpe0_ret. reflexivity.
Qed.
Lemma kpe0_serialize f a1 a2 n : Ra f a1 a2 -> kpe0 f Req (serialize_h a1 n) (serialize_h a2 n).
Proof.
  intros Ha. unfold serialize_h. eapply kpe0_bind; [apply kpe0_abs_of; exact Ha|].
  intros t1 t2 Ht. unfold Req in Ht. subst t2. apply kpe0_ret. reflexivity.
Qed.
Notation Rsa := (Rprod (Rprod (@Req N) Ro) (@Req (list N))).
Lemma kpe_ser_alloc f a1 a2 : Ra f a1 a2 -> kpe f Rsa (serialize_alloc_h refuse a1) (serialize_alloc_h refuse a2).
Proof.
  intros Ha. unfold serialize_alloc_h. eapply kpe_bind0; [apply kpe0_abs_of; exact Ha|].
  intros t1 t2 Ht. unfold Req in Ht. subst t2.
  destruct (ssize t1 =? 0); [apply kpe_ret; repeat split|].
  eapply kpe_bind; [apply kpe_malloc_data|]. ki [p1|] [p2|] Hp; try (destruct Hp; fail); [|apply kpe_ret; repeat split].
  destruct (serialize_into t1 (ssize t1)) as [[wr out]|]; [|apply kpe_fail]. apply kpe_ret. repeat split. exact Hp.
Qed.

(* ---------------- cbor_copy ---------------- *)
Lemma Rlist_cons_inv {A} (R : ren -> A -> A -> Prop) f x l1 l2 : Rlist R f (x :: l1) l2 ->
  exists y l2', l2 = y :: l2' /\ R f x y /\ Rlist R f l1 l2'.
Proof. intros H. inversion H; subst. eauto. Qed.
Lemma Rlist_nil_inv {A} (R : ren -> A -> A -> Prop) f l2 : Rlist R f [] l2 -> l2 = [].
Proof. intros H. inversion H. reflexivity. Qed.

Section CopyLoops.
Variables f1 f2 : nat.
Hypothesis IHc : forall f a1 a2, Ra f a1 a2 -> kpe f Ro (copy refuse f1 a1) (copy refuse f2 a2).

Lemma kpe_chk_loop : forall cs1 cs2 g res1 res2, Ra g res1 res2 -> Rl g cs1 cs2 ->
  kpe g Ro (chk_loop refuse f1 res1 cs1) (chk_loop refuse f2 res2 cs2).
Proof.
  induction cs1 as [|ch1 rest1 IH]; intros cs2 g res1 res2 Hres Hcs.
  { apply Rlist_nil_inv in Hcs. subst cs2. cbn [chk_loop]. apply kpe_ret. exact Hres. }
  destruct (Rlist_cons_inv _ _ _ _ _ Hcs) as (ch2 & rest2 & -> & Hch & Hrest). clear Hcs. cbn [chk_loop].
  eapply kpe_bind; [apply IHc; exact Hch|]. ki [cc1|] [cc2|] Hcc; try (destruct Hcc; fail).
  2:{ eapply kpe_seq0; [apply kpe0_decref; exact Hres|]. apply kpe_ret. exact I. }
  cbn [Roption] in Hcc.
  eapply kpe_bind; [apply kpe_add_chunk; assumption|]. ki ok1 ok2 Hok. unfold Req in Hok. subst ok2. destruct ok1.
  - eapply kpe_seq0; [apply kpe0_decref; exact Hcc|]. apply IH; assumption.
  - eapply kpe_seq0; [apply kpe0_decref; exact Hcc|].
    eapply kpe_seq0; [apply kpe0_decref; exact Hres|]. apply kpe_ret. exact I.
Qed.

Lemma kpe_arr_loop : forall es1 es2 g res1 res2 d1 d2, Ra g res1 res2 -> Ro g d1 d2 -> Rl g es1 es2 ->
  kpe g Ro (arr_loop refuse f1 res1 d1 es1) (arr_loop refuse f2 res2 d2 es2).
Proof.
  induction es1 as [|e1 rest1 IH]; intros es2 g res1 res2 d1 d2 Hres Hd Hes.
  { apply Rlist_nil_inv in Hes. subst es2. cbn [arr_loop]. apply kpe_ret. exact Hres. }
  destruct (Rlist_cons_inv _ _ _ _ _ Hes) as (e2 & rest2 & -> & He & Hrest). clear Hes. cbn [arr_loop].
  eapply kpe_seq0; [apply kpe0_touch; exact Hd|].
  eapply kpe_seq0; [apply kpe0_incref; exact He|].
  eapply kpe_seq0; [apply kpe0_move; exact He|].
  eapply kpe_bind; [apply IHc; exact He|]. ki [cc1|] [cc2|] Hcc; try (destruct Hcc; fail).
  2:{ eapply kpe_seq0; [apply kpe0_decref; exact Hres|]. apply kpe_ret. exact I. }
  cbn [Roption] in Hcc.
  eapply kpe_bind; [apply kpe_array_push; assumption|]. ki ok1 ok2 Hok. unfold Req in Hok. subst ok2. destruct ok1.
  - eapply kpe_seq0; [apply kpe0_decref; exact Hcc|]. apply IH; assumption.
  - eapply kpe_seq0; [apply kpe0_decref; exact Hcc|].
    eapply kpe_seq0; [apply kpe0_decref; exact Hres|]. apply kpe_ret. exact I.
Qed.

Lemma kpe_map_loop : forall ps1 ps2 g res1 res2 d1 d2, Ra g res1 res2 -> Ro g d1 d2 -> Rp g ps1 ps2 ->
  kpe g Ro (map_loop refuse f1 res1 d1 ps1) (map_loop refuse f2 res2 d2 ps2).
Proof.
  induction ps1 as [|[k1 ov1] rest1 IH]; intros ps2 g res1 res2 d1 d2 Hres Hd Hps.
  { apply Rlist_nil_inv in Hps. subst ps2. cbn [map_loop]. apply kpe_ret. exact Hres. }
  destruct (Rlist_cons_inv _ _ _ _ _ Hps) as ([k2 ov2] & rest2 & -> & [Hk Hov] & Hrest). clear Hps.
  cbn [fst snd] in Hk, Hov. cbn [map_loop].
  eapply kpe_seq0; [apply kpe0_touch; exact Hd|].
  eapply kpe_bind; [apply IHc; exact Hk|]. ki [kc1|] [kc2|] Hkc; try (destruct Hkc; fail).
  2:{ eapply kpe_seq0; [apply kpe0_decref; exact Hres|]. apply kpe_ret. exact I. }
  cbn [Roption] in Hkc.
  destruct ov1 as [y1|], ov2 as [y2|]; try (destruct Hov; fail); [|apply kpe_fail]. cbn [Roption] in Hov.
  eapply kpe_bind; [apply IHc; exact Hov|]. ki [vc1|] [vc2|] Hvc; try (destruct Hvc; fail).
  2:{ eapply kpe_seq0; [apply kpe0_decref; exact Hres|].
      eapply kpe_seq0; [apply kpe0_decref; exact Hkc|]. apply kpe_ret. exact I. }
  cbn [Roption] in Hvc.
  eapply kpe_bind; [apply kpe_map_add; assumption|]. ki ok1 ok2 Hok. unfold Req in Hok. subst ok2. destruct ok1.
  - eapply kpe_seq0; [apply kpe0_decref; exact Hkc|].
    eapply kpe_seq0; [apply kpe0_decref; exact Hvc|]. apply IH; assumption.
  - eapply kpe_seq0; [apply kpe0_decref; exact Hres|].
    eapply kpe_seq0; [apply kpe0_decref; exact Hkc|].
    eapply kpe_seq0; [apply kpe0_decref; exact Hvc|]. apply kpe_ret. exact I.
Qed.
End CopyLoops.

Lemma kpe_copy : forall F1 F2, (F1 <= F2)%nat -> forall f a1 a2, Ra f a1 a2 ->
  kpe f Ro (copy refuse F1 a1) (copy refuse F2 a2).
Proof.
  induction F1 as [|f1 IH]; intros F2 Le f a1 a2 Ha; [apply kpe_fail|].
  destruct F2 as [|f2]; [lia|]. assert (Le' : (f1 <= f2)%nat) by lia. specialize (IH f2 Le').
  cbn [copy]. apply kpe_bind_rd; [exact Ha|]. intros rc n1 n2 Hn. cbn [fst snd].
  dn1 n1; dn2 n2 Hn.
  - destruct Hn as (<- & <- & <-). apply kpe_build_int.
  - destruct Hn as (<- & <-). apply kpe_build_float.
  - subst v2. apply kpe_build_ctrl.
  - destruct Hn as (<- & Hd & <-). eapply kpe_seq0; [apply kpe0_str_guard; exact Hd|]. apply kpe_build_string.
  - destruct Hn as (<- & Hh & Har & <- & Hc).
    eapply kpe_bind; [apply kpe_new_indefinite_string|]. ki [res1|] [res2|] Hres; try (destruct Hres; fail); [|apply kpe_ret; exact I].
    cbn [Roption] in Hres.
    match goal with |- kpe ?g _ _ _ => change (kpe g Ro (chk_loop refuse f1 res1 chunks1) (chk_loop refuse f2 res2 chunks2)) end.
    apply kpe_chk_loop; assumption.
  - destruct Hn as (<- & Hd & <- & He). rewrite (Rlist_len _ _ _ _ He).
    eapply kpe_bind; [destruct indef1; [apply kpe_new_indefinite_array|apply kpe_new_definite_array]|].
    ki [res1|] [res2|] Hres; try (destruct Hres; fail); [|apply kpe_ret; exact I]. cbn [Roption] in Hres.
    match goal with |- kpe ?g _ _ _ => change (kpe g Ro (arr_loop refuse f1 res1 data1 elems1) (arr_loop refuse f2 res2 data2 elems2)) end.
    apply kpe_arr_loop; assumption.
  - destruct Hn as (<- & Hd & <- & Hp). rewrite (Rlist_len _ _ _ _ Hp).
    eapply kpe_bind; [destruct indef1; [apply kpe_new_indefinite_map|apply kpe_new_definite_map]|].
    ki [res1|] [res2|] Hres; try (destruct Hres; fail); [|apply kpe_ret; exact I]. cbn [Roption] in Hres.
    match goal with |- kpe ?g _ _ _ => change (kpe g Ro (map_loop refuse f1 res1 data1 pairs1) (map_loop refuse f2 res2 data2 pairs2)) end.
    apply kpe_map_loop; assumption.
  - destruct Hn as (<- & Hc). destruct c1 as [y1|], c2 as [y2|]; try (destruct Hc; fail); [|apply kpe_fail].
    cbn [Roption] in Hc.
    eapply kpe_seq0; [apply kpe0_incref; exact Hc|].
    eapply kpe_seq0; [apply kpe0_move; exact Hc|].
    eapply kpe_bind; [apply IH; exact Hc|]. ki [ic1|] [ic2|] Hic; try (destruct Hic; fail); [|apply kpe_ret; exact I].
    cbn [Roption] in Hic.
    eapply kpe_bind; [apply kpe_build_tag; exact Hic|]. ki t1 t2 Ht.
    eapply kpe_seq0; [apply kpe0_decref; exact Hic|]. apply kpe_ret. exact Ht.
Qed.
Lemma kpe_copy_h f a1 a2 : Ra f a1 a2 -> kpe f Ro (copy_h refuse a1) (copy_h refuse a2).
Proof.
  intros Ha. apply (kpe_next_fuel f Ro (fun F => copy refuse F a1) (fun F => copy refuse F a2)).
  intros F1 F2 Le. apply kpe_copy; assumption.
Qed.

(* ---------------- cbor_load ---------------- *)
Variable L : N.

Lemma kpe0_stack_pop f r1 r2 : Rsrec f r1 r2 -> kpe0 f Ru (stack_pop r1) (stack_pop r2).
Proof. intros (H & _ & _). unfold stack_pop. apply kpe0_free. exact H. Qed.

Lemma Rctx_mk f stk1 stk2 cf se : Rstk f stk1 stk2 -> Rctx f (mkhctx stk1 None cf se) (mkhctx stk2 None cf se).
Proof. intros H. split; [exact H|]. split; [exact I|]. split; reflexivity. Qed.

Lemma kpe_done f it1 it2 stk1 stk2 cf se : Ra f it1 it2 -> Rstk f stk1 stk2 ->
  kpe f Rctx (decref it1 ;;; ret (mkhctx stk1 None cf se)) (decref it2 ;;; ret (mkhctx stk2 None cf se)).
Proof. intros Hit Hs. eapply kpe_seq0; [apply kpe0_decref; exact Hit|]. apply kpe_ret. apply Rctx_mk. exact Hs. Qed.

Lemma Rstk_cons f rec1 rec2 top1 top2 sub rest1 rest2 : Ra f rec1 rec2 -> Ra f top1 top2 -> Rstk f rest1 rest2 ->
  Rstk f ((rec1, top1, sub) :: rest1) ((rec2, top2, sub) :: rest2).
Proof. intros H1 H2 H3. constructor; [|exact H3]. split; [exact H1|]. split; [exact H2|reflexivity]. Qed.

Lemma kpe_happend : forall stk1 stk2 f it1 it2, Ra f it1 it2 -> Rstk f stk1 stk2 ->
  kpe f Rctx (happend refuse it1 stk1) (happend refuse it2 stk2).
Proof.
  induction stk1 as [|[[rec1 top1] sub1] rest1 IH]; intros stk2 f it1 it2 Hit Hs.
  { apply Rlist_nil_inv in Hs. subst stk2. cbn [happend]. apply kpe_ret.
    split; [constructor|]. split; [exact Hit|]. split; reflexivity. }
  destruct (Rlist_cons_inv _ _ _ _ _ Hs) as ([[rec2 top2] sub2] & rest2 & -> & (Hrec & Htop & Hsub) & Hrest).
  cbn [fst snd] in Hrec, Htop, Hsub. subst sub2. cbn [happend].
  assert (Hpop : forall g, ext f g ->
            kpe g Rctx (stack_pop (rec1, top1, sub1) ;;; happend refuse top1 rest1)
                       (stack_pop (rec2, top2, sub1) ;;; happend refuse top2 rest2)).
  { intros g Eg. lift2 Eg. eapply kpe_seq0; [apply kpe0_stack_pop; repeat split; assumption|]. apply IH; assumption. }
  apply kpe_bind_rd; [exact Htop|]. intros rc n1 n2 Hn. cbn [fst snd].
  dn1 n1; dn2 n2 Hn; try (apply kpe_done; assumption).
  - destruct Hn as (<- & _). destruct indef1.
    + eapply kpe_bind; [apply kpe_array_push; assumption|]. ki ok1 ok2 Hok. unfold Req in Hok. subst ok2.
      eapply kpe_seq0; [apply kpe0_decref; exact Hit|]. apply kpe_ret. apply Rctx_mk. exact Hs.
    + eapply kpe_seq0; [apply kpe0_assert|].
      eapply kpe_bind; [apply kpe_array_push; assumption|]. ki ok1 ok2 Hok. unfold Req in Hok. subst ok2.
      destruct (negb ok1); [apply kpe_done; assumption|].
      eapply kpe_seq0; [apply kpe0_decref; exact Hit|].
      destruct (sub64 sub1 1 =? 0); [apply Hpop; assumption|].
      apply kpe_ret. apply Rctx_mk. apply Rstk_cons; assumption.
  - destruct Hn as (<- & _).
    eapply kpe_bind with (RA := Req).
    + destruct (odd sub1).
      * eapply kpe_bind0; [apply kpe0_map_add_value; assumption|]. intros ok1 ok2 Hok. unfold Req in Hok. subst ok2.
        eapply kpe_seq0; [apply kpe0_assert|]. apply kpe_ret. reflexivity.
      * apply kpe_map_add_key; assumption.
    + ki ok1 ok2 Hok. unfold Req in Hok. subst ok2.
      destruct (negb ok1); [apply kpe_done; assumption|].
      eapply kpe_seq0; [apply kpe0_decref; exact Hit|].
      destruct indef1; [apply kpe_ret; apply Rctx_mk; apply Rstk_cons; assumption|].
      eapply kpe_seq0; [apply kpe0_assert|].
      destruct (sub64 sub1 1 =? 0); [apply Hpop; assumption|].
      apply kpe_ret. apply Rctx_mk. apply Rstk_cons; assumption.
  - eapply kpe_seq0; [apply kpe0_assert|].
    eapply kpe_seq0; [apply kpe0_tag_set; assumption|].
    eapply kpe_seq0; [apply kpe0_decref; exact Hit|]. apply Hpop. apply ext_refl.
Qed.

Lemma kpe_push_ctx f res1 res2 sub stk1 stk2 : Ra f res1 res2 -> Rstk f stk1 stk2 ->
  kpe f Rctx (push_ctx refuse L res1 sub stk1) (push_ctx refuse L res2 sub stk2).
Proof.
  intros Hr Hs. unfold push_ctx. rewrite (Rlist_len _ _ _ _ Hs).
  destruct (len stk1 =? L); [apply kpe_done; assumption|].
  eapply kpe_bind; [apply kpe_malloc_data|]. ki [rec1|] [rec2|] Hrec; try (destruct Hrec; fail); [|apply kpe_done; assumption].
  apply kpe_ret. apply Rctx_mk. apply Rstk_cons; assumption.
Qed.

Lemma kpe_cf f stk1 stk2 : Rstk f stk1 stk2 -> kpe f Rctx (ret (cf_ctx stk1)) (ret (cf_ctx stk2)).
Proof. intros Hs. apply kpe_ret. apply Rctx_mk. exact Hs. Qed.

Lemma kpe_leaf_cb f (mk : M (option addr)) stk1 stk2 : (forall g, kpe g Ro mk mk) -> Rstk f stk1 stk2 ->
  kpe f Rctx (leaf_cb refuse mk stk1) (leaf_cb refuse mk stk2).
Proof.
  intros H Hs. unfold leaf_cb. eapply kpe_bind; [apply H|]. ki [a1|] [a2|] Ha; try (destruct Ha; fail); [|apply kpe_cf; exact Hs].
  apply kpe_happend; assumption.
Qed.

Lemma kpe_string_cb f text d stk1 stk2 : Rstk f stk1 stk2 ->
  kpe f Rctx (string_cb refuse text d stk1) (string_cb refuse text d stk2).
Proof.
  intros Hs. unfold string_cb. eapply kpe_bind; [apply kpe_malloc_data|].
  ki [h1|] [h2|] Hh; try (destruct Hh; fail); [|apply kpe_cf; exact Hs].
  eapply kpe_bind; [apply kpe_new_definite_string|]. ki [ch1|] [ch2|] Hc; try (destruct Hc; fail).
  2:{ eapply kpe_seq0; [apply kpe0_free; exact Hh|]. apply kpe_cf. exact Hs. }
  cbn [Roption] in Hc, Hh.
  eapply kpe_seq0; [apply kpe0_wr; [exact Hc|cbn [Rn]; repeat split; exact Hh]|].
  assert (Happ : forall g, Ra g ch1 ch2 -> Rstk g stk1 stk2 -> kpe g Rctx (happend refuse ch1 stk1) (happend refuse ch2 stk2))
    by (intros g H1 H2; apply kpe_happend; assumption).
  specialize (Happ _ Hc Hs).
  destruct Hs as [|[[rec1 top1] sub1] [[rec2 top2] sub2] rest1 rest2 (Hrec & Htop & Hsub) Hrest]; [exact Happ|].
  cbn [fst snd] in Hrec, Htop, Hsub. subst sub2. fold_R Hrest.
  apply kpe_bind_rd; [exact Htop|]. intros rc n1 n2 Hn. cbn [fst snd].
  dn1 n1; dn2 n2 Hn; try exact Happ.
  destruct Hn as (<- & _). destruct (Bool.eqb text1 text); [|exact Happ].
  eapply kpe_bind; [apply kpe_add_chunk; assumption|]. ki ok1 ok2 Hok. unfold Req in Hok. subst ok2.
  eapply kpe_seq0; [apply kpe0_decref; exact Hc|]. apply kpe_ret. apply Rctx_mk. apply Rstk_cons; assumption.
Qed.

Lemma kpe_open f (mk : M (option addr)) sub stk1 stk2 : (forall g, kpe g Ro mk mk) -> Rstk f stk1 stk2 ->
  kpe f Rctx (r <- mk ;; match r with None => ret (cf_ctx stk1) | Some a => push_ctx refuse L a sub stk1 end)
             (r <- mk ;; match r with None => ret (cf_ctx stk2) | Some a => push_ctx refuse L a sub stk2 end).
Proof.
  intros H Hs. eapply kpe_bind; [apply H|]. ki [a1|] [a2|] Ha; try (destruct Ha; fail); [|apply kpe_cf; exact Hs].
  apply kpe_push_ctx; assumption.
Qed.

Lemma kpe_hcallback f tk stk1 stk2 : Rstk f stk1 stk2 ->
  kpe f Rctx (hcallback refuse L tk stk1) (hcallback refuse L tk stk2).
Proof.
  intros Hs. destruct tk; cbn [hcallback].
  - apply kpe_leaf_cb; [intros g; apply kpe_build_int|exact Hs].
  - apply kpe_leaf_cb; [intros g; apply kpe_build_int|exact Hs].
  - apply kpe_string_cb; exact Hs.
  - apply kpe_open; [intros g; apply kpe_new_indefinite_string|exact Hs].
  - apply kpe_string_cb; exact Hs.
  - apply kpe_open; [intros g; apply kpe_new_indefinite_string|exact Hs].
  - eapply kpe_bind; [apply kpe_new_definite_array|]. ki [a1|] [a2|] Ha; try (destruct Ha; fail); [|apply kpe_cf; exact Hs].
    destruct (0 <? n); [apply kpe_push_ctx|apply kpe_happend]; assumption.
  - apply kpe_open; [intros g; apply kpe_new_indefinite_array|exact Hs].
  - eapply kpe_bind; [apply kpe_new_definite_map|]. ki [a1|] [a2|] Ha; try (destruct Ha; fail); [|apply kpe_cf; exact Hs].
    destruct (0 <? n); [apply kpe_push_ctx|apply kpe_happend]; assumption.
  - apply kpe_open; [intros g; apply kpe_new_indefinite_map|exact Hs].
  - apply kpe_open; [intros g; apply kpe_new_tag|exact Hs].
  - apply kpe_leaf_cb; [intros g; apply kpe_build_float|exact Hs].
  - apply kpe_leaf_cb; [intros g; apply kpe_build_ctrl|exact Hs].
  - apply kpe_leaf_cb; [intros g; apply kpe_build_ctrl|exact Hs].
  - apply kpe_leaf_cb; [intros g; apply kpe_build_ctrl|exact Hs].
  - assert (Hse : kpe f Rctx (ret (mkhctx stk1 None false true)) (ret (mkhctx stk2 None false true)))
      by (apply kpe_ret; apply Rctx_mk; exact Hs).
    destruct Hs as [|[[rec1 top1] sub1] [[rec2 top2] sub2] rest1 rest2 (Hrec & Htop & Hsub) Hrest]; [exact Hse|].
    cbn [fst snd] in Hrec, Htop, Hsub. subst sub2.
    apply kpe_bind_rd; [exact Htop|]. intros rc n1 n2 Hn. cbn [fst snd].
    assert (Hcl : forall b : bool, kpe f Rctx
              (if b then stack_pop (rec1, top1, sub1) ;;; happend refuse top1 rest1
               else ret (mkhctx ((rec1, top1, sub1) :: rest1) None false true))
              (if b then stack_pop (rec2, top2, sub1) ;;; happend refuse top2 rest2
               else ret (mkhctx ((rec2, top2, sub1) :: rest2) None false true))).
    { intros [|]; [|exact Hse].
      eapply kpe_seq0; [apply kpe0_stack_pop; repeat split; assumption|]. apply kpe_happend; assumption. }
    dn1 n1; dn2 n2 Hn; try (apply (Hcl false)).
    + apply (Hcl true).
    + destruct Hn as (<- & _). destruct indef1; [apply (Hcl true)|apply (Hcl false)].
    + destruct Hn as (<- & _). destruct indef1; [apply Hcl|apply (Hcl false)].
Qed.

Lemma kpe0_unwind f : forall stk1 stk2, Rstk f stk1 stk2 -> kpe0 f Ru (unwind stk1) (unwind stk2).
Proof.
  intros stk1 stk2 Hs.
  induction Hs as [|[[rec1 top1] sub1] [[rec2 top2] sub2] rest1 rest2 (Hrec & Htop & Hsub) Hrest IH]; cbn [unwind];
    [apply kpe0_ret; reflexivity|].
  cbn [fst snd] in Hrec, Htop, Hsub.
  eapply kpe0_seq; [apply kpe0_decref; exact Htop|].
  eapply kpe0_seq; [apply kpe0_stack_pop; repeat split; assumption|]. exact IH.
Qed.

Lemma kpe_hload_loop : forall fuel buf read f stk1 stk2, Rstk f stk1 stk2 ->
  kpe f Rhres (hload_loop refuse L fuel buf read stk1) (hload_loop refuse L fuel buf read stk2).
Proof.
  induction fuel as [|fu IH]; intros buf read f stk1 stk2 Hs; cbn [hload_loop]; [apply kpe_fail|].
  assert (Hun : forall g s1 s2 e p q, Rstk g s1 s2 ->
            kpe g Rhres (unwind s1 ;;; ret (None, e, p, q)) (unwind s2 ;;; ret (None, e, p, q))).
  { intros g s1 s2 e p q Hs'. eapply kpe_seq0; [apply kpe0_unwind; exact Hs'|]. apply kpe_ret. repeat split. }
  destruct (len buf <=? read); [apply Hun; exact Hs|].
  destruct (stream_decode (skipnN read buf)) as [|r e]; [apply kpe_fail|].
  destruct (st r); try (apply Hun; exact Hs).
  destruct e as [tk|]; [|apply kpe_fail].
  eapply kpe_bind; [apply kpe_hcallback; exact Hs|]. ki c1 c2 Hc. destruct Hc as (Hc1 & Hc2 & Hc3 & Hc4).
  rewrite <- Hc3, <- Hc4.
  destruct (hcf c1); [apply Hun; exact Hc1|].
  destruct (hse c1); [apply Hun; exact Hc1|].
  destruct Hc1 as [|r1 r2 s1 s2 Hr1 Hs1].
  - destruct (hroot c1) as [t1|], (hroot c2) as [t2|]; try (destruct Hc2; fail); [|apply kpe_fail].
    apply kpe_ret. repeat split. exact Hc2.
  - apply IH. constructor; assumption.
Qed.

Lemma kpe_load_h f buf : kpe f Rhres (load_h refuse L buf) (load_h refuse L buf).
Proof.
  unfold load_h. destruct (len buf =? 0); [apply kpe_ret; repeat split|apply kpe_hload_loop; constructor].
Qed.

(* ---------------- every client call ---------------- *)
Lemma kpe_newh f s1 s2 (m1 m2 : M (option addr)) : Rcs f s1 s2 -> kpe f Ro m1 m2 ->
  kpe f Rso (newh s1 m1) (newh s2 m2).
Proof.
  intros Hs Hm. unfold newh. eapply kpe_bind; [exact Hm|]. ki r1 r2 Hr. apply kpe_ret. split; cbn [fst snd].
  - apply Rcs_hpush; assumption.
  - destruct r1, r2; try (destruct Hr; fail); reflexivity.
Qed.
Lemma kpe_skip f s1 s2 : Rcs f s1 s2 -> kpe f Rso (ret (s1, OutSkip)) (ret (s2, OutSkip)).
Proof. intros Hs. apply kpe_ret. split; [exact Hs|reflexivity]. Qed.
Lemma kpe_skiph f s1 s2 : Rcs f s1 s2 -> kpe f Rso (ret (hpush s1 None, OutSkip)) (ret (hpush s2 None, OutSkip)).
Proof. intros Hs. apply kpe_ret. split; [apply Rcs_hpush; [exact Hs|exact I]|reflexivity]. Qed.
(* a call returning a value without addresses; the table stays *)
Lemma kpe_val {A} f s1 s2 (m1 m2 : M A) (o : A -> out) : Rcs f s1 s2 -> kpe f Req m1 m2 ->
  kpe f Rso (b <- m1 ;; ret (s1, o b)) (b <- m2 ;; ret (s2, o b)).
Proof.
  intros Hs Hm. eapply kpe_bind; [exact Hm|]. ki b1 b2 Hb. unfold Req in Hb. subst b2.
  apply kpe_ret. split; [exact Hs|reflexivity].
Qed.

Ltac dh Hs h p1 p2 Hp :=
  match type of Hs with
  | Rcs _ ?s1 ?s2 =>
      pose proof (Rcs_hget _ _ _ Hs h) as Hp;
      destruct (hget s1 h) as [p1|], (hget s2 h) as [p2|]; try (destruct Hp; fail); cbn [Roption] in Hp
  end.

Theorem kpe_step f s1 s2 o : Rcs f s1 s2 -> kpe f Rso (step refuse L s1 o) (step refuse L s2 o).
Proof.
  intros Hs.
  destruct o as [neg iw v|fw bits|v|text bytes|text|n| |n| |v|v x|a x|a i|a i x|a i x|m k v|c x|t x|t|h|h|h|bytes|h|h n|h];
    cbn [step].
  - apply kpe_newh; [exact Hs|apply kpe_build_int].
  - apply kpe_newh; [exact Hs|apply kpe_build_float].
  - apply kpe_newh; [exact Hs|apply kpe_build_ctrl].
  - apply kpe_newh; [exact Hs|apply kpe_build_string].
  - apply kpe_newh; [exact Hs|apply kpe_new_indefinite_string].
  - apply kpe_newh; [exact Hs|apply kpe_new_definite_array].
  - apply kpe_newh; [exact Hs|apply kpe_new_indefinite_array].
  - apply kpe_newh; [exact Hs|apply kpe_new_definite_map].
  - apply kpe_newh; [exact Hs|apply kpe_new_indefinite_map].
  - apply kpe_newh; [exact Hs|apply kpe_new_tag].
  - unfold with1h. dh Hs x q1 q2 Hq; [|apply kpe_skiph; exact Hs].
    apply kpe_newh; [exact Hs|apply kpe_build_tag; exact Hq].
  - unfold with2. dh Hs a p1 p2 Hp; [|apply kpe_skip; exact Hs]. dh Hs x q1 q2 Hq; [|apply kpe_skip; exact Hs].
    apply (kpe_val f s1 s2 _ _ OutBool Hs). apply kpe_array_push; assumption.
  - unfold with1h. dh Hs a p1 p2 Hp; [|apply kpe_skiph; exact Hs].
    apply kpe_newh; [exact Hs|apply kpe0_kpe, kpe0_array_get; exact Hp].
  - unfold with2. dh Hs a p1 p2 Hp; [|apply kpe_skip; exact Hs]. dh Hs x q1 q2 Hq; [|apply kpe_skip; exact Hs].
    apply (kpe_val f s1 s2 _ _ OutBool Hs). apply kpe_array_set; assumption.
  - unfold with2. dh Hs a p1 p2 Hp; [|apply kpe_skip; exact Hs]. dh Hs x q1 q2 Hq; [|apply kpe_skip; exact Hs].
    apply (kpe_val f s1 s2 _ _ OutBool Hs). apply kpe0_kpe, kpe0_array_replace; assumption.
  - dh Hs v r1 r2 Hr; [|apply kpe_skip; exact Hs].
    unfold with2. dh Hs m p1 p2 Hp; [|apply kpe_skip; exact Hs]. dh Hs k q1 q2 Hq; [|apply kpe_skip; exact Hs].
    apply (kpe_val f s1 s2 _ _ OutBool Hs). apply kpe_map_add; assumption.
  - unfold with2. dh Hs c p1 p2 Hp; [|apply kpe_skip; exact Hs]. dh Hs x q1 q2 Hq; [|apply kpe_skip; exact Hs].
    apply (kpe_val f s1 s2 _ _ OutBool Hs). apply kpe_add_chunk; assumption.
  - unfold with2. dh Hs t p1 p2 Hp; [|apply kpe_skip; exact Hs]. dh Hs x q1 q2 Hq; [|apply kpe_skip; exact Hs].
    eapply kpe_seq0; [apply kpe0_tag_set; assumption|]. apply kpe_ret. split; [exact Hs|reflexivity].
  - unfold with1h. dh Hs t p1 p2 Hp; [|apply kpe_skiph; exact Hs].
    apply kpe_newh; [exact Hs|]. eapply kpe_bind0; [apply kpe0_tag_item; exact Hp|].
    intros x1 x2 Hx. apply kpe_ret. exact Hx.
  - unfold with1. dh Hs h p1 p2 Hp; [|apply kpe_skip; exact Hs].
    eapply kpe_seq0; [apply kpe0_incref; exact Hp|]. apply kpe_ret. split; [exact Hs|reflexivity].
  - unfold with1. dh Hs h p1 p2 Hp; [|apply kpe_skip; exact Hs].
    eapply kpe_seq0; [apply kpe0_decref; exact Hp|]. apply kpe_ret. split; [exact Hs|reflexivity].
  - unfold with1h. dh Hs h p1 p2 Hp; [|apply kpe_skiph; exact Hs].
    apply kpe_newh; [exact Hs|apply kpe_copy_h; exact Hp].
  - eapply kpe_bind; [apply kpe_load_h|]. ki [[[r1 code1] pos1] rd1] [[[r2 code2] pos2] rd2] Hr.
    destruct Hr as [[[Hr Hc] Hpos] Hrd]. cbn [fst snd] in *. unfold Req in Hc, Hpos, Hrd. subst code2 pos2 rd2.
    destruct r1 as [a1|], r2 as [a2|]; try (destruct Hr; fail); apply kpe_ret;
      (split; [apply Rcs_hpush; assumption|reflexivity]).
  - unfold with1. dh Hs h p1 p2 Hp; [|apply kpe_skip; exact Hs].
    apply (kpe_val f s1 s2 _ _ OutNum Hs). apply kpe0_kpe, kpe0_ser_size; exact Hp.
  - unfold with1. dh Hs h p1 p2 Hp; [|apply kpe_skip; exact Hs].
    eapply kpe_bind0; [apply kpe0_serialize; exact Hp|]. intros r1 r2 Hr. unfold Req in Hr. subst r2.
    destruct r1 as [[wr bs]|]; [|apply kpe_fail]. apply kpe_ret. split; [exact Hs|reflexivity].
  - unfold with1. dh Hs h p1 p2 Hp; [|apply kpe_skip; exact Hs].
    eapply kpe_bind; [apply kpe_ser_alloc; exact Hp|]. ki [[wr1 b1] bs1] [[wr2 b2] bs2] Hr.
    destruct Hr as [[Hwr Hb] Hbs]. cbn [fst snd] in *. unfold Req in Hwr, Hbs. subst wr2 bs2.
    destruct b1 as [x1|], b2 as [x2|]; try (destruct Hb; fail).
    + eapply kpe_seq0; [apply kpe0_free; exact Hb|]. apply kpe_ret. split; [exact Hs|reflexivity].
    + apply kpe_ret. split; [exact Hs|reflexivity].
Qed.

(* ---------------- the third layer of client calls (HHist3.step3) ---------------- *)
Lemma kpe_lift3 f s1 s2 (m1 m2 : M (cstate * out)) : Rl f (unset s1) (unset s2) -> kpe f Rso m1 m2 ->
  kpe f Rso3 (lift3 s1 m1) (lift3 s2 m2).
Proof.
  intros Hu Hm. unfold lift3. eapply kpe_bind; [exact Hm|]. ki [t1 o1] [t2 o2] Hr. destruct Hr as [Ht Ho].
  cbn [fst snd] in *. unfold Req in Ho. subst o2. apply kpe_ret. split; [split; assumption|reflexivity].
Qed.
Lemma kpe0_set_ctrl_at f a1 a2 v : Ra f a1 a2 -> kpe0 f Ru (set_ctrl_at a1 v) (set_ctrl_at a2 v).
Proof.
  intros Ha. unfold set_ctrl_at. apply kpe0_bind_rd; [exact Ha|]. intros rc n1 n2 Hn. cbn [fst snd].
  dn1 n1; dn2 n2 Hn; try apply kpe0_fail. apply kpe0_wr; [exact Ha|reflexivity].
Qed.
Lemma kpe_skip3 f s1 s2 : Rcs3 f s1 s2 -> kpe f Rso3 (ret (s1, Out OutSkip)) (ret (s2, Out OutSkip)).
Proof. intros Hs. apply kpe_ret. split; [exact Hs|reflexivity]. Qed.
Lemma kpe_ret3 f s1 s2 o : Rcs3 f s1 s2 -> kpe f Rso3 (ret (s1, o)) (ret (s2, o)).
Proof. intros Hs. apply kpe_ret. split; [exact Hs|reflexivity]. Qed.

Theorem kpe_step3 f s1 s2 o : inj f -> Rcs3 f s1 s2 -> kpe f Rso3 (step3 refuse L s1 o) (step3 refuse L s2 o).
Proof.
  intros Hi Hs3. pose proof Hs3 as [Hs Hu].
  destruct o as [o|text|h bytes|h n|iw|iw h v|neg h|fw|fw h bits| |h v|h b|b| | |h|a x|m k v|t x|v x|h|bytes|k h n|h|h];
    cbn [step3].
  - unfold old3. rewrite <- (forallb_is_set f s1 s2 (op_reads o) Hi Hs3).
    destruct (forallb (is_set s1) (op_reads o)); [|apply kpe_fail].
    apply kpe_lift3; [exact Hu|]. apply kpe_step. exact Hs.
  - apply kpe_lift3; [exact Hu|]. unfold new_definite_string_op. apply kpe_newh; [exact Hs|apply kpe_new_definite_string].
  - apply kpe_lift3; [exact Hu|]. unfold set_handle_new. dh Hs h a1 a2 Ha; [|apply kpe_skip; exact Hs].
    eapply kpe_bind; [apply kpe_malloc_data|]. ki [d1|] [d2|] Hd; try (destruct Hd; fail);
      [|apply kpe_ret; split; [exact Hs|reflexivity]].
    apply kpe_bind_rd; [exact Ha|]. intros rc n1 n2 Hn. cbn [fst snd].
    dn1 n1; dn2 n2 Hn; try apply kpe_fail. destruct Hn as (<- & Hdd & <-).
    destruct data1 as [y1|], data2 as [y2|]; try (destruct Hdd; fail); [apply kpe_fail|].
    eapply kpe_seq0; [apply kpe0_wr; [exact Ha|cbn [Rn]; repeat split; exact Hd]|].
    apply kpe_ret. split; [exact Hs|reflexivity].
  - apply kpe_lift3; [exact Hu|]. unfold set_handle_shorten. dh Hs h a1 a2 Ha; [|apply kpe_skip; exact Hs].
    apply kpe_bind_rd; [exact Ha|]. intros rc n1 n2 Hn. cbn [fst snd].
    dn1 n1; dn2 n2 Hn; try apply kpe_fail. destruct Hn as (<- & Hdd & <-).
    destruct (n <=? len bytes1); [|apply kpe_fail].
    eapply kpe_seq0; [apply kpe0_wr; [exact Ha|cbn [Rn]; repeat split; exact Hdd]|].
    apply kpe_ret. split; [exact Hs|reflexivity].
  - unfold new_int. eapply kpe_bind; [apply kmalloc; cbn [Rcl Rn]; repeat split|]. ki r1 r2 Hr.
    apply kpe_ret. split; cbn [fst snd].
    + split; cbn [base unset]; [apply Rcs_hpush; assumption|].
      destruct r1 as [x1|], r2 as [x2|]; try (destruct Hr; fail); [constructor; assumption|exact Hu].
    + destruct r1, r2; try (destruct Hr; fail); reflexivity.
  - unfold set_uint. dh Hs h a1 a2 Ha; [|apply kpe_skip3; exact Hs3].
    apply kpe_bind_rd; [exact Ha|]. intros rc n1 n2 Hn. cbn [fst snd].
    dn1 n1; dn2 n2 Hn; try apply kpe_fail. destruct Hn as (<- & <- & <-).
    eapply kpe_seq0; [apply kpe0_assert|].
    eapply kpe_seq0; [apply kpe0_wr; [exact Ha|cbn [Rn]; repeat split]|].
    apply kpe_ret. split; [|reflexivity]. split; cbn [base unset fst]; [exact Hs|apply remN_R; assumption].
  - unfold mark_int. dh Hs h a1 a2 Ha; [|apply kpe_skip3; exact Hs3].
    apply kpe_bind_rd; [exact Ha|]. intros rc n1 n2 Hn. cbn [fst snd].
    dn1 n1; dn2 n2 Hn; try apply kpe_fail. destruct Hn as (<- & <- & <-).
    eapply kpe_seq0; [apply kpe0_wr; [exact Ha|cbn [Rn]; repeat split]|]. apply kpe_ret3. exact Hs3.
  - unfold new_float. eapply kpe_bind; [apply kmalloc; cbn [Rcl Rn]; repeat split|]. ki r1 r2 Hr.
    apply kpe_ret. split; cbn [fst snd].
    + split; cbn [base unset]; [apply Rcs_hpush; assumption|].
      destruct r1 as [x1|], r2 as [x2|]; try (destruct Hr; fail); [constructor; assumption|exact Hu].
    + destruct r1, r2; try (destruct Hr; fail); reflexivity.
  - unfold set_float. dh Hs h a1 a2 Ha; [|apply kpe_skip3; exact Hs3].
    apply kpe_bind_rd; [exact Ha|]. intros rc n1 n2 Hn. cbn [fst snd].
    dn1 n1; dn2 n2 Hn; try apply kpe_fail. destruct Hn as (<- & <-).
    eapply kpe_seq0; [apply kpe0_assert|].
    eapply kpe_seq0; [apply kpe0_wr; [exact Ha|cbn [Rn]; repeat split]|].
    apply kpe_ret. split; [|reflexivity]. split; cbn [base unset fst]; [exact Hs|apply remN_R; assumption].
  - unfold new_ctrl. apply kpe_lift3; [exact Hu|]. apply kpe_newh; [exact Hs|]. unfold new_ctrl_item.
    apply kmalloc. cbn [Rcl Rn]. repeat split.
  - unfold set_ctrl. dh Hs h a1 a2 Ha; [|apply kpe_skip3; exact Hs3].
    eapply kpe_seq0; [apply kpe0_set_ctrl_at; exact Ha|]. apply kpe_ret3. exact Hs3.
  - unfold set_bool. dh Hs h a1 a2 Ha; [|apply kpe_skip3; exact Hs3].
    apply kpe_bind_rd; [exact Ha|]. intros rc n1 n2 Hn. cbn [fst snd].
    dn1 n1; dn2 n2 Hn; try apply kpe_fail. subst v2.
    eapply kpe_seq0; [apply kpe0_assert|].
    eapply kpe_seq0; [apply kpe0_wr; [exact Ha|reflexivity]|]. apply kpe_ret3. exact Hs3.
  - unfold build_bool. apply kpe_lift3; [exact Hu|]. apply kpe_newh; [exact Hs|apply kpe_build_ctrl].
  - unfold new_ctrl_set. apply kpe_lift3; [exact Hu|]. apply kpe_newh; [exact Hs|]. unfold new_ctrl_item.
    eapply kpe_bind; [apply kmalloc; cbn [Rcl Rn]; repeat split|]. ki [x1|] [x2|] Hx; try (destruct Hx; fail); [|apply kpe_ret; exact I].
    eapply kpe_seq0; [apply kpe0_set_ctrl_at; exact Hx|]. apply kpe_ret. exact Hx.
  - unfold new_ctrl_set. apply kpe_lift3; [exact Hu|]. apply kpe_newh; [exact Hs|]. unfold new_ctrl_item.
    eapply kpe_bind; [apply kmalloc; cbn [Rcl Rn]; repeat split|]. ki [x1|] [x2|] Hx; try (destruct Hx; fail); [|apply kpe_ret; exact I].
    eapply kpe_seq0; [apply kpe0_set_ctrl_at; exact Hx|]. apply kpe_ret. exact Hx.
  - unfold move_op. dh Hs h a1 a2 Ha; [|apply kpe_skip3; exact Hs3].
    eapply kpe_seq0; [apply kpe0_move; exact Ha|]. apply kpe_ret3. exact Hs3.
  - unfold push_move. rewrite <- (is_set_R f s1 s2 x Hi Hs3).
    dh Hs a p1 p2 Hp; [|apply kpe_skip3; exact Hs3]. dh Hs x q1 q2 Hq; [|apply kpe_skip3; exact Hs3].
    destruct (is_set s1 x); [|apply kpe_fail].
    eapply kpe_seq0; [apply kpe0_move; exact Hq|].
    eapply kpe_bind; [apply kpe_array_push; assumption|]. ki b1 b2 Hb. unfold Req in Hb. subst b2. apply kpe_ret3. assumption.
  - unfold map_add_move. rewrite <- (is_set_R f s1 s2 k Hi Hs3), <- (is_set_R f s1 s2 v Hi Hs3).
    dh Hs m p1 p2 Hp; [|apply kpe_skip3; exact Hs3]. dh Hs k q1 q2 Hq; [|apply kpe_skip3; exact Hs3].
    dh Hs v r1 r2 Hr; [|apply kpe_skip3; exact Hs3].
    destruct (is_set s1 k && is_set s1 v); [|apply kpe_fail].
    eapply kpe_seq0; [apply kpe0_move; exact Hq|].
    eapply kpe_seq0; [apply kpe0_move; exact Hr|].
    eapply kpe_bind; [apply kpe_map_add; assumption|]. ki b1 b2 Hb. unfold Req in Hb. subst b2. apply kpe_ret3. assumption.
  - unfold tag_set_move. rewrite <- (is_set_R f s1 s2 x Hi Hs3).
    dh Hs t p1 p2 Hp; [|apply kpe_skip3; exact Hs3]. dh Hs x q1 q2 Hq; [|apply kpe_skip3; exact Hs3].
    destruct (is_set s1 x); [|apply kpe_fail].
    eapply kpe_seq0; [apply kpe0_move; exact Hq|].
    eapply kpe_seq0; [apply kpe0_tag_set; assumption|]. apply kpe_ret3. exact Hs3.
  - unfold build_tag_move. rewrite <- (is_set_R f s1 s2 x Hi Hs3).
    dh Hs x q1 q2 Hq.
    + destruct (is_set s1 x); [|apply kpe_fail].
      eapply kpe_seq0; [apply kpe0_move; exact Hq|].
      apply kpe_lift3; [exact Hu|]. apply kpe_newh; [exact Hs|apply kpe_build_tag; exact Hq].
    + apply kpe_ret. split; [|reflexivity]. split; cbn [base unset fst]; [apply Rcs_hpush; [exact Hs|exact I]|exact Hu].
  - unfold intermediate_decref. dh Hs h a1 a2 Ha; [|apply kpe_skip3; exact Hs3].
    eapply kpe_seq0; [apply kpe0_decref; exact Ha|]. apply kpe_ret3. exact Hs3.
  - unfold build_string0. apply kpe_lift3; [exact Hu|]. apply kpe_newh; [exact Hs|apply kpe_build_string].
  - unfold serialize_typed. dh Hs h a1 a2 Ha; [|apply kpe_skip3; exact Hs3].
    rewrite <- (memN_R f a1 a2 _ _ Hi Ha Hu). destruct (memN a1 (unset s1)); [apply kpe_fail|].
    apply kpe_bind_rd; [exact Ha|]. intros rc n1 n2 Hn. cbn [fst snd].
    rewrite <- (node_kind_R f n1 n2 Hn).
    eapply kpe_seq0; [apply kpe0_assert|].
    eapply kpe_bind0; [apply kpe0_serialize; exact Ha|]. intros r1 r2 Hr. unfold Req in Hr. subst r2.
    destruct r1 as [[wr bs]|]; [|apply kpe_fail]. apply kpe_ret3. exact Hs3.
  - unfold preds3. dh Hs h a1 a2 Ha; [|apply kpe_skip3; exact Hs3].
    apply kpe_bind_rd; [exact Ha|]. intros rc n1 n2 Hn. cbn [fst snd].
    rewrite <- (preds_of_R f rc n1 n2 Hn). apply kpe_ret3. exact Hs3.
  - unfold vals3. dh Hs h a1 a2 Ha; [|apply kpe_skip3; exact Hs3].
    rewrite <- (memN_R f a1 a2 _ _ Hi Ha Hu). destruct (memN a1 (unset s1)); [apply kpe_fail|].
    apply kpe_bind_rd; [exact Ha|]. intros rc n1 n2 Hn. cbn [fst snd].
    rewrite <- (preds_of_R f rc n1 n2 Hn), <- (values_of_R f n1 n2 Hn). apply kpe_ret3. exact Hs3.
Qed.

End Ops.
