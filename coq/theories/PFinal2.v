(* Corollaries that combine the load = spec theorem with the properties of the specification. *)
From CB Require Import Word Word_proofs PStream SpecHead PItem SpecItem PBuild SpecParse PRun
  PItem_proofs PBuild_proofs PLoad_proofs PFinal.
Local Open Scope N_scope.

(* ---- C01 corollaries ---- *)

Lemma load_outcome : forall L cap buf, bytes_ok buf -> len buf < SIZE_MAX ->
  (exists t n, load L cap buf = LOk t n) \/ (exists c p, load L cap buf = LErr c p p /\ c <> ENone).
Proof. intros L cap buf Hb Hl. rewrite (load_is_spec_full L cap buf Hb Hl). apply load_spec_outcome. Qed.
Lemma serialize_total : forall t size, wf_item t -> size < 2^64 -> serialize_into t size <> None.
Proof. intros t size Hw Hs. destruct (PItem_proofs.C07_into t size Hw Hs) as (r & o & E & _). rewrite E. discriminate. Qed.
Lemma load_accepts_iff : forall L cap buf t n, bytes_ok buf -> len buf < SIZE_MAX ->
  (load L cap buf = LOk t n <-> load_spec L cap buf = LOk t n).
Proof. intros L cap buf t n Hb Hl. rewrite (load_is_spec_full L cap buf Hb Hl). tauto. Qed.
