(* Property C07/C03: cbor_serialize emits exactly the RFC 8949 encoding of the tree, returns its
   length when it fits in the buffer and 0 otherwise, and never stores outside the first
   [size] bytes. *)
From CB Require Import Word Word_proofs PEnc PItem SpecItem.
From Coq Require Import Lia ZArith ZifyBool ZifyN ZifyNat.
Local Open Scope N_scope.
Ltac Zify.zify_post_hook ::= Z.div_mod_to_equations.

Arguments N.pow : simpl never.
Arguments N.div : simpl never.
Arguments N.modulo : simpl never.
Arguments N.land : simpl never.
Arguments N.lor : simpl never.

(* ------------------------------------------------------------------ *)
(* 0. cbor_encode_half never shifts by an out-of-range amount          *)
(* ------------------------------------------------------------------ *)

(* holds for every value: Some/None-ness depends only on the comparisons on the exponent field *)
Lemma encode_half_total_all : forall v, encode_half_bits v <> None.
Proof.
  intros v. unfold encode_half_bits. cbv zeta.
  set (exp := N.land v 2139095040 / 2 ^ 23).
  set (mant := N.land v 8388607).
  set (sign16 := N.land v 2147483648 / 2 ^ 16).
  destruct (exp =? 255) eqn:E255.
  { destruct (f32_is_nan v); discriminate. }
  destruct (exp =? 0) eqn:E0; [discriminate|].
  destruct (exp <? 103) eqn:E103; [discriminate|].
  destruct (exp <? 113) eqn:E113.
  - unfold shl32, shr32.
    assert (H1 : (exp - 103 <? 32) = true) by lia.
    assert (H2 : (125 - exp <? 32) = true) by lia.
    rewrite H1. cbn [obind]. rewrite H2. cbn [obind]. discriminate.
  - unfold shl32. change (10 <? 32) with true. cbn [obind]. discriminate.
Qed.

Lemma encode_half_total : forall v, v < 2 ^ 32 -> encode_half_bits v <> None.
Proof. intros v _. apply encode_half_total_all. Qed.

Lemma encode_half_bits_some v : encode_half_bits v = Some (half_bits v).
Proof.
  unfold half_bits. pose proof (encode_half_total_all v) as H.
  destruct (encode_half_bits v); [reflexivity|congruence].
Qed.

(* ------------------------------------------------------------------ *)
(* result predicates                                                    *)
(* ------------------------------------------------------------------ *)

(* [r] is the outcome of storing [enc] into [size] bytes: everything and its length when it
   fits; otherwise 0 and only a prefix, inside the buffer *)
Definition eok (enc : list N) (size : N) (r : N * list N) : Prop :=
  (len enc <= size /\ r = (len enc, enc)) \/
  (size < len enc /\ exists out suffix, r = (0, out) /\ enc = out ++ suffix /\ len out <= size).

Definition sok (enc : list N) (size : N) (r : sres_) : Prop :=
  exists p, r = Some p /\ eok enc size p.

Ltac llia := rewrite ?len_app, ?len_cons, ?len_nil in *; lia.

Lemma eok_fail_nil enc size : size < len enc -> eok enc size (0, []).
Proof. intros H. right. split; [exact H|]. exists [], enc. repeat split. rewrite len_nil. lia. Qed.

Lemma eok_fit enc size : len enc <= size -> eok enc size (len enc, enc).
Proof. intros H. left. auto. Qed.

(* ------------------------------------------------------------------ *)
(* 1. leaves                                                            *)
(* ------------------------------------------------------------------ *)

Lemma div_pow0 v : v / 256 ^ N.of_nat 0 = v.
Proof. change (256 ^ N.of_nat 0) with 1. apply N.div_1_r. Qed.
Lemma be_bytes_2 v : be_bytes 2 v = [wrap 8 (v / 2 ^ 8); wrap 8 v].
Proof. cbv [be_bytes wrap]. rewrite div_pow0. reflexivity. Qed.
Lemma be_bytes_4 v :
  be_bytes 4 v = [wrap 8 (v / 2 ^ 24); wrap 8 (v / 2 ^ 16); wrap 8 (v / 2 ^ 8); wrap 8 v].
Proof. cbv [be_bytes wrap]. rewrite div_pow0. reflexivity. Qed.
Lemma be_bytes_8 v :
  be_bytes 8 v = [wrap 8 (v / 2 ^ 56); wrap 8 (v / 2 ^ 48); wrap 8 (v / 2 ^ 40); wrap 8 (v / 2 ^ 32);
                  wrap 8 (v / 2 ^ 24); wrap 8 (v / 2 ^ 16); wrap 8 (v / 2 ^ 8); wrap 8 v].
Proof. cbv [be_bytes wrap]. rewrite div_pow0. reflexivity. Qed.

Lemma wrap8_small x : x < 256 -> wrap 8 x = x.
Proof. intros H. apply wrap_small. exact H. Qed.

(* leaf outcome: exactly the bytes and their number when they fit, else (0, []) (every
   encoder tests the size before its first store) *)
Definition lok (enc : list N) (size : N) (r : N * list N) : Prop :=
  r = if len enc <=? size then (len enc, enc) else (0, []).

Lemma lok_fit enc size : len enc <= size -> lok enc size (len enc, enc).
Proof. intros H. unfold lok. destruct (N.leb_spec (len enc) size); [reflexivity|lia]. Qed.
Lemma lok_fail enc size : size < len enc -> lok enc size (0, []).
Proof. intros H. unfold lok. destruct (N.leb_spec (len enc) size); [lia|reflexivity]. Qed.
Lemma lok_eok enc size r : lok enc size r -> eok enc size r.
Proof.
  unfold lok. intros ->. destruct (N.leb_spec (len enc) size) as [H|H].
  - apply eok_fit. exact H.
  - apply eok_fail_nil. exact H.
Qed.

Lemma enc_byte_lok b size : lok [b] size (enc_byte b size).
Proof.
  unfold enc_byte. destruct (N.leb_spec 1 size) as [H|H].
  - apply (lok_fit [b]). change (len [b]) with 1. exact H.
  - apply lok_fail. change (len [b]) with 1. exact H.
Qed.

(* fixed-width encoders: [mt * 32] is the major-type offset 0x00, 0x20, ..., 0xE0 *)
Lemma enc_uint8_lok mt v size : mt <= 7 ->
  lok (if v <? 24 then [mt * 32 + v] else [mt * 32 + 24; v]) size (enc_uint8 v size (mt * 32)).
Proof.
  intros Hmt. unfold enc_uint8.
  destruct (N.leb_spec v 23) as [Hv|Hv]; destruct (N.ltb_spec v 24) as [Hv'|Hv']; try lia.
  - rewrite wrap8_small by lia. rewrite (N.add_comm v).
    destruct (N.leb_spec 1 size) as [H|H].
    + apply (lok_fit [_]). exact H.
    + apply lok_fail. exact H.
  - rewrite wrap8_small by lia. rewrite (N.add_comm 24).
    destruct (N.leb_spec 2 size) as [H|H].
    + apply (lok_fit [_; _]). exact H.
    + apply lok_fail. exact H.
Qed.

Lemma enc_uint16_lok mt v size : mt <= 7 ->
  lok ((mt * 32 + 25) :: be_bytes 2 v) size (enc_uint16 v size (mt * 32)).
Proof.
  intros Hmt. unfold enc_uint16. rewrite be_bytes_2.
  rewrite (wrap8_small (25 + mt * 32)) by lia. rewrite (N.add_comm 25).
  destruct (N.ltb_spec size 3) as [H|H].
  - apply lok_fail. exact H.
  - apply (lok_fit [_; _; _]). exact H.
Qed.

Lemma enc_uint32_lok mt v size : mt <= 7 ->
  lok ((mt * 32 + 26) :: be_bytes 4 v) size (enc_uint32 v size (mt * 32)).
Proof.
  intros Hmt. unfold enc_uint32. rewrite be_bytes_4.
  rewrite (wrap8_small (26 + mt * 32)) by lia. rewrite (N.add_comm 26).
  destruct (N.ltb_spec size 5) as [H|H].
  - apply lok_fail. exact H.
  - apply (lok_fit [_; _; _; _; _]). exact H.
Qed.

Lemma enc_uint64_lok mt v size : mt <= 7 ->
  lok ((mt * 32 + 27) :: be_bytes 8 v) size (enc_uint64 v size (mt * 32)).
Proof.
  intros Hmt. unfold enc_uint64. rewrite be_bytes_8.
  rewrite (wrap8_small (27 + mt * 32)) by lia. rewrite (N.add_comm 27).
  destruct (N.leb_spec 9 size) as [H|H].
  - apply (lok_fit [_; _; _; _; _; _; _; _; _]). exact H.
  - apply lok_fail. exact H.
Qed.

Lemma ser_int_lok mt w v size : mt <= 7 ->
  lok (head_w mt w v) size (ser_int (mt * 32) w v size).
Proof.
  intros Hmt. destruct w; unfold ser_int, head_w.
  - apply enc_uint8_lok; exact Hmt.
  - apply enc_uint16_lok; exact Hmt.
  - apply enc_uint32_lok; exact Hmt.
  - apply enc_uint64_lok; exact Hmt.
Qed.

(* _cbor_encode_uint: the shortest head *)
Lemma enc_uint_lok mt v size : mt <= 7 ->
  lok (head mt v) size (enc_uint v size (mt * 32)).
Proof.
  intros Hmt. unfold enc_uint, head.
  change (2 ^ 8) with 256. change (2 ^ 16) with 65536. change (2 ^ 32) with 4294967296.
  destruct (N.leb_spec v 65535) as [H16|H16].
  - destruct (N.leb_spec v 255) as [H8|H8].
    + rewrite wrap8_small by lia.
      pose proof (enc_uint8_lok mt v size Hmt) as H.
      destruct (N.ltb_spec v 24); [exact H|].
      destruct (N.ltb_spec v 256); [exact H|lia].
    + destruct (N.ltb_spec v 24); [lia|].
      destruct (N.ltb_spec v 256); [lia|].
      destruct (N.ltb_spec v 65536); [|lia].
      rewrite (wrap_small 16) by (change (2 ^ 16) with 65536; lia).
      apply enc_uint16_lok; exact Hmt.
  - destruct (N.ltb_spec v 24); [lia|].
    destruct (N.ltb_spec v 256); [lia|].
    destruct (N.ltb_spec v 65536); [lia|].
    destruct (N.leb_spec v 4294967295) as [H32|H32].
    + destruct (N.ltb_spec v 4294967296); [|lia].
      rewrite (wrap_small 32) by (change (2 ^ 32) with 4294967296; lia).
      apply enc_uint32_lok; exact Hmt.
    + destruct (N.ltb_spec v 4294967296); [lia|].
      rewrite (be_bytes_mod 8 v). change (256 ^ N.of_nat 8) with (2 ^ 64).
      apply (enc_uint64_lok mt (wrap 64 v) size Hmt).
Qed.

Lemma enc_byte_ok b size : eok [b] size (enc_byte b size).
Proof. apply lok_eok, enc_byte_lok. Qed.
Lemma enc_uint8_ok mt v size : mt <= 7 ->
  eok (if v <? 24 then [mt * 32 + v] else [mt * 32 + 24; v]) size (enc_uint8 v size (mt * 32)).
Proof. intros H. apply lok_eok, enc_uint8_lok, H. Qed.
Lemma enc_uint16_ok mt v size : mt <= 7 ->
  eok ((mt * 32 + 25) :: be_bytes 2 v) size (enc_uint16 v size (mt * 32)).
Proof. intros H. apply lok_eok, enc_uint16_lok, H. Qed.
Lemma enc_uint32_ok mt v size : mt <= 7 ->
  eok ((mt * 32 + 26) :: be_bytes 4 v) size (enc_uint32 v size (mt * 32)).
Proof. intros H. apply lok_eok, enc_uint32_lok, H. Qed.
Lemma enc_uint64_ok mt v size : mt <= 7 ->
  eok ((mt * 32 + 27) :: be_bytes 8 v) size (enc_uint64 v size (mt * 32)).
Proof. intros H. apply lok_eok, enc_uint64_lok, H. Qed.
Lemma ser_int_ok mt w v size : mt <= 7 ->
  eok (head_w mt w v) size (ser_int (mt * 32) w v size).
Proof. intros H. apply lok_eok, ser_int_lok, H. Qed.
Lemma enc_uint_ok mt v size : mt <= 7 ->
  eok (head mt v) size (enc_uint v size (mt * 32)).
Proof. intros H. apply lok_eok, enc_uint_lok, H. Qed.

Lemma head_nonempty mt v : 1 <= len (head mt v).
Proof.
  unfold head.
  destruct (v <? 24); [|destruct (v <? 2 ^ 8); [|destruct (v <? 2 ^ 16); [|destruct (v <? 2 ^ 32)]]];
  rewrite ?len_cons; lia.
Qed.

(* definite strings: head, then the payload *)
Lemma ser_defstr_ok mt d size : mt <= 7 ->
  eok (head mt (len d) ++ d) size (ser_defstr (mt * 32) d size).
Proof.
  intros Hmt. unfold ser_defstr.
  pose proof (enc_uint_ok mt (len d) size Hmt) as H.
  pose proof (head_nonempty mt (len d)) as Hne.
  destruct (enc_uint (len d) size (mt * 32)) as [written o].
  destruct H as [[Hfit Heq]|[Hnofit (out & suffix & Heq & Henc & Hout)]]; injection Heq as -> ->.
  - destruct (N.eqb_spec (len (head mt (len d))) 0) as [E|E]; [lia|].
    cbn [negb andb].
    destruct (N.leb_spec (len d) (size - len (head mt (len d)))) as [H|H].
    + left. rewrite len_app. split; [lia|reflexivity].
    + right. split; [rewrite len_app; lia|].
      exists (head mt (len d)), d. repeat split. exact Hfit.
  - cbn [N.eqb negb andb]. right. split; [rewrite len_app; lia|].
    exists out, (suffix ++ d). repeat split; [|exact Hout].
    rewrite Henc, app_assoc. reflexivity.
Qed.

(* ------------------------------------------------------------------ *)
(* sequencing combinators                                              *)
(* ------------------------------------------------------------------ *)

Lemma ser_seq_ok {A} (f : A -> N -> sres_) (e : A -> list N) (xs : list A) :
  Forall (fun x => 1 <= len (e x) /\ forall n, sok (e x) n (f x n)) xs ->
  forall size written out, written = len out -> written <= size ->
  sok (out ++ concat (map e xs)) size (ser_seq f xs size written out).
Proof.
  induction 1 as [|x r [Hne Hx] Hr IH]; intros size written out Hw Hle.
  - cbn [map concat ser_seq]. rewrite app_nil_r. exists (written, out). split; [reflexivity|].
    subst written. apply eok_fit. exact Hle.
  - cbn [map concat ser_seq].
    destruct (Hx (size - written)) as (p & Hp & Hok). rewrite Hp. destruct p as [w1 o1].
    destruct Hok as [[Hfit Heq]|[Hnofit (o & suffix & Heq & Henc & Hout)]]; injection Heq as -> ->.
    + destruct (N.eqb_spec (len (e x)) 0) as [E|E]; [lia|].
      rewrite app_assoc. apply IH; [rewrite len_app; lia|lia].
    + cbn [N.eqb]. exists (0, out ++ o). split; [reflexivity|].
      right. split; [rewrite !len_app in *; lia|].
      exists (out ++ o), (suffix ++ concat (map e r)). repeat split.
      * rewrite Henc, <- !app_assoc. reflexivity.
      * rewrite len_app. lia.
Qed.

Lemma ser_close_false_ok enc size r : sok enc size r -> sok enc size (ser_close false size r).
Proof.
  intros (p & -> & Hok). destruct p as [w o]. unfold ser_close.
  destruct (N.eqb_spec w 0) as [E|E].
  - subst w. exists (0, o). split; [reflexivity|exact Hok].
  - exists (w, o). split; [reflexivity|exact Hok].
Qed.

Lemma ser_close_true_ok enc size r : 1 <= len enc ->
  sok enc size r -> sok (enc ++ [0xFF]) size (ser_close true size r).
Proof.
  intros Hne (p & -> & Hok). destruct p as [w o]. unfold ser_close.
  destruct Hok as [[Hfit Heq]|[Hnofit (out & suffix & Heq & Henc & Hout)]]; injection Heq as -> ->.
  - destruct (N.eqb_spec (len enc) 0) as [E|E]; [lia|].
    unfold ser_break, enc_byte.
    destruct (N.leb_spec 1 (size - len enc)) as [H|H].
    + cbn [N.eqb]. eexists; split; [reflexivity|].
      left. rewrite len_app. change (len [255]) with 1. split; [lia|reflexivity].
    + cbn [N.eqb]. eexists; split; [reflexivity|].
      right. rewrite len_app. change (len [255]) with 1. split; [lia|].
      exists enc, [255]. repeat split. exact Hfit.
  - cbn [N.eqb]. eexists; split; [reflexivity|].
    right. split; [rewrite len_app; lia|].
    exists out, (suffix ++ [255]). repeat split; [|exact Hout].
    rewrite Henc, app_assoc. reflexivity.
Qed.

Lemma ser_close_ok (indef : bool) enc size r : 1 <= len enc ->
  sok enc size r ->
  sok (if indef then enc ++ [0xFF] else enc) size (ser_close indef size r).
Proof.
  intros Hne H. destruct indef.
  - apply ser_close_true_ok; assumption.
  - apply ser_close_false_ok; assumption.
Qed.

(* a header part [hdr], then the continuation on the rest of the buffer *)
Lemma hdr_then_ok h rest size (hdr : N * list N) (k : N -> list N -> sres_) :
  1 <= len h -> eok h size hdr ->
  (len h <= size -> sok (h ++ rest) size (k (len h) h)) ->
  sok (h ++ rest) size (let (written, o) := hdr in if written =? 0 then Some (0, o) else k written o).
Proof.
  intros Hne Hh Hk. destruct hdr as [written o].
  destruct Hh as [[Hfit Heq]|[Hnofit (out & suffix & Heq & Henc & Hout)]]; injection Heq as -> ->.
  - destruct (N.eqb_spec (len h) 0) as [E|E]; [lia|]. apply Hk. exact Hfit.
  - cbn [N.eqb]. eexists; split; [reflexivity|].
    right. split; [rewrite len_app; lia|].
    exists out, (suffix ++ rest). repeat split; [|exact Hout].
    rewrite Henc, app_assoc. reflexivity.
Qed.

Lemma sok_of_eok enc size p : eok enc size p -> sok enc size (Some p).
Proof. intros H. exists p. split; [reflexivity|exact H]. Qed.

(* key then value of a map entry *)
Lemma pair_ok e1 e2 (s1 s2 : N -> sres_) n :
  1 <= len e1 -> 1 <= len e2 ->
  (forall m, sok e1 m (s1 m)) -> (forall m, sok e2 m (s2 m)) ->
  sok (e1 ++ e2) n
    match s1 n with
    | None => None
    | Some (w1, o1) =>
        if w1 =? 0 then Some (0, o1) else
        match s2 (n - w1) with
        | None => None
        | Some (w2, o2) => if w2 =? 0 then Some (0, o1 ++ o2) else Some (w1 + w2, o1 ++ o2)
        end
    end.
Proof.
  intros Hn1 Hn2 H1 H2.
  destruct (H1 n) as (p & Hp & Hok). rewrite Hp. destruct p as [w1 o1].
  apply (hdr_then_ok e1 e2 n (w1, o1)
           (fun w1 o1 => match s2 (n - w1) with
                         | None => None
                         | Some (w2, o2) => if w2 =? 0 then Some (0, o1 ++ o2) else Some (w1 + w2, o1 ++ o2)
                         end) Hn1 Hok).
  intros Hfit.
  pose proof (ser_seq_ok (fun (_ : unit) m => s2 m) (fun _ => e2) [tt]) as Hs.
  cbn [map concat ser_seq] in Hs. rewrite app_nil_r in Hs.
  apply Hs; [|reflexivity|exact Hfit].
  constructor; [|constructor]. split; [exact Hn2|exact H2].
Qed.

(* ------------------------------------------------------------------ *)
(* induction principle for the nested inductive [item]                 *)
(* ------------------------------------------------------------------ *)
Section ItemInd.
  Variable P : item -> Prop.
  Hypothesis HUint : forall w v, P (IUint w v).
  Hypothesis HNegint : forall w v, P (INegint w v).
  Hypothesis HBytes : forall d, P (IBytes d).
  Hypothesis HBytesI : forall cs, P (IBytesI cs).
  Hypothesis HText : forall d, P (IText d).
  Hypothesis HTextI : forall cs, P (ITextI cs).
  Hypothesis HArray : forall indef xs, Forall P xs -> P (IArray indef xs).
  Hypothesis HMap : forall indef kvs,
    Forall (fun kv => P (fst kv) /\ P (snd kv)) kvs -> P (IMap indef kvs).
  Hypothesis HTag : forall v x, P x -> P (ITag v x).
  Hypothesis HCtrl : forall v, P (ICtrl v).
  Hypothesis HFloat : forall w b, P (IFloat w b).

  Fixpoint item_ind' (t : item) : P t :=
    match t with
    | IUint w v => HUint w v
    | INegint w v => HNegint w v
    | IBytes d => HBytes d
    | IBytesI cs => HBytesI cs
    | IText d => HText d
    | ITextI cs => HTextI cs
    | IArray indef xs =>
        HArray indef xs
          ((fix go (l : list item) : Forall P l :=
              match l with
              | [] => Forall_nil P
              | x :: r => Forall_cons x (item_ind' x) (go r)
              end) xs)
    | IMap indef kvs =>
        HMap indef kvs
          ((fix go (l : list (item * item)) : Forall (fun kv => P (fst kv) /\ P (snd kv)) l :=
              match l with
              | [] => Forall_nil _
              | kv :: r => Forall_cons kv (conj (item_ind' (fst kv)) (item_ind' (snd kv))) (go r)
              end) kvs)
    | ITag v x => HTag v x (item_ind' x)
    | ICtrl v => HCtrl v
    | IFloat w b => HFloat w b
    end.
End ItemInd.

(* ------------------------------------------------------------------ *)
(* 4. every encoding has at least its initial byte                      *)
(* ------------------------------------------------------------------ *)
Lemma head_w_nonempty mt w v : 1 <= len (head_w mt w v).
Proof. destruct w; unfold head_w; [destruct (v <? 24)|..]; rewrite ?len_cons; lia. Qed.

Theorem encode_rfc_nonempty : forall t, 1 <= len (encode_rfc t).
Proof.
  intros t.
  destruct t as [w v|w v|d|cs|d|cs|indef xs|indef kvs|v x|v|w b]; cbn [encode_rfc].
  - apply head_w_nonempty.
  - apply head_w_nonempty.
  - rewrite len_app. pose proof (head_nonempty 2 (len d)). lia.
  - rewrite len_app. change (len [95]) with 1. lia.
  - rewrite len_app. pose proof (head_nonempty 3 (len d)). lia.
  - rewrite len_app. change (len [127]) with 1. lia.
  - destruct indef; rewrite len_app.
    + change (len [159]) with 1. lia.
    + pose proof (head_nonempty 4 (len xs)). lia.
  - destruct indef; rewrite len_app.
    + change (len [191]) with 1. lia.
    + pose proof (head_nonempty 5 (len kvs)). lia.
  - rewrite len_app. pose proof (head_nonempty 6 v). lia.
  - destruct (v <? 24); rewrite ?len_cons; lia.
  - destruct w; rewrite len_cons; lia.
Qed.

(* ------------------------------------------------------------------ *)
(* 2. the main theorem                                                  *)
(* ------------------------------------------------------------------ *)

Lemma ser_chunked_ok mt start cs size : mt <= 7 ->
  sok ([start] ++ concat (map (fun d => head mt (len d) ++ d) cs) ++ [0xFF]) size
      (ser_chunked start (mt * 32) cs size).
Proof.
  intros Hmt. unfold ser_chunked.
  apply (hdr_then_ok [start] _ size (enc_byte start size)
           (fun written o => ser_close true size
              (ser_seq (fun c n => Some (ser_defstr (mt * 32) c n)) cs size written o))).
  - change (len [start]) with 1. lia.
  - apply enc_byte_ok.
  - intros Hfit. rewrite app_assoc.
    apply ser_close_true_ok.
    + rewrite len_app. change (len [start]) with 1. lia.
    + apply ser_seq_ok; [|reflexivity|exact Hfit].
      apply Forall_forall. intros d _. split.
      * rewrite len_app. pose proof (head_nonempty mt (len d)). lia.
      * intros n. apply sok_of_eok. apply ser_defstr_ok. exact Hmt.
Qed.

Theorem serialize_into_sok : forall t size, sok (encode_rfc t) size (serialize_into t size).
Proof.
  induction t as [w v|w v|d|cs|d|cs|indef xs IH|indef kvs IH|v x IH|v|w b] using item_ind';
    intros size.
  - cbn [serialize_into encode_rfc]. apply sok_of_eok. apply (ser_int_ok 0). lia.
  - cbn [serialize_into encode_rfc]. apply sok_of_eok. apply (ser_int_ok 1). lia.
  - cbn [serialize_into encode_rfc]. apply sok_of_eok. apply (ser_defstr_ok 2). lia.
  - cbn [serialize_into encode_rfc]. apply (ser_chunked_ok 2). lia.
  - cbn [serialize_into encode_rfc]. apply sok_of_eok. apply (ser_defstr_ok 3). lia.
  - cbn [serialize_into encode_rfc]. apply (ser_chunked_ok 3). lia.
  - (* arrays *)
    assert (Hall : Forall (fun x => 1 <= len (encode_rfc x) /\
                                    forall n, sok (encode_rfc x) n (serialize_into x n)) xs).
    { apply Forall_forall. intros x Hx. split; [apply encode_rfc_nonempty|].
      rewrite Forall_forall in IH. apply IH. exact Hx. }
    cbn [serialize_into encode_rfc]. destruct indef.
    +       apply (hdr_then_ok [159] _ size (enc_byte 159 size)
               (fun written o => ser_close true size (ser_seq serialize_into xs size written o))).
      * change (len [159]) with 1. lia.
      * apply enc_byte_ok.
      * intros Hfit. rewrite app_assoc. apply ser_close_true_ok.
        { rewrite len_app. change (len [159]) with 1. lia. }
        apply ser_seq_ok; [exact Hall|reflexivity|exact Hfit].
    + apply (hdr_then_ok (head 4 (len xs)) _ size (enc_uint (len xs) size (4 * 32))
               (fun written o => ser_close false size (ser_seq serialize_into xs size written o))).
      * apply head_nonempty.
      * apply enc_uint_ok. lia.
      * intros Hfit. apply ser_close_false_ok.
        apply ser_seq_ok; [exact Hall|reflexivity|exact Hfit].
  - (* maps *)
    set (f := fun (kv : item * item) n =>
                match serialize_into (fst kv) n with
                | None => None
                | Some (w1, o1) =>
                    if w1 =? 0 then Some (0, o1) else
                    match serialize_into (snd kv) (n - w1) with
                    | None => None
                    | Some (w2, o2) => if w2 =? 0 then Some (0, o1 ++ o2) else Some (w1 + w2, o1 ++ o2)
                    end
                end).
    set (e := fun kv : item * item => encode_rfc (fst kv) ++ encode_rfc (snd kv)).
    assert (Hall : Forall (fun kv => 1 <= len (e kv) /\ forall n, sok (e kv) n (f kv n)) kvs).
    { apply Forall_forall. intros kv Hkv. rewrite Forall_forall in IH.
      destruct (IH kv Hkv) as [IH1 IH2]. unfold e, f. split.
      - rewrite len_app. pose proof (encode_rfc_nonempty (fst kv)). lia.
      - intros n. apply (pair_ok _ _ (serialize_into (fst kv)) (serialize_into (snd kv)));
          auto using encode_rfc_nonempty. }
    cbn [serialize_into encode_rfc]. fold f. fold e. destruct indef.
    +       apply (hdr_then_ok [191] _ size (enc_byte 191 size)
               (fun written o => ser_close true size (ser_seq f kvs size written o))).
      * change (len [191]) with 1. lia.
      * apply enc_byte_ok.
      * intros Hfit. rewrite app_assoc. apply ser_close_true_ok.
        { rewrite len_app. change (len [191]) with 1. lia. }
        apply ser_seq_ok; [exact Hall|reflexivity|exact Hfit].
    + apply (hdr_then_ok (head 5 (len kvs)) _ size (enc_uint (len kvs) size (5 * 32))
               (fun written o => ser_close false size (ser_seq f kvs size written o))).
      * apply head_nonempty.
      * apply enc_uint_ok. lia.
      * intros Hfit. apply ser_close_false_ok.
        apply ser_seq_ok; [exact Hall|reflexivity|exact Hfit].
  - (* tags *)
    cbn [serialize_into encode_rfc].
    apply (hdr_then_ok (head 6 v) _ size (enc_uint v size (6 * 32))
             (fun written o => ser_seq serialize_into [x] size written o)).
    + apply head_nonempty.
    + apply enc_uint_ok. lia.
    + intros Hfit.
      pose proof (ser_seq_ok serialize_into encode_rfc [x]) as Hs.
      cbn [map concat] in Hs. rewrite app_nil_r in Hs.
      apply Hs; [|reflexivity|exact Hfit].
      constructor; [|constructor]. split; [apply encode_rfc_nonempty|exact IH].
  - (* simple values *)
    cbn [serialize_into encode_rfc]. apply sok_of_eok.
    apply (enc_uint8_ok 7 v size). lia.
  - (* floats *)
    destruct w; cbn [serialize_into encode_rfc].
    + unfold encode_half. rewrite encode_half_bits_some. cbn [option_map].
      apply sok_of_eok. apply (enc_uint16_ok 7). lia.
    + apply sok_of_eok. unfold encode_single, canon32, PStream.F32_NAN.
      destruct (PStream.f32_is_nan b); apply (enc_uint32_ok 7); lia.
    + apply sok_of_eok. unfold encode_double, canon64, PStream.F64_NAN.
      destruct (PStream.f64_is_nan b); apply (enc_uint64_ok 7); lia.
Qed.

(* the statement holds for every tree and every size in the model; [wf_item] and the size bound
   are the conditions under which the model's unbounded arithmetic agrees with the C code *)
Theorem C07_into_all : forall t size,
  exists ret out, serialize_into t size = Some (ret, out) /\
    (len (encode_rfc t) <= size -> ret = len (encode_rfc t) /\ out = encode_rfc t) /\
    (size < len (encode_rfc t) ->
       ret = 0 /\ (exists suffix, encode_rfc t = out ++ suffix) /\ len out <= size).
Proof.
  intros t size. destruct (serialize_into_sok t size) as ([ret out] & Hs & Hok).
  exists ret, out. split; [exact Hs|].
  destruct Hok as [[Hfit Heq]|[Hnofit (o & suffix & Heq & Henc & Hout)]];
    injection Heq as -> ->; (split; [intros H|intros H]); try lia.
  - split; reflexivity.
  - split; [reflexivity|]. split; [exists suffix; exact Henc|exact Hout].
Qed.

Theorem C07_into : forall t size, wf_item t -> size < 2 ^ 64 ->
  exists ret out, serialize_into t size = Some (ret, out) /\
    (len (encode_rfc t) <= size -> ret = len (encode_rfc t) /\ out = encode_rfc t) /\
    (size < len (encode_rfc t) ->
       ret = 0 /\ (exists suffix, encode_rfc t = out ++ suffix) /\ len out <= size).
Proof. intros t size _ _. apply C07_into_all. Qed.

(* ------------------------------------------------------------------ *)
(* 3. cbor_serialize_alloc                                              *)
(* ------------------------------------------------------------------ *)
Theorem C07_alloc : forall t, wf_item t ->
  0 < len (encode_rfc t) < 2 ^ 64 ->
  ssize t = len (encode_rfc t) ->
  serialize_alloc t = Some (len (encode_rfc t), len (encode_rfc t), encode_rfc t).
Proof.
  intros t Hwf [Hpos Hlt] Hsz. unfold serialize_alloc. rewrite Hsz.
  destruct (N.eqb_spec (len (encode_rfc t)) 0) as [E|E]; [lia|].
  destruct (C07_into t (len (encode_rfc t)) Hwf Hlt) as (ret & out & Hs & Hfit & _).
  rewrite Hs. destruct (Hfit (N.le_refl _)) as [-> ->]. reflexivity.
Qed.

Print Assumptions encode_half_total.
Print Assumptions C07_into.
Print Assumptions C07_alloc.
Print Assumptions encode_rfc_nonempty.
