(* Model P, the outcome of _cbor_stack_push (src/cbor/internal/stack.c) as a function of stack->size
   and of the allocator's answer: (the request made, or None; whether NULL is returned; the new
   stack->size).  [L] = CBOR_MAX_STACK_SIZE, [szrec] = sizeof(struct _cbor_stack_record).
   PBuild.push is the "granted" case of this on the list of frames.  Definitions only. *)
From CB Require Export Word.
Local Open Scope N_scope.

Definition stack_push_outcome (L szrec size : N) (granted : bool) : option N * bool * N :=
  if size =? L then (None, true, size)                           (* refused by the depth guard: no request *)
  else (Some szrec, negb granted, if granted then wrap 64 (size + 1) else size).
