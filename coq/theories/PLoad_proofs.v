(* Theorems about the specification of cbor_load (SpecParse.load_spec) and, through
   PFinal.load_is_spec_full, about the model PBuild.load:
   totality (C01/C05), independence of what follows an item (C14), truncation (C05),
   nesting limit (C19). *)
From CB Require Import Word Word_proofs PStream SpecHead SpecItem PBuild SpecParse PRun PStream_proofs PBuild_proofs PDrive_proofs PFinal.
From Coq Require Import Lia ZArith ZifyBool ZifyN ZifyNat List.
Import ListNotations.
Local Open Scope N_scope.
Ltac Zify.zify_post_hook ::= Z.div_mod_to_equations.

Arguments N.pow : simpl never.
Arguments N.mul : simpl never.
Arguments N.add : simpl never.
Arguments N.sub : simpl never.

(* ------------------------------------------------------------------------------------------ *)
(* 1. fuel: the parser never runs out of fuel                                                  *)
(* ------------------------------------------------------------------------------------------ *)

(* a result other than "out of fuel" *)
Definition good {A} (r : pres A) : Prop :=
  match r with PErr ENone _ => False | _ => True end.

Lemma good_ok {A} (a : A) e r : good (POk a e r).
Proof. exact I. Qed.

Lemma good_stop {A} tl : good (@stop tl A).
Proof. destruct tl; exact I. Qed.

Lemma good_err {A} c p : c <> ENone -> good (@PErr A c p).
Proof. destruct c; intros H; try exact I. congruence. Qed.

Lemma good_err_inv {A} c p : good (@PErr A c p) -> c <> ENone.
Proof. intros G ->. exact G. Qed.

(* more fuel gives the same answer, once the answer is not "out of fuel" *)
Lemma fuel_mono cap tl : forall f,
  (forall d ts R f', parse cap tl f d ts = R -> good R -> (f <= f')%nat ->
     parse cap tl f' d ts = R) /\
  (forall d n ts racc R f', parse_n cap tl f d n ts racc = R -> good R -> (f <= f')%nat ->
     parse_n cap tl f' d n ts racc = R) /\
  (forall d ts racc R f', parse_until cap tl f d ts racc = R -> good R -> (f <= f')%nat ->
     parse_until cap tl f' d ts racc = R) /\
  (forall d n ts racc R f', parse_pairs cap tl f d n ts racc = R -> good R -> (f <= f')%nat ->
     parse_pairs cap tl f' d n ts racc = R) /\
  (forall d ts racc R f', parse_until_map cap tl f d ts racc = R -> good R -> (f <= f')%nat ->
     parse_until_map cap tl f' d ts racc = R) /\
  (forall d text ts racc R f', parse_chunks cap tl f d text ts racc = R -> good R -> (f <= f')%nat ->
     parse_chunks cap tl f' d text ts racc = R).
Proof.
  induction f as [|f (IH1 & IH2 & IH3 & IH4 & IH5 & IH6)].
  { repeat split; intros; subst R; contradiction. }
  repeat split.
  - intros d ts R f' H G Hle. destruct f' as [|f']; [lia|]. assert (Hle' : (f <= f')%nat) by lia.
    subst R. rewrite parse_S in G |- *. rewrite parse_S.
    destruct ts as [|[tk e] r]; [reflexivity|].
    destruct tk; try reflexivity;
      repeat match goal with |- context [if ?c then _ else _] => destruct c end; try reflexivity;
      (destruct d as [|d']; [reflexivity|]).
    + apply IH6; [reflexivity|assumption|assumption].
    + apply IH6; [reflexivity|assumption|assumption].
    + apply IH2; [reflexivity|assumption|assumption].
    + apply IH3; [reflexivity|assumption|assumption].
    + apply IH4; [reflexivity|assumption|assumption].
    + apply IH5; [reflexivity|assumption|assumption].
    + destruct (parse cap tl f d' r) as [x e' r'|c p] eqn:E.
      * rewrite (IH1 _ _ _ f' E I Hle'). reflexivity.
      * rewrite (IH1 _ _ _ f' E G Hle'). reflexivity.
  - intros d n ts racc R f' H G Hle. destruct f' as [|f']; [lia|]. assert (Hle' : (f <= f')%nat) by lia.
    subst R. rewrite parse_n_S in G |- *. rewrite parse_n_S.
    destruct (parse cap tl f d ts) as [x e' r'|c p] eqn:E.
    + rewrite (IH1 _ _ _ f' E I Hle'). destruct (n =? 1); [reflexivity|].
      apply IH2; [reflexivity|assumption|assumption].
    + rewrite (IH1 _ _ _ f' E G Hle'). reflexivity.
  - intros d ts racc R f' H G Hle. destruct f' as [|f']; [lia|]. assert (Hle' : (f <= f')%nat) by lia.
    subst R. rewrite parse_until_S in G |- *. rewrite parse_until_S.
    destruct (is_break ts) as [[e0 r0]|]; [reflexivity|].
    destruct (parse cap tl f d ts) as [x e' r'|c p] eqn:E.
    + rewrite (IH1 _ _ _ f' E I Hle'). apply IH3; [reflexivity|assumption|assumption].
    + rewrite (IH1 _ _ _ f' E G Hle'). reflexivity.
  - intros d n ts racc R f' H G Hle. destruct f' as [|f']; [lia|]. assert (Hle' : (f <= f')%nat) by lia.
    subst R. rewrite parse_pairs_S in G |- *. rewrite parse_pairs_S.
    destruct (parse cap tl f d ts) as [x e' r'|c p] eqn:E.
    + rewrite (IH1 _ _ _ f' E I Hle').
      destruct (parse cap tl f d r') as [x2 e2 r2|c p] eqn:E2.
      * rewrite (IH1 _ _ _ f' E2 I Hle'). destruct (n =? 1); [reflexivity|].
        apply IH4; [reflexivity|assumption|assumption].
      * rewrite (IH1 _ _ _ f' E2 G Hle'). reflexivity.
    + rewrite (IH1 _ _ _ f' E G Hle'). reflexivity.
  - intros d ts racc R f' H G Hle. destruct f' as [|f']; [lia|]. assert (Hle' : (f <= f')%nat) by lia.
    subst R. rewrite parse_until_map_S in G |- *. rewrite parse_until_map_S.
    destruct (is_break ts) as [[e0 r0]|]; [reflexivity|].
    destruct (parse cap tl f d ts) as [x e' r'|c p] eqn:E.
    + rewrite (IH1 _ _ _ f' E I Hle').
      destruct (is_break r') as [[e0 r0]|]; [reflexivity|].
      destruct (parse cap tl f d r') as [x2 e2 r2|c p] eqn:E2.
      * rewrite (IH1 _ _ _ f' E2 I Hle'). apply IH5; [reflexivity|assumption|assumption].
      * rewrite (IH1 _ _ _ f' E2 G Hle'). reflexivity.
    + rewrite (IH1 _ _ _ f' E G Hle'). reflexivity.
  - intros d text ts racc R f' H G Hle. destruct f' as [|f']; [lia|]. assert (Hle' : (f <= f')%nat) by lia.
    subst R. rewrite parse_chunks_S in G |- *. rewrite parse_chunks_S.
    destruct ts as [|[tk e] r]; [reflexivity|].
    match goal with |- context [is_break ?l] => destruct (is_break l) as [br|] end; [reflexivity|].
    destruct (chunk_of text tk) as [data|].
    + destruct (cap <? len data); [reflexivity|]. apply IH6; [reflexivity|assumption|assumption].
    + match goal with |- context [parse cap tl f d ?l] => destruct (parse cap tl f d l) as [x e' r'|c p] eqn:E end.
      * rewrite (IH1 _ _ _ f' E I Hle'). reflexivity.
      * rewrite (IH1 _ _ _ f' E G Hle'). reflexivity.
Qed.

(* the fuel that suffices: 2 |ts| + 1 for an item, 2 |ts| + 2 for the rest of a container *)
Lemma parse_enough_fuel cap tl : forall f,
  (forall d ts, (2 * length ts + 1 <= f)%nat -> good (parse cap tl f d ts)) /\
  (forall d n ts racc, (2 * length ts + 2 <= f)%nat -> good (parse_n cap tl f d n ts racc)) /\
  (forall d ts racc, (2 * length ts + 2 <= f)%nat -> good (parse_until cap tl f d ts racc)) /\
  (forall d n ts racc, (2 * length ts + 2 <= f)%nat -> good (parse_pairs cap tl f d n ts racc)) /\
  (forall d ts racc, (2 * length ts + 2 <= f)%nat -> good (parse_until_map cap tl f d ts racc)) /\
  (forall d text ts racc, (2 * length ts + 2 <= f)%nat -> good (parse_chunks cap tl f d text ts racc)).
Proof.
  induction f as [|f (IH1 & IH2 & IH3 & IH4 & IH5 & IH6)].
  { repeat split; intros; lia. }
  pose proof (consumes cap tl f) as (C1 & _).
  repeat split.
  - intros d ts Hf. rewrite parse_S.
    destruct ts as [|[tk e] r]; [apply good_stop|]. cbn [length] in Hf.
    destruct tk; try exact I;
      repeat match goal with |- context [if ?c then _ else _] => destruct c end; try exact I;
      (destruct d as [|d']; [exact I|]).
    + apply IH6; lia.
    + apply IH6; lia.
    + apply IH2; lia.
    + apply IH3; lia.
    + apply IH4; lia.
    + apply IH5; lia.
    + pose proof (IH1 d' r ltac:(lia)) as G.
      destruct (parse cap tl f d' r) as [x e' r'|c p]; [exact I|exact G].
  - intros d n ts racc Hf. rewrite parse_n_S.
    pose proof (IH1 d ts ltac:(lia)) as G.
    destruct (parse cap tl f d ts) as [x e' r'|c p] eqn:E; [|exact G].
    apply C1 in E. destruct (n =? 1); [exact I|]. apply IH2; lia.
  - intros d ts racc Hf. rewrite parse_until_S.
    destruct (is_break ts) as [[e0 r0]|]; [exact I|].
    pose proof (IH1 d ts ltac:(lia)) as G.
    destruct (parse cap tl f d ts) as [x e' r'|c p] eqn:E; [|exact G].
    apply C1 in E. apply IH3; lia.
  - intros d n ts racc Hf. rewrite parse_pairs_S.
    pose proof (IH1 d ts ltac:(lia)) as G.
    destruct (parse cap tl f d ts) as [x e' r'|c p] eqn:E; [|exact G].
    apply C1 in E.
    pose proof (IH1 d r' ltac:(lia)) as G2.
    destruct (parse cap tl f d r') as [x2 e2 r2|c p] eqn:E2; [|exact G2].
    apply C1 in E2. destruct (n =? 1); [exact I|]. apply IH4; lia.
  - intros d ts racc Hf. rewrite parse_until_map_S.
    destruct (is_break ts) as [[e0 r0]|]; [exact I|].
    pose proof (IH1 d ts ltac:(lia)) as G.
    destruct (parse cap tl f d ts) as [x e' r'|c p] eqn:E; [|exact G].
    apply C1 in E.
    destruct (is_break r') as [[e0 r0]|]; [exact I|].
    pose proof (IH1 d r' ltac:(lia)) as G2.
    destruct (parse cap tl f d r') as [x2 e2 r2|c p] eqn:E2; [|exact G2].
    apply C1 in E2. apply IH5; lia.
  - intros d text ts racc Hf. rewrite parse_chunks_S.
    destruct ts as [|[tk e] r]; [apply good_stop|].
    match goal with |- context [is_break ?l] => destruct (is_break l) as [br|] end; [exact I|].
    cbn [length] in Hf.
    destruct (chunk_of text tk) as [data|].
    + destruct (cap <? len data); [exact I|]. apply IH6; lia.
    + match goal with |- context [parse cap tl f d ?l] =>
        pose proof (IH1 d l ltac:(cbn [length]; lia)) as G;
        destruct (parse cap tl f d l) as [x e' r'|c p] end; [exact I|exact G].
Qed.

(* in the planned form: with the fuel of load_spec the answer is never "out of fuel" *)
Corollary parse_never_out_of_fuel cap tl f d ts p :
  (2 * length ts + 1 <= f)%nat -> parse cap tl f d ts <> PErr ENone p.
Proof.
  intros Hf H. destruct (parse_enough_fuel cap tl f) as (G & _). specialize (G d ts Hf).
  rewrite H in G. exact G.
Qed.

(* two sufficient fuels give the same answer *)
Lemma parse_fuel_indep cap tl f1 f2 d ts :
  (2 * length ts + 1 <= f1)%nat -> (2 * length ts + 1 <= f2)%nat ->
  parse cap tl f1 d ts = parse cap tl f2 d ts.
Proof.
  intros H1 H2.
  destruct (parse_enough_fuel cap tl (2 * length ts + 1)) as (G & _).
  destruct (fuel_mono cap tl (2 * length ts + 1)) as (M & _).
  specialize (G d ts ltac:(lia)).
  rewrite (M d ts _ f1 eq_refl G H1), (M d ts _ f2 eq_refl G H2). reflexivity.
Qed.

Lemma load_spec_empty L cap : load_spec L cap [] = LErr ENoData 0 0.
Proof. reflexivity. Qed.

(* C01 / C05: cbor_load has exactly two kinds of outcome *)
Theorem load_spec_outcome : forall L cap buf,
  (exists t n, load_spec L cap buf = LOk t n) \/
  (exists c p, load_spec L cap buf = LErr c p p /\ c <> ENone).
Proof.
  intros L cap buf. unfold load_spec.
  destruct (len buf =? 0). { right. exists ENoData, 0. split; [reflexivity|discriminate]. }
  destruct (tokenize (S (length buf)) 0 buf) as [ts tl].
  destruct (parse_enough_fuel cap tl (S (2 * length ts + 1))) as (G & _).
  specialize (G (N.to_nat L) ts ltac:(lia)).
  destruct (parse cap tl (S (2 * length ts + 1)) (N.to_nat L) ts) as [t e r|c p].
  - left. exists t, e. reflexivity.
  - right. exists c, p. split; [reflexivity|apply (good_err_inv _ _ G)].
Qed.

Theorem load_never_faults : forall L cap buf, bytes_ok buf -> len buf < SIZE_MAX ->
  load L cap buf <> LFault.
Proof.
  intros L cap buf Hb Hlen. rewrite load_is_spec_full by assumption.
  destruct (load_spec_outcome L cap buf) as [(t & n & H)|(c & p & H & _)]; rewrite H; discriminate.
Qed.

(* ------------------------------------------------------------------------------------------ *)
(* 2. a successful parse only inspects the tokens it consumes (C14)                            *)
(* ------------------------------------------------------------------------------------------ *)

(* end position of the last token of a non-empty token list *)
Definition endpos (c : list ptok) : N := snd (last c (TNull, 0)).

Lemma endpos_one a : endpos [a] = snd a.
Proof. reflexivity. Qed.

Lemma endpos_cons a c : c <> [] -> endpos (a :: c) = endpos c.
Proof. intros H. destruct c as [|b c]; [congruence|reflexivity]. Qed.

Lemma endpos_app c1 c2 : c2 <> [] -> endpos (c1 ++ c2) = endpos c2.
Proof.
  intros H. induction c1 as [|a c1 IH]; [reflexivity|].
  cbn [app]. rewrite endpos_cons; [exact IH|].
  destruct c1; cbn [app]; [assumption|discriminate].
Qed.

Lemma endpos_in c : c <> [] -> exists tk, In (tk, endpos c) c.
Proof.
  intros H. induction c as [|a c IH]; [congruence|].
  destruct c as [|b c].
  - exists (fst a). left. destruct a; reflexivity.
  - destruct (IH ltac:(discriminate)) as (tk & Hin). exists tk. right.
    rewrite endpos_cons in * by discriminate. exact Hin.
Qed.

Lemma is_break_app_none c r r2 : c <> [] -> is_break (c ++ r) = None -> is_break (c ++ r2) = None.
Proof. intros Hc H. destruct c as [|[[] e] c]; try congruence; try reflexivity; discriminate. Qed.

Lemma app_nonempty {A} (c1 c2 : list A) : c1 <> [] -> c1 ++ c2 <> [].
Proof. destruct c1; [congruence|discriminate]. Qed.

(* [run tl ts = POk t e r] consumed the non-empty prefix [c] of [ts] and nothing else was looked at *)
Definition framed (run : SpecParse.tail -> list ptok -> pres item) (ts : list ptok) t e r : Prop :=
  exists c, c <> [] /\ ts = c ++ r /\ e = endpos c /\
            forall tl2 r2, run tl2 (c ++ r2) = POk t e r2.

Lemma frame cap : forall f,
  (forall tl d ts t e r, parse cap tl f d ts = POk t e r ->
     framed (fun tl ts => parse cap tl f d ts) ts t e r) /\
  (forall tl d n ts racc t e r, parse_n cap tl f d n ts racc = POk t e r ->
     framed (fun tl ts => parse_n cap tl f d n ts racc) ts t e r) /\
  (forall tl d ts racc t e r, parse_until cap tl f d ts racc = POk t e r ->
     framed (fun tl ts => parse_until cap tl f d ts racc) ts t e r) /\
  (forall tl d n ts racc t e r, parse_pairs cap tl f d n ts racc = POk t e r ->
     framed (fun tl ts => parse_pairs cap tl f d n ts racc) ts t e r) /\
  (forall tl d ts racc t e r, parse_until_map cap tl f d ts racc = POk t e r ->
     framed (fun tl ts => parse_until_map cap tl f d ts racc) ts t e r) /\
  (forall tl d text ts racc t e r, parse_chunks cap tl f d text ts racc = POk t e r ->
     framed (fun tl ts => parse_chunks cap tl f d text ts racc) ts t e r).
Proof.
  unfold framed.
  induction f as [|f (IH1 & IH2 & IH3 & IH4 & IH5 & IH6)].
  { repeat split; intros; discriminate. }
  repeat split.
  - intros tl d ts t e r H. rewrite parse_S in H.
    destruct ts as [|[tk e0] r0]; [exfalso; exact (stop_not_ok _ _ _ _ _ H)|].
    destruct tk;
      repeat match type of H with (if ?c then _ else _) = _ =>
        let Ec := fresh "Ec" in destruct c eqn:Ec end;
      try discriminate;
      try (inversion H; subst; eexists [_]; split; [discriminate|];
           split; [reflexivity|]; split; [reflexivity|];
           intros tl2 r2; rewrite parse_S; cbn [app]; rewrite ?Ec, ?Ec0; reflexivity);
      (destruct d as [|d']; [discriminate|]);
      try (first [apply IH6 in H | apply IH2 in H | apply IH3 in H | apply IH4 in H | apply IH5 in H];
           destruct H as (c & Hne & Hts & He & F);
           eexists ((_, e0) :: c); split; [discriminate|];
           split; [cbn [app]; rewrite Hts; reflexivity|];
           split; [rewrite endpos_cons by assumption; exact He|];
           intros tl2 r2; rewrite parse_S; cbn [app]; rewrite ?Ec, ?Ec0; apply F).
    destruct (parse cap tl f d' r0) as [x e' r'|c p] eqn:E; [|discriminate].
    inversion H; subst. apply IH1 in E. destruct E as (c & Hne & Hts & He & F).
    eexists ((_, e0) :: c); split; [discriminate|].
    split; [cbn [app]; rewrite Hts; reflexivity|].
    split; [rewrite endpos_cons by assumption; exact He|].
    intros tl2 r2; rewrite parse_S; cbn [app]. rewrite F. reflexivity.
  - intros tl d n ts racc t e r H. rewrite parse_n_S in H.
    destruct (parse cap tl f d ts) as [x e1 r1|c p] eqn:E; [|discriminate].
    apply IH1 in E. destruct E as (c1 & Hne1 & Hts1 & He1 & F1).
    destruct (n =? 1) eqn:En.
    + inversion H; subst. exists c1. repeat split; try assumption; try reflexivity.
      intros tl2 r2. rewrite parse_n_S, F1, En. reflexivity.
    + apply IH2 in H. destruct H as (c2 & Hne2 & Hts2 & He2 & F2).
      exists (c1 ++ c2). split; [apply app_nonempty; assumption|].
      split; [rewrite <- app_assoc, <- Hts2; exact Hts1|].
      split; [rewrite endpos_app by assumption; exact He2|].
      intros tl2 r2. rewrite parse_n_S, <- app_assoc, F1, En. apply F2.
  - intros tl d ts racc t e r H. rewrite parse_until_S in H.
    destruct (is_break ts) as [[e0 r0]|] eqn:B.
    + apply is_break_some in B. subst ts. inversion H; subst.
      exists [(TBreak, e)]. repeat split; try discriminate; try reflexivity.
    + destruct (parse cap tl f d ts) as [x e1 r1|c p] eqn:E; [|discriminate].
      apply IH1 in E. destruct E as (c1 & Hne1 & Hts1 & He1 & F1).
      apply IH3 in H. destruct H as (c2 & Hne2 & Hts2 & He2 & F2).
      exists (c1 ++ c2). split; [apply app_nonempty; assumption|].
      split; [rewrite <- app_assoc, <- Hts2; exact Hts1|].
      split; [rewrite endpos_app by assumption; exact He2|].
      intros tl2 r2. rewrite parse_until_S, <- app_assoc.
      rewrite (is_break_app_none c1 r1) by (try assumption; rewrite <- Hts1; exact B).
      rewrite F1. apply F2.
  - intros tl d n ts racc t e r H. rewrite parse_pairs_S in H.
    destruct (parse cap tl f d ts) as [x e1 r1|c p] eqn:E; [|discriminate].
    apply IH1 in E. destruct E as (c1 & Hne1 & Hts1 & He1 & F1).
    destruct (parse cap tl f d r1) as [x2 e2 r2|c p] eqn:E2; [|discriminate].
    apply IH1 in E2. destruct E2 as (c2 & Hne2 & Hts2 & He2 & F2).
    destruct (n =? 1) eqn:En.
    + inversion H; subst. exists (c1 ++ c2). split; [apply app_nonempty; assumption|].
      split; [rewrite <- app_assoc; reflexivity|].
      split; [rewrite endpos_app by assumption; reflexivity|].
      intros tl2 r2'. rewrite parse_pairs_S, <- app_assoc, F1, F2, En. reflexivity.
    + apply IH4 in H. destruct H as (c3 & Hne3 & Hts3 & He3 & F3).
      exists (c1 ++ c2 ++ c3). split; [apply app_nonempty; assumption|].
      split; [rewrite <- !app_assoc, <- Hts3, <- Hts2; exact Hts1|].
      split; [rewrite !endpos_app by (try apply app_nonempty; assumption); exact He3|].
      intros tl2 r2'. rewrite parse_pairs_S, <- !app_assoc, F1, F2, En. apply F3.
  - intros tl d ts racc t e r H. rewrite parse_until_map_S in H.
    destruct (is_break ts) as [[e0 r0]|] eqn:B.
    + apply is_break_some in B. subst ts. inversion H; subst.
      exists [(TBreak, e)]. repeat split; try discriminate; try reflexivity.
    + destruct (parse cap tl f d ts) as [x e1 r1|c p] eqn:E; [|discriminate].
      apply IH1 in E. destruct E as (c1 & Hne1 & Hts1 & He1 & F1).
      destruct (is_break r1) as [[e0 r0]|] eqn:B1; [discriminate|].
      destruct (parse cap tl f d r1) as [x2 e2 r2|c p] eqn:E2; [|discriminate].
      apply IH1 in E2. destruct E2 as (c2 & Hne2 & Hts2 & He2 & F2).
      apply IH5 in H. destruct H as (c3 & Hne3 & Hts3 & He3 & F3).
      exists (c1 ++ c2 ++ c3). split; [apply app_nonempty; assumption|].
      split; [rewrite <- !app_assoc, <- Hts3, <- Hts2; exact Hts1|].
      split; [rewrite !endpos_app by (try apply app_nonempty; assumption); exact He3|].
      intros tl2 r2'. rewrite parse_until_map_S, <- !app_assoc.
      rewrite (is_break_app_none c1 r1) by (try assumption; rewrite <- Hts1; exact B).
      rewrite F1.
      rewrite (is_break_app_none c2 r2) by (try assumption; rewrite <- Hts2; exact B1).
      rewrite F2. apply F3.
  - intros tl d text ts racc t e r H. rewrite parse_chunks_S in H.
    destruct ts as [|[tk e0] r0]; [exfalso; exact (stop_not_ok _ _ _ _ _ H)|].
    match type of H with context [is_break ?l] => destruct (is_break l) as [br|] eqn:B end.
    + inversion H; subst. destruct tk; try discriminate.
      exists [(TBreak, e)]. repeat split; try discriminate; try reflexivity.
    + destruct (chunk_of text tk) as [data|] eqn:Ck.
      * destruct (cap <? len data) eqn:Ec; [discriminate|].
        apply IH6 in H. destruct H as (c & Hne & Hts & He & F).
        exists ((tk, e0) :: c). split; [discriminate|].
        split; [cbn [app]; rewrite Hts; reflexivity|].
        split; [rewrite endpos_cons by assumption; exact He|].
        intros tl2 r2. rewrite parse_chunks_S. cbn [app].
        match goal with |- context [is_break ?l] => replace (is_break l) with (@None (N * list ptok)) end.
        2:{ destruct tk; try discriminate; reflexivity. }
        rewrite Ck, Ec. apply F.
      * match type of H with context [parse cap tl f d ?l] => destruct (parse cap tl f d l); discriminate end.
Qed.

(* the frame property at any larger fuel *)
Lemma frame_parse cap tl f d ts t e r : parse cap tl f d ts = POk t e r ->
  exists c, c <> [] /\ ts = c ++ r /\ e = endpos c /\
    forall tl2 r2 f', (f <= f')%nat -> parse cap tl2 f' d (c ++ r2) = POk t e r2.
Proof.
  intros H. destruct (frame cap f) as (F & _). apply F in H.
  destruct H as (c & Hne & Hts & He & Fr). exists c. repeat split; try assumption.
  intros tl2 r2 f' Hle. destruct (fuel_mono cap tl2 f) as (M & _).
  apply (M d (c ++ r2) _ f' (Fr tl2 r2) I Hle).
Qed.

(* a result obtained with any fuel is the result for every sufficient fuel *)
Lemma parse_any_fuel cap tl f d ts R f2 : parse cap tl f d ts = R -> good R ->
  (2 * length ts + 1 <= f2)%nat -> parse cap tl f2 d ts = R.
Proof.
  intros H G Hf2.
  destruct (parse_enough_fuel cap tl f2) as (G2 & _). specialize (G2 d ts Hf2).
  destruct (fuel_mono cap tl f) as (M & _). destruct (fuel_mono cap tl f2) as (M2 & _).
  rewrite <- (M d ts R (Nat.max f f2) H G (Nat.le_max_l _ _)).
  symmetry. apply (M2 d ts _ (Nat.max f f2) eq_refl G2 (Nat.le_max_r _ _)).
Qed.

(* ---- load_spec in terms of tokenize / parse ---- *)
Lemma load_spec_ok_inv L cap x t n : load_spec L cap x = LOk t n ->
  exists ts tl r, len x <> 0 /\ tokenize (S (length x)) 0 x = (ts, tl) /\
    parse cap tl (S (2 * length ts + 1)) (N.to_nat L) ts = POk t n r.
Proof.
  unfold load_spec. intros H. destruct (N.eqb_spec (len x) 0) as [|Hne]; [discriminate|].
  destruct (tokenize (S (length x)) 0 x) as [ts tl].
  destruct (parse cap tl (S (2 * length ts + 1)) (N.to_nat L) ts) as [t' e r|c p] eqn:E; [|discriminate].
  inversion H; subst. exists ts, tl, r. repeat split; assumption.
Qed.

Lemma load_spec_eq L cap x ts tl f R : len x <> 0 -> tokenize (S (length x)) 0 x = (ts, tl) ->
  parse cap tl f (N.to_nat L) ts = R -> good R -> load_spec L cap x = lres_of_pres R.
Proof.
  intros Hne HT H G. unfold load_spec. destruct (N.eqb_spec (len x) 0) as [|_]; [contradiction|].
  rewrite HT. rewrite (parse_any_fuel cap tl f _ ts R _ H G) by lia. destruct R; reflexivity.
Qed.

(* ---- the head sequence of a buffer ---- *)
Lemma tokenize_fuel : forall f1 f2 pos bs, (length bs < f1)%nat -> (length bs < f2)%nat ->
  tokenize f1 pos bs = tokenize f2 pos bs.
Proof.
  induction f1 as [|f1 IH]; intros f2 pos bs H1 H2; [lia|]. destruct f2 as [|f2]; [lia|].
  cbn [tokenize]. destruct (head_spec bs) as [t n|full|] eqn:HS; try reflexivity.
  pose proof (skip_shorter _ _ _ HS) as Hs.
  rewrite (IH f2 (pos + n) (skipnN n bs)) by lia. reflexivity.
Qed.

(* token ends increase strictly, starting after [pos] *)
Fixpoint sorted_from (pos : N) (ts : list ptok) : Prop :=
  match ts with [] => True | (_, e) :: r => pos < e /\ sorted_from e r end.

Lemma tokenize_sorted : forall f pos bs, sorted_from pos (fst (tokenize f pos bs)).
Proof.
  induction f as [|f IH]; intros pos bs; [exact I|]. cbn [tokenize].
  destruct (head_spec bs) as [t n|full|] eqn:HS; try exact I.
  specialize (IH (pos + n) (skipnN n bs)).
  destruct (tokenize f (pos + n) (skipnN n bs)) as [ts tl]. cbn [fst sorted_from] in *.
  apply head_tok_bounds in HS. split; [lia|exact IH].
Qed.

Lemma tokenize_bound : forall f pos bs tk e, In (tk, e) (fst (tokenize f pos bs)) -> e <= pos + len bs.
Proof.
  induction f as [|f IH]; intros pos bs tk e Hin; [contradiction|]. cbn [tokenize] in Hin.
  destruct (head_spec bs) as [t n|full|] eqn:HS; try contradiction.
  specialize (IH (pos + n) (skipnN n bs) tk e).
  destruct (tokenize f (pos + n) (skipnN n bs)) as [ts tl]. cbn [fst] in *.
  apply head_tok_bounds in HS. rewrite len_skipnN in IH.
  destruct Hin as [Heq|Hin]; [inversion Heq; subst; lia|]. specialize (IH Hin). lia.
Qed.

Lemma tokenize_need : forall f pos bs p, snd (tokenize f pos bs) = TNeed p -> pos <= p <= pos + len bs.
Proof.
  induction f as [|f IH]; intros pos bs p H; cbn [tokenize] in H.
  { cbn [snd] in H. inversion H; subst. lia. }
  destruct (head_spec bs) as [t n|full|] eqn:HS.
  - specialize (IH (pos + n) (skipnN n bs) p).
    destruct (tokenize f (pos + n) (skipnN n bs)) as [ts tl]. cbn [snd] in *.
    apply head_tok_bounds in HS. rewrite len_skipnN in IH. specialize (IH H). lia.
  - cbn [snd] in H. inversion H; subst. lia.
  - discriminate.
Qed.

(* the heads of [x] are a prefix of the heads of [x ++ y]; an unsupported initial byte stops both *)
Lemma tokenize_app y : forall f pos x ts tl, (length x < f)%nat -> tokenize f pos x = (ts, tl) ->
  forall f', (length (x ++ y) < f')%nat ->
  exists more tl2, tokenize f' pos (x ++ y) = (ts ++ more, tl2) /\
                   (forall p, tl = TBad p -> more = [] /\ tl2 = TBad p).
Proof.
  induction f as [|f IH]; intros pos x ts tl Hf HT f' Hf'; [lia|].
  destruct f' as [|f']; [lia|]. cbn [tokenize] in HT |- *.
  destruct (head_spec x) as [t n|full|] eqn:HS.
  - rewrite (head_tok_ext _ y _ _ HS).
    pose proof (skip_shorter _ _ _ HS) as Hs.
    pose proof (skip_shorter _ _ _ (head_tok_ext _ y _ _ HS)) as Hs'.
    pose proof (head_tok_bounds _ _ _ HS) as Hb.
    rewrite skipnN_app_le in * by lia.
    destruct (tokenize f (pos + n) (skipnN n x)) as [ts' tl'] eqn:HT'.
    inversion HT; subst.
    destruct (IH (pos + n) (skipnN n x) ts' tl ltac:(lia) HT' f' ltac:(lia)) as (more & tl2 & HE & HB).
    rewrite HE. exists more, tl2. split; [reflexivity|exact HB].
  - inversion HT; subst.
    match goal with |- exists more tl2, ?X = _ /\ _ => destruct X as [ts2 tl2] end.
    exists ts2, tl2. split; [reflexivity|discriminate].
  - inversion HT; subst. rewrite (head_bad_ext _ y HS). exists [], (TBad pos).
    split; [reflexivity|]. intros p Hp. split; [reflexivity|exact Hp].
Qed.

(* C14: an item decodes independently of what follows it *)
Theorem C14_suffix_strong : forall L cap x y t n,
  load_spec L cap x = LOk t n -> load_spec L cap (x ++ y) = LOk t n /\ n <= len x.
Proof.
  intros L cap x y t n H.
  destruct (load_spec_ok_inv _ _ _ _ _ H) as (ts & tl & r & Hne & HT & HP).
  destruct (frame_parse _ _ _ _ _ _ _ _ HP) as (c & Hc & Hts & He & F).
  split.
  - destruct (tokenize_app y (S (length x)) 0 x ts tl ltac:(lia) HT (S (length (x ++ y))) ltac:(lia))
      as (more & tl2 & HT2 & _).
    assert (Hne2 : len (x ++ y) <> 0) by (rewrite len_app; lia).
    pose proof (F tl2 (r ++ more) _ (Nat.le_refl _)) as HP2.
    rewrite app_assoc, <- Hts in HP2.
    rewrite (load_spec_eq L cap (x ++ y) _ _ _ _ Hne2 HT2 HP2 I). reflexivity.
  - destruct (endpos_in c Hc) as (tk & Hin). rewrite <- He in Hin.
    assert (Hin' : In (tk, n) (fst (tokenize (S (length x)) 0 x))).
    { rewrite HT. cbn [fst]. rewrite Hts. apply in_or_app. left. exact Hin. }
    apply tokenize_bound in Hin'. lia.
Qed.

Theorem C14_suffix : forall L cap x y t n, bytes_ok x -> bytes_ok y ->
  load_spec L cap x = LOk t n -> load_spec L cap (x ++ y) = LOk t n /\ n <= len x.
Proof. intros L cap x y t n _ _. apply C14_suffix_strong. Qed.

(* the read count is the end position of the last consumed head; the heads after it are not inspected *)
Theorem C14_read_is_length : forall L cap x t n, load_spec L cap x = LOk t n ->
  exists c r tl, tokenize (S (length x)) 0 x = (c ++ r, tl) /\ c <> [] /\ n = endpos c /\
    forall tl2 r2 f, (S (2 * length (c ++ r) + 1) <= f)%nat ->
      parse cap tl2 f (N.to_nat L) (c ++ r2) = POk t n r2.
Proof.
  intros L cap x t n H.
  destruct (load_spec_ok_inv _ _ _ _ _ H) as (ts & tl & r & Hne & HT & HP).
  destruct (frame_parse _ _ _ _ _ _ _ _ HP) as (c & Hc & Hts & He & F).
  exists c, r, tl. subst ts. repeat split; assumption.
Qed.

(* the same for the model of cbor_load *)
Corollary C14_load_suffix : forall L cap x y t n, bytes_ok x -> bytes_ok y ->
  len (x ++ y) < SIZE_MAX -> load L cap x = LOk t n -> load L cap (x ++ y) = LOk t n /\ n <= len x.
Proof.
  intros L cap x y t n Hx Hy Hlen H.
  rewrite load_is_spec_full in H; [|assumption|rewrite len_app in Hlen; lia].
  rewrite load_is_spec_full; [|apply bytes_ok_app; split; assumption|assumption].
  apply C14_suffix_strong. exact H.
Qed.

(* ------------------------------------------------------------------------------------------ *)
(* 3. truncation (C05): a proper prefix of an acceptable item gives NOTENOUGHDATA              *)
(* ------------------------------------------------------------------------------------------ *)

Lemma app_split {A} : forall (l1 l2 l3 l4 : list A), l1 ++ l2 = l3 ++ l4 ->
  (length l4 <= length l2)%nat -> exists m, l3 = l1 ++ m /\ l2 = m ++ l4.
Proof.
  induction l1 as [|a l1 IH]; intros l2 l3 l4 H Hlen.
  - exists l3. split; [reflexivity|exact H].
  - destruct l3 as [|b l3].
    + cbn [app] in H. subst l4. cbn [length] in Hlen. rewrite app_length in Hlen. lia.
    + cbn [app] in H. inversion H; subst. destruct (IH _ _ _ H2 Hlen) as (m & H3 & H4).
      exists m. split; [cbn [app]; rewrite H3; reflexivity|exact H4].
Qed.

Lemma stop_pass {A B} tl (k : A -> N -> list ptok -> pres B) :
  match @stop tl A with POk x e r => k x e r | PErr c p => PErr c p end = @stop tl B.
Proof. destruct tl; reflexivity. Qed.

(* a parser run on a strict prefix [p] of the tokens it would consume (the remainder [q] is longer
   than the unconsumed rest) stops at the end of the prefix, whatever the reason of the stop.
   One more unit of fuel is needed, to look at the empty list. *)
Lemma trunc cap : forall f,
  (forall tl d ts t e r, parse cap tl f d ts = POk t e r ->
     forall tl2 p q, ts = p ++ q -> (length r < length q)%nat ->
     parse cap tl2 (S f) d p = stop tl2) /\
  (forall tl d n ts racc t e r, parse_n cap tl f d n ts racc = POk t e r ->
     forall tl2 p q, ts = p ++ q -> (length r < length q)%nat ->
     parse_n cap tl2 (S f) d n p racc = stop tl2) /\
  (forall tl d ts racc t e r, parse_until cap tl f d ts racc = POk t e r ->
     forall tl2 p q, ts = p ++ q -> (length r < length q)%nat ->
     parse_until cap tl2 (S f) d p racc = stop tl2) /\
  (forall tl d n ts racc t e r, parse_pairs cap tl f d n ts racc = POk t e r ->
     forall tl2 p q, ts = p ++ q -> (length r < length q)%nat ->
     parse_pairs cap tl2 (S f) d n p racc = stop tl2) /\
  (forall tl d ts racc t e r, parse_until_map cap tl f d ts racc = POk t e r ->
     forall tl2 p q, ts = p ++ q -> (length r < length q)%nat ->
     parse_until_map cap tl2 (S f) d p racc = stop tl2) /\
  (forall tl d text ts racc t e r, parse_chunks cap tl f d text ts racc = POk t e r ->
     forall tl2 p q, ts = p ++ q -> (length r < length q)%nat ->
     parse_chunks cap tl2 (S f) d text p racc = stop tl2).
Proof.
  induction f as [|f (IH1 & IH2 & IH3 & IH4 & IH5 & IH6)].
  { repeat split; intros; discriminate. }
  (* the two ways a sub-item relates to the cut *)
  assert (SUB : forall tl d ts x e1 r1 tl2 p q, parse cap tl f d ts = POk x e1 r1 -> ts = p ++ q ->
            parse cap tl2 (S f) d p = stop tl2 \/
            exists m, r1 = m ++ q /\ (length q <= length r1)%nat /\
                      parse cap tl2 (S f) d p = POk x e1 m).
  { intros tl d ts x e1 r1 tl2 p q E Hts.
    destruct (Nat.ltb_spec (length r1) (length q)) as [Hlt|Hge].
    - left. eapply IH1; eassumption.
    - right. destruct (frame_parse _ _ _ _ _ _ _ _ E) as (c & Hc & Hts1 & He & F).
      rewrite Hts1 in Hts. destruct (app_split _ _ _ _ Hts Hge) as (m & Hp & Hr1).
      exists m. split; [exact Hr1|]. split; [exact Hge|]. subst p. apply F. lia. }
  repeat split.
  - intros tl d ts t e r H tl2 p q Hts Hlen. rewrite parse_S in H.
    destruct p as [|[tk e0] p]; [reflexivity|]. subst ts. cbn [app] in H.
    rewrite parse_S.
    destruct tk;
      repeat match type of H with (if ?c then _ else _) = _ =>
        let Ec := fresh "Ec" in destruct c eqn:Ec end;
      try discriminate;
      try (exfalso; inversion H; subst; rewrite app_length in Hlen; lia);
      (destruct d as [|d']; [discriminate|]);
      try (first [eapply IH6 | eapply IH2 | eapply IH3 | eapply IH4 | eapply IH5];
           [exact H | reflexivity | exact Hlen]).
    destruct (parse cap tl f d' (p ++ q)) as [x e' r'|c p0] eqn:E; [|discriminate].
    inversion H; subst.
    rewrite (IH1 _ _ _ _ _ _ E tl2 p q eq_refl Hlen). apply stop_pass.
  - intros tl d n ts racc t e r H tl2 p q Hts Hlen. rewrite parse_n_S in H. rewrite parse_n_S.
    destruct (parse cap tl f d ts) as [x e1 r1|c p0] eqn:E; [|discriminate].
    destruct (SUB _ _ _ _ _ _ tl2 p q E Hts) as [S1|(m & Hr1 & Hge & S1)]; rewrite S1.
    { apply stop_pass. }
    destruct (n =? 1); [exfalso; inversion H; subst; lia|].
    eapply IH2; eassumption.
  - intros tl d ts racc t e r H tl2 p q Hts Hlen. rewrite parse_until_S in H. rewrite parse_until_S.
    destruct (is_break ts) as [[e0 r0]|] eqn:B.
    + apply is_break_some in B. subst ts. inversion H; subst.
      destruct p as [|a p]; [cbn [is_break]; rewrite parse_S; apply stop_pass|].
      exfalso. cbn [app] in Hts. inversion Hts; subst. rewrite app_length in Hlen. lia.
    + destruct (parse cap tl f d ts) as [x e1 r1|c p0] eqn:E; [|discriminate].
      assert (Bp : is_break p = None).
      { subst ts. destruct p as [|[[] e0] p]; try reflexivity. discriminate. }
      rewrite Bp.
      destruct (SUB _ _ _ _ _ _ tl2 p q E Hts) as [S1|(m & Hr1 & Hge & S1)]; rewrite S1.
      { apply stop_pass. }
      eapply IH3; eassumption.
  - intros tl d n ts racc t e r H tl2 p q Hts Hlen. rewrite parse_pairs_S in H. rewrite parse_pairs_S.
    destruct (parse cap tl f d ts) as [x e1 r1|c p0] eqn:E; [|discriminate].
    destruct (parse cap tl f d r1) as [x2 e2 r2|c p0] eqn:E2; [|discriminate].
    destruct (SUB _ _ _ _ _ _ tl2 p q E Hts) as [S1|(m & Hr1 & Hge & S1)]; rewrite S1.
    { apply stop_pass. }
    destruct (SUB _ _ _ _ _ _ tl2 m q E2 Hr1) as [S2|(m2 & Hr2 & Hge2 & S2)]; rewrite S2.
    { apply stop_pass. }
    destruct (n =? 1); [exfalso; inversion H; subst; lia|].
    eapply IH4; eassumption.
  - intros tl d ts racc t e r H tl2 p q Hts Hlen.
    rewrite parse_until_map_S in H. rewrite parse_until_map_S.
    destruct (is_break ts) as [[e0 r0]|] eqn:B.
    + apply is_break_some in B. subst ts. inversion H; subst.
      destruct p as [|a p]; [cbn [is_break]; rewrite parse_S; apply stop_pass|].
      exfalso. cbn [app] in Hts. inversion Hts; subst. rewrite app_length in Hlen. lia.
    + destruct (parse cap tl f d ts) as [x e1 r1|c p0] eqn:E; [|discriminate].
      assert (Bp : is_break p = None).
      { subst ts. destruct p as [|[[] e0] p]; try reflexivity. discriminate. }
      rewrite Bp.
      destruct (SUB _ _ _ _ _ _ tl2 p q E Hts) as [S1|(m & Hr1 & Hge & S1)]; rewrite S1.
      { apply stop_pass. }
      destruct (is_break r1) as [[e0 r0]|] eqn:B1; [discriminate|].
      destruct (parse cap tl f d r1) as [x2 e2 r2|c p0] eqn:E2; [|discriminate].
      assert (Bm : is_break m = None).
      { subst r1. destruct m as [|[[] e0] m]; try reflexivity. discriminate. }
      rewrite Bm.
      destruct (SUB _ _ _ _ _ _ tl2 m q E2 Hr1) as [S2|(m2 & Hr2 & Hge2 & S2)]; rewrite S2.
      { apply stop_pass. }
      eapply IH5; eassumption.
  - intros tl d text ts racc t e r H tl2 p q Hts Hlen.
    rewrite parse_chunks_S in H. rewrite parse_chunks_S.
    destruct p as [|[tk e0] p]; [reflexivity|]. subst ts. cbn [app] in H.
    match type of H with context [is_break ?l] => destruct (is_break l) as [br|] eqn:B end.
    + exfalso. inversion H; subst. rewrite app_length in Hlen. lia.
    + match goal with |- context [is_break ?l] => replace (is_break l) with (@None (N * list ptok)) end.
      2:{ destruct tk; try discriminate; reflexivity. }
      destruct (chunk_of text tk) as [data|] eqn:Ck.
      * destruct (cap <? len data) eqn:Ec; [discriminate|].
        eapply IH6; [exact H|reflexivity|exact Hlen].
      * match type of H with context [parse cap tl f d ?l] => destruct (parse cap tl f d l); discriminate end.
Qed.

(* C05: every proper non-empty prefix of an acceptable input that cuts the item gives NOTENOUGHDATA,
   at the start of the first incomplete or missing head *)
Theorem C05_prefix_strong : forall L cap x t n k,
  load_spec L cap x = LOk t n -> 0 < k -> k < n ->
  exists p, load_spec L cap (firstnN k x) = LErr ENotEnough p p /\ p <= k.
Proof.
  intros L cap x t n k H Hk0 Hkn.
  destruct (C14_suffix_strong L cap x [] t n H) as (_ & Hnx).
  destruct (load_spec_ok_inv _ _ _ _ _ H) as (ts & tl & r & Hne & HT & HP).
  destruct (frame_parse _ _ _ _ _ _ _ _ HP) as (c & Hc & Hts & He & F).
  set (x1 := firstnN k x). set (x2 := skipnN k x).
  assert (Hx : x = x1 ++ x2) by (symmetry; apply firstnN_skipnN).
  assert (Hl1 : len x1 = k) by (apply len_firstnN; lia).
  destruct (tokenize (S (length x1)) 0 x1) as [ts1 tl1] eqn:HT1.
  destruct (tokenize_app x2 (S (length x1)) 0 x1 ts1 tl1 ltac:(lia) HT1 (S (length (x1 ++ x2))) ltac:(lia))
    as (more & tl2 & HT2 & HB).
  rewrite <- Hx, HT in HT2. inversion HT2 as [[Hts2 Htl2]]. clear HT2.
  (* the cut falls inside the consumed tokens *)
  assert (Hlen : (length r < length more)%nat).
  { destruct (Nat.ltb_spec (length r) (length more)) as [|Hge]; [assumption|exfalso].
    rewrite Hts in Hts2. destruct (app_split _ _ _ _ Hts2 Hge) as (m & Hm & _).
    destruct (endpos_in c Hc) as (tk & Hin). rewrite <- He in Hin.
    assert (Hin' : In (tk, n) (fst (tokenize (S (length x1)) 0 x1))).
    { rewrite HT1. cbn [fst]. rewrite Hm. apply in_or_app. left. exact Hin. }
    apply tokenize_bound in Hin'. lia. }
  destruct (trunc cap (S (2 * length ts + 1))) as (TR & _).
  pose proof (TR _ _ _ _ _ _ HP tl1 ts1 more Hts2 Hlen) as HS.
  destruct tl1 as [p|p].
  - exists p. split.
    + rewrite (load_spec_eq L cap x1 _ _ _ _ ltac:(lia) HT1 HS I). reflexivity.
    + pose proof (tokenize_need (S (length x1)) 0 x1 p) as Hp. rewrite HT1 in Hp.
      specialize (Hp eq_refl). lia.
  - exfalso. destruct (HB p eq_refl) as (Hm & _). subst more. cbn [length] in Hlen. lia.
Qed.

Theorem C05_prefix : forall L cap x t n k, bytes_ok x ->
  load_spec L cap x = LOk t n -> 0 < k -> k < n ->
  exists p, load_spec L cap (firstnN k x) = LErr ENotEnough p p /\ p <= k.
Proof. intros L cap x t n k _. apply C05_prefix_strong. Qed.

(* the same for the model of cbor_load *)
Corollary C05_load_prefix : forall L cap x t n k, bytes_ok x -> len x < SIZE_MAX ->
  load L cap x = LOk t n -> 0 < k -> k < n ->
  exists p, load L cap (firstnN k x) = LErr ENotEnough p p /\ p <= k.
Proof.
  intros L cap x t n k Hb Hlen H Hk0 Hkn.
  rewrite load_is_spec_full in H by assumption.
  destruct (C14_suffix_strong L cap x [] t n H) as (_ & Hnx).
  rewrite load_is_spec_full.
  - eapply C05_prefix_strong; eassumption.
  - apply bytes_ok_firstn. assumption.
  - rewrite len_firstnN by lia. lia.
Qed.

(* ------------------------------------------------------------------------------------------ *)
(* 4. the nesting limit (C19)                                                                  *)
(* ------------------------------------------------------------------------------------------ *)

(* SpecItem.depth agrees with the budget accounting of [parse] on examples: empty definite
   containers are free, empty indefinite ones and chunked strings cost one level *)
Goal (depth (IArray false []), depth (IMap false []), depth (IArray true []), depth (IMap true []),
      depth (IBytesI [[1]]), depth (ITextI []), depth (ITag 1 (ITag 2 (ICtrl 22))),
      depth (IArray false [IArray false []; IMap false [(ICtrl 22, IArray true [ITag 3 (ITextI [])])]]))
     = (0, 0, 1, 1, 1, 1, 2, 5).
Proof. vm_compute. reflexivity. Qed.

Definition dmax (xs : list item) : N := fold_right (fun x m => N.max (depth x) m) 0 xs.
Definition dmaxp (kvs : list (item * item)) : N :=
  fold_right (fun kv m => N.max (N.max (depth (fst kv)) (depth (snd kv))) m) 0 kvs.

Lemma dmax_cons x xs : dmax (x :: xs) = N.max (depth x) (dmax xs).
Proof. reflexivity. Qed.
Lemma dmaxp_cons k v kvs : dmaxp ((k, v) :: kvs) = N.max (N.max (depth k) (depth v)) (dmaxp kvs).
Proof. reflexivity. Qed.

Lemma dmax_app xs ys : dmax (xs ++ ys) = N.max (dmax xs) (dmax ys).
Proof.
  induction xs as [|x xs IH]; [cbn [app]; change (dmax []) with 0; lia|].
  cbn [app]. rewrite !dmax_cons, IH. lia.
Qed.
Lemma dmaxp_app xs ys : dmaxp (xs ++ ys) = N.max (dmaxp xs) (dmaxp ys).
Proof.
  induction xs as [|[k v] xs IH]; [cbn [app]; change (dmaxp []) with 0; lia|].
  cbn [app]. rewrite !dmaxp_cons, IH. lia.
Qed.

Lemma dmax_rev xs : dmax (rev xs) = dmax xs.
Proof.
  induction xs as [|x xs IH]; [reflexivity|].
  cbn [rev]. rewrite dmax_app, IH, !dmax_cons. change (dmax []) with 0. lia.
Qed.
Lemma dmaxp_rev xs : dmaxp (rev xs) = dmaxp xs.
Proof.
  induction xs as [|[k v] xs IH]; [reflexivity|].
  cbn [rev]. rewrite dmaxp_app, IH, !dmaxp_cons. change (dmaxp []) with 0. lia.
Qed.

Lemma depth_arr_ne b xs : xs <> [] -> depth (IArray b xs) = 1 + dmax xs.
Proof. intros H. destruct xs; [congruence|]. destruct b; reflexivity. Qed.
Lemma depth_arr_indef xs : depth (IArray true xs) = 1 + dmax xs.
Proof. destruct xs; reflexivity. Qed.
Lemma depth_map_ne b xs : xs <> [] -> depth (IMap b xs) = 1 + dmaxp xs.
Proof. intros H. destruct xs; [congruence|]. destruct b; reflexivity. Qed.
Lemma depth_map_indef xs : depth (IMap true xs) = 1 + dmaxp xs.
Proof. destruct xs; reflexivity. Qed.

Lemma rev_cons_ne {A} (x : A) l : rev (x :: l) <> [].
Proof. cbn [rev]. destruct (rev l); discriminate. Qed.

(* sortedness of the rest after a successful run *)
Lemma sorted_app c : forall pos r, c <> [] -> sorted_from pos (c ++ r) ->
  pos < endpos c /\ sorted_from (endpos c) r.
Proof.
  induction c as [|[tk e0] c IH]; intros pos r Hc Hs; [congruence|].
  cbn [app sorted_from] in Hs. destruct Hs as [Hlt Hs].
  destruct c as [|b c].
  - cbn [app] in Hs. rewrite endpos_one. cbn [snd]. split; assumption.
  - rewrite endpos_cons by discriminate.
    destruct (IH e0 r ltac:(discriminate) Hs) as [H1 H2]. split; [lia|exact H2].
Qed.

Lemma framed_sorted run ts t e r pos : framed run ts t e r -> sorted_from pos ts ->
  pos < e /\ sorted_from e r.
Proof.
  intros (c & Hc & Hts & He & _) Hs. subst ts e. apply sorted_app; assumption.
Qed.

Lemma sorted_after cap tl f :
  (forall d ts t e r pos, parse cap tl f d ts = POk t e r -> sorted_from pos ts -> pos < e /\ sorted_from e r) /\
  (forall d n ts racc t e r pos, parse_n cap tl f d n ts racc = POk t e r -> sorted_from pos ts -> pos < e) /\
  (forall d ts racc t e r pos, parse_until cap tl f d ts racc = POk t e r -> sorted_from pos ts -> pos < e) /\
  (forall d n ts racc t e r pos, parse_pairs cap tl f d n ts racc = POk t e r -> sorted_from pos ts -> pos < e) /\
  (forall d ts racc t e r pos, parse_until_map cap tl f d ts racc = POk t e r -> sorted_from pos ts -> pos < e) /\
  (forall d text ts racc t e r pos, parse_chunks cap tl f d text ts racc = POk t e r -> sorted_from pos ts -> pos < e).
Proof.
  destruct (frame cap f) as (F1 & F2 & F3 & F4 & F5 & F6).
  repeat split; intros;
    match goal with H : _ = POk _ _ _ |- _ =>
      first [apply F1 in H | apply F2 in H | apply F3 in H | apply F4 in H | apply F5 in H | apply F6 in H];
      eapply framed_sorted in H; [|eassumption]; destruct H; assumption end.
Qed.

(* [run d] succeeded with some budget and [m] levels are needed below the current one:
   it gives the same answer with every budget >= m, and MEMERROR at a consumed head otherwise *)
Definition budget_spec (run : nat -> pres item) (ts : list ptok) (m : N) (t : item) (e : N)
    (r : list ptok) : Prop :=
  forall d, (m <= N.of_nat d -> run d = POk t e r) /\
            (N.of_nat d < m -> forall pos, sorted_from pos ts ->
               exists p, run d = PErr EMem p /\ p <= e).

Lemma budget cap tl : forall f,
  (forall d' ts t e r, parse cap tl f d' ts = POk t e r ->
     depth t <= N.of_nat d' /\
     budget_spec (fun d => parse cap tl f d ts) ts (depth t) t e r) /\
  (forall d' n ts racc t e r, parse_n cap tl f d' n ts racc = POk t e r ->
     exists m, m <= N.of_nat d' /\ depth t = 1 + N.max (dmax racc) m /\
       budget_spec (fun d => parse_n cap tl f d n ts racc) ts m t e r) /\
  (forall d' ts racc t e r, parse_until cap tl f d' ts racc = POk t e r ->
     exists m, m <= N.of_nat d' /\ depth t = 1 + N.max (dmax racc) m /\
       budget_spec (fun d => parse_until cap tl f d ts racc) ts m t e r) /\
  (forall d' n ts racc t e r, parse_pairs cap tl f d' n ts racc = POk t e r ->
     exists m, m <= N.of_nat d' /\ depth t = 1 + N.max (dmaxp racc) m /\
       budget_spec (fun d => parse_pairs cap tl f d n ts racc) ts m t e r) /\
  (forall d' ts racc t e r, parse_until_map cap tl f d' ts racc = POk t e r ->
     exists m, m <= N.of_nat d' /\ depth t = 1 + N.max (dmaxp racc) m /\
       budget_spec (fun d => parse_until_map cap tl f d ts racc) ts m t e r) /\
  (forall d' text ts racc t e r, parse_chunks cap tl f d' text ts racc = POk t e r ->
     exists m, m <= N.of_nat d' /\ depth t = 1 + N.max 0 m /\
       budget_spec (fun d => parse_chunks cap tl f d text ts racc) ts m t e r).
Proof.
  unfold budget_spec.
  induction f as [|f (IH1 & IH2 & IH3 & IH4 & IH5 & IH6)].
  { repeat split; intros; discriminate. }
  destruct (sorted_after cap tl f) as (S1 & S2 & S3 & S4 & S5 & S6).
  split; [|split; [|split; [|split; [|split]]]].
  - (* parse *)
    intros d' ts t e r H. rewrite parse_S in H.
    destruct ts as [|[tk e0] r0]; [exfalso; exact (stop_not_ok _ _ _ _ _ H)|].
    destruct tk;
      repeat match type of H with (if ?c then _ else _) = _ =>
        let Ec := fresh "Ec" in destruct c eqn:Ec end;
      try discriminate;
      try (inversion H; subst; split; [cbn [depth]; lia|]; intros d; split;
           [intros _; rewrite parse_S, ?Ec, ?Ec0; reflexivity | cbn [depth]; intros Hd; lia]);
      (destruct d' as [|d1]; [discriminate|]).
    1-6: (assert (Hlt : forall pos, sorted_from pos r0 -> pos < e)
             by (intros pos Hs; first [eapply S6; eassumption | eapply S2; eassumption | eapply S3; eassumption | eapply S4; eassumption | eapply S5; eassumption]);
          first [apply IH6 in H | apply IH2 in H | apply IH3 in H | apply IH4 in H | apply IH5 in H];
          destruct H as (m & Hm & Hdep & B);
          change (dmax []) with 0 in Hdep; change (dmaxp []) with 0 in Hdep;
          split; [lia|]; intros [|d]; [|destruct (B d) as [Bok Brej]]; (split;
            [ intros Hle; rewrite parse_S, ?Ec, ?Ec0; first [lia | apply Bok; lia]
            | intros Hd pos Hs; rewrite parse_S, ?Ec, ?Ec0; cbn [sorted_from] in Hs; destruct Hs as [_ Hs];
              first [ apply (Brej ltac:(lia) e0 Hs)
                    | exists e0; split; [reflexivity|]; specialize (Hlt e0 Hs); lia ] ])).
    (* tag *)
    destruct (parse cap tl f d1 r0) as [x e' r'|c p] eqn:E; [|discriminate].
    inversion H; subst. pose proof (fun Hs => proj1 (S1 _ _ _ _ _ e0 E Hs)) as Hlt.
    destruct (IH1 _ _ _ _ _ E) as (Hdx & B). cbn [depth].
    split; [lia|]. intros [|d]; [|destruct (B d) as [Bok Brej]]; split.
    + intros Hle. lia.
    + intros Hd pos Hs. rewrite parse_S. cbn [sorted_from] in Hs. destruct Hs as [_ Hs].
      exists e0. split; [reflexivity|]. specialize (Hlt Hs). lia.
    + intros Hle. rewrite parse_S, Bok by lia. reflexivity.
    + intros Hd pos Hs. rewrite parse_S. cbn [sorted_from] in Hs. destruct Hs as [_ Hs].
      destruct (Brej ltac:(lia) e0 Hs) as (p & Hp & Hpe). exists p. rewrite Hp. split; [reflexivity|exact Hpe].
  - (* parse_n *)
    intros d' n ts racc t e r H. rewrite parse_n_S in H.
    destruct (parse cap tl f d' ts) as [x e1 r1|c p] eqn:E; [|discriminate].
    destruct (IH1 _ _ _ _ _ E) as (Hdx & Bx).
    destruct (n =? 1) eqn:En.
    + injection H as Ht He Hr; subst t e r. exists (depth x). split; [exact Hdx|].
      split; [rewrite depth_arr_ne by apply rev_cons_ne; cbn [rev]; rewrite dmax_app, dmax_rev, dmax_cons; change (dmax []) with 0; lia|].
      intros d. destruct (Bx d) as [Bok Brej]. split.
      * intros Hle. rewrite parse_n_S, (Bok Hle), En. reflexivity.
      * intros Hd pos Hs. destruct (Brej Hd pos Hs) as (p & Hp & Hpe).
        exists p. rewrite parse_n_S, Hp. split; [reflexivity|exact Hpe].
    + pose proof (fun pos Hs => S2 _ _ _ _ _ _ _ pos H Hs) as Hlt.
      destruct (IH2 _ _ _ _ _ _ _ H) as (m & Hm & Hdep & B). rewrite dmax_cons in Hdep.
      exists (N.max (depth x) m). split; [lia|]. split; [lia|].
      intros d. destruct (Bx d) as [Bok Brej]. destruct (B d) as [Bok2 Brej2]. split.
      * intros Hle. rewrite parse_n_S, Bok, En by lia. apply Bok2. lia.
      * intros Hd pos Hs. rewrite parse_n_S.
        destruct (S1 _ _ _ _ _ pos E Hs) as [Hpe1 Hs1]. specialize (Hlt e1 Hs1).
        destruct (N.leb_spec (depth x) (N.of_nat d)) as [Hxle|Hxgt].
        -- rewrite (Bok Hxle), En. apply (Brej2 ltac:(lia) e1 Hs1).
        -- destruct (Brej Hxgt pos Hs) as (p & Hp & Hpe). rewrite Hp.
           exists p. split; [reflexivity|lia].
  - (* parse_until *)
    intros d' ts racc t e r H. rewrite parse_until_S in H.
    destruct (is_break ts) as [[e0 r0]|] eqn:B0.
    + injection H as Ht He Hr; subst t e r. exists 0. split; [lia|].
      split; [rewrite depth_arr_indef, dmax_rev; lia|].
      intros d. split; [|lia]. intros _. rewrite parse_until_S, B0. reflexivity.
    + destruct (parse cap tl f d' ts) as [x e1 r1|c p] eqn:E; [|discriminate].
      destruct (IH1 _ _ _ _ _ E) as (Hdx & Bx).
      pose proof (fun pos Hs => S3 _ _ _ _ _ _ pos H Hs) as Hlt.
      destruct (IH3 _ _ _ _ _ _ H) as (m & Hm & Hdep & B). rewrite dmax_cons in Hdep.
      exists (N.max (depth x) m). split; [lia|]. split; [lia|].
      intros d. destruct (Bx d) as [Bok Brej]. destruct (B d) as [Bok2 Brej2]. split.
      * intros Hle. rewrite parse_until_S, B0, Bok by lia. apply Bok2. lia.
      * intros Hd pos Hs. rewrite parse_until_S, B0.
        destruct (S1 _ _ _ _ _ pos E Hs) as [Hpe1 Hs1]. specialize (Hlt e1 Hs1).
        destruct (N.leb_spec (depth x) (N.of_nat d)) as [Hxle|Hxgt].
        -- rewrite (Bok Hxle). apply (Brej2 ltac:(lia) e1 Hs1).
        -- destruct (Brej Hxgt pos Hs) as (p & Hp & Hpe). rewrite Hp.
           exists p. split; [reflexivity|lia].
  - (* parse_pairs *)
    intros d' n ts racc t e r H. rewrite parse_pairs_S in H.
    destruct (parse cap tl f d' ts) as [x e1 r1|c p] eqn:E; [|discriminate].
    destruct (parse cap tl f d' r1) as [x2 e2 r2|c p] eqn:E2; [|discriminate].
    destruct (IH1 _ _ _ _ _ E) as (Hdx & Bx). destruct (IH1 _ _ _ _ _ E2) as (Hdx2 & Bx2).
    destruct (n =? 1) eqn:En.
    + injection H as Ht He Hr; subst t e r. exists (N.max (depth x) (depth x2)). split; [lia|].
      split; [rewrite depth_map_ne by apply rev_cons_ne; cbn [rev]; rewrite dmaxp_app, dmaxp_rev, dmaxp_cons; change (dmaxp []) with 0; lia|].
      intros d. destruct (Bx d) as [Bok Brej]. destruct (Bx2 d) as [Bok2 Brej2]. split.
      * intros Hle. rewrite parse_pairs_S, Bok, Bok2, En by lia. reflexivity.
      * intros Hd pos Hs. rewrite parse_pairs_S.
        destruct (S1 _ _ _ _ _ pos E Hs) as [Hpe1 Hs1].
        destruct (S1 _ _ _ _ _ e1 E2 Hs1) as [Hpe2 Hs2].
        destruct (N.leb_spec (depth x) (N.of_nat d)) as [Hxle|Hxgt].
        -- rewrite (Bok Hxle). destruct (Brej2 ltac:(lia) e1 Hs1) as (p & Hp & Hpe). rewrite Hp.
           exists p. split; [reflexivity|lia].
        -- destruct (Brej Hxgt pos Hs) as (p & Hp & Hpe). rewrite Hp.
           exists p. split; [reflexivity|lia].
    + pose proof (fun pos Hs => S4 _ _ _ _ _ _ _ pos H Hs) as Hlt.
      destruct (IH4 _ _ _ _ _ _ _ H) as (m & Hm & Hdep & B). rewrite dmaxp_cons in Hdep.
      exists (N.max (N.max (depth x) (depth x2)) m). split; [lia|]. split; [lia|].
      intros d. destruct (Bx d) as [Bok Brej]. destruct (Bx2 d) as [Bok2 Brej2].
      destruct (B d) as [Bok3 Brej3]. split.
      * intros Hle. rewrite parse_pairs_S, Bok, Bok2, En by lia. apply Bok3. lia.
      * intros Hd pos Hs. rewrite parse_pairs_S.
        destruct (S1 _ _ _ _ _ pos E Hs) as [Hpe1 Hs1].
        destruct (S1 _ _ _ _ _ e1 E2 Hs1) as [Hpe2 Hs2]. specialize (Hlt e2 Hs2).
        destruct (N.leb_spec (depth x) (N.of_nat d)) as [Hxle|Hxgt].
        -- rewrite (Bok Hxle).
           destruct (N.leb_spec (depth x2) (N.of_nat d)) as [Hxle2|Hxgt2].
           ++ rewrite (Bok2 Hxle2), En. apply (Brej3 ltac:(lia) e2 Hs2).
           ++ destruct (Brej2 Hxgt2 e1 Hs1) as (p & Hp & Hpe). rewrite Hp.
              exists p. split; [reflexivity|lia].
        -- destruct (Brej Hxgt pos Hs) as (p & Hp & Hpe). rewrite Hp.
           exists p. split; [reflexivity|lia].
  - (* parse_until_map *)
    intros d' ts racc t e r H. rewrite parse_until_map_S in H.
    destruct (is_break ts) as [[e0 r0]|] eqn:B0.
    + injection H as Ht He Hr; subst t e r. exists 0. split; [lia|].
      split; [rewrite depth_map_indef, dmaxp_rev; lia|].
      intros d. split; [|lia]. intros _. rewrite parse_until_map_S, B0. reflexivity.
    + destruct (parse cap tl f d' ts) as [x e1 r1|c p] eqn:E; [|discriminate].
      destruct (is_break r1) as [[e0 r0]|] eqn:B1; [discriminate|].
      destruct (parse cap tl f d' r1) as [x2 e2 r2|c p] eqn:E2; [|discriminate].
      destruct (IH1 _ _ _ _ _ E) as (Hdx & Bx). destruct (IH1 _ _ _ _ _ E2) as (Hdx2 & Bx2).
      pose proof (fun pos Hs => S5 _ _ _ _ _ _ pos H Hs) as Hlt.
      destruct (IH5 _ _ _ _ _ _ H) as (m & Hm & Hdep & B). rewrite dmaxp_cons in Hdep.
      exists (N.max (N.max (depth x) (depth x2)) m). split; [lia|]. split; [lia|].
      intros d. destruct (Bx d) as [Bok Brej]. destruct (Bx2 d) as [Bok2 Brej2].
      destruct (B d) as [Bok3 Brej3]. split.
      * intros Hle. rewrite parse_until_map_S, B0, Bok, B1, Bok2 by lia. apply Bok3. lia.
      * intros Hd pos Hs. rewrite parse_until_map_S, B0.
        destruct (S1 _ _ _ _ _ pos E Hs) as [Hpe1 Hs1].
        destruct (S1 _ _ _ _ _ e1 E2 Hs1) as [Hpe2 Hs2]. specialize (Hlt e2 Hs2).
        destruct (N.leb_spec (depth x) (N.of_nat d)) as [Hxle|Hxgt].
        -- rewrite (Bok Hxle), B1.
           destruct (N.leb_spec (depth x2) (N.of_nat d)) as [Hxle2|Hxgt2].
           ++ rewrite (Bok2 Hxle2). apply (Brej3 ltac:(lia) e2 Hs2).
           ++ destruct (Brej2 Hxgt2 e1 Hs1) as (p & Hp & Hpe). rewrite Hp.
              exists p. split; [reflexivity|lia].
        -- destruct (Brej Hxgt pos Hs) as (p & Hp & Hpe). rewrite Hp.
           exists p. split; [reflexivity|lia].
  - (* parse_chunks *)
    intros d' text ts racc t e r H. rewrite parse_chunks_S in H.
    destruct ts as [|[tk e0] r0]; [exfalso; exact (stop_not_ok _ _ _ _ _ H)|].
    match type of H with context [is_break ?l] => destruct (is_break l) as [br|] eqn:B0 end.
    + injection H as Ht He Hr; subst t e r. exists 0. split; [lia|].
      split; [destruct text; reflexivity|].
      intros d. split; [|lia]. intros _. rewrite parse_chunks_S, B0. reflexivity.
    + destruct (chunk_of text tk) as [data|] eqn:Ck.
      * destruct (cap <? len data) eqn:Ec; [discriminate|].
        destruct (IH6 _ _ _ _ _ _ _ H) as (m & Hm & Hdep & B).
        exists m. split; [lia|]. split; [lia|].
        intros d. destruct (B d) as [Bok Brej]. split.
        -- intros Hle. rewrite parse_chunks_S, B0, Ck, Ec. apply Bok. exact Hle.
        -- intros Hd pos Hs. rewrite parse_chunks_S, B0, Ck, Ec.
           cbn [sorted_from] in Hs. destruct Hs as [_ Hs]. apply (Brej Hd e0 Hs).
      * match type of H with context [parse cap tl f d' ?l] => destruct (parse cap tl f d' l); discriminate end.
Qed.

(* (a) the tree returned under budget d has depth at most d *)
Theorem parse_depth_le cap tl f d ts t e r :
  parse cap tl f d ts = POk t e r -> depth t <= N.of_nat d.
Proof. intros H. destruct (budget cap tl f) as (B & _). apply (B _ _ _ _ _ H). Qed.

(* (c) exactness: an input accepted under some budget is accepted under every budget >= depth *)
Theorem parse_budget_exact cap tl f d d' ts t e r :
  parse cap tl f d' ts = POk t e r -> depth t <= N.of_nat d -> parse cap tl f d ts = POk t e r.
Proof.
  intros H Hd. destruct (budget cap tl f) as (B & _). destruct (B _ _ _ _ _ H) as (_ & Bs).
  apply (proj1 (Bs d) Hd).
Qed.

(* (b) monotone in the budget *)
Theorem parse_budget_mono cap tl f d d' ts t e r :
  parse cap tl f d ts = POk t e r -> (d <= d')%nat -> parse cap tl f d' ts = POk t e r.
Proof.
  intros H Hle. apply (parse_budget_exact cap tl f d' d ts t e r H).
  pose proof (parse_depth_le _ _ _ _ _ _ _ _ H). lia.
Qed.

Corollary parse_budget_iff cap tl f d d' ts t e r :
  parse cap tl f d' ts = POk t e r ->
  (parse cap tl f d ts = POk t e r <-> depth t <= N.of_nat d).
Proof.
  intros H. split; [apply parse_depth_le|apply (parse_budget_exact _ _ _ _ _ _ _ _ _ H)].
Qed.

(* (d) nesting deeper than the budget is rejected with MEMERROR at a head inside the item.
   The bound p <= e needs the token positions to increase (they do for [tokenize]); without it
   the statement is false: *)
Goal parse 0 (TNeed 0) 10 1 [(TTag 0, 10); (TNull, 5)] = POk (ITag 0 (ICtrl 22)) 5 [] /\
     parse 0 (TNeed 0) 10 0 [(TTag 0, 10); (TNull, 5)] = PErr EMem 10.
Proof. split; reflexivity. Qed.

Theorem C19_reject cap tl f d d' ts t e r pos :
  sorted_from pos ts ->
  parse cap tl f d' ts = POk t e r -> N.of_nat d < depth t ->
  exists p, parse cap tl f d ts = PErr EMem p /\ p <= e.
Proof.
  intros Hs H Hd. destruct (budget cap tl f) as (B & _). destruct (B _ _ _ _ _ H) as (_ & Bs).
  apply (proj2 (Bs d) Hd pos Hs).
Qed.

(* ---- at the level of load_spec ---- *)
Theorem C19_depth : forall L cap buf t n, load_spec L cap buf = LOk t n -> depth t <= L.
Proof.
  intros L cap buf t n H.
  destruct (load_spec_ok_inv _ _ _ _ _ H) as (ts & tl & r & Hne & HT & HP).
  apply parse_depth_le in HP. lia.
Qed.

(* an input accepted under the limit L' is accepted under L iff its tree is at most L deep ... *)
Theorem C19_exact : forall L L' cap buf t n, load_spec L' cap buf = LOk t n ->
  (load_spec L cap buf = LOk t n <-> depth t <= L).
Proof.
  intros L L' cap buf t n H. split; [apply C19_depth|]. intros Hd.
  destruct (load_spec_ok_inv _ _ _ _ _ H) as (ts & tl & r & Hne & HT & HP).
  apply (parse_budget_exact _ _ _ (N.to_nat L)) in HP; [|lia].
  rewrite (load_spec_eq L cap buf _ _ _ _ Hne HT HP I). reflexivity.
Qed.

Corollary C19_mono : forall L L' cap buf t n, load_spec L cap buf = LOk t n -> L <= L' ->
  load_spec L' cap buf = LOk t n.
Proof.
  intros L L' cap buf t n H Hle. apply (C19_exact L' L cap buf t n H).
  pose proof (C19_depth _ _ _ _ _ H). lia.
Qed.

(* ... and otherwise it is rejected with MEMERROR at a head inside the item *)
Theorem C19_load_reject : forall L L' cap buf t n, load_spec L' cap buf = LOk t n ->
  L < depth t -> exists p, load_spec L cap buf = LErr EMem p p /\ p <= n.
Proof.
  intros L L' cap buf t n H Hd.
  destruct (load_spec_ok_inv _ _ _ _ _ H) as (ts & tl & r & Hne & HT & HP).
  pose proof (tokenize_sorted (S (length buf)) 0 buf) as Hs. rewrite HT in Hs. cbn [fst] in Hs.
  destruct (C19_reject _ _ _ (N.to_nat L) _ _ _ _ _ 0 Hs HP ltac:(lia)) as (p & Hp & Hpe).
  exists p. split; [|exact Hpe].
  rewrite (load_spec_eq L cap buf _ _ _ _ Hne HT Hp I). reflexivity.
Qed.

(* the same for the model of cbor_load *)
Corollary C19_load_depth : forall L cap buf t n, bytes_ok buf -> len buf < SIZE_MAX ->
  load L cap buf = LOk t n -> depth t <= L.
Proof.
  intros L cap buf t n Hb Hlen H. rewrite load_is_spec_full in H by assumption.
  eapply C19_depth; eassumption.
Qed.

Corollary C19_load_exact : forall L L' cap buf t n, bytes_ok buf -> len buf < SIZE_MAX ->
  load L' cap buf = LOk t n ->
  (depth t <= L -> load L cap buf = LOk t n) /\
  (L < depth t -> exists p, load L cap buf = LErr EMem p p /\ p <= n).
Proof.
  intros L L' cap buf t n Hb Hlen H. rewrite load_is_spec_full in H by assumption.
  rewrite load_is_spec_full by assumption. split.
  - apply (C19_exact L L' cap buf t n H).
  - apply (C19_load_reject L L' cap buf t n H).
Qed.

Print Assumptions fuel_mono.
Print Assumptions parse_enough_fuel.
Print Assumptions parse_never_out_of_fuel.
Print Assumptions load_spec_outcome.
Print Assumptions load_never_faults.
Print Assumptions load_spec_empty.
Print Assumptions frame.
Print Assumptions C14_suffix.
Print Assumptions C14_read_is_length.
Print Assumptions C14_load_suffix.
Print Assumptions trunc.
Print Assumptions C05_prefix.
Print Assumptions C05_load_prefix.
Print Assumptions budget.
Print Assumptions parse_depth_le.
Print Assumptions parse_budget_mono.
Print Assumptions parse_budget_exact.
Print Assumptions C19_reject.
Print Assumptions C19_depth.
Print Assumptions C19_exact.
Print Assumptions C19_mono.
Print Assumptions C19_load_reject.
Print Assumptions C19_load_depth.
Print Assumptions C19_load_exact.
