From CB Require Import Word Word_proofs PStream SpecHead PRun PEnc SpecItem PStream_proofs.
(* C07 (encoder return values) and C10 (the encoders are exact inverses of the decoder). *)
From Coq Require Import Lia ZArith ZifyBool ZifyN ZifyNat.
Local Open Scope N_scope.
Ltac Zify.zify_post_hook ::= Z.div_mod_to_equations.

(* equality of explicit byte lists, element by element *)
Ltac leq := repeat (apply (f_equal2 (@cons N)); [try reflexivity; try lia|]); try reflexivity.

(* ------------------------------------------------------------------------------------ *)
(* C07: every low-level encoder reports what it wrote, inside the buffer, or 0 and nothing *)

Definition enc_ok (x : eres) (size : N) : Prop :=
  (fst x = len (snd x) /\ 0 < fst x /\ fst x <= size) \/ x = efail.

Lemma enc_uint8_ok v size off : enc_ok (enc_uint8 v size off) size.
Proof. unfold enc_uint8, enc_ok. ifs; cbn [fst snd]; ((left; split; [reflexivity|lia]) || (right; reflexivity)). Qed.
Lemma enc_uint16_ok v size off : enc_ok (enc_uint16 v size off) size.
Proof. unfold enc_uint16, enc_ok. ifs; cbn [fst snd]; ((left; split; [reflexivity|lia]) || (right; reflexivity)). Qed.
Lemma enc_uint32_ok v size off : enc_ok (enc_uint32 v size off) size.
Proof. unfold enc_uint32, enc_ok. ifs; cbn [fst snd]; ((left; split; [reflexivity|lia]) || (right; reflexivity)). Qed.
Lemma enc_uint64_ok v size off : enc_ok (enc_uint64 v size off) size.
Proof. unfold enc_uint64, enc_ok. ifs; cbn [fst snd]; ((left; split; [reflexivity|lia]) || (right; reflexivity)). Qed.
Lemma enc_byte_ok v size : enc_ok (enc_byte v size) size.
Proof. unfold enc_byte, enc_ok. ifs; cbn [fst snd]; ((left; split; [reflexivity|lia]) || (right; reflexivity)). Qed.
Lemma enc_uint_ok v size off : enc_ok (enc_uint v size off) size.
Proof.
  unfold enc_uint. ifs; auto using enc_uint8_ok, enc_uint16_ok, enc_uint32_ok, enc_uint64_ok.
Qed.

Lemma enc_ok_elim x size r out : enc_ok x size -> x = (r, out) ->
  (r = len out /\ 0 < r /\ r <= size) \/ (r = 0 /\ out = []).
Proof.
  unfold enc_ok. intros H E. subst x. cbn [fst snd] in H. destruct H as [H|H].
  - left. exact H.
  - right. inversion H. split; reflexivity.
Qed.

Theorem C07_enc : forall e v size r out, encode e v size = Some (r, out) ->
  (r = len out /\ 0 < r /\ r <= size) \/ (r = 0 /\ out = []).
Proof.
  intros e v size r out H.
  destruct e; cbn [encode] in H;
    try (injection H as H; revert H; apply enc_ok_elim;
         auto using enc_uint8_ok, enc_uint16_ok, enc_uint32_ok, enc_uint64_ok, enc_uint_ok, enc_byte_ok).
  - destruct (v =? 0); apply enc_byte_ok.
  - unfold encode_half in H. destruct (encode_half_bits v) as [h|]; cbn [option_map] in H; [|discriminate H].
    injection H as H. revert H. apply enc_ok_elim, enc_uint16_ok.
  - unfold encode_single. destruct (f32_is_nan v); apply enc_uint32_ok.
  - unfold encode_double. destruct (f64_is_nan v); apply enc_uint64_ok.
Qed.

(* ------------------------------------------------------------------------------------ *)
(* C10, encoder side: the bytes written are the RFC 8949 head                             *)

Lemma be_bytes_1 v : be_bytes 1 v = [wrap 8 v].
Proof. change (be_bytes 1 v) with [wrap 8 (v / 1)]. rewrite N.div_1_r. reflexivity. Qed.
Lemma be_bytes_2 v : be_bytes 2 v = [wrap 8 (v / 2^8); wrap 8 v].
Proof. change (be_bytes 2 v) with [wrap 8 (v / 2^8); wrap 8 (v / 1)]. rewrite N.div_1_r. reflexivity. Qed.
Lemma be_bytes_4 v : be_bytes 4 v = [wrap 8 (v / 2^24); wrap 8 (v / 2^16); wrap 8 (v / 2^8); wrap 8 v].
Proof.
  change (be_bytes 4 v) with [wrap 8 (v / 2^24); wrap 8 (v / 2^16); wrap 8 (v / 2^8); wrap 8 (v / 1)].
  rewrite N.div_1_r. reflexivity.
Qed.
Lemma be_bytes_8 v : be_bytes 8 v =
  [wrap 8 (v / 2^56); wrap 8 (v / 2^48); wrap 8 (v / 2^40); wrap 8 (v / 2^32);
   wrap 8 (v / 2^24); wrap 8 (v / 2^16); wrap 8 (v / 2^8); wrap 8 v].
Proof.
  change (be_bytes 8 v) with
    [wrap 8 (v / 2^56); wrap 8 (v / 2^48); wrap 8 (v / 2^40); wrap 8 (v / 2^32);
     wrap 8 (v / 2^24); wrap 8 (v / 2^16); wrap 8 (v / 2^8); wrap 8 (v / 1)].
  rewrite N.div_1_r. reflexivity.
Qed.

Lemma wrap8_off mt c : mt < 8 -> c < 32 -> wrap 8 (c + mt * 32) = mt * 32 + c.
Proof. intros. unfold wrap. lia. Qed.

Lemma enc_uint8_head mt v size : mt < 8 -> v < 2 ^ 8 -> 2 <= size ->
  enc_uint8 v size (mt * 32) = (len (head_w mt I8 v), head_w mt I8 v).
Proof.
  intros Hmt Hv Hs. unfold enc_uint8, head_w. ifs; rewrite wrap8_off by lia; reflexivity.
Qed.
Lemma enc_uint16_head mt v size : mt < 8 -> 3 <= size ->
  enc_uint16 v size (mt * 32) = (len (head_w mt I16 v), head_w mt I16 v).
Proof.
  intros Hmt Hs. unfold enc_uint16, head_w. rewrite be_bytes_2. ifs. rewrite wrap8_off by lia. reflexivity.
Qed.
Lemma enc_uint32_head mt v size : mt < 8 -> 5 <= size ->
  enc_uint32 v size (mt * 32) = (len (head_w mt I32 v), head_w mt I32 v).
Proof.
  intros Hmt Hs. unfold enc_uint32, head_w. rewrite be_bytes_4. ifs. rewrite wrap8_off by lia. reflexivity.
Qed.
Lemma enc_uint64_head mt v size : mt < 8 -> 9 <= size ->
  enc_uint64 v size (mt * 32) = (len (head_w mt I64 v), head_w mt I64 v).
Proof.
  intros Hmt Hs. unfold enc_uint64, head_w. rewrite be_bytes_8. ifs. rewrite wrap8_off by lia. reflexivity.
Qed.

(* the width chosen by _cbor_encode_uint *)
Definition w_of (v : N) : iwidth :=
  if v <? 2 ^ 8 then I8 else if v <? 2 ^ 16 then I16 else if v <? 2 ^ 32 then I32 else I64.

Lemma head_shortest mt v : head mt v = head_w mt (w_of v) v.
Proof. unfold head, head_w, w_of. ifs; reflexivity. Qed.

Lemma w_of_bound v : v < 2 ^ 64 -> v < iw_bound (w_of v).
Proof. unfold w_of. intros H. ifs; cbn [iw_bound]; lia. Qed.

Lemma enc_uint_head mt v size : mt < 8 -> v < 2 ^ 64 -> 9 <= size ->
  enc_uint v size (mt * 32) = (len (head mt v), head mt v).
Proof.
  intros Hmt Hv Hs. rewrite head_shortest. unfold enc_uint, w_of.
  ifs; rewrite wrap_small by lia.
  - apply enc_uint8_head; lia.
  - apply enc_uint16_head; lia.
  - apply enc_uint32_head; lia.
  - apply enc_uint64_head; lia.
Qed.

(* ------------------------------------------------------------------------------------ *)
(* C10, decoder side: head_spec of an RFC head                                           *)

Lemma head_spec_fields mt ai rest : ai < 32 ->
  head_spec ((mt * 32 + ai) :: rest) = hs_body mt ai rest.
Proof. intros H. rewrite head_spec_cons. f_equal; lia. Qed.

Lemma hs_body_imm mt ai rest : hbad mt ai = false -> ai < 24 ->
  hs_body mt ai rest = hs_tail mt ai ai rest.
Proof.
  intros Hb Ha. unfold hs_body. rewrite Hb. unfold arg_bytes. ifs. reflexivity.
Qed.

Lemma hs_body_arg mt ai k v rest :
  hbad mt ai = false -> 24 <= ai -> arg_bytes ai = N.of_nat k -> v < 256 ^ N.of_nat k ->
  hs_body mt ai (be_bytes k v ++ rest) = hs_tail mt ai v rest.
Proof.
  intros Hb Ha Hk Hv. unfold hs_body. rewrite Hb, Hk.
  assert (Hl : N.of_nat k = len (be_bytes k v)) by (unfold len; rewrite be_bytes_length; reflexivity).
  rewrite len_app, <- Hl.
  destruct (N.of_nat k + len rest <? N.of_nat k) eqn:E; [lia|].
  destruct (ai <? 24) eqn:E2; [lia|].
  rewrite firstnN_app, skipnN_app by exact Hl.
  rewrite be_val_be_bytes by exact Hv. reflexivity.
Qed.

(* additional information used by head_w *)
Definition ai_w (w : iwidth) (v : N) : N :=
  match w with I8 => if v <? 24 then v else 24 | I16 => 25 | I32 => 26 | I64 => 27 end.

Lemma ai_w_props w v : ai_w w v <= 27 /\ iwidth_of (ai_w w v) = w.
Proof. destruct w; unfold ai_w, iwidth_of; ifs; split; try reflexivity; lia. Qed.

Lemma len_head_w mt w v : len (head_w mt w v) = 1 + arg_bytes (ai_w w v).
Proof.
  destruct w; unfold head_w, ai_w, arg_bytes; ifs; try reflexivity;
    rewrite len_cons; unfold len; rewrite be_bytes_length; reflexivity.
Qed.

Lemma head_spec_head_w mt w v rest :
  hbad mt (ai_w w v) = false -> v < iw_bound w ->
  head_spec (head_w mt w v ++ rest) = hs_tail mt (ai_w w v) v rest.
Proof.
  intros Hb Hv. pose proof (ai_w_props w v) as [Hai _].
  destruct w; cbn [iw_bound] in Hv; unfold head_w; unfold ai_w in *.
  - destruct (v <? 24) eqn:E.
    + cbn [app]. rewrite head_spec_fields by lia. apply hs_body_imm; [exact Hb|lia].
    + change ([mt * 32 + 24; v] ++ rest) with ((mt * 32 + 24) :: [v] ++ rest).
      rewrite head_spec_fields by lia.
      replace [v] with (be_bytes 1 v) by (rewrite be_bytes_1; unfold wrap; f_equal; lia).
      apply hs_body_arg; try assumption; try reflexivity; lia.
  - rewrite <- app_comm_cons. rewrite head_spec_fields by lia.
    apply hs_body_arg; try assumption; try reflexivity; lia.
  - rewrite <- app_comm_cons. rewrite head_spec_fields by lia.
    apply hs_body_arg; try assumption; try reflexivity; lia.
  - rewrite <- app_comm_cons. rewrite head_spec_fields by lia.
    apply hs_body_arg; try assumption; try reflexivity; lia.
Qed.

(* integer-like major types *)
Definition int_mt (mt : N) : Prop := mt < 2 \/ (4 <= mt /\ mt <= 6).
Definition tok_int (mt : N) (w : iwidth) (v : N) : tok :=
  if mt =? 0 then TUint w v else if mt =? 1 then TNegint w v
  else if mt =? 4 then TArray v else if mt =? 5 then TMap v else TTag v.

Lemma hbad_low mt ai : mt < 7 -> ai <= 27 -> hbad mt ai = false.
Proof. intros. unfold hbad. lia. Qed.

Lemma hs_tail_int mt ai arg pay : int_mt mt -> ai <= 27 ->
  hs_tail mt ai arg pay = HTok (tok_int mt (iwidth_of ai) arg) (1 + arg_bytes ai).
Proof.
  unfold int_mt. intros Hmt Hai. unfold hs_tail, tok_int. ifs; reflexivity.
Qed.

Lemma hs_tail_str mt ai arg pay rest : mt = 2 \/ mt = 3 -> ai <= 27 -> arg = len pay ->
  hs_tail mt ai arg (pay ++ rest) =
  HTok (if mt =? 2 then TBytes (1 + arg_bytes ai) pay else TText (1 + arg_bytes ai) pay)
       (1 + arg_bytes ai + arg).
Proof.
  intros Hmt Hai Harg. unfold hs_tail. rewrite len_app, firstnN_app by exact Harg.
  ifs; reflexivity.
Qed.

Theorem head_spec_int_w mt w v rest : int_mt mt -> v < iw_bound w ->
  head_spec (head_w mt w v ++ rest) = HTok (tok_int mt w v) (len (head_w mt w v)).
Proof.
  intros Hmt Hv. pose proof (ai_w_props w v) as [Hai Hw].
  rewrite head_spec_head_w; [|apply hbad_low; unfold int_mt in Hmt; lia|exact Hv].
  rewrite hs_tail_int, Hw, len_head_w by assumption. reflexivity.
Qed.

Theorem head_spec_int mt v rest : int_mt mt -> v < 2 ^ 64 ->
  head_spec (head mt v ++ rest) = HTok (tok_int mt (w_of v) v) (len (head mt v)).
Proof.
  intros Hmt Hv. rewrite head_shortest. apply head_spec_int_w; [exact Hmt|apply w_of_bound, Hv].
Qed.

Theorem head_spec_str mt pay rest : mt = 2 \/ mt = 3 -> len pay < 2 ^ 64 ->
  head_spec (head mt (len pay) ++ pay ++ rest) =
  HTok (if mt =? 2 then TBytes (len (head mt (len pay))) pay else TText (len (head mt (len pay))) pay)
       (len (head mt (len pay)) + len pay).
Proof.
  intros Hmt Hv. rewrite head_shortest.
  pose proof (ai_w_props (w_of (len pay)) (len pay)) as [Hai Hw].
  rewrite head_spec_head_w; [|apply hbad_low; lia|apply w_of_bound, Hv].
  rewrite hs_tail_str, len_head_w by (try assumption; reflexivity). reflexivity.
Qed.

(* ------------------------------------------------------------------------------------ *)
(* C10: integer-like encoders (uint, negint, array/map start, tag)                        *)

Definition int_like (e : encid) : bool :=
  match e with
  | e_uint8 | e_uint16 | e_uint32 | e_uint64 | e_uint
  | e_negint8 | e_negint16 | e_negint32 | e_negint64 | e_negint
  | e_array_start | e_map_start | e_tag => true
  | _ => false
  end.
Definition enc_mt (e : encid) : N :=
  match e with
  | e_uint8 | e_uint16 | e_uint32 | e_uint64 | e_uint => 0
  | e_negint8 | e_negint16 | e_negint32 | e_negint64 | e_negint => 1
  | e_bytestring_start => 2 | e_string_start => 3
  | e_array_start => 4 | e_map_start => 5 | e_tag => 6
  | _ => 7
  end.
(* the width actually used *)
Definition enc_w (e : encid) (v : N) : iwidth :=
  match e with
  | e_uint8 | e_negint8 => I8 | e_uint16 | e_negint16 => I16
  | e_uint32 | e_negint32 => I32 | e_uint64 | e_negint64 => I64
  | _ => w_of v
  end.
(* domain of the value parameter *)
Definition enc_dom (e : encid) : N :=
  match e with
  | e_uint8 | e_negint8 => 2 ^ 8 | e_uint16 | e_negint16 => 2 ^ 16
  | e_uint32 | e_negint32 => 2 ^ 32
  | _ => 2 ^ 64
  end.
Definition rfc_head (e : encid) (v : N) : list N := head_w (enc_mt e) (enc_w e v) v.
Definition tok_of (e : encid) (v : N) : tok := tok_int (enc_mt e) (enc_w e v) v.

Lemma enc_w_bound e v : v < enc_dom e -> v < iw_bound (enc_w e v).
Proof.
  intros H. destruct e; cbn [enc_dom enc_w iw_bound] in *; try exact H; apply w_of_bound, H.
Qed.

Theorem C10_int_encode e v size : int_like e = true -> v < enc_dom e -> 9 <= size ->
  encode e v size = Some (len (rfc_head e v), rfc_head e v).
Proof.
  intros He Hv Hs. unfold rfc_head.
  destruct e; try discriminate He; cbn [encode enc_mt enc_w enc_dom] in *; f_equal;
    rewrite <- ?head_shortest.
  - apply (enc_uint8_head 0); lia.
  - apply (enc_uint16_head 0); lia.
  - apply (enc_uint32_head 0); lia.
  - apply (enc_uint64_head 0); lia.
  - apply (enc_uint_head 0); lia.
  - apply (enc_uint8_head 1); lia.
  - apply (enc_uint16_head 1); lia.
  - apply (enc_uint32_head 1); lia.
  - apply (enc_uint64_head 1); lia.
  - apply (enc_uint_head 1); lia.
  - apply (enc_uint_head 4); lia.
  - apply (enc_uint_head 5); lia.
  - apply (enc_uint_head 6); lia.
Qed.

Theorem C10_int_decode e v rest : int_like e = true -> v < enc_dom e ->
  head_spec (rfc_head e v ++ rest) = HTok (tok_of e v) (len (rfc_head e v)).
Proof.
  intros He Hv. unfold rfc_head, tok_of. apply head_spec_int_w; [|apply enc_w_bound, Hv].
  unfold int_mt. destruct e; try discriminate He; cbn [enc_mt]; lia.
Qed.

Lemma head_w_ok mt w v : mt < 8 -> v < iw_bound w -> bytes_ok (head_w mt w v).
Proof.
  intros Hmt Hv. destruct w; cbn [iw_bound] in Hv; unfold head_w; ifs;
    repeat (constructor; try lia); apply be_bytes_ok.
Qed.

(* what one call of the streaming decoder does on the output of an integer-like encoder *)
Theorem C10_int_stream e v rest : int_like e = true -> v < enc_dom e ->
  bytes_ok rest -> len (rfc_head e v ++ rest) < SIZE_MAX ->
  stream_decode (rfc_head e v ++ rest) =
  SRes (mkdres Finished (len (rfc_head e v)) 0) (Some (tok_of e v)).
Proof.
  intros He Hv Hok Hl. apply decode_of_spec; [|exact Hl|apply C10_int_decode; assumption].
  apply bytes_ok_app. split; [|exact Hok]. apply head_w_ok; [|apply enc_w_bound, Hv].
  destruct e; cbn [enc_mt]; lia.
Qed.

(* per-encoder instances, with the bytes and the token spelled out *)
Section PerEncoder.
Variables (v size : N) (rest : list N).
Hypothesis Hs : 9 <= size.

Definition inv_stmt (e : encid) (bytes : list N) (t : tok) : Prop :=
  encode e v size = Some (len bytes, bytes) /\ head_spec (bytes ++ rest) = HTok t (len bytes).

Lemma inv_of e : int_like e = true -> v < enc_dom e -> inv_stmt e (rfc_head e v) (tok_of e v).
Proof. intros He Hv. split; [apply C10_int_encode|apply C10_int_decode]; assumption. Qed.

Corollary C10_uint8 : v < 2 ^ 8 -> inv_stmt e_uint8 (head_w 0 I8 v) (TUint I8 v).
Proof. exact (inv_of e_uint8 eq_refl). Qed.
Corollary C10_uint16 : v < 2 ^ 16 -> inv_stmt e_uint16 (head_w 0 I16 v) (TUint I16 v).
Proof. exact (inv_of e_uint16 eq_refl). Qed.
Corollary C10_uint32 : v < 2 ^ 32 -> inv_stmt e_uint32 (head_w 0 I32 v) (TUint I32 v).
Proof. exact (inv_of e_uint32 eq_refl). Qed.
Corollary C10_uint64 : v < 2 ^ 64 -> inv_stmt e_uint64 (head_w 0 I64 v) (TUint I64 v).
Proof. exact (inv_of e_uint64 eq_refl). Qed.
Corollary C10_uint : v < 2 ^ 64 -> inv_stmt e_uint (head 0 v) (TUint (w_of v) v).
Proof. rewrite head_shortest. exact (inv_of e_uint eq_refl). Qed.
Corollary C10_negint8 : v < 2 ^ 8 -> inv_stmt e_negint8 (head_w 1 I8 v) (TNegint I8 v).
Proof. exact (inv_of e_negint8 eq_refl). Qed.
Corollary C10_negint16 : v < 2 ^ 16 -> inv_stmt e_negint16 (head_w 1 I16 v) (TNegint I16 v).
Proof. exact (inv_of e_negint16 eq_refl). Qed.
Corollary C10_negint32 : v < 2 ^ 32 -> inv_stmt e_negint32 (head_w 1 I32 v) (TNegint I32 v).
Proof. exact (inv_of e_negint32 eq_refl). Qed.
Corollary C10_negint64 : v < 2 ^ 64 -> inv_stmt e_negint64 (head_w 1 I64 v) (TNegint I64 v).
Proof. exact (inv_of e_negint64 eq_refl). Qed.
Corollary C10_negint : v < 2 ^ 64 -> inv_stmt e_negint (head 1 v) (TNegint (w_of v) v).
Proof. rewrite head_shortest. exact (inv_of e_negint eq_refl). Qed.
Corollary C10_array_start : v < 2 ^ 64 -> inv_stmt e_array_start (head 4 v) (TArray v).
Proof. rewrite head_shortest. exact (inv_of e_array_start eq_refl). Qed.
Corollary C10_map_start : v < 2 ^ 64 -> inv_stmt e_map_start (head 5 v) (TMap v).
Proof. rewrite head_shortest. exact (inv_of e_map_start eq_refl). Qed.
Corollary C10_tag : v < 2 ^ 64 -> inv_stmt e_tag (head 6 v) (TTag v).
Proof. rewrite head_shortest. exact (inv_of e_tag eq_refl). Qed.
End PerEncoder.

(* ------------------------------------------------------------------------------------ *)
(* C10: definite string starts followed by exactly the announced payload                  *)

Theorem C10_string_start_encode e n size :
  e = e_bytestring_start \/ e = e_string_start -> n < 2 ^ 64 -> 9 <= size ->
  encode e n size = Some (len (head (enc_mt e) n), head (enc_mt e) n).
Proof.
  intros [-> | ->] Hn Hs; cbn [encode enc_mt]; f_equal.
  - apply (enc_uint_head 2); lia.
  - apply (enc_uint_head 3); lia.
Qed.

Theorem C10_bytestring_decode pay rest : len pay < 2 ^ 64 ->
  head_spec (head 2 (len pay) ++ pay ++ rest) =
  HTok (TBytes (len (head 2 (len pay))) pay) (len (head 2 (len pay)) + len pay).
Proof. intros H. apply (head_spec_str 2); [left; reflexivity|exact H]. Qed.

Theorem C10_string_decode pay rest : len pay < 2 ^ 64 ->
  head_spec (head 3 (len pay) ++ pay ++ rest) =
  HTok (TText (len (head 3 (len pay))) pay) (len (head 3 (len pay)) + len pay).
Proof. intros H. apply (head_spec_str 3); [right; reflexivity|exact H]. Qed.

(* ------------------------------------------------------------------------------------ *)
(* C10: single-byte encoders                                                             *)

Definition byte_enc (e : encid) (v : N) : option (N * tok) :=
  match e with
  | e_indef_bytestring_start => Some (0x5F, TBytesStart)
  | e_indef_string_start => Some (0x7F, TTextStart)
  | e_indef_array_start => Some (0x9F, TArrayStart)
  | e_indef_map_start => Some (0xBF, TMapStart)
  | e_bool => Some (if v =? 0 then 0xF4 else 0xF5, TBool (negb (v =? 0)))
  | e_null => Some (0xF6, TNull)
  | e_undef => Some (0xF7, TUndef)
  | e_break => Some (0xFF, TBreak)
  | _ => None
  end.

Theorem C10_byte e v size b t rest : byte_enc e v = Some (b, t) -> 1 <= size ->
  encode e v size = Some (1, [b]) /\ head_spec (b :: rest) = HTok t 1.
Proof.
  intros H Hs.
  assert (Hb : forall x, enc_byte x size = (1, [x])).
  { intros x. unfold enc_byte. ifs. reflexivity. }
  destruct e; cbn [byte_enc] in H; try discriminate H; cbn [encode].
  all: try (destruct (v =? 0)); injection H as <- <-; rewrite Hb; split; try reflexivity.
  all: rewrite head_spec_act by lia; reflexivity.
Qed.

(* ------------------------------------------------------------------------------------ *)
(* C10: simple values -- only false, true, null and undefined are decodable               *)

Definition ctrl_bytes (v : N) : list N := if v <? 24 then [0xE0 + v] else [0xF8; v].
Definition ctrl_spec (v : N) : hres :=
  if v =? 20 then HTok (TBool false) 1
  else if v =? 21 then HTok (TBool true) 1
  else if v =? 22 then HTok TNull 1
  else if v =? 23 then HTok TUndef 1
  else HBad.

Theorem C10_ctrl v size rest : v < 256 -> 2 <= size ->
  encode e_ctrl v size = Some (len (ctrl_bytes v), ctrl_bytes v) /\
  head_spec (ctrl_bytes v ++ rest) = ctrl_spec v.
Proof.
  intros Hv Hs. split.
  - cbn [encode]. f_equal. rewrite (enc_uint8_head 7) by lia.
    unfold head_w, ctrl_bytes. ifs; reflexivity.
  - unfold ctrl_bytes, ctrl_spec. destruct (v <? 24) eqn:E.
    + cbn [app]. change (0xE0 + v) with (7 * 32 + v). rewrite head_spec_fields by lia.
      unfold hs_body, hbad, hs_tail, arg_bytes. ifs; reflexivity.
    + cbn [app]. change 0xF8 with (7 * 32 + 24). rewrite head_spec_fields by lia.
      unfold hs_body. change (hbad 7 24) with true. cbv iota. ifs; reflexivity.
Qed.

(* ------------------------------------------------------------------------------------ *)
(* C10: single and double precision floats                                               *)

Lemma canon32_idem v : canon32 (canon32 v) = canon32 v.
Proof.
  unfold canon32 at 2 3. destruct (f32_is_nan v) eqn:E.
  - vm_compute. reflexivity.
  - unfold canon32. rewrite E. reflexivity.
Qed.
Lemma canon64_idem v : canon64 (canon64 v) = canon64 v.
Proof.
  unfold canon64 at 2 3. destruct (f64_is_nan v) eqn:E.
  - vm_compute. reflexivity.
  - unfold canon64. rewrite E. reflexivity.
Qed.
Lemma canon32_bound v : v < 2 ^ 32 -> canon32 v < 2 ^ 32.
Proof. intros H. unfold canon32. destruct (f32_is_nan v); [reflexivity|exact H]. Qed.
Lemma canon64_bound v : v < 2 ^ 64 -> canon64 v < 2 ^ 64.
Proof. intros H. unfold canon64. destruct (f64_is_nan v); [reflexivity|exact H]. Qed.

Lemma hs_tail_float ai arg pay : 26 <= ai -> ai <= 27 ->
  hs_tail 7 ai arg pay =
  HTok (if ai =? 26 then TFloat F32 (canon32 arg) else TFloat F64 (canon64 arg)) (1 + arg_bytes ai).
Proof. intros H1 H2. unfold hs_tail. ifs; reflexivity. Qed.

Theorem C10_single v size rest : v < 2 ^ 32 -> 5 <= size ->
  encode e_single v size = Some (5, 0xFA :: be_bytes 4 (canon32 v)) /\
  head_spec ((0xFA :: be_bytes 4 (canon32 v)) ++ rest) = HTok (TFloat F32 (canon32 v)) 5.
Proof.
  intros Hv Hs. split.
  - cbn [encode]. f_equal.
    replace (encode_single v size) with (enc_uint32 (canon32 v) size (7 * 32))
      by (unfold encode_single, canon32; destruct (f32_is_nan v); reflexivity).
    rewrite enc_uint32_head by lia. reflexivity.
  - change (0xFA :: be_bytes 4 (canon32 v)) with (head_w 7 I32 (canon32 v)).
    rewrite head_spec_head_w; [|reflexivity|apply canon32_bound, Hv].
    cbn [ai_w]. rewrite hs_tail_float by lia. rewrite canon32_idem. reflexivity.
Qed.

Theorem C10_double v size rest : v < 2 ^ 64 -> 9 <= size ->
  encode e_double v size = Some (9, 0xFB :: be_bytes 8 (canon64 v)) /\
  head_spec ((0xFB :: be_bytes 8 (canon64 v)) ++ rest) = HTok (TFloat F64 (canon64 v)) 9.
Proof.
  intros Hv Hs. split.
  - cbn [encode]. f_equal.
    replace (encode_double v size) with (enc_uint64 (canon64 v) size (7 * 32))
      by (unfold encode_double, canon64; destruct (f64_is_nan v); reflexivity).
    rewrite enc_uint64_head by lia. reflexivity.
  - change (0xFB :: be_bytes 8 (canon64 v)) with (head_w 7 I64 (canon64 v)).
    rewrite head_spec_head_w; [|reflexivity|apply canon64_bound, Hv].
    cbn [ai_w]. rewrite hs_tail_float by lia. rewrite canon64_idem. reflexivity.
Qed.

Check C10_uint8. Check C10_uint. Check C10_tag.
Print Assumptions C07_enc.
Print Assumptions C10_int_encode.
Print Assumptions C10_int_decode.
Print Assumptions C10_int_stream.
Print Assumptions C10_uint8.
Print Assumptions C10_tag.
Print Assumptions C10_string_start_encode.
Print Assumptions C10_bytestring_decode.
Print Assumptions C10_string_decode.
Print Assumptions C10_byte.
Print Assumptions C10_ctrl.
Print Assumptions C10_single.
Print Assumptions C10_double.
