(* Model P, encoders: src/cbor/internal/encoders.c and src/cbor/encoding.c.
   An encoder call is modelled as [(ret, out)]: the return value and the bytes it stored at
   buffer[0..]; every encoder tests the size before its first store, so [out = []] when it
   returns 0.  Definitions only. *)
From CB Require Export PStream.
Local Open Scope N_scope.

Definition eres := (N * list N)%type.
Definition efail : eres := (0, []).

(* _cbor_encode_uint8(value, buffer, buffer_size, offset) *)
Definition enc_uint8 (value size offset : N) : eres :=
  if value <=? 23 then
    if 1 <=? size then (1, [wrap 8 (value + offset)]) else efail
  else
    if 2 <=? size then (2, [wrap 8 (0x18 + offset); value]) else efail.

Definition enc_uint16 (value size offset : N) : eres :=
  if size <? 3 then efail
  else (3, [wrap 8 (0x19 + offset); wrap 8 (value / 2^8); wrap 8 value]).

Definition enc_uint32 (value size offset : N) : eres :=
  if size <? 5 then efail
  else (5, [wrap 8 (0x1A + offset); wrap 8 (value / 2^24); wrap 8 (value / 2^16);
            wrap 8 (value / 2^8); wrap 8 value]).

Definition enc_uint64 (value size offset : N) : eres :=
  if 9 <=? size then
    (9, [wrap 8 (0x1B + offset); wrap 8 (value / 2^56); wrap 8 (value / 2^48);
         wrap 8 (value / 2^40); wrap 8 (value / 2^32); wrap 8 (value / 2^24);
         wrap 8 (value / 2^16); wrap 8 (value / 2^8); wrap 8 value])
  else efail.

(* _cbor_encode_uint: width selection, then the (uintK_t) cast *)
Definition enc_uint (value size offset : N) : eres :=
  if value <=? 65535 then
    if value <=? 255 then enc_uint8 (wrap 8 value) size offset
    else enc_uint16 (wrap 16 value) size offset
  else if value <=? 4294967295 then enc_uint32 (wrap 32 value) size offset
  else enc_uint64 (wrap 64 value) size offset.

Definition enc_byte (value size : N) : eres :=
  if 1 <=? size then (1, [value]) else efail.

(* ---- floats (encoding.c) ---- *)
(* x >> k / x << k on uint32_t / unsigned int: undefined when k >= 32 *)
Definition shr32 (x k : N) : option N := if k <? 32 then Some (x / 2^k) else None.
Definition shl32 (x k : N) : option N := if k <? 32 then Some (wrap 32 (x * 2^k)) else None.
Definition obind {A B} (o : option A) (f : A -> option B) : option B :=
  match o with Some a => f a | None => None end.

(* cbor_encode_half on the binary32 bits of [value]; None = a shift with an out-of-range amount *)
Definition encode_half_bits (val : N) : option N :=
  let exp := (N.land val 0x7F800000) / 2^23 in
  let mant := N.land val 0x7FFFFF in
  let sign16 := (N.land val 0x80000000) / 2^16 in
  if exp =? 0xFF then
    if f32_is_nan val then Some 0x7E00
    else Some (wrap 16 (N.lor sign16 0x7C00))
  else if exp =? 0 then
    Some (wrap 16 (N.lor sign16 (mant / 2^13)))
  else
    (* logical_exp = exp - 127 *)
    if exp <? 103 then Some 0                         (* logical_exp < -24 *)
    else if exp <? 113 then                           (* logical_exp < -14 *)
      obind (shl32 1 (exp - 103)) (fun one =>         (* 1u << (24u + logical_exp) *)
      obind (shr32 mant (125 - exp)) (fun m =>        (* mant >> (-logical_exp - 2) *)
      Some (wrap 16 (N.lor sign16 (wrap 16 one + wrap 16 ((m + 1) / 2))))))
    else
      let le8 := if 127 <=? exp then exp - 127 else exp + 129 in   (* (uint8_t)logical_exp *)
      obind (shl32 (le8 + 15) 10) (fun e =>
      Some (wrap 16 (N.lor (N.lor sign16 e) (wrap 16 (mant / 2^13))))).

Definition encode_half (val size : N) : option eres :=
  option_map (fun r => enc_uint16 r size 0xE0) (encode_half_bits val).

Definition encode_single (val size : N) : eres :=
  if f32_is_nan val then enc_uint32 0x7FC00000 size 0xE0 else enc_uint32 val size 0xE0.

Definition encode_double (val size : N) : eres :=
  if f64_is_nan val then enc_uint64 0x7FF8000000000000 size 0xE0 else enc_uint64 val size 0xE0.

(* ---- the public encoders, by id (encoding.c) ---- *)
Inductive encid :=
| e_uint8 | e_uint16 | e_uint32 | e_uint64 | e_uint
| e_negint8 | e_negint16 | e_negint32 | e_negint64 | e_negint
| e_bytestring_start | e_string_start | e_array_start | e_map_start | e_tag
| e_indef_bytestring_start | e_indef_string_start | e_indef_array_start | e_indef_map_start
| e_bool | e_null | e_undef | e_break | e_ctrl
| e_half | e_single | e_double.

(* value: already converted to the parameter type by the caller *)
Definition encode (e : encid) (v size : N) : option eres :=
  match e with
  | e_uint8 => Some (enc_uint8 v size 0x00)
  | e_uint16 => Some (enc_uint16 v size 0x00)
  | e_uint32 => Some (enc_uint32 v size 0x00)
  | e_uint64 => Some (enc_uint64 v size 0x00)
  | e_uint => Some (enc_uint v size 0x00)
  | e_negint8 => Some (enc_uint8 v size 0x20)
  | e_negint16 => Some (enc_uint16 v size 0x20)
  | e_negint32 => Some (enc_uint32 v size 0x20)
  | e_negint64 => Some (enc_uint64 v size 0x20)
  | e_negint => Some (enc_uint v size 0x20)
  | e_bytestring_start => Some (enc_uint v size 0x40)
  | e_string_start => Some (enc_uint v size 0x60)
  | e_array_start => Some (enc_uint v size 0x80)
  | e_map_start => Some (enc_uint v size 0xA0)
  | e_tag => Some (enc_uint v size 0xC0)
  | e_indef_bytestring_start => Some (enc_byte 0x5F size)
  | e_indef_string_start => Some (enc_byte 0x7F size)
  | e_indef_array_start => Some (enc_byte 0x9F size)
  | e_indef_map_start => Some (enc_byte 0xBF size)
  | e_bool => Some (if v =? 0 then enc_byte 0xF4 size else enc_byte 0xF5 size)
  | e_null => Some (enc_byte 0xF6 size)
  | e_undef => Some (enc_byte 0xF7 size)
  | e_break => Some (enc_byte 0xFF size)
  | e_ctrl => Some (enc_uint8 v size 0xE0)
  | e_half => encode_half v size
  | e_single => Some (encode_single v size)
  | e_double => Some (encode_double v size)
  end.
