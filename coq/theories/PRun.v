(* The builder as a machine over the head sequence (one callback per head), used to factor
   cbor_load = (token machine) o (tokenisation).  Definitions only. *)
From CB Require Export SpecParse.
Local Open Scope N_scope.

Section Run.
Variable L : N.
Variable cap : N.
Variable tl : tail.

Definition run_stop : lres :=
  match tl with TNeed p => LErr ENotEnough p p | TBad p => LErr EMalformed p p end.

Fixpoint run (ts : list ptok) (stk : list frame) : lres :=
  match ts with
  | [] => run_stop
  | (tk, e) :: r =>
      let c := callback L cap tk stk in
      if fault c then LFault
      else if creation_failed c then LErr EMem e e
      else if syntax_error c then LErr ESyntax e e
      else match stack c with
           | [] => match root c with Some t => LOk t e | None => LFault end
           | stk' => run r stk'
           end
  end.
End Run.

Definition lres_of_pres (p : pres item) : lres :=
  match p with POk t e _ => LOk t e | PErr c q => LErr c q q end.

(* the contract of one streaming-decoder call against the head specification (C08) *)
Definition contract (buf : list N) : Prop :=
  match head_spec buf with
  | HTok t n => stream_decode buf = SRes (mkdres Finished n 0) (Some t)
  | HNeed full =>
      exists req, stream_decode buf = SRes (mkdres Nedata 0 req) None /\ len buf < req /\ req <= full /\ req <= SIZE_MAX
  | HBad => stream_decode buf = SRes (mkdres DError 0 0) None
  end.
