(* Model P, the value-widening getter: src/cbor/floats_ctrls.c, cbor_float_get_float.
   cbor_float_get_float returns a double for every float width; for half and single items it is the
   stored C float converted to double (C11 6.3.1.5: the value is unchanged).  Here that conversion is
   written on bit patterns: [widen32 v] is the binary64 pattern of the value of the binary32 pattern v.
   Definitions only (stdlib only, extracted); the IEEE 754 reading is proved in PWiden_proofs.v. *)
From CB Require Export PStream.
Local Open Scope N_scope.

(* binary32 -> binary64, exact.
   sign copied; exponent 255: infinity (mantissa 0) or NaN (every NaN becomes the canonical quiet NaN
   [F64_NAN], as [canon32] / [canon64] do: the observation canonicalises NaNs on both sides);
   0 < exponent < 255: rebias (+ 1023 - 127 = 896), mantissa shifted left by 52 - 23 = 29;
   exponent 0, mantissa m > 0 (subnormal: m * 2^-149) is a NORMAL binary64 number: with p the position of
   the highest set bit of m, m = 2^p * (1 + f), exponent field p - 149 + 1023 = p + 874, the bits of m
   below the leading one moved to the top of the 52-bit mantissa; exponent 0, mantissa 0: zero *)
Definition widen32 (v : N) : N :=
  let sign := (v / 2^31) mod 2 in
  let e := (v / 2^23) mod 256 in
  let m := v mod 2^23 in
  if e =? 255 then
    if m =? 0 then sign * 2^63 + 0x7FF0000000000000 else F64_NAN
  else if e =? 0 then
    if m =? 0 then sign * 2^63
    else let p := N.log2 m in sign * 2^63 + (p + 874) * 2^52 + (m - 2^p) * 2^(52 - p)
  else sign * 2^63 + (e + 896) * 2^52 + m * 2^29.

(* the bits of the double returned by cbor_float_get_float on a float item [NFloat w bits] (HHeap: for
   F16 and F32 [bits] is the binary32 pattern of the stored float, for F64 the binary64 pattern) *)
Definition float_get_float_bits (w : fwidth) (bits : N) : N :=
  match w with
  | F64 => canon64 bits
  | _ => widen32 bits
  end.
