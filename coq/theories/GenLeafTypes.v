(* Support definitions for the generated leaf functions (translator/leaf.py), and the fallback
   the translator emits for a function that has left its supported subset: the model itself lifted
   to Z (that function is then tied to the code by the correspondence runs only). *)
From Coq Require Import ZArith NArith List Bool.
Import ListNotations.
From CB Require Import Word PStream PEnc PMem PUtf8 PHalfShape PStackGuard.
From CBGen Require Import Gen_config.
Local Open Scope Z_scope.
Definition wrapz (w : Z) (x : Z) : Z := x mod 2 ^ w.
Definition b2z (b : bool) : Z := if b then 1 else 0.
Definition nz (x : Z) : bool := negb (x =? 0).
(* every loop of a translated function: the state is the tuple of the locals the body assigns (sorted by
   name); when the fuel runs out the state reached so far is returned *)
Fixpoint wloop {S : Type} (fuel : nat) (cond : S -> bool) (body : S -> S) (s : S) : S :=
  match fuel with O => s | S f => if cond s then wloop f cond body (body s) else s end.

Fixpoint idx (i : Z) (l : list Z) : list (Z * Z) := match l with [] => [] | x :: r => (i, x) :: idx (i + 1) r end.
Definition indexed (l : list Z) : list (Z * Z) := idx 0 l.
Definition zres (r : N * list N) : Z * list (Z * Z) := (Z.of_N (fst r), indexed (map Z.of_N (snd r))).
Definition zstatus (s : status) : Z := match s with Finished => 0 | Nedata => 1 | DError => 2 end.
Definition status_of (z : Z) : status := if z =? 0 then Finished else if z =? 1 then Nedata else DError.
Definition srcf (bs : list N) : Z -> Z := fun i => Z.of_N (nth (Z.to_nat i) bs 0%N).

Definition fb_cbor_highest_bit (n : Z) := Z.of_N (highest_bit 64 (Z.to_N n)).
Definition fb_cbor_safe_to_multiply (a b : Z) := b2z (safe_to_multiply 64 (Z.to_N a) (Z.to_N b)).
Definition fb_cbor_safe_to_add (a b : Z) := b2z (safe_to_add 64 (Z.to_N a) (Z.to_N b)).
Definition fb_cbor_safe_signaling_add (a b : Z) := Z.of_N (safe_signaling_add 64 (Z.to_N a) (Z.to_N b)).
Definition fb_cbor_encoded_header_size (s : Z) := Z.of_N (header_size (Z.to_N s)).
Definition fb_cbor_encode_uint8 (v s o : Z) := zres (enc_uint8 (Z.to_N v) (Z.to_N s) (Z.to_N o)).
Definition fb_cbor_encode_uint16 (v s o : Z) := zres (enc_uint16 (Z.to_N v) (Z.to_N s) (Z.to_N o)).
Definition fb_cbor_encode_uint32 (v s o : Z) := zres (enc_uint32 (Z.to_N v) (Z.to_N s) (Z.to_N o)).
Definition fb_cbor_encode_uint64 (v s o : Z) := zres (enc_uint64 (Z.to_N v) (Z.to_N s) (Z.to_N o)).
Definition fb_cbor_encode_byte (v s : Z) := zres (enc_byte (Z.to_N v) (Z.to_N s)).
Definition fb_cbor_load_uint16 (src : Z -> Z) := Z.of_N (be_val (map (fun i => Z.to_N (src i)) [0; 1])).
Definition fb_cbor_load_uint32 (src : Z -> Z) := Z.of_N (be_val (map (fun i => Z.to_N (src i)) [0; 1; 2; 3])).
Definition fb_cbor_load_uint64 (src : Z -> Z) := Z.of_N (be_val (map (fun i => Z.to_N (src i)) [0; 1; 2; 3; 4; 5; 6; 7])).
Definition fbclaim_bytes (required provided r_read r_status r_required : Z) :=
  let (ok, r') := claim_bytes (Z.to_N required) (Z.to_N provided) (mkdres (status_of r_status) (Z.to_N r_read) (Z.to_N r_required)) in
  (b2z ok, Z.of_N (rd r'), zstatus (st r'), Z.of_N (req r')).

(* fallbacks for _cbor_encode_uint and the public encoders *)
Definition fb_cbor_encode_uint (v s o : Z) := zres (enc_uint (Z.to_N v) (Z.to_N s) (Z.to_N o)).
Definition fbcbor_encode_uint8 (v s : Z) := zres (enc_uint8 (Z.to_N v) (Z.to_N s) 0).
Definition fbcbor_encode_uint16 (v s : Z) := zres (enc_uint16 (Z.to_N v) (Z.to_N s) 0).
Definition fbcbor_encode_uint32 (v s : Z) := zres (enc_uint32 (Z.to_N v) (Z.to_N s) 0).
Definition fbcbor_encode_uint64 (v s : Z) := zres (enc_uint64 (Z.to_N v) (Z.to_N s) 0).
Definition fbcbor_encode_uint (v s : Z) := zres (enc_uint (Z.to_N v) (Z.to_N s) 0).
Definition fbcbor_encode_negint8 (v s : Z) := zres (enc_uint8 (Z.to_N v) (Z.to_N s) 32).
Definition fbcbor_encode_negint16 (v s : Z) := zres (enc_uint16 (Z.to_N v) (Z.to_N s) 32).
Definition fbcbor_encode_negint32 (v s : Z) := zres (enc_uint32 (Z.to_N v) (Z.to_N s) 32).
Definition fbcbor_encode_negint64 (v s : Z) := zres (enc_uint64 (Z.to_N v) (Z.to_N s) 32).
Definition fbcbor_encode_negint (v s : Z) := zres (enc_uint (Z.to_N v) (Z.to_N s) 32).
Definition fbcbor_encode_bytestring_start (v s : Z) := zres (enc_uint (Z.to_N v) (Z.to_N s) 64).
Definition fbcbor_encode_string_start (v s : Z) := zres (enc_uint (Z.to_N v) (Z.to_N s) 96).
Definition fbcbor_encode_array_start (v s : Z) := zres (enc_uint (Z.to_N v) (Z.to_N s) 128).
Definition fbcbor_encode_map_start (v s : Z) := zres (enc_uint (Z.to_N v) (Z.to_N s) 160).
Definition fbcbor_encode_tag (v s : Z) := zres (enc_uint (Z.to_N v) (Z.to_N s) 192).
Definition fbcbor_encode_ctrl (v s : Z) := zres (enc_uint8 (Z.to_N v) (Z.to_N s) 224).
Definition fbcbor_encode_bool (v s : Z) := zres (if (Z.to_N v =? 0)%N then enc_byte 0xF4 (Z.to_N s) else enc_byte 0xF5 (Z.to_N s)).
Definition fbcbor_encode_indef_bytestring_start (s : Z) := zres (enc_byte 95 (Z.to_N s)).
Definition fbcbor_encode_indef_string_start (s : Z) := zres (enc_byte 127 (Z.to_N s)).
Definition fbcbor_encode_indef_array_start (s : Z) := zres (enc_byte 159 (Z.to_N s)).
Definition fbcbor_encode_indef_map_start (s : Z) := zres (enc_byte 191 (Z.to_N s)).
Definition fbcbor_encode_null (s : Z) := zres (enc_byte 246 (Z.to_N s)).
Definition fbcbor_encode_undef (s : Z) := zres (enc_byte 247 (Z.to_N s)).
Definition fbcbor_encode_break (s : Z) := zres (enc_byte 255 (Z.to_N s)).

(* ---- second wave: floats as bit patterns, signed narrowing, allocator requests ---- *)
(* conversion to a signed type of w bits (two's complement, what gcc/clang define) *)
Definition swrapz (w : Z) (x : Z) : Z := (x + 2 ^ (w - 1)) mod 2 ^ w - 2 ^ (w - 1).
(* isnan(value) on the IEEE-754 bit pattern of a float / double parameter *)
Definition isnan32 (v : Z) : bool := ((v / 2 ^ 23) mod 256 =? 255) && negb (v mod 2 ^ 23 =? 0).
Definition isnan64 (v : Z) : bool := ((v / 2 ^ 52) mod 2048 =? 2047) && negb (v mod 2 ^ 52 =? 0).

(* _cbor_alloc_multiple / _cbor_realloc_multiple: Some n = the allocator is asked for n bytes,
   None = NULL is returned without a request *)
Definition fb_cbor_alloc_multiple (a b : Z) : option Z := option_map Z.of_N (alloc_multiple_req 64 (Z.to_N a) (Z.to_N b)).
Definition fb_cbor_realloc_multiple (a b : Z) : option Z := option_map Z.of_N (alloc_multiple_req 64 (Z.to_N a) (Z.to_N b)).
(* float encoders on the bit pattern of the value; cbor_encode_half in ub mode (None = undefined shift) *)
Definition fbcbor_encode_single (v s : Z) := zres (encode_single (Z.to_N v) (Z.to_N s)).
Definition fbcbor_encode_double (v s : Z) := zres (encode_double (Z.to_N v) (Z.to_N s)).
Definition fbcbor_encode_half (v s : Z) : option (Z * list (Z * Z)) := option_map zres (encode_half (Z.to_N v) (Z.to_N s)).

(* ---- unicode.c ---- *)
(* utf8d[i] *)
Definition tblz (t : list N) (i : Z) : Z := Z.of_N (nth (Z.to_nat i) t 0%N).
(* _cbor_unicode_decode(&state, &codep, byte): Some (return value, *state, *codep), None = undefined
   behaviour (a read outside utf8d, an undefined shift).  The model does not compute *codep. *)
Definition fb_cbor_unicode_decode (st cp b : Z) : option (Z * Z * Z) :=
  option_map (fun s => (Z.of_N s, Z.of_N s, cp)) (unicode_decode utf8d (Z.to_N st) (Z.to_N b)).
(* _cbor_unicode_codepoint_count(source, source_length, &status): Some (return value, status.status,
   status.location); [u_] gives the indeterminate initial values of uninitialised locals.  The model does
   not compute status.location. *)
Definition bytes_of (src : Z -> Z) (n : Z) : list N := map (fun i => Z.to_N (src (Z.of_nat i))) (seq 0 (Z.to_nat n)).
Definition zcount (r : option (N * bool)) : option (Z * Z) :=
  match r with
  | None => None
  | Some (c, true) => Some (Z.of_N c, 0)
  | Some (_, false) => Some (0, 1)
  end.
Definition fb_cbor_unicode_codepoint_count (src : Z -> Z) (n : Z) (u_ : Z -> Z) : option (Z * Z * Z) :=
  option_map (fun r => (fst r, snd r, 0)) (zcount (codepoint_count utf8d (bytes_of src n))).

(* ---- loaders.c: _cbor_decode_half, result rendered symbolically (PHalfShape.fval) ---- *)
Definition fb_cbor_decode_half (src : Z -> Z) : fval := decode_half_shape (be_val [Z.to_N (src 0); Z.to_N (src 1)]).

(* ---- stack.c: _cbor_stack_push as (request, NULL returned, new stack->size), the allocator's answer an input ---- *)
Definition zoutcome (r : option N * bool * N) : option Z * bool * Z :=
  (option_map Z.of_N (fst (fst r)), snd (fst r), Z.of_N (snd r)).
Definition fb_cbor_stack_push (size : Z) (granted : bool) : option Z * bool * Z :=
  zoutcome (stack_push_outcome gen_CBOR_MAX_STACK_SIZE gen_sizeof_rec (Z.to_N size) granted).
