(* Support definitions for the generated leaf functions (translator/leaf.py), and the fallback
   the translator emits for a function that has left its supported subset: the model itself lifted
   to Z (that function is then tied to the code by the correspondence runs only). *)
From Coq Require Import ZArith NArith List Bool.
Import ListNotations.
From CB Require Import Word PStream PEnc PMem.
Local Open Scope Z_scope.
Definition wrapz (w : Z) (x : Z) : Z := x mod 2 ^ w.
Definition b2z (b : bool) : Z := if b then 1 else 0.
Definition nz (x : Z) : bool := negb (x =? 0).

Fixpoint idx (i : Z) (l : list Z) : list (Z * Z) := match l with [] => [] | x :: r => (i, x) :: idx (i + 1) r end.
Definition indexed (l : list Z) : list (Z * Z) := idx 0 l.
Definition zres (r : N * list N) : Z * list (Z * Z) := (Z.of_N (fst r), indexed (map Z.of_N (snd r))).
Definition zstatus (s : status) : Z := match s with Finished => 0 | Nedata => 1 | DError => 2 end.
Definition status_of (z : Z) : status := if z =? 0 then Finished else if z =? 1 then Nedata else DError.
Definition srcf (bs : list N) : Z -> Z := fun i => Z.of_N (nth (Z.to_nat i) bs 0%N).

Definition fb_cbor_highest_bit (n : Z) := Z.of_N (highest_bit 64 (Z.to_N n)).
Definition fb_cbor_safe_to_multiply (a b : Z) := b2z (safe_to_multiply 64 (Z.to_N a) (Z.to_N b)).
Definition fb_cbor_safe_to_add (a b : Z) := b2z (safe_to_add 64 (Z.to_N a) (Z.to_N b)).
Definition fb_cbor_safe_signaling_add (a b : Z) := Z.of_N (safe_signaling_add 64 (Z.to_N a) (Z.to_N b)).
Definition fb_cbor_encoded_header_size (s : Z) := Z.of_N (header_size (Z.to_N s)).
Definition fb_cbor_encode_uint8 (v s o : Z) := zres (enc_uint8 (Z.to_N v) (Z.to_N s) (Z.to_N o)).
Definition fb_cbor_encode_uint16 (v s o : Z) := zres (enc_uint16 (Z.to_N v) (Z.to_N s) (Z.to_N o)).
Definition fb_cbor_encode_uint32 (v s o : Z) := zres (enc_uint32 (Z.to_N v) (Z.to_N s) (Z.to_N o)).
Definition fb_cbor_encode_uint64 (v s o : Z) := zres (enc_uint64 (Z.to_N v) (Z.to_N s) (Z.to_N o)).
Definition fb_cbor_encode_byte (v s : Z) := zres (enc_byte (Z.to_N v) (Z.to_N s)).
Definition fb_cbor_load_uint16 (src : Z -> Z) := Z.of_N (be_val (map (fun i => Z.to_N (src i)) [0; 1])).
Definition fb_cbor_load_uint32 (src : Z -> Z) := Z.of_N (be_val (map (fun i => Z.to_N (src i)) [0; 1; 2; 3])).
Definition fb_cbor_load_uint64 (src : Z -> Z) := Z.of_N (be_val (map (fun i => Z.to_N (src i)) [0; 1; 2; 3; 4; 5; 6; 7])).
Definition fbclaim_bytes (required provided r_read r_status r_required : Z) :=
  let (ok, r') := claim_bytes (Z.to_N required) (Z.to_N provided) (mkdres (status_of r_status) (Z.to_N r_read) (Z.to_N r_required)) in
  (b2z ok, Z.of_N (rd r'), zstatus (st r'), Z.of_N (req r')).

(* fallbacks for _cbor_encode_uint and the public encoders *)
Definition fb_cbor_encode_uint (v s o : Z) := zres (enc_uint (Z.to_N v) (Z.to_N s) (Z.to_N o)).
Definition fbcbor_encode_uint8 (v s : Z) := zres (enc_uint8 (Z.to_N v) (Z.to_N s) 0).
Definition fbcbor_encode_uint16 (v s : Z) := zres (enc_uint16 (Z.to_N v) (Z.to_N s) 0).
Definition fbcbor_encode_uint32 (v s : Z) := zres (enc_uint32 (Z.to_N v) (Z.to_N s) 0).
Definition fbcbor_encode_uint64 (v s : Z) := zres (enc_uint64 (Z.to_N v) (Z.to_N s) 0).
Definition fbcbor_encode_uint (v s : Z) := zres (enc_uint (Z.to_N v) (Z.to_N s) 0).
Definition fbcbor_encode_negint8 (v s : Z) := zres (enc_uint8 (Z.to_N v) (Z.to_N s) 32).
Definition fbcbor_encode_negint16 (v s : Z) := zres (enc_uint16 (Z.to_N v) (Z.to_N s) 32).
Definition fbcbor_encode_negint32 (v s : Z) := zres (enc_uint32 (Z.to_N v) (Z.to_N s) 32).
Definition fbcbor_encode_negint64 (v s : Z) := zres (enc_uint64 (Z.to_N v) (Z.to_N s) 32).
Definition fbcbor_encode_negint (v s : Z) := zres (enc_uint (Z.to_N v) (Z.to_N s) 32).
Definition fbcbor_encode_bytestring_start (v s : Z) := zres (enc_uint (Z.to_N v) (Z.to_N s) 64).
Definition fbcbor_encode_string_start (v s : Z) := zres (enc_uint (Z.to_N v) (Z.to_N s) 96).
Definition fbcbor_encode_array_start (v s : Z) := zres (enc_uint (Z.to_N v) (Z.to_N s) 128).
Definition fbcbor_encode_map_start (v s : Z) := zres (enc_uint (Z.to_N v) (Z.to_N s) 160).
Definition fbcbor_encode_tag (v s : Z) := zres (enc_uint (Z.to_N v) (Z.to_N s) 192).
Definition fbcbor_encode_ctrl (v s : Z) := zres (enc_uint8 (Z.to_N v) (Z.to_N s) 224).
Definition fbcbor_encode_bool (v s : Z) := zres (if (Z.to_N v =? 0)%N then enc_byte 0xF4 (Z.to_N s) else enc_byte 0xF5 (Z.to_N s)).
Definition fbcbor_encode_indef_bytestring_start (s : Z) := zres (enc_byte 95 (Z.to_N s)).
Definition fbcbor_encode_indef_string_start (s : Z) := zres (enc_byte 127 (Z.to_N s)).
Definition fbcbor_encode_indef_array_start (s : Z) := zres (enc_byte 159 (Z.to_N s)).
Definition fbcbor_encode_indef_map_start (s : Z) := zres (enc_byte 191 (Z.to_N s)).
Definition fbcbor_encode_null (s : Z) := zres (enc_byte 246 (Z.to_N s)).
Definition fbcbor_encode_undef (s : Z) := zres (enc_byte 247 (Z.to_N s)).
Definition fbcbor_encode_break (s : Z) := zres (enc_byte 255 (Z.to_N s)).
