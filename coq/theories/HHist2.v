(* Model H: further client calls outside the [op] type of HHist.v (kept separate so that the
   history theorems over [op] stay as they are): installing a client-allocated buffer in a definite
   string (cbor_bytestring_set_handle / cbor_string_set_handle).  Definitions only. *)
From CB Require Export HHist.
Local Open Scope N_scope.

Section SetHandle.
Variable refuse : N -> N -> bool.

(* the client obtains a buffer from the installed allocator, fills it, and hands it over:
   set_handle stores the pointer and the length; it neither copies nor releases anything *)
Definition set_handle_new (s : cstate) (h : nat) (bytes : list N) : M (cstate * out) :=
  match hget s h with
  | None => ret (s, OutSkip)
  | Some a =>
      b <- malloc refuse (len bytes) (CData (len bytes)) ;;
      match b with
      | None => ret (s, OutBool false)
      | Some d =>
          c <- rd_item a ;;
          match snd c with
          | NStr text None _ => wr_item a (fst c) (NStr text (Some d) bytes) ;;; ret (s, OutBool true)
          | NStr _ (Some _) _ => fail (FAssert 50)     (* the previous buffer would be leaked: not a rule-following call *)
          | _ => fail FType
          end
      end
  end.

(* re-install the item's own buffer with a shorter length (shortening in place) *)
Definition set_handle_shorten (s : cstate) (h : nat) (n : N) : M (cstate * out) :=
  match hget s h with
  | None => ret (s, OutSkip)
  | Some a =>
      c <- rd_item a ;;
      match snd c with
      | NStr text data bytes =>
          if n <=? len bytes then wr_item a (fst c) (NStr text data (firstnN n bytes)) ;;; ret (s, OutBool true)
          else fail FOutOfBounds
      | _ => fail FType
      end
  end.

(* cbor_new_definite_bytestring / cbor_new_definite_string: a string item without a buffer yet *)
Definition new_definite_string_op (s : cstate) (text : bool) : M (cstate * out) :=
  newh s (new_definite_string refuse text).
End SetHandle.
