(* Model H: heap, allocator oracle, event trace, access log, and the state-and-error monad in
   which every API function of libcbor is written.  Definitions only.

   Addresses are never reused (bump pointer): a released address stays empty for ever, so any
   later touch is a Fault — an infinite quarantine.  Every block obtained from the allocator is
   a cell: items carry their reference count and contents; every other block (payload bytes,
   slot / pair arrays, chunk header, chunk array, decoder stack record, output buffer) is a
   [CData] cell whose contents are kept in the owning item's node. *)
From CB Require Export Word PStream PMem.
Local Open Scope N_scope.

Definition addr := N.

Inductive node :=
| NInt (neg : bool) (w : iwidth) (v : N)
| NFloat (w : fwidth) (bits : N)
| NCtrl (v : N)
| NStr (text : bool) (data : option addr) (bytes : list N)          (* definite string; length = len bytes *)
| NChunked (text : bool) (hdr : addr) (arr : option addr) (cap : N) (chunks : list addr)
| NArr (indef : bool) (data : option addr) (allocated : N) (elems : list addr)   (* end_ptr = len elems *)
| NMap (indef : bool) (data : option addr) (allocated : N) (pairs : list (addr * option addr))
| NTag (v : N) (child : option addr).

Inductive cell :=
| CItem (rc : N) (n : node)
| CData (size : N).

(* allocator events, in program order *)
Inductive event :=
| EvMalloc (size : N) (res : option addr)
| EvRealloc (old : option addr) (size : N) (res : option addr)
| EvFree (p : option addr).          (* None = free(NULL) *)

Inductive fkind :=
| FUseAfterFree (a : addr)    (* touch of a released / never allocated address *)
| FNull                       (* NULL dereference *)
| FOutOfBounds                (* index outside a block's capacity *)
| FBadFree (a : addr)         (* free / realloc of a block that is not live *)
| FAssert (id : N)            (* a CBOR_ASSERT on a modelled path fails *)
| FType                       (* an accessor applied to an item of another type *)
| FFuel.                      (* model ran out of fuel *)

Inductive access := AccR (a : addr) | AccW (a : addr).

Record world := mkworld {
  heap : addr -> option cell;
  next : addr;                 (* bump pointer; addresses start at 1, 0 is NULL *)
  nreq : N;                    (* number of malloc / realloc requests made so far *)
  trace : list event;          (* newest first *)
  alog : list access           (* newest first: accesses to cells that already existed *)
}.

Definition world0 : world := mkworld (fun _ => None) 1 0 [] [].

Inductive res (A : Type) := Ret (a : A) (w : world) | Fault (k : fkind).
Arguments Ret {A}. Arguments Fault {A}.

Definition M (A : Type) := world -> res A.
Definition ret {A} (a : A) : M A := fun w => Ret a w.
Definition bind {A B} (m : M A) (f : A -> M B) : M B :=
  fun w => match m w with Ret a w' => f a w' | Fault k => Fault k end.
Definition fail {A} (k : fkind) : M A := fun _ => Fault k.
Notation "x <- m ;; f" := (bind m (fun x => f)) (at level 61, m at next level, right associativity).
Notation "m ;;; f" := (bind m (fun _ => f)) (at level 61, right associativity).
Notation "m >>= f" := (bind m f) (at level 50, left associativity).

Definition upd (h : addr -> option cell) (a : addr) (c : option cell) : addr -> option cell :=
  fun x => if x =? a then c else h x.

Section Oracle.
(* the allocator: does it refuse the request with this index and this size? *)
Variable refuse : N -> N -> bool.

Definition malloc (size : N) (c : cell) : M (option addr) := fun w =>
  if refuse (nreq w) size
  then Ret None (mkworld (heap w) (next w) (nreq w + 1) (EvMalloc size None :: trace w) (alog w))
  else let a := next w in
       Ret (Some a) (mkworld (upd (heap w) a (Some c)) (a + 1) (nreq w + 1)
                             (EvMalloc size (Some a) :: trace w) (alog w)).

(* realloc of a data block: refused -> old block untouched; granted -> the block moves to a
   fresh address (the old address is dead) *)
Definition realloc_bad (old : option addr) (w : world) : option fkind :=
  match old with
  | Some o => match heap w o with Some (CData _) => None | _ => Some (FBadFree o) end
  | None => None
  end.
Definition realloc (old : option addr) (size : N) : M (option addr) := fun w =>
  match realloc_bad old w with
  | Some k => Fault k
  | None =>
    if refuse (nreq w) size
    then Ret None (mkworld (heap w) (next w) (nreq w + 1) (EvRealloc old size None :: trace w) (alog w))
    else let a := next w in
         let h1 := match old with Some o => upd (heap w) o None | None => heap w end in
         Ret (Some a) (mkworld (upd h1 a (Some (CData size))) (a + 1) (nreq w + 1)
                               (EvRealloc old size (Some a) :: trace w) (alog w))
  end.

Definition free (p : option addr) : M unit := fun w =>
  match p with
  | None => Ret tt (mkworld (heap w) (next w) (nreq w) (EvFree None :: trace w) (alog w))
  | Some a =>
      match heap w a with
      | Some _ => Ret tt (mkworld (upd (heap w) a None) (next w) (nreq w) (EvFree (Some a) :: trace w) (alog w))
      | None => Fault (FBadFree a)
      end
  end.

End Oracle.

(* read / write of an existing item cell (logged) *)
Definition rd_item (a : addr) : M (N * node) := fun w =>
  match heap w a with
  | Some (CItem rc n) => Ret (rc, n) (mkworld (heap w) (next w) (nreq w) (trace w) (AccR a :: alog w))
  | Some (CData _) => Fault FType
  | None => Fault (FUseAfterFree a)
  end.
Definition wr_item (a : addr) (rc : N) (n : node) : M unit := fun w =>
  match heap w a with
  | Some (CItem _ _) => Ret tt (mkworld (upd (heap w) a (Some (CItem rc n))) (next w) (nreq w) (trace w) (AccW a :: alog w))
  | Some (CData _) => Fault FType
  | None => Fault (FUseAfterFree a)
  end.
(* a data block the code is about to read or write must be live *)
Definition touch_data (write : bool) (p : option addr) : M unit := fun w =>
  match p with
  | None => Fault FNull
  | Some a =>
      match heap w a with
      | Some (CData _) => Ret tt (mkworld (heap w) (next w) (nreq w) (trace w) ((if write then AccW a else AccR a) :: alog w))
      | Some (CItem _ _) => Fault FType
      | None => Fault (FUseAfterFree a)
      end
  end.
Definition assert_ (id : N) (b : bool) : M unit := if b then ret tt else fail (FAssert id).

Definition live_count (w : world) : N :=
  N.recursion 0 (fun i acc => acc + match heap w i with Some _ => 1 | None => 0 end) (next w).
