(* C15, the value-widening getter cbor_float_get_float (PWiden.widen32 / float_get_float_bits):
   the binary64 pattern [widen32 v] denotes exactly the IEEE 754 value of the binary32 pattern v, with the
   same class and sign (zeros, infinities), every NaN goes to the canonical quiet NaN, the result is a
   64-bit pattern and the map is injective on non-NaN patterns; for halves, cbor_float_get_float of the
   item that decode_half produced has the value of the binary16 pattern.

   The 2^32 patterns are not swept: the proof is structural.  [ff32_fields] / [ff64_fields] give Flocq's
   sign / mantissa / exponent triple of a pattern from its three fields, [widen32_shape] gives the fields
   of [widen32 v] in the four non-NaN cases (infinity, zero, normal, subnormal with the leading bit of the
   mantissa at position p = N.log2 m, 0 <= p <= 22), and [C15_widen_same] compares the triples with
   PFloat_proofs.same_value.  The only sweep is [dh_check_sweep] (all 65,536 halves: decode_half h < 2^32).

   Like PFloat_proofs.v this file imports Flocq and Reals: the theorems named [*_value] (statements about
   real numbers / about Flocq's [binary_float_of_bits]) depend on the axioms of the standard library of
   reals and on Classical_Prop.classic; every other theorem is closed under the global context (see the
   end of the file). *)
From CB Require Import Word Word_proofs PStream PWiden PFloat_proofs.
From Coq Require Import ZArith NArith Lia Bool Reals ZifyBool ZifyN ZifyNat.
From Flocq Require Import Core IEEE754.Binary IEEE754.Bits.
Local Open Scope N_scope.
Ltac Zify.zify_post_hook ::= Z.div_mod_to_equations.

(* ---------------------------------------------------------------------------------------- *)
(* IEEE reading of binary64 bit patterns (binary16 / binary32: PFloat_proofs.b16, b32)          *)

Definition b64 (v : N) : binary_float 53 1024 :=
  binary_float_of_bits 52 11 eq_refl eq_refl eq_refl (Z.of_N v).
Definition ff64 (v : N) : full_float := binary_float_of_bits_aux 52 11 (Z.of_N v).

Lemma B2FF_b64 v : B2FF 53 1024 (b64 v) = ff64 v.
Proof. unfold b64, binary_float_of_bits. apply B2FF_FF2B. Qed.

(* the triple of a pattern given by its three fields *)
Definition ff_fields (mw : N) (emin : Z) (emax : N) (s : bool) (e m : N) : full_float :=
  if e =? 0 then
    match m with 0 => F754_zero s | Npos p => F754_finite s p emin end
  else if e =? emax then
    match m with 0 => F754_infinity s | Npos p => F754_nan s p end
  else
    match m + 2^mw with Npos p => F754_finite s p (Z.of_N e + emin - 1) | 0 => F754_nan false xH end.

Lemma ff32_fields s e m : s < 2 -> e < 256 -> m < 2^23 ->
  ff32 (s * 2^31 + e * 2^23 + m) = ff_fields 23 (-149) 255 (s =? 1) e m.
Proof.
  intros Hs He Hm. unfold ff32, binary_float_of_bits_aux, split_bits.
  change (2^23) with 8388608 in *. change (2^31) with 2147483648.
  change (Z.pow 2 23) with 8388608%Z. change (Z.pow 2 8) with 256%Z.
  change (8388608 * 256)%Z with 2147483648%Z.
  set (x := Z.of_N (s * 2147483648 + e * 8388608 + m)).
  assert (E1 : (x mod 8388608 = Z.of_N m)%Z) by (unfold x; lia).
  assert (E2 : ((x / 8388608) mod 256 = Z.of_N e)%Z) by (unfold x; lia).
  assert (E3 : (2147483648 <=? x)%Z = (s =? 1)) by (unfold x; lia).
  rewrite E1, E2, E3. clear x E1 E2 E3. unfold ff_fields.
  change (SpecFloat.emin (23 + 1) (2 ^ (8 - 1))) with (-149)%Z. change (256 - 1)%Z with 255%Z.
  change (2^23) with 8388608.
  destruct (N.eqb_spec e 0) as [->|Ne0].
  { destruct m; reflexivity. }
  rewrite Zeq_bool_false by lia.
  destruct (N.eqb_spec e 255) as [->|Ne1].
  { destruct m; reflexivity. }
  rewrite Zeq_bool_false by lia.
  change 8388608%Z with (Z.of_N 8388608). rewrite <- N2Z.inj_add.
  destruct (m + 8388608) eqn:E; [lia|reflexivity].
Qed.

Lemma ff64_fields s e m : s < 2 -> e < 2048 -> m < 2^52 ->
  ff64 (s * 2^63 + e * 2^52 + m) = ff_fields 52 (-1074) 2047 (s =? 1) e m.
Proof.
  intros Hs He Hm. unfold ff64, binary_float_of_bits_aux, split_bits.
  change (2^52) with 4503599627370496 in *. change (2^63) with 9223372036854775808.
  change (Z.pow 2 52) with 4503599627370496%Z. change (Z.pow 2 11) with 2048%Z.
  change (4503599627370496 * 2048)%Z with 9223372036854775808%Z.
  set (x := Z.of_N (s * 9223372036854775808 + e * 4503599627370496 + m)).
  assert (E1 : (x mod 4503599627370496 = Z.of_N m)%Z) by (unfold x; lia).
  assert (E2 : ((x / 4503599627370496) mod 2048 = Z.of_N e)%Z) by (unfold x; lia).
  assert (E3 : (9223372036854775808 <=? x)%Z = (s =? 1)) by (unfold x; lia).
  rewrite E1, E2, E3. clear x E1 E2 E3. unfold ff_fields.
  change (SpecFloat.emin (52 + 1) (2 ^ (11 - 1))) with (-1074)%Z. change (2048 - 1)%Z with 2047%Z.
  change (2^52) with 4503599627370496.
  destruct (N.eqb_spec e 0) as [->|Ne0].
  { destruct m; reflexivity. }
  rewrite Zeq_bool_false by lia.
  destruct (N.eqb_spec e 2047) as [->|Ne1].
  { destruct m; reflexivity. }
  rewrite Zeq_bool_false by lia.
  change 4503599627370496%Z with (Z.of_N 4503599627370496). rewrite <- N2Z.inj_add.
  destruct (m + 4503599627370496) eqn:E; [lia|reflexivity].
Qed.

(* ---------------------------------------------------------------------------------------- *)
(* the fields of a binary32 pattern, and of its widening *)

Lemma split32 v : v < 2^32 ->
  v = (v / 2^31) * 2^31 + ((v / 2^23) mod 256) * 2^23 + v mod 2^23 /\
  v / 2^31 < 2 /\ (v / 2^31) mod 2 = v / 2^31 /\ (v / 2^23) mod 256 < 256 /\ v mod 2^23 < 2^23.
Proof.
  change (2^32) with 4294967296. change (2^31) with 2147483648. change (2^23) with 8388608. lia.
Qed.

(* position of the leading bit of a non-zero 23-bit mantissa *)
Lemma lead_bit m : m <> 0 -> m < 2^23 ->
  N.log2 m <= 22 /\ 2^(N.log2 m) <= m < 2 * 2^(N.log2 m) /\ 2^(52 - N.log2 m) * 2^(N.log2 m) = 2^52.
Proof.
  intros Hm0 Hm.
  assert (Hp : 0 < m) by lia.
  pose proof (N.log2_spec m Hp) as [L1 L2]. rewrite N.pow_succ_r' in L2.
  assert (Hl : N.log2 m < 23) by (apply N.log2_lt_pow2; assumption).
  split; [lia|]. split; [lia|].
  rewrite <- N.pow_add_r. f_equal. lia.
Qed.

Inductive widen_shape (v : N) : Prop :=
| WInf s : s < 2 -> v = s * 2^31 + 255 * 2^23 + 0 -> widen32 v = s * 2^63 + 2047 * 2^52 + 0 -> widen_shape v
| WZero s : s < 2 -> v = s * 2^31 + 0 * 2^23 + 0 -> widen32 v = s * 2^63 + 0 * 2^52 + 0 -> widen_shape v
| WNorm s e m : s < 2 -> 0 < e < 255 -> m < 2^23 -> v = s * 2^31 + e * 2^23 + m ->
    widen32 v = s * 2^63 + (e + 896) * 2^52 + m * 2^29 -> widen_shape v
| WSub s m p : s < 2 -> 0 < m < 2^23 -> p <= 22 -> 2^p <= m < 2 * 2^p -> 2^(52 - p) * 2^p = 2^52 ->
    v = s * 2^31 + 0 * 2^23 + m ->
    widen32 v = s * 2^63 + (p + 874) * 2^52 + (m - 2^p) * 2^(52 - p) -> widen_shape v.

Lemma widen32_shape v : v < 2^32 -> f32_is_nan v = false -> widen_shape v.
Proof.
  intros Hv Hn. destruct (split32 v Hv) as (Ev & Hs & Es & He & Hm).
  unfold f32_is_nan in Hn. pose proof (eq_refl (widen32 v)) as W. unfold widen32 at 2 in W.
  rewrite Es in W.
  set (s := v / 2^31) in *. set (e := (v / 2^23) mod 256) in *. set (m := v mod 2^23) in *.
  destruct (N.eqb_spec e 255) as [E255|E255].
  - destruct (N.eqb_spec m 0) as [Em|Em]; [|discriminate].
    apply (WInf v s Hs); [rewrite Ev, E255, Em; reflexivity|rewrite N.add_0_r; exact W].
  - destruct (N.eqb_spec e 0) as [E0|E0].
    + destruct (N.eqb_spec m 0) as [Em|Em].
      * apply (WZero v s Hs); [rewrite Ev, E0, Em; reflexivity|].
        rewrite N.mul_0_l, !N.add_0_r. exact W.
      * destruct (lead_bit m Em Hm) as (Lp & Lm & Lk).
        apply (WSub v s m (N.log2 m) Hs); try assumption; try lia.
    + apply (WNorm v s e m Hs); try assumption; try lia.
Qed.

(* ---------------------------------------------------------------------------------------- *)
(* the widening keeps the value *)

Lemma ff_fields_normal mw emin emax s e m p : e <> 0 -> e <> emax -> m + 2^mw = Npos p ->
  ff_fields mw emin emax s e m = F754_finite s p (Z.of_N e + emin - 1).
Proof.
  intros H0 H1 Hp. unfold ff_fields.
  destruct (N.eqb_spec e 0) as [E|_]; [contradiction|].
  destruct (N.eqb_spec e emax) as [E|_]; [contradiction|].
  rewrite Hp. reflexivity.
Qed.

Lemma sub_mantissa m q k : q <= m < 2 * q -> k * q = 2^52 ->
  (m - q) * k < 2^52 /\ (m - q) * k + 2^52 = m * k.
Proof.
  intros Hm Hk. rewrite <- Hk. rewrite N.mul_sub_distr_r.
  assert (H1 : q * k <= m * k) by (apply N.mul_le_mono_r; lia).
  assert (H2 : m * k < 2 * q * k).
  { apply N.mul_lt_mono_pos_r; [|lia]. destruct k; [rewrite N.mul_0_l in Hk; discriminate|lia]. }
  lia.
Qed.

Theorem C15_widen_same : forall v, v < 2^32 -> f32_is_nan v = false ->
  same_value (ff64 (widen32 v)) (ff32 v) = true.
Proof.
  intros v Hv Hn.
  destruct (widen32_shape v Hv Hn) as [s Hs Ev Ew|s Hs Ev Ew|s e m Hs He Hm Ev Ew|s m p Hs Hm Hp Hq Hk Ev Ew];
    rewrite Ew; rewrite Ev.
  - rewrite ff64_fields, ff32_fields by (try assumption; reflexivity).
    cbn [ff_fields N.eqb Pos.eqb same_value]. apply eqb_reflx.
  - rewrite ff64_fields, ff32_fields by (try assumption; reflexivity).
    cbn [ff_fields N.eqb same_value]. apply eqb_reflx.
  - change (2^23) with 8388608 in Hm.
    assert (Hm2 : m * 2^29 < 2^52).
    { change (2^29) with 536870912. change (2^52) with 4503599627370496. lia. }
    rewrite ff64_fields, ff32_fields by (try assumption; change (2^23) with 8388608; lia).
    destruct (m + 2^23) as [|p32] eqn:E32; [change (2^23) with 8388608 in E32; lia|].
    destruct (m * 2^29 + 2^52) as [|p64] eqn:E64; [change (2^52) with 4503599627370496 in E64; lia|].
    rewrite (ff_fields_normal 52 _ _ _ _ _ p64) by (try assumption; lia).
    rewrite (ff_fields_normal 23 _ _ _ _ _ p32) by (try assumption; lia).
    cbn [same_value]. rewrite eqb_reflx. cbn [andb].
    destruct (Z.leb_spec (Z.of_N (e + 896) + -1074 - 1) (Z.of_N e + -149 - 1)) as [_|L]; [|lia].
    replace (Z.of_N e + -149 - 1 - (Z.of_N (e + 896) + -1074 - 1))%Z with 29%Z by lia.
    change (2^29)%Z with 536870912%Z.
    change (2^29) with 536870912 in E64. change (2^52) with 4503599627370496 in E64.
    change (2^23) with 8388608 in E32. lia.
  - destruct (sub_mantissa m (2^p) (2^(52 - p)) Hq Hk) as [Hb Hmk].
    rewrite ff64_fields, ff32_fields by (try assumption; try reflexivity; try lia).
    destruct m as [|pm]; [lia|].
    destruct ((N.pos pm - 2^p) * 2^(52 - p) + 2^52) as [|p64] eqn:E64;
      [change (2^52) with 4503599627370496 in E64; lia|].
    rewrite (ff_fields_normal 52 _ _ _ _ _ p64) by (try assumption; lia).
    cbn [ff_fields N.eqb same_value]. rewrite eqb_reflx. cbn [andb].
    destruct (Z.leb_spec (Z.of_N (p + 874) + -1074 - 1) (-149)) as [_|L]; [|lia].
    replace (-149 - (Z.of_N (p + 874) + -1074 - 1))%Z with (Z.of_N (52 - p)) by lia.
    change 2%Z with (Z.of_N 2). rewrite <- N2Z.inj_pow.
    change (Z.pos pm) with (Z.of_N (N.pos pm)). change (Z.pos p64) with (Z.of_N (N.pos p64)).
    rewrite <- N2Z.inj_mul. apply Z.eqb_eq. f_equal. exact Hmk.
Qed.

Theorem C15_widen_value : forall v, v < 2^32 -> f32_is_nan v = false ->
  B2R _ _ (b64 (widen32 v)) = B2R _ _ (b32 v).
Proof.
  intros v Hv Hn. apply same_value_sound. rewrite B2FF_b64, B2FF_b32.
  apply C15_widen_same; assumption.
Qed.

(* class and sign are preserved: zeros go to zeros and infinities to infinities of the same sign,
   finite numbers to finite numbers (on triples: no axiom) *)
Theorem C15_widen_class : forall v, v < 2^32 -> f32_is_nan v = false ->
  is_nan_FF (ff64 (widen32 v)) = false /\ is_nan_FF (ff32 v) = false /\
  is_finite_FF (ff64 (widen32 v)) = is_finite_FF (ff32 v) /\
  sign_FF (ff64 (widen32 v)) = sign_FF (ff32 v) /\
  (forall s, ff64 (widen32 v) = F754_zero s <-> ff32 v = F754_zero s) /\
  (forall s, ff64 (widen32 v) = F754_infinity s <-> ff32 v = F754_infinity s).
Proof. intros v Hv Hn. apply same_value_class_FF. apply C15_widen_same; assumption. Qed.

Theorem C15_widen_class_value : forall v, v < 2^32 -> f32_is_nan v = false ->
  is_nan _ _ (b64 (widen32 v)) = false /\ is_nan _ _ (b32 v) = false /\
  is_finite _ _ (b64 (widen32 v)) = is_finite _ _ (b32 v) /\
  Bsign _ _ (b64 (widen32 v)) = Bsign _ _ (b32 v) /\
  (forall s, b64 (widen32 v) = B754_zero _ _ s <-> b32 v = B754_zero _ _ s) /\
  (forall s, b64 (widen32 v) = B754_infinity _ _ s <-> b32 v = B754_infinity _ _ s).
Proof.
  intros v Hv Hn. apply same_value_class. rewrite B2FF_b64, B2FF_b32.
  apply C15_widen_same; assumption.
Qed.

(* ---------------------------------------------------------------------------------------- *)
(* NaN *)

Theorem C15_widen_nan : forall v, f32_is_nan v = true -> widen32 v = 0x7FF8000000000000.
Proof.
  intros v Hn. unfold f32_is_nan in Hn. apply andb_prop in Hn. destruct Hn as [He Hm].
  unfold widen32. rewrite He. apply negb_true_iff in Hm. rewrite Hm. reflexivity.
Qed.

(* [f32_is_nan] is the IEEE NaN test on binary32 patterns, and the widening of a NaN is a NaN *)
Theorem C15_widen_is_nan : forall v, v < 2^32 ->
  is_nan_FF (ff32 v) = f32_is_nan v /\ is_nan_FF (ff64 (widen32 v)) = f32_is_nan v.
Proof.
  intros v Hv. destruct (f32_is_nan v) eqn:Hn.
  - rewrite (C15_widen_nan v Hn). split; [|reflexivity].
    destruct (split32 v Hv) as (Ev & Hs & Es & He & Hm).
    unfold f32_is_nan in Hn. apply andb_prop in Hn. destruct Hn as [He1 Hm1].
    apply N.eqb_eq in He1. apply negb_true_iff in Hm1. apply N.eqb_neq in Hm1.
    rewrite Ev, ff32_fields by assumption. rewrite He1.
    destruct (v mod 2^23) as [|pm]; [contradiction|]. reflexivity.
  - destruct (C15_widen_class v Hv Hn) as (H1 & H2 & _). split; assumption.
Qed.

Theorem C15_widen_is_nan_value : forall v, v < 2^32 ->
  is_nan _ _ (b32 v) = f32_is_nan v /\ is_nan _ _ (b64 (widen32 v)) = f32_is_nan v.
Proof.
  intros v Hv. rewrite <- !is_nan_B2FF, B2FF_b32, B2FF_b64. apply C15_widen_is_nan. exact Hv.
Qed.

(* ---------------------------------------------------------------------------------------- *)
(* range and injectivity *)

Lemma shape_bound v : widen_shape v -> widen32 v < 2^64.
Proof.
  intros [s Hs Ev Ew|s Hs Ev Ew|s e m Hs He Hm Ev Ew|s m p Hs Hm Hp Hq Hk Ev Ew]; rewrite Ew.
  - change (2^63) with 9223372036854775808. change (2^52) with 4503599627370496.
    change (2^64) with 18446744073709551616. lia.
  - change (2^63) with 9223372036854775808. change (2^52) with 4503599627370496.
    change (2^64) with 18446744073709551616. lia.
  - change (2^63) with 9223372036854775808. change (2^52) with 4503599627370496.
    change (2^64) with 18446744073709551616. change (2^29) with 536870912.
    change (2^23) with 8388608 in Hm. lia.
  - destruct (sub_mantissa m (2^p) (2^(52 - p)) Hq Hk) as [Hb _].
    change (2^63) with 9223372036854775808. change (2^52) with 4503599627370496 in *.
    change (2^64) with 18446744073709551616. lia.
Qed.

Theorem C15_widen_bound : forall v, v < 2^32 -> widen32 v < 2^64.
Proof.
  intros v Hv. destruct (f32_is_nan v) eqn:Hn.
  - rewrite (C15_widen_nan v Hn). reflexivity.
  - apply shape_bound. apply widen32_shape; assumption.
Qed.

(* the three fields of the widened pattern determine it *)
Lemma fields64_inj s1 e1 m1 s2 e2 m2 : m1 < 2^52 -> m2 < 2^52 -> e1 < 2048 -> e2 < 2048 ->
  s1 * 2^63 + e1 * 2^52 + m1 = s2 * 2^63 + e2 * 2^52 + m2 -> s1 = s2 /\ e1 = e2 /\ m1 = m2.
Proof.
  change (2^63) with 9223372036854775808. change (2^52) with 4503599627370496. lia.
Qed.

Lemma pow2_interval_inj p1 p2 m : 2^p1 <= m < 2 * 2^p1 -> 2^p2 <= m < 2 * 2^p2 -> p1 = p2.
Proof.
  intros [A1 B1] [A2 B2]. rewrite <- N.pow_succ_r' in B1, B2.
  assert (H1 : p1 < N.succ p2) by (apply (N.pow_lt_mono_r_iff 2); lia).
  assert (H2 : p2 < N.succ p1) by (apply (N.pow_lt_mono_r_iff 2); lia).
  lia.
Qed.

Theorem C15_widen_injective : forall v1 v2, v1 < 2^32 -> v2 < 2^32 ->
  f32_is_nan v1 = false -> f32_is_nan v2 = false -> widen32 v1 = widen32 v2 -> v1 = v2.
Proof.
  intros v1 v2 Hv1 Hv2 Hn1 Hn2 E.
  destruct (widen32_shape v1 Hv1 Hn1) as [s Hs Ev Ew|s Hs Ev Ew|s e m Hs He Hm Ev Ew|s m p Hs Hm Hp Hq Hk Ev Ew];
  destruct (widen32_shape v2 Hv2 Hn2) as [s' Hs' Ev' Ew'|s' Hs' Ev' Ew'|s' e' m' Hs' He' Hm' Ev' Ew'|s' m' p' Hs' Hm' Hp' Hq' Hk' Ev' Ew'];
  rewrite Ew, Ew' in E;
  try (destruct (sub_mantissa m (2^p) (2^(52 - p)) Hq Hk) as [Hb Hmk]);
  try (destruct (sub_mantissa m' (2^p') (2^(52 - p')) Hq' Hk') as [Hb' Hmk']);
  try (assert (Hm2 : m * 2^29 < 2^52)
         by (change (2^29) with 536870912; change (2^52) with 4503599627370496;
             change (2^23) with 8388608 in Hm; lia));
  try (assert (Hm2' : m' * 2^29 < 2^52)
         by (change (2^29) with 536870912; change (2^52) with 4503599627370496;
             change (2^23) with 8388608 in Hm'; lia));
  apply fields64_inj in E; try lia; try reflexivity; destruct E as (Es & Ee & Em); subst s'.
  (* what is left: two subnormal numbers (the other pairs are closed by lia) *)
  assert (p = p') by lia. subst p'.
  assert (Hc : m - 2^p = m' - 2^p).
  { apply (N.mul_cancel_r _ _ (2^(52 - p))); [|exact Em]. apply N.pow_nonzero. discriminate. }
  assert (m = m') by lia. subst m'.
  rewrite Ev, Ev'. reflexivity.
Qed.

(* ---------------------------------------------------------------------------------------- *)
(* halves: cbor_float_get_float on a half item is the widening of the float that decode_half stored *)

Definition dh_check (h : N) : bool := decode_half h <? 2^32.
Lemma dh_check_sweep : allb 16 dh_check 0 = true.
Proof. vm_compute. reflexivity. Qed.

Lemma decode_half_bound h : h < 65536 -> decode_half h < 2^32.
Proof. intros Hh. apply N.ltb_lt. exact (allb16_forall _ dh_check_sweep h Hh). Qed.

Lemma decode_half_nonnan h : h < 65536 -> half_is_nan h = false -> f32_is_nan (decode_half h) = false.
Proof.
  intros Hh Hn. destruct (C15_widen_is_nan (decode_half h) (decode_half_bound h Hh)) as [<- _].
  destruct (C15_half_is_nan h Hh) as [_ ->]. exact Hn.
Qed.

Theorem C15_half_get_float_same : forall h, h < 65536 -> half_is_nan h = false ->
  same_value (ff64 (widen32 (decode_half h))) (ff32 (decode_half h)) = true /\
  same_value (ff32 (decode_half h)) (ff16 h) = true.
Proof.
  intros h Hh Hn. split.
  - apply C15_widen_same; [apply decode_half_bound|apply decode_half_nonnan]; assumption.
  - apply C15_half_same; assumption.
Qed.

Theorem C15_half_get_float_value : forall h, h < 65536 -> half_is_nan h = false ->
  B2R _ _ (b64 (widen32 (decode_half h))) = B2R _ _ (b16 h).
Proof.
  intros h Hh Hn. rewrite C15_widen_value.
  - apply C15_half_value; assumption.
  - apply decode_half_bound; assumption.
  - apply decode_half_nonnan; assumption.
Qed.

Theorem C15_half_get_float_nan : forall h, h < 65536 -> half_is_nan h = true ->
  widen32 (decode_half h) = 0x7FF8000000000000.
Proof. intros h Hh Hn. rewrite (C15_half_nan h Hh Hn). reflexivity. Qed.

(* ---------------------------------------------------------------------------------------- *)
(* cbor_float_get_float on an item [NFloat w bits] (HHist3.values_of prints [float_get_float_bits w bits]) *)

Theorem C15_get_float_value : forall w bits, w <> F64 -> bits < 2^32 -> f32_is_nan bits = false ->
  B2R _ _ (b64 (float_get_float_bits w bits)) = B2R _ _ (b32 bits).
Proof.
  intros w bits Hw Hb Hn. destruct w; [| |contradiction]; cbn [float_get_float_bits];
    apply C15_widen_value; assumption.
Qed.

Theorem C15_get_float_class_value : forall w bits, w <> F64 -> bits < 2^32 -> f32_is_nan bits = false ->
  is_nan _ _ (b64 (float_get_float_bits w bits)) = false /\ is_nan _ _ (b32 bits) = false /\
  is_finite _ _ (b64 (float_get_float_bits w bits)) = is_finite _ _ (b32 bits) /\
  Bsign _ _ (b64 (float_get_float_bits w bits)) = Bsign _ _ (b32 bits) /\
  (forall s, b64 (float_get_float_bits w bits) = B754_zero _ _ s <-> b32 bits = B754_zero _ _ s) /\
  (forall s, b64 (float_get_float_bits w bits) = B754_infinity _ _ s <-> b32 bits = B754_infinity _ _ s).
Proof.
  intros w bits Hw Hb Hn. destruct w; [| |contradiction]; cbn [float_get_float_bits];
    apply C15_widen_class_value; assumption.
Qed.

Theorem C15_get_float_half_value : forall h, h < 65536 -> half_is_nan h = false ->
  B2R _ _ (b64 (float_get_float_bits F16 (decode_half h))) = B2R _ _ (b16 h).
Proof. exact C15_half_get_float_value. Qed.

(* a double item: the stored bits themselves *)
Theorem C15_get_float_double : forall bits, f64_is_nan bits = false -> float_get_float_bits F64 bits = bits.
Proof. intros bits Hn. cbn [float_get_float_bits]. apply canon64_nonnan. exact Hn. Qed.

(* NaN of any width: the canonical quiet NaN *)
Theorem C15_get_float_nan : forall w bits,
  (match w with F64 => f64_is_nan bits | _ => f32_is_nan bits end) = true ->
  float_get_float_bits w bits = 0x7FF8000000000000.
Proof.
  intros w bits Hn. destruct w; cbn [float_get_float_bits].
  - apply C15_widen_nan. exact Hn.
  - apply C15_widen_nan. exact Hn.
  - unfold canon64. rewrite Hn. reflexivity.
Qed.

Theorem C15_get_float_bound : forall w bits,
  (match w with F64 => bits < 2^64 | _ => bits < 2^32 end) -> float_get_float_bits w bits < 2^64.
Proof.
  intros w bits Hb. destruct w; cbn [float_get_float_bits].
  - apply C15_widen_bound. exact Hb.
  - apply C15_widen_bound. exact Hb.
  - apply canon64_bound. exact Hb.
Qed.

Example widen32_examples :
  widen32 0x3F800000 = 0x3FF0000000000000 /\ widen32 0x00000001 = 0x36A0000000000000 /\
  widen32 0x007FFFFF = 0x380FFFFFC0000000 /\ widen32 0x00400000 = 0x3800000000000000 /\
  widen32 0x80000001 = 0xB6A0000000000000 /\ widen32 0x00800000 = 0x3810000000000000 /\
  widen32 0x7F7FFFFF = 0x47EFFFFFE0000000 /\ widen32 0xFF800000 = 0xFFF0000000000000 /\
  widen32 0x80000000 = 0x8000000000000000 /\ widen32 0x7FC00001 = 0x7FF8000000000000 /\
  widen32 (decode_half 0x0001) = 0x3E70000000000000 /\ widen32 (decode_half 0x7BFF) = 0x40EFFC0000000000.
Proof. repeat split; vm_compute; reflexivity. Qed.

(* ---------------------------------------------------------------------------------------- *)
(* Assumptions.  The [*_value] theorems depend on ClassicalDedekindReals.sig_forall_dec,
   ClassicalDedekindReals.sig_not_dec, FunctionalExtensionality.functional_extensionality_dep and
   Classical_Prop.classic (through B2R and through the terms [b16] / [b32] / [b64] themselves, see
   PFloat_proofs.v); all other theorems are closed under the global context. *)
Print Assumptions C15_widen_value.
Print Assumptions C15_widen_class_value.
Print Assumptions C15_widen_is_nan_value.
Print Assumptions C15_half_get_float_value.
Print Assumptions C15_get_float_value.
Print Assumptions C15_get_float_class_value.
Print Assumptions C15_get_float_half_value.
Print Assumptions ff32_fields.
Print Assumptions ff64_fields.
Print Assumptions C15_widen_same.
Print Assumptions C15_widen_class.
Print Assumptions C15_widen_nan.
Print Assumptions C15_widen_is_nan.
Print Assumptions C15_widen_bound.
Print Assumptions C15_widen_injective.
Print Assumptions C15_half_get_float_same.
Print Assumptions C15_half_get_float_nan.
Print Assumptions C15_get_float_double.
Print Assumptions C15_get_float_nan.
Print Assumptions C15_get_float_bound.
