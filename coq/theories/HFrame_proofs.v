(* Model H, property C17: footprint and frame of EVERY client operation (all 26 of HHist.op, the
   writing ones included: push / set / replace, map_add, add_chunk, tag ops, incref, decref, copy,
   load, serialize_alloc ...).

   For a call [step refuse L s o] issued in a well-formed world [w] (nothing above the bump pointer)
   let the footprint [K] be: the cells reachable (HRead_proofs.reach: through item references and
   data blocks) from the items denoted by the operand handles of [o], together with the addresses
   the call allocates itself (those at or above [next w]).  If the call returns, then
   - every access it logs (read or write), every block it frees or reallocates lies in [K]
     ([C17_step_footprint]);
   - every cell outside [K] - i.e. every existing cell that is not reachable from an operand - is
     exactly what it was: not modified, not released ([C17_step_frame]).
   - the outcome depends on nothing else: in any other well-formed world with the same bump pointer
     and request counter that agrees with [w] on the cells reachable from the operands, the call
     returns the same handle table and output and ends in a world that agrees on the whole
     footprint ([C17_step_independent]; second instance of the generic walk, a two-run simulation,
     with a fuel argument for cbor_decref whose fuel is computed from the whole heap).
   No ownership rule is needed: the statements are about calls that return.

   Proof: instance of the generic walk over the code of all operations (HStepInv_proofs.step_keeps)
   with the world invariant "outside K nothing has changed, K is closed under the references stored
   in its live cells, all logged accesses / allocator arguments so far are in K". *)
From CB Require Import Word Word_proofs PMem PItem HHeap HItems HOps HHist HHist2 HHist3.
From CB Require Import HRef_proofs HCont_proofs HRead_proofs HCopy_proofs HHist_proofs HStepInv_proofs HTrace_proofs.
From Coq Require Import Lia ZArith List.
Import ListNotations.
Local Open Scope N_scope.

Definition acc_addr (x : access) : addr := match x with AccR a => a | AccW a => a end.
(* the block an allocator event takes as its argument *)
Definition ev_args (e : event) : list addr :=
  match e with
  | EvFree (Some p) => [p]
  | EvRealloc (Some o) _ _ => [o]
  | _ => []
  end.
(* the block an allocator event hands out *)
Definition ev_res (e : event) : list addr :=
  match e with
  | EvMalloc _ (Some p) => [p]
  | EvRealloc _ _ (Some p) => [p]
  | _ => []
  end.

(* ------------------------------------------------------------------------------------------ *)
(* fuel: a release that returns never needs more fuel than the measure [mu] of HRef_proofs       *)
(* (no accounting invariant assumed) - used for the independence of cbor_decref from the rest of *)
(* the heap, whose size determines the fuel the model gives it                                   *)
(* ------------------------------------------------------------------------------------------ *)

Lemma wf_live_lt w a c : wf w -> heap w a = Some c -> a < next w.
Proof.
  intros Hwf Ha. destruct (N.lt_ge_cases a (next w)) as [Lt|Ge]; [exact Lt|].
  rewrite (Hwf a Ge) in Ha. discriminate Ha.
Qed.
Lemma wf_upd w w' a c c0 : wf w -> heap w a = Some c0 -> heap w' = upd (heap w) a c -> next w' = next w -> wf w'.
Proof.
  intros Hwf Ha Hh Hn b Hb. rewrite Hh. rewrite Hn in Hb. unfold upd.
  destruct (N.eqb_spec b a) as [->|_]; [|apply Hwf; exact Hb].
  pose proof (wf_live_lt _ _ _ Hwf Ha). lia.
Qed.

Lemma drain_enough : forall F ts w u w', wf w -> drain F ts w = Ret u w' ->
  forall F', mu ts w <= N.of_nat F' -> drain F' ts w = Ret u w'.
Proof.
  induction F as [|f IH]; intros ts w u w' Hwf H F' Hmu.
  { destruct ts; cbn [drain] in H; [|discriminate H]. unfold ret in H. injection H as <- <-. apply HRef_proofs.drain_nil. }
  destruct ts as [|t r].
  { cbn [drain] in H. unfold ret in H. injection H as <- <-. apply HRef_proofs.drain_nil. }
  assert (HF : exists f', F' = S f').
  { destruct F' as [|f']; [|eauto]. unfold mu in Hmu. rewrite len_cons in Hmu. lia. }
  destruct HF as [f' ->].
  assert (Hstep : forall ts1 w1, wf w1 -> mu ts1 w1 < mu (t :: r) w -> drain f ts1 w1 = Ret u w' -> drain f' ts1 w1 = Ret u w').
  { intros ts1 w1 Hwf1 Hlt H1. eapply IH; [exact Hwf1|exact H1|lia]. }
  destruct t as [a|[a|]|a].
  - destruct (heap w a) as [[rc n|sz]|] eqn:E.
    + destruct (N.ltb_spec 0 rc) as [Hrc|Hrc0].
      * rewrite (drain_decref_eq f a r w rc n E Hrc) in H. rewrite (drain_decref_eq f' a r w rc n E Hrc).
        pose proof (wf_live_lt _ _ _ Hwf E) as La.
        destruct (N.eqb_spec rc 1) as [->|Hne].
        -- apply Hstep; [eapply (wf_upd w); [exact Hwf|exact E|reflexivity|reflexivity]| |exact H].
           pose proof (mu_upd (TDecref a :: r) (release_tasks a n ++ r) w (HRef_proofs.w_wr a (CItem 0 n) (HRef_proofs.w_rd a w)) a
                              (Some (CItem 0 n)) La eq_refl eq_refl) as M.
           rewrite E in M. cbn [wtc] in M. change (1 =? 0) with false in M. change (0 =? 0) with true in M. cbn iota in M.
           rewrite len_cons, len_app in M. pose proof (len_release a n). lia.
        -- apply Hstep; [eapply (wf_upd w); [exact Hwf|exact E|reflexivity|reflexivity]| |exact H].
           pose proof (mu_upd (TDecref a :: r) r w (HRef_proofs.w_wr a (CItem (rc - 1) n) (HRef_proofs.w_rd a w)) a
                              (Some (CItem (rc - 1) n)) La eq_refl eq_refl) as M.
           rewrite E in M. cbn [wtc] in M. rewrite len_cons in M.
           destruct (N.eqb_spec rc 0); [lia|]. destruct (rc - 1 =? 0); lia.
      * exfalso. cbn [drain] in H. unfold bind at 1 in H. unfold rd_item in H. rewrite E in H. cbn [fst snd] in H.
        unfold bind at 1 in H. assert (Z : (0 <? rc) = false) by (apply N.ltb_ge; exact Hrc0). rewrite Z in H.
        cbn [assert_] in H. discriminate H.
    + exfalso. cbn [drain] in H. unfold bind at 1 in H. unfold rd_item in H. rewrite E in H. discriminate H.
    + exfalso. cbn [drain] in H. unfold bind at 1 in H. unfold rd_item in H. rewrite E in H. discriminate H.
  - destruct (heap w a) as [c|] eqn:E.
    + rewrite (drain_free_data_eq f a r w c E) in H. rewrite (drain_free_data_eq f' a r w c E).
      pose proof (wf_live_lt _ _ _ Hwf E) as La.
      apply Hstep; [eapply (wf_upd w); [exact Hwf|exact E|reflexivity|reflexivity]| |exact H].
      pose proof (mu_upd (TFreeData (Some a) :: r) r w (HRef_proofs.w_free (Some a) w) a None La eq_refl eq_refl) as M.
      cbn [wtc] in M. rewrite len_cons in M. lia.
    + exfalso. cbn [drain] in H. unfold bind at 1 in H. unfold free in H. rewrite E in H. discriminate H.
  - rewrite drain_free_none_eq in H. rewrite drain_free_none_eq.
    apply Hstep; [exact Hwf| |exact H]. unfold mu. cbn [HRef_proofs.w_free heap next]. rewrite len_cons. lia.
  - destruct (heap w a) as [c|] eqn:E.
    + rewrite (drain_free_item_eq f a r w c E) in H. rewrite (drain_free_item_eq f' a r w c E).
      pose proof (wf_live_lt _ _ _ Hwf E) as La.
      apply Hstep; [eapply (wf_upd w); [exact Hwf|exact E|reflexivity|reflexivity]| |exact H].
      pose proof (mu_upd (TFreeItem a :: r) r w (HRef_proofs.w_free (Some a) w) a None La eq_refl eq_refl) as M.
      cbn [wtc] in M. rewrite len_cons in M. lia.
    + exfalso. cbn [drain] in H. unfold bind at 1 in H. unfold free in H. rewrite E in H. discriminate H.
Qed.

Section Frame.
Variable w0 : world.            (* the world in which the call is issued *)
Variable R0 : addr -> Prop.     (* the cells reachable from its operands *)
Hypothesis wf0 : wf w0.
Hypothesis R0_closed : forall a rc n, R0 a -> heap w0 a = Some (CItem rc n) ->
  (forall k, In k (node_kids n) -> R0 k) /\ (forall d, In d (node_blocks n) -> R0 d).

Definition K (a : addr) : Prop := R0 a \/ next w0 <= a.

Definition FG (w : world) : Prop :=
  next w0 <= next w /\
  (forall b, ~ K b -> heap w b = heap w0 b) /\
  (forall a rc n, K a -> heap w a = Some (CItem rc n) -> nodeK K n) /\
  (exists acc, alog w = acc ++ alog w0 /\ Forall (fun x => K (acc_addr x)) acc) /\
  (exists evs, trace w = evs ++ trace w0 /\
     Forall (fun e => (forall p, In p (ev_args e) -> K p) /\ (forall p, In p (ev_res e) -> next w0 <= p)) evs).

Lemma nodeK_of_lists n :
  (forall k, In k (node_kids n) -> K k) -> (forall d, In d (node_blocks n) -> K d) -> nodeK K n.
Proof.
  intros Hk Hd. destruct n as [neg iw v|fw bits|v|text data bytes|text hdr arr cap chunks|indef data al elems|indef data al pairs|v c];
    cbn [nodeK node_kids node_blocks] in *; try exact I.
  - intros a ->. apply Hd. left. reflexivity.
  - split; [apply Hd; left; reflexivity|]. split; [|exact Hk].
    intros a ->. apply Hd. right. left. reflexivity.
  - split; [|exact Hk]. intros a ->. apply Hd. left. reflexivity.
  - split; [intros a ->; apply Hd; left; reflexivity|].
    intros k ov Hi. split.
    + apply Hk. apply in_flat_map. exists (k, ov). split; [exact Hi|]. left. reflexivity.
    + intros a ->. apply Hk. apply in_flat_map. exists (k, Some a). split; [exact Hi|]. right. left. reflexivity.
  - intros a ->. apply Hk. left. reflexivity.
Qed.

Lemma FG_start : FG w0.
Proof.
  split; [lia|]. split; [reflexivity|]. split; [|split].
  - intros a rc n [Ra|Ha] E.
    + destruct (R0_closed a rc n Ra E) as [Hk Hd]. apply nodeK_of_lists; intros x Hx; left; auto.
    + rewrite (wf0 a Ha) in E. discriminate E.
  - exists []. split; [reflexivity|constructor].
  - exists []. split; [reflexivity|constructor].
Qed.

(* a step that leaves heap, next and trace alone and logs one access in K *)
Lemma FG_log w x : FG w -> K (acc_addr x) ->
  FG (mkworld (heap w) (next w) (nreq w) (trace w) (x :: alog w)).
Proof.
  intros (A & B & C & (acc & Ea & Fa) & D) Kx. split; [exact A|]. split; [exact B|]. split; [exact C|]. split; [|exact D].
  exists (x :: acc). cbn [alog]. split; [rewrite Ea; reflexivity|constructor; assumption].
Qed.

Section Prims.
Variable refuse : N -> N -> bool.

Lemma F_rd a w c w' : FG w -> K a -> rd_item a w = Ret c w' -> FG w' /\ nodeK K (snd c).
Proof.
  intros Gw Ka E. unfold rd_item in E. destruct (heap w a) as [[rc n|sz]|] eqn:Ea; try discriminate E.
  injection E as <- <-. split; [apply FG_log; assumption|]. cbn [snd].
  destruct Gw as (_ & _ & C & _). eapply C; eassumption.
Qed.

Lemma F_wr a rc n w u w' : FG w -> K a -> nodeK K n -> wr_item a rc n w = Ret u w' -> FG w'.
Proof.
  intros (A & B & C & (acc & Ea & Fa) & D) Ka Hn E. unfold wr_item in E.
  destruct (heap w a) as [[rc0 n0|sz]|] eqn:Eh; try discriminate E. injection E as _ <-.
  split; [exact A|]. cbn [heap next alog trace]. split; [|split; [|split; [|exact D]]].
  - intros b Hb. rewrite upd_other; [apply B; exact Hb|]. intros ->. exact (Hb Ka).
  - intros b rcb nb Kb Eb. unfold upd in Eb. destruct (N.eqb_spec b a) as [->|_].
    + injection Eb as _ <-. exact Hn.
    + eapply C; eassumption.
  - exists (AccW a :: acc). split; [rewrite Ea; reflexivity|constructor; assumption].
Qed.

Lemma F_touch wr p w u w' : FG w -> optK K p -> touch_data wr p w = Ret u w' -> FG w'.
Proof.
  intros Gw Hp E. unfold touch_data in E. destruct p as [d|]; [|discriminate E].
  destruct (heap w d) as [[rc n|sz]|]; try discriminate E. injection E as _ <-.
  apply FG_log; [exact Gw|]. destruct wr; cbn [acc_addr]; apply Hp; reflexivity.
Qed.

Lemma F_free p w u w' : FG w -> optK K p -> free p w = Ret u w' -> FG w'.
Proof.
  intros (A & B & C & D & (evs & Et & Fe)) Hp E. unfold free in E. destruct p as [a|].
  - destruct (heap w a) as [c|]; [|discriminate E]. injection E as _ <-.
    pose proof (Hp a eq_refl) as Ka.
    split; [exact A|]. cbn [heap next alog trace]. split; [|split; [|split; [exact D|]]].
    + intros b Hb. rewrite upd_other; [apply B; exact Hb|]. intros ->. exact (Hb Ka).
    + intros b rcb nb Kb Eb. unfold upd in Eb. destruct (N.eqb_spec b a) as [->|_]; [discriminate Eb|].
      eapply C; eassumption.
    + exists (EvFree (Some a) :: evs). split; [rewrite Et; reflexivity|]. constructor; [|exact Fe].
      cbn [ev_args ev_res]. split; [intros q [<-|[]]; exact Ka|intros q []].
  - injection E as _ <-. split; [exact A|]. cbn [heap next alog trace]. split; [exact B|]. split; [exact C|]. split; [exact D|].
    exists (EvFree None :: evs). split; [rewrite Et; reflexivity|]. constructor; [|exact Fe].
    cbn [ev_args ev_res]. split; intros q [].
Qed.

Lemma K_fresh w : next w0 <= next w -> K (next w).
Proof. intros H. right. exact H. Qed.

Lemma F_malloc sz c w r w' : FG w -> cellK K c -> malloc refuse sz c w = Ret r w' -> FG w' /\ optK K r.
Proof.
  intros (A & B & C & D & (evs & Et & Fe)) Hc E. unfold malloc in E.
  destruct (refuse (nreq w) sz); injection E as <- <-.
  - split; [|apply optK_none]. split; [exact A|]. cbn [heap next alog trace]. split; [exact B|]. split; [exact C|]. split; [exact D|].
    exists (EvMalloc sz None :: evs). split; [rewrite Et; reflexivity|]. constructor; [|exact Fe].
    cbn [ev_args ev_res]. split; intros q [].
  - split; [|apply optK_some; apply K_fresh; exact A].
    split; [cbn [next]; lia|]. cbn [heap next alog trace]. split; [|split; [|split; [exact D|]]].
    + intros b Hb. rewrite upd_other; [apply B; exact Hb|]. intros ->. apply Hb. apply K_fresh. exact A.
    + intros b rcb nb Kb Eb. unfold upd in Eb. destruct (N.eqb_spec b (next w)) as [->|_].
      * injection Eb as ->. exact Hc.
      * eapply C; eassumption.
    + exists (EvMalloc sz (Some (next w)) :: evs). split; [rewrite Et; reflexivity|]. constructor; [|exact Fe].
      cbn [ev_args ev_res]. split; [intros q []|intros q [<-|[]]; exact A].
Qed.

Lemma F_realloc old sz w r w' : FG w -> optK K old -> realloc refuse old sz w = Ret r w' -> FG w' /\ optK K r.
Proof.
  intros (A & B & C & D & (evs & Et & Fe)) Ho E. unfold realloc in E.
  destruct (realloc_bad old w); [discriminate E|].
  assert (Hargs : forall res q, In q (ev_args (EvRealloc old sz res)) -> K q).
  { intros res q Hq. cbn [ev_args] in Hq. destruct old as [o|]; [|destruct Hq]. destruct Hq as [<-|[]]. apply Ho. reflexivity. }
  destruct (refuse (nreq w) sz); injection E as <- <-.
  - split; [|apply optK_none]. split; [exact A|]. cbn [heap next alog trace]. split; [exact B|]. split; [exact C|]. split; [exact D|].
    exists (EvRealloc old sz None :: evs). split; [rewrite Et; reflexivity|]. constructor; [|exact Fe].
    split; [apply Hargs|intros q []].
  - split; [|apply optK_some; apply K_fresh; exact A].
    split; [cbn [next]; lia|]. cbn [heap next alog trace]. split; [|split; [|split; [exact D|]]].
    + intros b Hb. rewrite upd_other; [|intros ->; apply Hb; apply K_fresh; exact A].
      destruct old as [o|]; [|apply B; exact Hb]. rewrite upd_other; [apply B; exact Hb|].
      intros ->. apply Hb. apply Ho. reflexivity.
    + intros b rcb nb Kb Eb. unfold upd at 1 in Eb. destruct (N.eqb_spec b (next w)) as [->|_]; [discriminate Eb|].
      destruct old as [o|]; [|eapply C; eassumption].
      unfold upd in Eb. destruct (N.eqb_spec b o) as [->|_]; [discriminate Eb|]. eapply C; eassumption.
    + exists (EvRealloc old sz (Some (next w)) :: evs). split; [rewrite Et; reflexivity|]. constructor; [|exact Fe].
      split; [apply Hargs|]. intros q [<-|[]]. exact A.
Qed.

Variable L : N.

Theorem FG_step s o w r w' :
  (forall h a, In h (operands o) -> hget s h = Some a -> K a) ->
  FG w -> step refuse L s o w = Ret r w' -> FG w'.
Proof. apply (step_keeps refuse FG K F_rd F_wr F_touch F_free F_malloc F_realloc L s o w r w'). Qed.

Theorem FG_step3 s o w r w' :
  (forall h a, In h (operands3 o) -> hget (base s) h = Some a -> K a) ->
  FG w -> step3 refuse L s o w = Ret r w' -> FG w'.
Proof. apply (step3_keeps refuse FG K F_rd F_wr F_touch F_free F_malloc F_realloc L s o w r w'). Qed.

End Prims.

(* ---------------- two runs: the same call in a world that agrees on K ---------------- *)
Section Rel2.
Variable refuse : N -> N -> bool.

(* [w1] is the run under study (it satisfies the unary invariant), [w2] the other world *)
Definition Rel (w1 w2 : world) : Prop :=
  FG w1 /\ wf w2 /\ next w2 = next w1 /\ nreq w2 = nreq w1 /\ (forall a, K a -> heap w2 a = heap w1 a).

(* if the computation returns in [w1], it returns the same value in [w2] and the worlds stay related *)
Definition kp2 (A : Type) (m : M A) (Q : A -> Prop) : Prop :=
  forall w1 w2 r w1', Rel w1 w2 -> m w1 = Ret r w1' ->
    exists w2', m w2 = Ret r w2' /\ Rel w1' w2' /\ Q r.

Lemma kp2_ret (A : Type) (a : A) (Q : A -> Prop) : Q a -> kp2 A (ret a) Q.
Proof. intros H w1 w2 r w1' R E. unfold ret in E. injection E as <- <-. exists w2. split; [reflexivity|]. split; assumption. Qed.
Lemma kp2_fail (A : Type) k (Q : A -> Prop) : kp2 A (fail k) Q.
Proof. intros w1 w2 r w1' R E. discriminate E. Qed.
Lemma kp2_bind (A B : Type) (m : M A) (f : A -> M B) (Q : A -> Prop) (R : B -> Prop) :
  kp2 A m Q -> (forall a, Q a -> kp2 B (f a) R) -> kp2 B (bind m f) R.
Proof.
  intros Hm Hf w1 w2 r w1' Rw E. apply bind_inv in E. destruct E as (a & wa & E1 & E2).
  destruct (Hm _ _ _ _ Rw E1) as (wb & E1' & Rb & Qa).
  destruct (Hf a Qa _ _ _ _ Rb E2) as (w2' & E2' & R' & Rr).
  exists w2'. split; [|split; assumption]. unfold bind. rewrite E1'. exact E2'.
Qed.

Lemma Rel_log w1 w2 x : Rel w1 w2 -> K (acc_addr x) ->
  Rel (mkworld (heap w1) (next w1) (nreq w1) (trace w1) (x :: alog w1))
      (mkworld (heap w2) (next w2) (nreq w2) (trace w2) (x :: alog w2)).
Proof.
  intros (A & B & C & D & E) Kx. split; [apply FG_log; assumption|]. split; [exact B|]. split; [exact C|]. split; [exact D|exact E].
Qed.

Lemma kp2_rd a : K a -> kp2 _ (rd_item a) (fun c => nodeK K (snd c)).
Proof.
  intros Ka w1 w2 r w1' Rw E. pose proof Rw as (A & B & C & D & Ag).
  destruct (F_rd a w1 r w1' A Ka E) as [_ Hn].
  unfold rd_item in E |- *. rewrite (Ag a Ka). destruct (heap w1 a) as [[rc n|sz]|]; try discriminate E.
  injection E as <- <-. eexists. split; [reflexivity|]. split; [|exact Hn]. apply (Rel_log w1 w2 (AccR a) Rw Ka).
Qed.

Lemma kp2_wr a rc n : K a -> nodeK K n -> kp2 _ (wr_item a rc n) (fun _ => True).
Proof.
  intros Ka Hn w1 w2 r w1' Rw E. pose proof Rw as (A & B & C & D & Ag).
  pose proof (F_wr a rc n w1 r w1' A Ka Hn E) as A'.
  unfold wr_item in E |- *. rewrite (Ag a Ka). destruct (heap w1 a) as [[rc0 n0|sz]|] eqn:E1; try discriminate E.
  injection E as <- <-. eexists. split; [reflexivity|]. split; [|exact I].
  split; [exact A'|]. split; [|split; [exact C|split; [exact D|]]].
  - eapply (wf_upd w2); [exact B|rewrite (Ag a Ka); exact E1|reflexivity|reflexivity].
  - intros b Kb. cbn [heap]. unfold upd. destruct (b =? a); [reflexivity|apply Ag; exact Kb].
Qed.

Lemma kp2_touch wr p : optK K p -> kp2 _ (touch_data wr p) (fun _ => True).
Proof.
  intros Hp w1 w2 r w1' Rw E. pose proof Rw as (A & B & C & D & Ag).
  unfold touch_data in E |- *. destruct p as [d|]; [|discriminate E]. pose proof (Hp d eq_refl) as Kd.
  rewrite (Ag d Kd). destruct (heap w1 d) as [[rc n|sz]|]; try discriminate E. injection E as <- <-.
  eexists. split; [reflexivity|]. split; [|exact I]. apply Rel_log; [exact Rw|]. destruct wr; exact Kd.
Qed.

Lemma kp2_free p : optK K p -> kp2 _ (free p) (fun _ => True).
Proof.
  intros Hp w1 w2 r w1' Rw E. pose proof Rw as (A & B & C & D & Ag).
  pose proof (F_free p w1 r w1' A Hp E) as A'.
  unfold free in E |- *. destruct p as [a|].
  - pose proof (Hp a eq_refl) as Ka. rewrite (Ag a Ka). destruct (heap w1 a) as [c|] eqn:E1; [|discriminate E].
    injection E as <- <-. eexists. split; [reflexivity|]. split; [|exact I].
    split; [exact A'|]. split; [|split; [exact C|split; [exact D|]]].
    + eapply (wf_upd w2); [exact B|rewrite (Ag a Ka); exact E1|reflexivity|reflexivity].
    + intros b Kb. cbn [heap]. unfold upd. destruct (b =? a); [reflexivity|apply Ag; exact Kb].
  - injection E as <- <-. eexists. split; [reflexivity|]. split; [|exact I].
    split; [exact A'|]. split; [exact B|]. split; [exact C|]. split; [exact D|exact Ag].
Qed.

Lemma wf_alloc w c : wf w -> forall b, next w + 1 <= b -> upd (heap w) (next w) c b = None.
Proof. intros H b Hb. rewrite upd_other by lia. apply H. lia. Qed.

Lemma kp2_malloc sz c : cellK K c -> kp2 _ (malloc refuse sz c) (optK K).
Proof.
  intros Hc w1 w2 r w1' Rw E. pose proof Rw as (A & B & C & D & Ag).
  destruct (F_malloc refuse sz c w1 r w1' A Hc E) as [A' Hr].
  unfold malloc in E |- *. rewrite D. destruct (refuse (nreq w1) sz); injection E as <- <-.
  - eexists. split; [reflexivity|]. split; [|exact Hr].
    split; [exact A'|]. split; [exact B|]. split; [exact C|]. split; [cbn [nreq]; try rewrite D; reflexivity|exact Ag].
  - rewrite C. eexists. split; [reflexivity|]. split; [|exact Hr].
    split; [exact A'|]. split; [|split; [reflexivity|split; [cbn [nreq]; try rewrite D; reflexivity|]]].
    + intros b Hb. cbn [heap next] in *. rewrite <- C. apply wf_alloc; [exact B|]. rewrite C. exact Hb.
    + intros b Kb. cbn [heap]. unfold upd. destruct (b =? next w1); [reflexivity|apply Ag; exact Kb].
Qed.

Lemma kp2_realloc old sz : optK K old -> kp2 _ (realloc refuse old sz) (optK K).
Proof.
  intros Ho w1 w2 r w1' Rw E. pose proof Rw as (A & B & C & D & Ag).
  destruct (F_realloc refuse old sz w1 r w1' A Ho E) as [A' Hr].
  unfold realloc in E |- *.
  assert (Rb : realloc_bad old w2 = realloc_bad old w1).
  { unfold realloc_bad. destruct old as [o|]; [|reflexivity]. rewrite (Ag o (Ho o eq_refl)). reflexivity. }
  rewrite Rb. destruct (realloc_bad old w1) eqn:Rb1; [discriminate E|]. rewrite D.
  destruct (refuse (nreq w1) sz); injection E as <- <-.
  - eexists. split; [reflexivity|]. split; [|exact Hr].
    split; [exact A'|]. split; [exact B|]. split; [exact C|]. split; [cbn [nreq]; try rewrite D; reflexivity|exact Ag].
  - rewrite C. eexists. split; [reflexivity|]. split; [|exact Hr].
    split; [exact A'|]. split; [|split; [reflexivity|split; [cbn [nreq]; try rewrite D; reflexivity|]]].
    + intros b Hb. cbn [heap next] in *. rewrite upd_other by lia.
      destruct old as [o|]; [|apply B; lia]. unfold upd. destruct (b =? o); [reflexivity|apply B; lia].
    + intros b Kb. cbn [heap]. unfold upd at 1 3. destruct (b =? next w1); [reflexivity|].
      destruct old as [o|]; [|apply Ag; exact Kb]. unfold upd. destruct (b =? o); [reflexivity|apply Ag; exact Kb].
Qed.

Lemma kp2_next_dep (A : Type) (f : N -> M A) (Q : A -> Prop) :
  (forall x, kp2 A (f x) Q) -> kp2 A (fun w => f (next w) w) Q.
Proof.
  intros H w1 w2 r w1' Rw E. pose proof Rw as (_ & _ & C & _). rewrite C. exact (H (next w1) w1 w2 r w1' Rw E).
Qed.

(* the release fuel is computed from the whole heap, which differs between the two worlds; the run
   in [w2] with the fuel of [w1] returns, so it returns with any fuel above its measure *)
Lemma kp2_decref_fuel a : K a -> (forall fuel, kp2 _ (drain fuel [TDecref a]) (fun _ => True)) ->
  kp2 _ (decref a) (fun _ => True).
Proof.
  intros _ H w1 w2 r w1' Rw E. unfold decref in E |- *.
  destruct (H (drain_fuel w1) w1 w2 r w1' Rw E) as (w2' & E2 & R' & _).
  exists w2'. split; [|split; [exact R'|exact I]].
  destruct Rw as (_ & B & _). eapply drain_enough; [exact B|exact E2|apply decref_fuel_enough].
Qed.

Variable L : N.

Theorem Rel_step s o w1 w2 r w1' :
  (forall h a, In h (operands o) -> hget s h = Some a -> K a) ->
  Rel w1 w2 -> step refuse L s o w1 = Ret r w1' ->
  exists w2', step refuse L s o w2 = Ret r w2' /\ Rel w1' w2'.
Proof.
  intros Hop Rw E.
  destruct (kp_step refuse K kp2 kp2_ret kp2_fail kp2_bind kp2_rd kp2_wr kp2_touch kp2_free kp2_malloc kp2_realloc
                    kp2_next_dep kp2_decref_fuel L s o Hop w1 w2 r w1' Rw E) as (w2' & E2 & R' & _).
  exists w2'. split; assumption.
Qed.

Theorem Rel_step3 s o w1 w2 r w1' :
  (forall h a, In h (operands3 o) -> hget (base s) h = Some a -> K a) ->
  Rel w1 w2 -> step3 refuse L s o w1 = Ret r w1' ->
  exists w2', step3 refuse L s o w2 = Ret r w2' /\ Rel w1' w2'.
Proof.
  intros Hop Rw E.
  destruct (kp_step3 refuse K kp2 kp2_ret kp2_fail kp2_bind kp2_rd kp2_wr kp2_touch kp2_free kp2_malloc kp2_realloc
                     kp2_next_dep kp2_decref_fuel L s o Hop w1 w2 r w1' Rw E) as (w2' & E2 & R' & _).
  exists w2'. split; assumption.
Qed.

End Rel2.
End Frame.

(* ------------------------------------------------------------------------------------------ *)
(* the statements                                                                              *)
(* ------------------------------------------------------------------------------------------ *)

(* reachable from an operand of the call *)
Definition op_reach (s : cstate) (o : op) (w : world) (b : addr) : Prop :=
  exists h a, In h (operands o) /\ hget s h = Some a /\ reach w a b.
(* the footprint of the call: reachable from an operand, or allocated by the call itself *)
Definition footprint (s : cstate) (o : op) (w : world) (b : addr) : Prop :=
  op_reach s o w b \/ next w <= b.

Lemma op_reach_closed s o w a rc n : op_reach s o w a -> heap w a = Some (CItem rc n) ->
  (forall k, In k (node_kids n) -> op_reach s o w k) /\ (forall d, In d (node_blocks n) -> op_reach s o w d).
Proof.
  intros (h & p & Hh & Hp & R) E. split; intros x Hx; exists h, p; (split; [exact Hh|split; [exact Hp|]]).
  - eapply reach_kid; eassumption.
  - eapply reach_block; eassumption.
Qed.

Lemma FG_of_step refuse L s o w r w' : wf w -> step refuse L s o w = Ret r w' -> FG w (op_reach s o w) w'.
Proof.
  intros Hwf E.
  assert (S0 : FG w (op_reach s o w) w) by (apply FG_start; [exact Hwf|apply op_reach_closed]).
  refine (FG_step w (op_reach s o w) (op_reach_closed s o w) refuse L s o w r w' _ S0 E).
  intros h a Hh Ha. left. exists h, a. split; [exact Hh|]. split; [exact Ha|]. apply reach_self.
Qed.

(* C17, frame of every operation: a call that returns has not touched any existing cell that is not
   reachable from its operands - such a cell is neither modified nor released; the bump pointer only
   advances (the call's own allocations) *)
Theorem C17_step_frame : forall refuse L s o w s' out w',
  wf w -> step refuse L s o w = Ret (s', out) w' ->
  next w <= next w' /\
  forall b, b < next w -> ~ op_reach s o w b -> heap w' b = heap w b.
Proof.
  intros refuse L s o w s' out w' Hwf E.
  destruct (FG_of_step refuse L s o w _ w' Hwf E) as (A & B & _). split; [exact A|].
  intros b Hb Hn. apply B. intros [H|H]; [exact (Hn H)|lia].
Qed.

(* C17, independence: the outcome of a call depends only on the cells reachable from its operands
   (and on the bump pointer and the request counter, i.e. on what the allocator will answer): in any
   other well-formed world that agrees with [w] on those cells the call returns the same handle table
   and the same observable output, and ends in a world that agrees with [w'] on the whole footprint -
   the reachable cells and the freshly allocated ones.  All 26 operations. *)
Theorem C17_step_independent : forall refuse L s o w w2 s' out w',
  wf w -> step refuse L s o w = Ret (s', out) w' ->
  wf w2 -> next w2 = next w -> nreq w2 = nreq w ->
  (forall b, op_reach s o w b -> heap w2 b = heap w b) ->
  exists w2', step refuse L s o w2 = Ret (s', out) w2' /\
    next w2' = next w' /\ nreq w2' = nreq w' /\
    (forall b, footprint s o w b -> heap w2' b = heap w' b).
Proof.
  intros refuse L s o w w2 s' out w' Hwf E Hwf2 Hn Hq Ag.
  assert (R0 : Rel w (op_reach s o w) w w2).
  { split; [apply FG_start; [exact Hwf|apply op_reach_closed]|]. split; [exact Hwf2|]. split; [exact Hn|]. split; [exact Hq|].
    intros a [Ha|Ha]; [apply Ag; exact Ha|]. rewrite (Hwf a Ha). apply Hwf2. rewrite Hn. exact Ha. }
  destruct (Rel_step w (op_reach s o w) (op_reach_closed s o w) refuse L s o w w2 (s', out) w') as (w2' & E2 & R').
  - intros h a Hh Ha. left. exists h, a. split; [exact Hh|]. split; [exact Ha|]. apply reach_self.
  - exact R0.
  - exact E.
  - exists w2'. split; [exact E2|]. destruct R' as (_ & _ & C & D & Ag'). split; [exact C|]. split; [exact D|exact Ag'].
Qed.

(* in the words of the task: a live cell that is not reachable from any operand handle is unchanged
   (in particular it is not freed by the call) *)
Corollary C17_step_frame_live : forall refuse L s o w s' out w' b,
  wf w -> step refuse L s o w = Ret (s', out) w' ->
  heap w b <> None ->
  (forall h a, In h (operands o) -> hget s h = Some a -> ~ reach w a b) ->
  heap w' b = heap w b.
Proof.
  intros refuse L s o w s' out w' b Hwf E Hl Hn.
  destruct (C17_step_frame refuse L s o w s' out w' Hwf E) as [_ H]. apply H.
  - destruct (N.lt_ge_cases b (next w)) as [Lt|Ge]; [exact Lt|]. exfalso. apply Hl. apply Hwf. exact Ge.
  - intros (h & a & Hh & Ha & R). exact (Hn h a Hh Ha R).
Qed.

(* C17, footprint of every operation: all accesses logged by the call (reads and writes of existing
   cells) and all blocks it hands to free / realloc lie in its footprint; every address the
   allocator hands out during the call is fresh *)
Theorem C17_step_footprint : forall refuse L s o w s' out w',
  wf w -> step refuse L s o w = Ret (s', out) w' ->
  (exists acc, alog w' = acc ++ alog w /\ Forall (fun x => footprint s o w (acc_addr x)) acc) /\
  (exists evs, trace w' = evs ++ trace w /\
     Forall (fun e => (forall p, In p (ev_args e) -> footprint s o w p) /\
                      (forall p, In p (ev_res e) -> next w <= p)) evs).
Proof.
  intros refuse L s o w s' out w' Hwf E.
  destruct (FG_of_step refuse L s o w _ w' Hwf E) as (_ & _ & _ & D1 & D2). split; assumption.
Qed.

(* two calls on disjoint data: what one call does is invisible to every cell in the footprint of
   the other - a call whose operands cannot reach [b] leaves [b] alone, so in particular it leaves
   the whole operand closure of a call on other data alone *)
Corollary C17_disjoint_calls : forall refuse L s o1 o2 w s' out w',
  wf w -> step refuse L s o1 w = Ret (s', out) w' ->
  (forall b, op_reach s o1 w b -> ~ op_reach s o2 w b) ->
  forall b, op_reach s o2 w b -> b < next w -> heap w' b = heap w b.
Proof.
  intros refuse L s o1 o2 w s' out w' Hwf E Dis b Hb Lt.
  destruct (C17_step_frame refuse L s o1 w s' out w' Hwf E) as [_ H]. apply H; [exact Lt|].
  intros H1. exact (Dis b H1 Hb).
Qed.

(* ------------------------------------------------------------------------------------------ *)
(* histories: every world reached by a run from the empty world is well-formed, so the frame    *)
(* and footprint statements hold for every call of every history, legal or not                  *)
(* ------------------------------------------------------------------------------------------ *)

Lemma TrInv_wf w : TrInv w -> wf w.
Proof.
  intros (_ & B & C) b Hb. destruct (heap w b) as [c|] eqn:E; [|reflexivity]. exfalso.
  assert (Hl : heap w b <> None) by (rewrite E; discriminate). apply B in Hl. destruct Hl as [Hr _].
  specialize (C b Hr). lia.
Qed.

Lemma run_wf refuse L ops s outs w : run_hist refuse L ops s0 [] world0 = Ret (s, outs) w -> wf w.
Proof. intros E. apply TrInv_wf. eapply (TrInv_run refuse L ops s0 [] world0); [apply TrInv_world0|exact E]. Qed.

Theorem C17_history_frame : forall refuse L pre o s outs w s' out w',
  run_hist refuse L pre s0 [] world0 = Ret (s, outs) w ->
  step refuse L s o w = Ret (s', out) w' ->
  next w <= next w' /\
  (forall b, b < next w -> ~ op_reach s o w b -> heap w' b = heap w b) /\
  (exists acc, alog w' = acc ++ alog w /\ Forall (fun x => footprint s o w (acc_addr x)) acc) /\
  (exists evs, trace w' = evs ++ trace w /\
     Forall (fun e => (forall p, In p (ev_args e) -> footprint s o w p) /\
                      (forall p, In p (ev_res e) -> next w <= p)) evs).
Proof.
  intros refuse L pre o s outs w s' out w' E1 E2. pose proof (run_wf _ _ _ _ _ _ E1) as Hwf.
  destruct (C17_step_frame refuse L s o w s' out w' Hwf E2) as [A B].
  destruct (C17_step_footprint refuse L s o w s' out w' Hwf E2) as [C D]. auto.
Qed.

(* ------------------------------------------------------------------------------------------ *)
(* non-vacuity: two independent arrays; releasing the first one (three cells are freed) leaves  *)
(* the three cells of the second one alone                                                      *)
(* ------------------------------------------------------------------------------------------ *)

Definition ex17_pre : list op :=
  [ONewDefArray 2; OBuildInt false I8 7; OPush 0 1; ODecref 1;
   ONewIndefArray; OBuildInt false I8 9; OPush 2 3]%nat.
Definition ex17_sw : cstate * world :=
  match run_hist never 8 ex17_pre s0 [] world0 with Ret (s, _) w => (s, w) | Fault _ => (s0, world0) end.

Example ex17_pre_runs :
  exists outs, run_hist never 8 ex17_pre s0 [] world0 = Ret (fst ex17_sw, outs) (snd ex17_sw).
Proof. eexists. vm_compute. reflexivity. Qed.

(* the first array (item 1, slot block 2, element 3) does not reach the second one (4, 6, 5) *)
Lemma ex17_reach : forall b, reach (snd ex17_sw) 1 b -> In b [1; 2; 3].
Proof.
  intros b R. induction R as [|b rc n c R IH E Hc|b rc n d R IH E Hd].
  - left. reflexivity.
  - destruct IH as [<-|[<-|[<-|[]]]]; vm_compute in E; try discriminate E; injection E as <- <-;
      cbn in Hc; repeat (destruct Hc as [<-|Hc]; [cbn; tauto|]); destruct Hc.
  - destruct IH as [<-|[<-|[<-|[]]]]; vm_compute in E; try discriminate E; injection E as <- <-;
      cbn in Hd; repeat (destruct Hd as [<-|Hd]; [cbn; tauto|]); destruct Hd.
Qed.

Example ex17_frame :
  match step never 8 (fst ex17_sw) (ODecref 0) (snd ex17_sw) with
  | Ret (s', out) w' =>
      (* what the theorem says about the cells of the second array ... *)
      (forall b, In b [4; 5; 6] -> heap w' b = heap (snd ex17_sw) b) /\
      (* ... which are live, while the first array is gone *)
      heap w' 4 = Some (CItem 1 (NArr true (Some 6) 1 [5])) /\ heap w' 5 = Some (CItem 2 (NInt false I8 9)) /\
      heap w' 6 = Some (CData 8) /\ heap w' 1 = None /\ heap w' 2 = None /\ heap w' 3 = None /\
      rev (trace w') = rev (trace (snd ex17_sw)) ++ [EvFree (Some 3); EvFree (Some 2); EvFree (Some 1)]
  | Fault _ => False
  end.
Proof.
  destruct (step never 8 (fst ex17_sw) (ODecref 0) (snd ex17_sw)) as [[s' out] w'|k] eqn:E.
  2:{ vm_compute in E. discriminate E. }
  split.
  - destruct ex17_pre_runs as [outs Epre].
    destruct (C17_history_frame never 8 ex17_pre (ODecref 0) _ _ _ _ _ _ Epre E) as (_ & Fr & _).
    intros b Hb. apply Fr.
    + destruct Hb as [<-|[<-|[<-|[]]]]; vm_compute; reflexivity.
    + intros (h & a & Hh & Ha & R). cbn [operands In] in Hh. destruct Hh as [<-|[]].
      vm_compute in Ha. injection Ha as <-. apply ex17_reach in R.
      destruct Hb as [<-|[<-|[<-|[]]]]; cbn in R; repeat (destruct R as [R|R]; [discriminate R|]); destruct R.
  - vm_compute in E. injection E as _ _ <-. vm_compute. repeat split.
Qed.

(* independence on the same example: change a cell of the second array (and forget the logs); the
   release of the first array returns the same and ends in a world that agrees on its footprint *)
Definition ex17_w2 : world :=
  mkworld (upd (heap (snd ex17_sw)) 5 (Some (CItem 9 (NCtrl 20)))) (next (snd ex17_sw)) (nreq (snd ex17_sw)) [] [].

Lemma ex17_sw_wf : wf (snd ex17_sw).
Proof. destruct ex17_pre_runs as [outs Epre]. exact (run_wf _ _ _ _ _ _ Epre). Qed.
Lemma ex17_w2_next : next ex17_w2 = next (snd ex17_sw).
Proof. vm_compute. reflexivity. Qed.
Lemma ex17_w2_nreq : nreq ex17_w2 = nreq (snd ex17_sw).
Proof. vm_compute. reflexivity. Qed.
Lemma ex17_w2_heap b : b <> 5 -> heap ex17_w2 b = heap (snd ex17_sw) b.
Proof. intros Hb. unfold ex17_w2. cbn [heap]. apply upd_other. exact Hb. Qed.
Lemma ex17_w2_wf : wf ex17_w2.
Proof.
  intros b Hb. rewrite ex17_w2_next in Hb.
  assert (N7 : next (snd ex17_sw) = 7) by (vm_compute; reflexivity).
  rewrite ex17_w2_heap by lia. apply ex17_sw_wf. exact Hb.
Qed.

Example ex17_independent : forall s' out w',
  step never 8 (fst ex17_sw) (ODecref 0) (snd ex17_sw) = Ret (s', out) w' ->
  exists w2', step never 8 (fst ex17_sw) (ODecref 0) ex17_w2 = Ret (s', out) w2' /\
    next w2' = next w' /\ nreq w2' = nreq w' /\
    (forall b, footprint (fst ex17_sw) (ODecref 0) (snd ex17_sw) b -> heap w2' b = heap w' b).
Proof.
  intros s' out w' E.
  apply (C17_step_independent never 8 (fst ex17_sw) (ODecref 0) (snd ex17_sw) ex17_w2 s' out w'
           ex17_sw_wf E ex17_w2_wf ex17_w2_next ex17_w2_nreq).
  intros b (h & a & Hh & Ha & R). cbn [operands In] in Hh. destruct Hh as [<-|[]].
  vm_compute in Ha. injection Ha as <-. apply ex17_reach in R.
  apply ex17_w2_heap. intros ->. destruct R as [R|[R|[R|[]]]]; discriminate R.
Qed.
Example ex17_independent_run :
  match step never 8 (fst ex17_sw) (ODecref 0) ex17_w2 with
  | Ret (s', out) w2' => s' = fst ex17_sw /\ out = OutUnit /\ heap w2' 1 = None /\ heap w2' 2 = None /\
                         heap w2' 3 = None /\ heap w2' 5 = Some (CItem 9 (NCtrl 20)) /\ next w2' = 7
  | Fault _ => False
  end.
Proof. vm_compute. repeat split. Qed.

(* ------------------------------------------------------------------------------------------ *)
(* the third layer of client calls (HHist3: op3 / step3, which embeds the two earlier layers)   *)
(* ------------------------------------------------------------------------------------------ *)

Definition op_reach3 (s : cstate3) (o : op3) (w : world) (b : addr) : Prop :=
  exists h a, In h (operands3 o) /\ hget (base s) h = Some a /\ reach w a b.
Definition footprint3 (s : cstate3) (o : op3) (w : world) (b : addr) : Prop :=
  op_reach3 s o w b \/ next w <= b.

Lemma op_reach3_closed s o w a rc n : op_reach3 s o w a -> heap w a = Some (CItem rc n) ->
  (forall k, In k (node_kids n) -> op_reach3 s o w k) /\ (forall d, In d (node_blocks n) -> op_reach3 s o w d).
Proof.
  intros (h & p & Hh & Hp & R) E. split; intros x Hx; exists h, p; (split; [exact Hh|split; [exact Hp|]]).
  - eapply reach_kid; eassumption.
  - eapply reach_block; eassumption.
Qed.

Lemma FG_of_step3 refuse L s o w r w' : wf w -> step3 refuse L s o w = Ret r w' -> FG w (op_reach3 s o w) w'.
Proof.
  intros Hwf E.
  assert (S0 : FG w (op_reach3 s o w) w) by (apply FG_start; [exact Hwf|apply op_reach3_closed]).
  refine (FG_step3 w (op_reach3 s o w) (op_reach3_closed s o w) refuse L s o w r w' _ S0 E).
  intros h a Hh Ha. left. exists h, a. split; [exact Hh|]. split; [exact Ha|]. apply reach_self.
Qed.

Theorem C17_step3_frame : forall refuse L s o w s' out w',
  wf w -> step3 refuse L s o w = Ret (s', out) w' ->
  next w <= next w' /\
  forall b, b < next w -> ~ op_reach3 s o w b -> heap w' b = heap w b.
Proof.
  intros refuse L s o w s' out w' Hwf E.
  destruct (FG_of_step3 refuse L s o w _ w' Hwf E) as (A & B & _). split; [exact A|].
  intros b Hb Hn. apply B. intros [H|H]; [exact (Hn H)|lia].
Qed.

Theorem C17_step3_footprint : forall refuse L s o w s' out w',
  wf w -> step3 refuse L s o w = Ret (s', out) w' ->
  (exists acc, alog w' = acc ++ alog w /\ Forall (fun x => footprint3 s o w (acc_addr x)) acc) /\
  (exists evs, trace w' = evs ++ trace w /\
     Forall (fun e => (forall p, In p (ev_args e) -> footprint3 s o w p) /\
                      (forall p, In p (ev_res e) -> next w <= p)) evs).
Proof.
  intros refuse L s o w s' out w' Hwf E.
  destruct (FG_of_step3 refuse L s o w _ w' Hwf E) as (_ & _ & _ & D1 & D2). split; assumption.
Qed.

Theorem C17_step3_independent : forall refuse L s o w w2 s' out w',
  wf w -> step3 refuse L s o w = Ret (s', out) w' ->
  wf w2 -> next w2 = next w -> nreq w2 = nreq w ->
  (forall b, op_reach3 s o w b -> heap w2 b = heap w b) ->
  exists w2', step3 refuse L s o w2 = Ret (s', out) w2' /\
    next w2' = next w' /\ nreq w2' = nreq w' /\
    (forall b, footprint3 s o w b -> heap w2' b = heap w' b).
Proof.
  intros refuse L s o w w2 s' out w' Hwf E Hwf2 Hn Hq Ag.
  assert (R0 : Rel w (op_reach3 s o w) w w2).
  { split; [apply FG_start; [exact Hwf|apply op_reach3_closed]|]. split; [exact Hwf2|]. split; [exact Hn|]. split; [exact Hq|].
    intros a [Ha|Ha]; [apply Ag; exact Ha|]. rewrite (Hwf a Ha). apply Hwf2. rewrite Hn. exact Ha. }
  destruct (Rel_step3 w (op_reach3 s o w) (op_reach3_closed s o w) refuse L s o w w2 (s', out) w') as (w2' & E2 & R').
  - intros h a Hh Ha. left. exists h, a. split; [exact Hh|]. split; [exact Ha|]. apply reach_self.
  - exact R0.
  - exact E.
  - exists w2'. split; [exact E2|]. destruct R' as (_ & _ & C & D & Ag'). split; [exact C|]. split; [exact D|exact Ag'].
Qed.

Lemma run3_wf refuse L ops s outs w : run_hist3 refuse L ops s3_0 [] world0 = Ret (s, outs) w -> wf w.
Proof. intros E. apply TrInv_wf. eapply (TrInv_run3 refuse L ops s3_0 [] world0); [apply TrInv_world0|exact E]. Qed.

Theorem C17_history3_frame : forall refuse L pre o s outs w s' out w',
  run_hist3 refuse L pre s3_0 [] world0 = Ret (s, outs) w ->
  step3 refuse L s o w = Ret (s', out) w' ->
  next w <= next w' /\
  (forall b, b < next w -> ~ op_reach3 s o w b -> heap w' b = heap w b) /\
  (exists acc, alog w' = acc ++ alog w /\ Forall (fun x => footprint3 s o w (acc_addr x)) acc) /\
  (exists evs, trace w' = evs ++ trace w /\
     Forall (fun e => (forall p, In p (ev_args e) -> footprint3 s o w p) /\
                      (forall p, In p (ev_res e) -> next w <= p)) evs).
Proof.
  intros refuse L pre o s outs w s' out w' E1 E2. pose proof (run3_wf _ _ _ _ _ _ E1) as Hwf.
  destruct (C17_step3_frame refuse L s o w s' out w' Hwf E2) as [A B].
  destruct (C17_step3_footprint refuse L s o w s' out w' Hwf E2) as [C D]. auto.
Qed.

(* non-vacuity: two integers made by cbor_new_int8; cbor_set_uint8 on the first stores into its cell
   and, by the theorem, leaves the second one alone *)
Definition ex17c_pre : list op3 := [O3NewInt I8; O3NewInt I8; O3SetUint I8 1 9].
Definition ex17c_sw : cstate3 * world :=
  match run_hist3 never 8 ex17c_pre s3_0 [] world0 with Ret (s, _) w => (s, w) | Fault _ => (s3_0, world0) end.
Example ex17c_pre_runs :
  exists outs, run_hist3 never 8 ex17c_pre s3_0 [] world0 = Ret (fst ex17c_sw, outs) (snd ex17c_sw).
Proof. eexists. vm_compute. reflexivity. Qed.
Lemma ex17c_reach : forall b, reach (snd ex17c_sw) 1 b -> b = 1.
Proof.
  intros b R. induction R as [|b rc n c R IH E Hc|b rc n d R IH E Hd].
  - reflexivity.
  - subst b. vm_compute in E. injection E as <- <-. destruct Hc.
  - subst b. vm_compute in E. injection E as <- <-. destruct Hd.
Qed.
Example ex17c_frame :
  match step3 never 8 (fst ex17c_sw) (O3SetUint I8 0 300) (snd ex17c_sw) with
  | Ret (s', out) w' =>
      heap w' 2 = heap (snd ex17c_sw) 2 /\
      heap w' 1 = Some (CItem 1 (NInt false I8 44)) /\ heap w' 2 = Some (CItem 1 (NInt false I8 9)) /\
      unset (fst ex17c_sw) = [1] /\ unset s' = []
  | Fault _ => False
  end.
Proof.
  destruct (step3 never 8 (fst ex17c_sw) (O3SetUint I8 0 300) (snd ex17c_sw)) as [[s' out] w'|k] eqn:E.
  2:{ vm_compute in E. discriminate E. }
  split.
  - destruct ex17c_pre_runs as [outs Epre].
    destruct (C17_history3_frame never 8 ex17c_pre _ _ _ _ _ _ _ Epre E) as (_ & Fr & _).
    apply Fr; [vm_compute; reflexivity|].
    intros (h & a & Hh & Ha & R). cbn [operands3 In] in Hh. destruct Hh as [<-|[]].
    vm_compute in Ha. injection Ha as <-. apply ex17c_reach in R. discriminate R.
  - vm_compute in E. injection E as <- _ <-. vm_compute. repeat split.
Qed.

Print Assumptions C17_step_frame.
Print Assumptions C17_step_independent.
Print Assumptions C17_step_frame_live.
Print Assumptions C17_step_footprint.
Print Assumptions C17_disjoint_calls.
Print Assumptions C17_history_frame.
Print Assumptions C17_step3_frame.
Print Assumptions C17_step3_footprint.
Print Assumptions C17_step3_independent.
Print Assumptions C17_history3_frame.
