(* Model P, cbor_serialized_size on DECLARED lengths: the same function as PItem.ssize, over a
   tree shape in which a string is only its declared length (which need not be backed by data —
   the library's own overflow tests forge length metadata the same way).  Definitions only. *)
From CB Require Export PItem.
Local Open Scope N_scope.

Inductive sitem :=
| SLeaf (n : N)                          (* an integer / float / simple value whose encoding has n bytes *)
| SStr (length : N)                      (* definite string with this declared length *)
| SChunked (lengths : list N)            (* indefinite string: declared lengths of its chunks *)
| SArr (indef : bool) (xs : list sitem)
| SMap (indef : bool) (kvs : list (sitem * sitem))
| STag (v : N) (x : sitem).

Definition defstr_size_l (l : N) : N :=
  let h := header_size l in if l =? 0 then h else ssadd h l.

Fixpoint ssize_s (t : sitem) : N :=
  match t with
  | SLeaf n => n
  | SStr l => defstr_size_l l
  | SChunked ls => fold_left (fun acc l => ssadd acc (defstr_size_l l)) ls 2
  | SArr indef xs => fold_left (fun acc x => ssadd acc (ssize_s x)) xs (if indef then 2 else header_size (len xs))
  | SMap indef kvs =>
      fold_left (fun acc kv => ssadd acc (ssadd (ssize_s (fst kv)) (ssize_s (snd kv)))) kvs
                (if indef then 2 else header_size (len kvs))
  | STag v x => ssadd (header_size v) (ssize_s x)
  end.

(* the exact mathematical total (unbounded) *)
Fixpoint total_s (t : sitem) : N :=
  match t with
  | SLeaf n => n
  | SStr l => header_size l + l
  | SChunked ls => 2 + fold_right (fun l acc => header_size l + l + acc) 0 ls
  | SArr indef xs => (if indef then 2 else header_size (len xs)) + fold_right (fun x acc => total_s x + acc) 0 xs
  | SMap indef kvs => (if indef then 2 else header_size (len kvs))
                      + fold_right (fun kv acc => total_s (fst kv) + total_s (snd kv) + acc) 0 kvs
  | STag v x => header_size v + total_s x
  end.

(* leaves are 1..9 bytes, declared lengths fit size_t *)
Fixpoint wf_s (t : sitem) : Prop :=
  match t with
  | SLeaf n => 1 <= n <= 9
  | SStr l => l < 2 ^ 64
  | SChunked ls => Forall (fun l => l < 2 ^ 64) ls
  | SArr _ xs => (fix all (l : list sitem) : Prop := match l with [] => True | x :: r => wf_s x /\ all r end) xs
  | SMap _ kvs => (fix all (l : list (sitem * sitem)) : Prop :=
                     match l with [] => True | kv :: r => wf_s (fst kv) /\ wf_s (snd kv) /\ all r end) kvs
  | STag _ x => wf_s x
  end.

(* the shape of an item tree *)
Fixpoint shape (t : item) : sitem :=
  match t with
  | IUint w v | INegint w v => SLeaf (int_size w v)
  | IBytes d | IText d => SStr (len d)
  | IBytesI cs | ITextI cs => SChunked (map (fun c => len c) cs)
  | IArray indef xs => SArr indef (map shape xs)
  | IMap indef kvs => SMap indef (map (fun kv => (shape (fst kv), shape (snd kv))) kvs)
  | ITag v x => STag v (shape x)
  | ICtrl v => SLeaf (header_size v)
  | IFloat F16 _ => SLeaf 3 | IFloat F32 _ => SLeaf 5 | IFloat F64 _ => SLeaf 9
  end.
