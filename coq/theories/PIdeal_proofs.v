(* C05, "first violation, except inside a chunked string":
   [parse_ideal] is the parser of SpecParse.v with ONE branch changed: in the chunk loop a head that
   is neither a break nor a definite chunk of the string's own type is rejected at once, with
   SYNTAXERROR just past THAT HEAD (SpecParse.parse_chunks parses the whole item first and rejects
   it when it completes).  We prove
     - both parsers accept the same inputs with the same tree / end / rest   (ideal_accepts_iff)
     - an error of the ideal parser that is not raised at such a head is reported by cbor_load with
       exactly the same code and position                                    (first_violation_exact)
     - otherwise cbor_load reports what parsing the illegally opened item says, at or after the
       position of the ideal error                                           (ideal_error_same_or_late,
                                                                              late_exact)
   and lift this to load_spec / load. *)
From CB Require Import Word Word_proofs PStream SpecHead SpecItem PBuild SpecParse PRun PStream_proofs PBuild_proofs PDrive_proofs PFinal PLoad_proofs.
From Coq Require Import Lia ZArith ZifyBool ZifyN ZifyNat List.
Import ListNotations.
Local Open Scope N_scope.
Ltac Zify.zify_post_hook ::= Z.div_mod_to_equations.

Arguments N.pow : simpl never.
Arguments N.mul : simpl never.
Arguments N.add : simpl never.
Arguments N.sub : simpl never.

(* ------------------------------------------------------------------------------------------ *)
(* 1. the ideal parser                                                                         *)
(* ------------------------------------------------------------------------------------------ *)

(* result of the instrumented ideal parser: an error carries [Some (d, ts)] when it was raised in
   the chunk loop at the head of [ts] (a non-chunk item opened inside a chunked string, nesting
   budget [d] at that point), [None] otherwise *)
Inductive xres :=
| XOk (t : item) (e : N) (rest : list ptok)
| XErr (w : option (nat * list ptok)) (code : lerr) (pos : N).

Definition forget (X : xres) : pres item :=
  match X with XOk t e r => POk t e r | XErr _ c p => PErr c p end.

Section Ideal.
Variable cap : N.
Variable tl : SpecParse.tail.

(* a head [tk] ending at [e] that may not stand in a chunked string: the payload of a definite
   string is allocated before its placement is judged (as in cbor_load), everything else is a
   syntax error just past the head *)
Definition reject_head (tk : tok) (e : N) : pres item :=
  match tk with
  | TBytes _ data | TText _ data => if cap <? len data then PErr EMem e else PErr ESyntax e
  | _ => PErr ESyntax e
  end.

(* SpecParse.parse with the [None] branch of the chunk loop replaced by [reject_head] *)
Fixpoint parse_ideal (fuel : nat) (d : nat) (ts : list ptok) {struct fuel} : pres item :=
  match fuel with O => PErr ENone 0 | S f =>
  match ts with
  | [] => stop tl
  | (tk, e) :: r =>
    match tk with
    | TUint w v => POk (IUint w v) e r
    | TNegint w v => POk (INegint w v) e r
    | TBytes _ data => if cap <? len data then PErr EMem e else POk (IBytes data) e r
    | TText _ data => if cap <? len data then PErr EMem e else POk (IText data) e r
    | TFloat w b => POk (IFloat w b) e r
    | TBool b => POk (ICtrl (if b then 21 else 20)) e r
    | TNull => POk (ICtrl 22) e r
    | TUndef => POk (ICtrl 23) e r
    | TBreak => PErr ESyntax e
    | TTag v =>
        match d with O => PErr EMem e | S d' =>
          match parse_ideal f d' r with
          | POk x e' r' => POk (ITag v x) e' r'
          | PErr c p => PErr c p
          end
        end
    | TArray n =>
        if negb (alloc_ok cap 64 8 n) then PErr EMem e
        else if n =? 0 then POk (IArray false []) e r
        else match d with O => PErr EMem e | S d' => parse_ideal_n f d' n r [] end
    | TArrayStart =>
        match d with O => PErr EMem e | S d' => parse_ideal_until f d' r [] end
    | TMap n =>
        if negb (alloc_ok cap 64 16 n) then PErr EMem e
        else if n =? 0 then POk (IMap false []) e r
        else match d with O => PErr EMem e | S d' => parse_ideal_pairs f d' n r [] end
    | TMapStart =>
        match d with O => PErr EMem e | S d' => parse_ideal_until_map f d' r [] end
    | TBytesStart =>
        match d with O => PErr EMem e | S d' => parse_ideal_chunks f d' false r [] end
    | TTextStart =>
        match d with O => PErr EMem e | S d' => parse_ideal_chunks f d' true r [] end
    end
  end end
with parse_ideal_n (fuel : nat) (d : nat) (n : N) (ts : list ptok) (racc : list item) {struct fuel} : pres item :=
  match fuel with O => PErr ENone 0 | S f =>
    match parse_ideal f d ts with
    | POk x e r =>
        if n =? 1 then POk (IArray false (rev (x :: racc))) e r
        else parse_ideal_n f d (n - 1) r (x :: racc)
    | PErr c p => PErr c p
    end
  end
with parse_ideal_until (fuel : nat) (d : nat) (ts : list ptok) (racc : list item) {struct fuel} : pres item :=
  match fuel with O => PErr ENone 0 | S f =>
    match ts with
    | (TBreak, e) :: r => POk (IArray true (rev racc)) e r
    | _ => match parse_ideal f d ts with
           | POk x _ r => parse_ideal_until f d r (x :: racc)
           | PErr c p => PErr c p
           end
    end
  end
with parse_ideal_pairs (fuel : nat) (d : nat) (n : N) (ts : list ptok) (racc : list (item * item)) {struct fuel} : pres item :=
  match fuel with O => PErr ENone 0 | S f =>
    match parse_ideal f d ts with
    | POk k _ r =>
        match parse_ideal f d r with
        | POk v e r' =>
            if n =? 1 then POk (IMap false (rev ((k, v) :: racc))) e r'
            else parse_ideal_pairs f d (n - 1) r' ((k, v) :: racc)
        | PErr c p => PErr c p
        end
    | PErr c p => PErr c p
    end
  end
with parse_ideal_until_map (fuel : nat) (d : nat) (ts : list ptok) (racc : list (item * item)) {struct fuel} : pres item :=
  match fuel with O => PErr ENone 0 | S f =>
    match ts with
    | (TBreak, e) :: r => POk (IMap true (rev racc)) e r
    | _ => match parse_ideal f d ts with
           | POk k _ r =>
               match r with
               | (TBreak, e) :: _ => PErr ESyntax e
               | _ => match parse_ideal f d r with
                      | POk v _ r' => parse_ideal_until_map f d r' ((k, v) :: racc)
                      | PErr c p => PErr c p
                      end
               end
           | PErr c p => PErr c p
           end
    end
  end
(* definite chunks of the string's own type until break; anything else is rejected at its head *)
with parse_ideal_chunks (fuel : nat) (d : nat) (text : bool) (ts : list ptok) (racc : list (list N)) {struct fuel} : pres item :=
  match fuel with O => PErr ENone 0 | S f =>
    match ts with
    | (TBreak, e) :: r => POk (if text then ITextI (rev racc) else IBytesI (rev racc)) e r
    | (tk, e) :: r =>
        match chunk_of text tk with
        | Some data => if cap <? len data then PErr EMem e else parse_ideal_chunks f d text r (data :: racc)
        | None => reject_head tk e
        end
    | [] => stop tl
    end
  end.

(* ---- the same parser, instrumented: errors say whether they come from [reject_head]'s
        SYNTAXERROR, and at which tokens / budget ---- *)
Definition xstop : xres :=
  match tl with TNeed p => XErr None ENotEnough p | TBad p => XErr None EMalformed p end.

Definition xreject_head (d : nat) (ts : list ptok) (tk : tok) (e : N) : xres :=
  match tk with
  | TBytes _ data | TText _ data =>
      if cap <? len data then XErr None EMem e else XErr (Some (d, ts)) ESyntax e
  | _ => XErr (Some (d, ts)) ESyntax e
  end.

Fixpoint xparse (fuel : nat) (d : nat) (ts : list ptok) {struct fuel} : xres :=
  match fuel with O => XErr None ENone 0 | S f =>
  match ts with
  | [] => xstop
  | (tk, e) :: r =>
    match tk with
    | TUint w v => XOk (IUint w v) e r
    | TNegint w v => XOk (INegint w v) e r
    | TBytes _ data => if cap <? len data then XErr None EMem e else XOk (IBytes data) e r
    | TText _ data => if cap <? len data then XErr None EMem e else XOk (IText data) e r
    | TFloat w b => XOk (IFloat w b) e r
    | TBool b => XOk (ICtrl (if b then 21 else 20)) e r
    | TNull => XOk (ICtrl 22) e r
    | TUndef => XOk (ICtrl 23) e r
    | TBreak => XErr None ESyntax e
    | TTag v =>
        match d with O => XErr None EMem e | S d' =>
          match xparse f d' r with
          | XOk x e' r' => XOk (ITag v x) e' r'
          | XErr w c p => XErr w c p
          end
        end
    | TArray n =>
        if negb (alloc_ok cap 64 8 n) then XErr None EMem e
        else if n =? 0 then XOk (IArray false []) e r
        else match d with O => XErr None EMem e | S d' => xparse_n f d' n r [] end
    | TArrayStart =>
        match d with O => XErr None EMem e | S d' => xparse_until f d' r [] end
    | TMap n =>
        if negb (alloc_ok cap 64 16 n) then XErr None EMem e
        else if n =? 0 then XOk (IMap false []) e r
        else match d with O => XErr None EMem e | S d' => xparse_pairs f d' n r [] end
    | TMapStart =>
        match d with O => XErr None EMem e | S d' => xparse_until_map f d' r [] end
    | TBytesStart =>
        match d with O => XErr None EMem e | S d' => xparse_chunks f d' false r [] end
    | TTextStart =>
        match d with O => XErr None EMem e | S d' => xparse_chunks f d' true r [] end
    end
  end end
with xparse_n (fuel : nat) (d : nat) (n : N) (ts : list ptok) (racc : list item) {struct fuel} : xres :=
  match fuel with O => XErr None ENone 0 | S f =>
    match xparse f d ts with
    | XOk x e r =>
        if n =? 1 then XOk (IArray false (rev (x :: racc))) e r
        else xparse_n f d (n - 1) r (x :: racc)
    | XErr w c p => XErr w c p
    end
  end
with xparse_until (fuel : nat) (d : nat) (ts : list ptok) (racc : list item) {struct fuel} : xres :=
  match fuel with O => XErr None ENone 0 | S f =>
    match is_break ts with
    | Some (e, r) => XOk (IArray true (rev racc)) e r
    | None => match xparse f d ts with
              | XOk x _ r => xparse_until f d r (x :: racc)
              | XErr w c p => XErr w c p
              end
    end
  end
with xparse_pairs (fuel : nat) (d : nat) (n : N) (ts : list ptok) (racc : list (item * item)) {struct fuel} : xres :=
  match fuel with O => XErr None ENone 0 | S f =>
    match xparse f d ts with
    | XOk k _ r =>
        match xparse f d r with
        | XOk v e r' =>
            if n =? 1 then XOk (IMap false (rev ((k, v) :: racc))) e r'
            else xparse_pairs f d (n - 1) r' ((k, v) :: racc)
        | XErr w c p => XErr w c p
        end
    | XErr w c p => XErr w c p
    end
  end
with xparse_until_map (fuel : nat) (d : nat) (ts : list ptok) (racc : list (item * item)) {struct fuel} : xres :=
  match fuel with O => XErr None ENone 0 | S f =>
    match is_break ts with
    | Some (e, r) => XOk (IMap true (rev racc)) e r
    | None => match xparse f d ts with
              | XOk k _ r =>
                  match is_break r with
                  | Some (e, _) => XErr None ESyntax e
                  | None => match xparse f d r with
                            | XOk v _ r' => xparse_until_map f d r' ((k, v) :: racc)
                            | XErr w c p => XErr w c p
                            end
                  end
              | XErr w c p => XErr w c p
              end
    end
  end
with xparse_chunks (fuel : nat) (d : nat) (text : bool) (ts : list ptok) (racc : list (list N)) {struct fuel} : xres :=
  match fuel with O => XErr None ENone 0 | S f =>
    match ts with
    | [] => xstop
    | (tk, e) :: r =>
        match is_break ts with
        | Some _ => XOk (if text then ITextI (rev racc) else IBytesI (rev racc)) e r
        | None =>
          match chunk_of text tk with
          | Some data => if cap <? len data then XErr None EMem e else xparse_chunks f d text r (data :: racc)
          | None => xreject_head d ts tk e
          end
        end
    end
  end.

(* the ideal error was raised at a non-chunk head inside a chunked string *)
Definition in_chunk_exception (fuel : nat) (d : nat) (ts : list ptok) : Prop :=
  match xparse fuel d ts with XErr (Some _) _ _ => True | _ => False end.

(* ---- unfolding equations ---- *)
Lemma parse_ideal_S f d ts : parse_ideal (S f) d ts =
  match ts with
  | [] => stop tl
  | (tk, e) :: r =>
    match tk with
    | TUint w v => POk (IUint w v) e r
    | TNegint w v => POk (INegint w v) e r
    | TBytes _ data => if cap <? len data then PErr EMem e else POk (IBytes data) e r
    | TText _ data => if cap <? len data then PErr EMem e else POk (IText data) e r
    | TFloat w b => POk (IFloat w b) e r
    | TBool b => POk (ICtrl (if b then 21 else 20)) e r
    | TNull => POk (ICtrl 22) e r
    | TUndef => POk (ICtrl 23) e r
    | TBreak => PErr ESyntax e
    | TTag v =>
        match d with O => PErr EMem e | S d' =>
          match parse_ideal f d' r with
          | POk x e' r' => POk (ITag v x) e' r'
          | PErr c p => PErr c p
          end
        end
    | TArray n =>
        if negb (alloc_ok cap 64 8 n) then PErr EMem e
        else if n =? 0 then POk (IArray false []) e r
        else match d with O => PErr EMem e | S d' => parse_ideal_n f d' n r [] end
    | TArrayStart =>
        match d with O => PErr EMem e | S d' => parse_ideal_until f d' r [] end
    | TMap n =>
        if negb (alloc_ok cap 64 16 n) then PErr EMem e
        else if n =? 0 then POk (IMap false []) e r
        else match d with O => PErr EMem e | S d' => parse_ideal_pairs f d' n r [] end
    | TMapStart =>
        match d with O => PErr EMem e | S d' => parse_ideal_until_map f d' r [] end
    | TBytesStart =>
        match d with O => PErr EMem e | S d' => parse_ideal_chunks f d' false r [] end
    | TTextStart =>
        match d with O => PErr EMem e | S d' => parse_ideal_chunks f d' true r [] end
    end
  end.
Proof. reflexivity. Qed.

Lemma parse_ideal_n_S f d n ts racc : parse_ideal_n (S f) d n ts racc =
  match parse_ideal f d ts with
  | POk x e r =>
      if n =? 1 then POk (IArray false (rev (x :: racc))) e r
      else parse_ideal_n f d (n - 1) r (x :: racc)
  | PErr c p => PErr c p
  end.
Proof. reflexivity. Qed.

Lemma parse_ideal_until_S f d ts racc : parse_ideal_until (S f) d ts racc =
  match is_break ts with
  | Some (e, r) => POk (IArray true (rev racc)) e r
  | None => match parse_ideal f d ts with
            | POk x _ r => parse_ideal_until f d r (x :: racc)
            | PErr c p => PErr c p
            end
  end.
Proof. destruct ts as [|[[] e] r]; reflexivity. Qed.

Lemma parse_ideal_pairs_S f d n ts racc : parse_ideal_pairs (S f) d n ts racc =
  match parse_ideal f d ts with
  | POk k _ r =>
      match parse_ideal f d r with
      | POk v e r' =>
          if n =? 1 then POk (IMap false (rev ((k, v) :: racc))) e r'
          else parse_ideal_pairs f d (n - 1) r' ((k, v) :: racc)
      | PErr c p => PErr c p
      end
  | PErr c p => PErr c p
  end.
Proof. reflexivity. Qed.

Lemma parse_ideal_until_map_S f d ts racc : parse_ideal_until_map (S f) d ts racc =
  match is_break ts with
  | Some (e, r) => POk (IMap true (rev racc)) e r
  | None => match parse_ideal f d ts with
            | POk k _ r =>
                match is_break r with
                | Some (e, _) => PErr ESyntax e
                | None => match parse_ideal f d r with
                          | POk v _ r' => parse_ideal_until_map f d r' ((k, v) :: racc)
                          | PErr c p => PErr c p
                          end
                end
            | PErr c p => PErr c p
            end
  end.
Proof.
  change (parse_ideal_until_map (S f) d ts racc) with
    (match ts with
     | (TBreak, e) :: r => POk (IMap true (rev racc)) e r
     | _ => match parse_ideal f d ts with
            | POk k _ r =>
                match r with
                | (TBreak, e) :: _ => PErr ESyntax e
                | _ => match parse_ideal f d r with
                       | POk v _ r' => parse_ideal_until_map f d r' ((k, v) :: racc)
                       | PErr c p => PErr c p
                       end
                end
            | PErr c p => PErr c p
            end
     end).
  rewrite match_break. destruct (is_break ts) as [[e r]|]; [reflexivity|].
  destruct (parse_ideal f d ts) as [k e0 r0|c p]; [|reflexivity].
  rewrite match_break. destruct (is_break r0) as [[e r]|]; reflexivity.
Qed.

Lemma parse_ideal_chunks_S f d text ts racc : parse_ideal_chunks (S f) d text ts racc =
  match ts with
  | [] => stop tl
  | (tk, e) :: r =>
      match is_break ts with
      | Some _ => POk (if text then ITextI (rev racc) else IBytesI (rev racc)) e r
      | None =>
        match chunk_of text tk with
        | Some data => if cap <? len data then PErr EMem e else parse_ideal_chunks f d text r (data :: racc)
        | None => reject_head tk e
        end
      end
  end.
Proof. destruct ts as [|[[] e] r]; reflexivity. Qed.

Lemma xparse_S f d ts : xparse (S f) d ts =
  match ts with
  | [] => xstop
  | (tk, e) :: r =>
    match tk with
    | TUint w v => XOk (IUint w v) e r
    | TNegint w v => XOk (INegint w v) e r
    | TBytes _ data => if cap <? len data then XErr None EMem e else XOk (IBytes data) e r
    | TText _ data => if cap <? len data then XErr None EMem e else XOk (IText data) e r
    | TFloat w b => XOk (IFloat w b) e r
    | TBool b => XOk (ICtrl (if b then 21 else 20)) e r
    | TNull => XOk (ICtrl 22) e r
    | TUndef => XOk (ICtrl 23) e r
    | TBreak => XErr None ESyntax e
    | TTag v =>
        match d with O => XErr None EMem e | S d' =>
          match xparse f d' r with
          | XOk x e' r' => XOk (ITag v x) e' r'
          | XErr w c p => XErr w c p
          end
        end
    | TArray n =>
        if negb (alloc_ok cap 64 8 n) then XErr None EMem e
        else if n =? 0 then XOk (IArray false []) e r
        else match d with O => XErr None EMem e | S d' => xparse_n f d' n r [] end
    | TArrayStart =>
        match d with O => XErr None EMem e | S d' => xparse_until f d' r [] end
    | TMap n =>
        if negb (alloc_ok cap 64 16 n) then XErr None EMem e
        else if n =? 0 then XOk (IMap false []) e r
        else match d with O => XErr None EMem e | S d' => xparse_pairs f d' n r [] end
    | TMapStart =>
        match d with O => XErr None EMem e | S d' => xparse_until_map f d' r [] end
    | TBytesStart =>
        match d with O => XErr None EMem e | S d' => xparse_chunks f d' false r [] end
    | TTextStart =>
        match d with O => XErr None EMem e | S d' => xparse_chunks f d' true r [] end
    end
  end.
Proof. reflexivity. Qed.

Lemma xparse_n_S f d n ts racc : xparse_n (S f) d n ts racc =
  match xparse f d ts with
  | XOk x e r =>
      if n =? 1 then XOk (IArray false (rev (x :: racc))) e r
      else xparse_n f d (n - 1) r (x :: racc)
  | XErr w c p => XErr w c p
  end.
Proof. reflexivity. Qed.

Lemma xparse_until_S f d ts racc : xparse_until (S f) d ts racc =
  match is_break ts with
  | Some (e, r) => XOk (IArray true (rev racc)) e r
  | None => match xparse f d ts with
            | XOk x _ r => xparse_until f d r (x :: racc)
            | XErr w c p => XErr w c p
            end
  end.
Proof. reflexivity. Qed.

Lemma xparse_pairs_S f d n ts racc : xparse_pairs (S f) d n ts racc =
  match xparse f d ts with
  | XOk k _ r =>
      match xparse f d r with
      | XOk v e r' =>
          if n =? 1 then XOk (IMap false (rev ((k, v) :: racc))) e r'
          else xparse_pairs f d (n - 1) r' ((k, v) :: racc)
      | XErr w c p => XErr w c p
      end
  | XErr w c p => XErr w c p
  end.
Proof. reflexivity. Qed.

Lemma xparse_until_map_S f d ts racc : xparse_until_map (S f) d ts racc =
  match is_break ts with
  | Some (e, r) => XOk (IMap true (rev racc)) e r
  | None => match xparse f d ts with
            | XOk k _ r =>
                match is_break r with
                | Some (e, _) => XErr None ESyntax e
                | None => match xparse f d r with
                          | XOk v _ r' => xparse_until_map f d r' ((k, v) :: racc)
                          | XErr w c p => XErr w c p
                          end
                end
            | XErr w c p => XErr w c p
            end
  end.
Proof. reflexivity. Qed.

Lemma xparse_chunks_S f d text ts racc : xparse_chunks (S f) d text ts racc =
  match ts with
  | [] => xstop
  | (tk, e) :: r =>
      match is_break ts with
      | Some _ => XOk (if text then ITextI (rev racc) else IBytesI (rev racc)) e r
      | None =>
        match chunk_of text tk with
        | Some data => if cap <? len data then XErr None EMem e else xparse_chunks f d text r (data :: racc)
        | None => xreject_head d ts tk e
        end
      end
  end.
Proof. reflexivity. Qed.

(* ---- the instrumented parser is the ideal parser ---- *)
Lemma forget_xstop : forget xstop = stop tl.
Proof. unfold xstop, stop. destruct tl; reflexivity. Qed.

Lemma forget_xreject d ts tk e : forget (xreject_head d ts tk e) = reject_head tk e.
Proof. destruct tk; try reflexivity; cbn [xreject_head reject_head]; destruct (cap <? len data); reflexivity. Qed.

Lemma xparse_forget : forall f,
  (forall d ts, forget (xparse f d ts) = parse_ideal f d ts) /\
  (forall d n ts racc, forget (xparse_n f d n ts racc) = parse_ideal_n f d n ts racc) /\
  (forall d ts racc, forget (xparse_until f d ts racc) = parse_ideal_until f d ts racc) /\
  (forall d n ts racc, forget (xparse_pairs f d n ts racc) = parse_ideal_pairs f d n ts racc) /\
  (forall d ts racc, forget (xparse_until_map f d ts racc) = parse_ideal_until_map f d ts racc) /\
  (forall d text ts racc, forget (xparse_chunks f d text ts racc) = parse_ideal_chunks f d text ts racc).
Proof.
  induction f as [|f (IH1 & IH2 & IH3 & IH4 & IH5 & IH6)].
  { repeat split; intros; reflexivity. }
  repeat split.
  - intros d ts. rewrite xparse_S, parse_ideal_S.
    destruct ts as [|[tk e] r]; [apply forget_xstop|].
    destruct tk; try reflexivity;
      repeat match goal with |- context [if ?c then _ else _] => destruct c end; try reflexivity;
      (destruct d as [|d']; [reflexivity|]); auto.
    rewrite <- IH1. destruct (xparse f d' r); reflexivity.
  - intros d n ts racc. rewrite xparse_n_S, parse_ideal_n_S, <- IH1.
    destruct (xparse f d ts); [|reflexivity]. cbn [forget]. destruct (n =? 1); [reflexivity|apply IH2].
  - intros d ts racc. rewrite xparse_until_S, parse_ideal_until_S, <- IH1.
    destruct (is_break ts) as [[e0 r0]|]; [reflexivity|].
    destruct (xparse f d ts); [|reflexivity]. cbn [forget]. apply IH3.
  - intros d n ts racc. rewrite xparse_pairs_S, parse_ideal_pairs_S, <- IH1.
    destruct (xparse f d ts) as [k e1 r1|]; [|reflexivity]. cbn [forget]. rewrite <- IH1.
    destruct (xparse f d r1); [|reflexivity]. cbn [forget]. destruct (n =? 1); [reflexivity|apply IH4].
  - intros d ts racc. rewrite xparse_until_map_S, parse_ideal_until_map_S, <- IH1.
    destruct (is_break ts) as [[e0 r0]|]; [reflexivity|].
    destruct (xparse f d ts) as [k e1 r1|]; [|reflexivity]. cbn [forget].
    destruct (is_break r1) as [[e0 r0]|]; [reflexivity|]. rewrite <- IH1.
    destruct (xparse f d r1); [|reflexivity]. cbn [forget]. apply IH5.
  - intros d text ts racc. rewrite xparse_chunks_S, parse_ideal_chunks_S.
    destruct ts as [|[tk e] r]; [apply forget_xstop|].
    match goal with |- context [is_break ?l] => destruct (is_break l) as [br|] end; [reflexivity|].
    destruct (chunk_of text tk) as [data|].
    + destruct (cap <? len data); [reflexivity|apply IH6].
    + apply forget_xreject.
Qed.

Lemma parse_ideal_forget f d ts : parse_ideal f d ts = forget (xparse f d ts).
Proof. symmetry. apply (xparse_forget f). Qed.

(* ------------------------------------------------------------------------------------------ *)
(* positions: results of the lazy parser lie at or after the first head                        *)
(* ------------------------------------------------------------------------------------------ *)

Definition tpos : N := match tl with TNeed p | TBad p => p end.

(* token ends increase strictly from [pos] and the stop position [q] is not before the last one *)
Fixpoint sorted_to (pos : N) (ts : list ptok) (q : N) : Prop :=
  match ts with [] => pos <= q | (_, e) :: r => pos < e /\ sorted_to e r q end.

(* end of the first head (the stop position when there is none) *)
Definition hd_pos (ts : list ptok) (q : N) : N :=
  match ts with [] => q | (_, e) :: _ => e end.

Lemma sorted_to_hd pos ts q : sorted_to pos ts q -> pos <= hd_pos ts q.
Proof. destruct ts as [|[tk e] r]; cbn [sorted_to hd_pos]; lia. Qed.

Definition pres_pos (R : pres item) (h : N) : Prop :=
  match R with
  | POk _ e r => h <= e /\ sorted_to e r tpos
  | PErr c p => c <> ENone -> h <= p
  end.

Lemma pres_pos_weaken R h h' : h' <= h -> pres_pos R h -> pres_pos R h'.
Proof. intros Hle. destruct R as [x e r|c p]; cbn [pres_pos]; [intros [H1 H2]; split; [lia|assumption]|intros H Hc; specialize (H Hc); lia]. Qed.

Lemma pres_pos_stop h : h <= tpos -> pres_pos (stop tl) h.
Proof. unfold stop, tpos. destruct tl; cbn [pres_pos]; intros H _; exact H. Qed.

Local Notation parse := (SpecParse.parse cap tl).
Local Notation parse_n := (SpecParse.parse_n cap tl).
Local Notation parse_until := (SpecParse.parse_until cap tl).
Local Notation parse_pairs := (SpecParse.parse_pairs cap tl).
Local Notation parse_until_map := (SpecParse.parse_until_map cap tl).
Local Notation parse_chunks := (SpecParse.parse_chunks cap tl).

Lemma positions : forall f,
  (forall d ts pos, sorted_to pos ts tpos -> pres_pos (parse f d ts) (hd_pos ts tpos)) /\
  (forall d n ts racc pos, sorted_to pos ts tpos -> pres_pos (parse_n f d n ts racc) (hd_pos ts tpos)) /\
  (forall d ts racc pos, sorted_to pos ts tpos -> pres_pos (parse_until f d ts racc) (hd_pos ts tpos)) /\
  (forall d n ts racc pos, sorted_to pos ts tpos -> pres_pos (parse_pairs f d n ts racc) (hd_pos ts tpos)) /\
  (forall d ts racc pos, sorted_to pos ts tpos -> pres_pos (parse_until_map f d ts racc) (hd_pos ts tpos)) /\
  (forall d text ts racc pos, sorted_to pos ts tpos -> pres_pos (parse_chunks f d text ts racc) (hd_pos ts tpos)).
Proof.
  induction f as [|f (IH1 & IH2 & IH3 & IH4 & IH5 & IH6)].
  { repeat split; intros; intros Hc; congruence. }
  repeat split.
  - intros d ts pos Hs. rewrite parse_S.
    destruct ts as [|[tk e] r]; [apply pres_pos_stop; cbn [hd_pos]; lia|].
    cbn [sorted_to] in Hs. destruct Hs as [Hlt Hs]. cbn [hd_pos].
    pose proof (sorted_to_hd _ _ _ Hs) as Hhd.
    destruct tk;
      repeat match goal with |- context [if ?c then _ else _] => destruct c end;
      try (cbn [pres_pos]; split; [lia|assumption]);
      try (cbn [pres_pos]; intros _; lia);
      (destruct d as [|d']; [cbn [pres_pos]; intros _; lia|]);
      try solve [eapply pres_pos_weaken; [exact Hhd|]; eauto].
    pose proof (IH1 d' r e Hs) as P1.
    destruct (parse f d' r) as [x e' r'|c p]; cbn [pres_pos] in *.
    + destruct P1; split; [lia|assumption].
    + intros Hc; specialize (P1 Hc); lia.
  - intros d n ts racc pos Hs. rewrite parse_n_S.
    pose proof (IH1 d ts pos Hs) as P1.
    destruct (parse f d ts) as [x e1 r1|c p]; [|exact P1].
    destruct P1 as [Hh Hs1]. destruct (n =? 1); [split; assumption|].
    eapply pres_pos_weaken; [|apply (IH2 d (n - 1) r1 _ e1 Hs1)].
    apply sorted_to_hd in Hs1. lia.
  - intros d ts racc pos Hs. rewrite parse_until_S.
    destruct (is_break ts) as [[e0 r0]|] eqn:B.
    + apply is_break_some in B. subst ts. cbn [sorted_to hd_pos pres_pos] in *. split; [lia|apply Hs].
    + pose proof (IH1 d ts pos Hs) as P1.
      destruct (parse f d ts) as [x e1 r1|c p]; [|exact P1].
      destruct P1 as [Hh Hs1].
      eapply pres_pos_weaken; [|apply (IH3 d r1 _ e1 Hs1)].
      apply sorted_to_hd in Hs1. lia.
  - intros d n ts racc pos Hs. rewrite parse_pairs_S.
    pose proof (IH1 d ts pos Hs) as P1.
    destruct (parse f d ts) as [x e1 r1|c p]; [|exact P1].
    destruct P1 as [Hh Hs1].
    pose proof (IH1 d r1 e1 Hs1) as P2. pose proof (sorted_to_hd _ _ _ Hs1) as Hhd1.
    destruct (parse f d r1) as [x2 e2 r2|c p]; cbn [pres_pos] in P2 |- *.
    2:{ intros Hc; specialize (P2 Hc); lia. }
    destruct P2 as [Hh2 Hs2]. destruct (n =? 1); [split; [lia|assumption]|].
    eapply pres_pos_weaken; [|apply (IH4 d (n - 1) r2 _ e2 Hs2)].
    apply sorted_to_hd in Hs2. lia.
  - intros d ts racc pos Hs. rewrite parse_until_map_S.
    destruct (is_break ts) as [[e0 r0]|] eqn:B.
    + apply is_break_some in B. subst ts. cbn [sorted_to hd_pos pres_pos] in *. split; [lia|apply Hs].
    + pose proof (IH1 d ts pos Hs) as P1.
      destruct (parse f d ts) as [x e1 r1|c p]; [|exact P1].
      destruct P1 as [Hh Hs1]. pose proof (sorted_to_hd _ _ _ Hs1) as Hhd1.
      destruct (is_break r1) as [[e0 r0]|] eqn:B1.
      * apply is_break_some in B1. subst r1. cbn [hd_pos pres_pos] in *. intros _; lia.
      * pose proof (IH1 d r1 e1 Hs1) as P2.
        destruct (parse f d r1) as [x2 e2 r2|c p]; cbn [pres_pos] in P2 |- *.
        2:{ intros Hc; specialize (P2 Hc); lia. }
        destruct P2 as [Hh2 Hs2].
        eapply pres_pos_weaken; [|apply (IH5 d r2 _ e2 Hs2)].
        apply sorted_to_hd in Hs2. lia.
  - intros d text ts racc pos Hs. rewrite parse_chunks_S.
    destruct ts as [|[tk e] r]; [apply pres_pos_stop; cbn [hd_pos]; lia|].
    pose proof (IH1 d _ pos Hs) as P1.
    cbn [sorted_to] in Hs. destruct Hs as [Hlt Hs]. cbn [hd_pos] in *.
    pose proof (sorted_to_hd _ _ _ Hs) as Hhd.
    match goal with |- context [is_break ?l] => destruct (is_break l) as [br|] end.
    { cbn [pres_pos]. split; [lia|assumption]. }
    destruct (chunk_of text tk) as [data|].
    + destruct (cap <? len data); [cbn [pres_pos]; intros _; lia|].
      eapply pres_pos_weaken; [exact Hhd|]. eauto.
    + match goal with |- context [parse f d ?l] => destruct (parse f d l) as [x e' r'|c p] end;
        cbn [pres_pos] in *; [intros _; lia|exact P1].
Qed.

(* the codes of the lazy parser: never NODATA *)
Lemma stop_code c p : stop tl = @PErr item c p -> c <> ENoData.
Proof. unfold stop. destruct tl; intros H; inversion H; discriminate. Qed.

Lemma parse_codes : forall f,
  (forall d ts c p, parse f d ts = PErr c p -> c <> ENoData) /\
  (forall d n ts racc c p, parse_n f d n ts racc = PErr c p -> c <> ENoData) /\
  (forall d ts racc c p, parse_until f d ts racc = PErr c p -> c <> ENoData) /\
  (forall d n ts racc c p, parse_pairs f d n ts racc = PErr c p -> c <> ENoData) /\
  (forall d ts racc c p, parse_until_map f d ts racc = PErr c p -> c <> ENoData) /\
  (forall d text ts racc c p, parse_chunks f d text ts racc = PErr c p -> c <> ENoData).
Proof.
  induction f as [|f (IH1 & IH2 & IH3 & IH4 & IH5 & IH6)].
  { repeat split; intros; match goal with H : _ = PErr _ _ |- _ => inversion H; discriminate end. }
  repeat split.
  - intros d ts c p H. rewrite parse_S in H.
    destruct ts as [|[tk e] r]; [exact (stop_code _ _ H)|].
    destruct tk;
      repeat match type of H with (if ?b then _ else _) = _ => destruct b end;
      try discriminate; try (inversion H; discriminate);
      (destruct d as [|d']; [inversion H; discriminate|]); eauto.
    destruct (parse f d' r) as [x e' r'|c0 p0] eqn:E; [discriminate|]. inversion H; subst. eauto.
  - intros d n ts racc c p H. rewrite parse_n_S in H.
    destruct (parse f d ts) as [x e1 r1|c0 p0] eqn:E; [|inversion H; subst; eauto].
    destruct (n =? 1); [discriminate|eauto].
  - intros d ts racc c p H. rewrite parse_until_S in H.
    destruct (is_break ts) as [[e0 r0]|]; [discriminate|].
    destruct (parse f d ts) as [x e1 r1|c0 p0] eqn:E; [eauto|inversion H; subst; eauto].
  - intros d n ts racc c p H. rewrite parse_pairs_S in H.
    destruct (parse f d ts) as [x e1 r1|c0 p0] eqn:E; [|inversion H; subst; eauto].
    destruct (parse f d r1) as [x2 e2 r2|c0 p0] eqn:E2; [|inversion H; subst; eauto].
    destruct (n =? 1); [discriminate|eauto].
  - intros d ts racc c p H. rewrite parse_until_map_S in H.
    destruct (is_break ts) as [[e0 r0]|]; [discriminate|].
    destruct (parse f d ts) as [x e1 r1|c0 p0] eqn:E; [|inversion H; subst; eauto].
    destruct (is_break r1) as [[e0 r0]|]; [inversion H; discriminate|].
    destruct (parse f d r1) as [x2 e2 r2|c0 p0] eqn:E2; [eauto|inversion H; subst; eauto].
  - intros d text ts racc c p H. rewrite parse_chunks_S in H.
    destruct ts as [|[tk e] r]; [exact (stop_code _ _ H)|].
    match type of H with context [is_break ?l] => destruct (is_break l) as [br|] end; [discriminate|].
    destruct (chunk_of text tk) as [data|].
    + destruct (cap <? len data); [inversion H; discriminate|eauto].
    + match type of H with context [parse f d ?l] => destruct (parse f d l) as [x e' r'|c0 p0] eqn:E end;
        inversion H; subst; [discriminate|eauto].
Qed.

(* sortedness for some start position *)
Definition srt (ts : list ptok) : Prop := exists pos, sorted_to pos ts tpos.

Lemma srt_tail a ts : srt (a :: ts) -> srt ts.
Proof. intros [pos H]. destruct a as [tk e]. exists e. apply H. Qed.

Lemma srt_ok f d ts x e r : parse f d ts = POk x e r -> srt ts -> srt r.
Proof.
  intros H [pos Hs]. destruct (positions f) as (P & _). specialize (P d ts pos Hs).
  rewrite H in P. exists e. apply P.
Qed.

(* ------------------------------------------------------------------------------------------ *)
(* 2./3. the ideal parser against the lazy one                                                 *)
(* ------------------------------------------------------------------------------------------ *)

(* the verdict of the chunk loop on a non-chunk item it has parsed in full *)
Definition judge (R : pres item) : pres item :=
  match R with POk _ e' _ => PErr ESyntax e' | PErr c p => PErr c p end.

Definition rel (ts : list ptok) (X : xres) (P : pres item) : Prop :=
  match X with
  | XOk t e r => P = POk t e r
  | XErr None c p => exists c' p', P = PErr c' p' /\ (c' <> ENone -> c' = c /\ p' = p)
  | XErr (Some (d', ts')) c p =>
      c = ESyntax /\ (exists tk r', ts' = (tk, p) :: r' /\ tk <> TBreak) /\
      exists c' p', P = PErr c' p' /\
        (exists f', judge (parse f' d' ts') = PErr c' p') /\
        (c' <> ENone -> srt ts -> p <= p')
  end.

Lemma rel_same ts c p : rel ts (XErr None c p) (PErr c p).
Proof. exists c, p. split; [reflexivity|]. intros _. split; reflexivity. Qed.

Lemma rel_mono ts ts1 X P : (srt ts -> srt ts1) -> rel ts1 X P -> rel ts X P.
Proof.
  intros Hm. destruct X as [t e r|[[d' ts']|] c p]; cbn [rel]; try (intros H; exact H).
  intros (Hc & Hhd & c' & p' & HP & Hj & Hle).
  split; [exact Hc|]. split; [exact Hhd|]. exists c', p'. split; [exact HP|]. split; [exact Hj|].
  intros Hn Hs. apply Hle; [exact Hn|apply Hm; exact Hs].
Qed.

(* an error of a sub-call: the lazy sub-call fails too, and the relation passes to the caller *)
Lemma rel_err ts ts1 w c p P :
  (srt ts -> srt ts1) -> rel ts1 (XErr w c p) P ->
  exists c' p', P = PErr c' p' /\ rel ts (XErr w c p) (PErr c' p').
Proof.
  intros Hm R. apply (rel_mono ts ts1) in R; [|exact Hm].
  destruct w as [[d' ts']|]; cbn [rel] in R.
  - destruct R as (Hc & Hhd & c' & p' & HP & Hj & Hle). subst P. exists c', p'.
    split; [reflexivity|]. cbn [rel].
    split; [exact Hc|]. split; [exact Hhd|]. exists c', p'. repeat split; assumption.
  - destruct R as (c' & p' & HP & Hs). subst P. exists c', p'. split; [reflexivity|].
    exists c', p'. split; [reflexivity|exact Hs].
Qed.

Ltac sub_err ts ts1 Hm R :=
  let c' := fresh "c'" in let p' := fresh "p'" in let HP := fresh "HP" in let R' := fresh "R'" in
  destruct (rel_err ts ts1 _ _ _ _ Hm R) as (c' & p' & HP & R'); rewrite HP; exact R'.

Lemma rel_xstop ts : rel ts xstop (stop tl).
Proof. unfold xstop, stop. destruct tl; apply rel_same. Qed.

(* the changed branch *)
Lemma rel_reject f d text tk e r : chunk_of text tk = None -> is_break ((tk, e) :: r) = None ->
  rel ((tk, e) :: r) (xreject_head d ((tk, e) :: r) tk e) (judge (parse f d ((tk, e) :: r))).
Proof.
  intros Ck B.
  assert (FLAG : rel ((tk, e) :: r) (XErr (Some (d, (tk, e) :: r)) ESyntax e) (judge (parse f d ((tk, e) :: r)))).
  { cbn [rel]. split; [reflexivity|].
    split. { exists tk, r. split; [reflexivity|]. intros ->. discriminate. }
    destruct (positions f) as (P & _).
    destruct (parse f d ((tk, e) :: r)) as [x e' r'|c p] eqn:EP; cbn [judge].
    - exists ESyntax, e'. split; [reflexivity|]. split; [exists f; rewrite EP; reflexivity|].
      intros _ [pos Hs]. specialize (P d _ pos Hs). rewrite EP in P. cbn [pres_pos hd_pos] in P. lia.
    - exists c, p. split; [reflexivity|]. split; [exists f; rewrite EP; reflexivity|].
      intros Hc [pos Hs]. specialize (P d _ pos Hs). rewrite EP in P. cbn [pres_pos hd_pos] in P. auto. }
  destruct tk; try exact FLAG; cbn [xreject_head];
    (destruct (cap <? len data) eqn:Ec; [|exact FLAG]);
    (destruct f as [|f]; [exists ENone, 0; split; [reflexivity|congruence]|]);
    rewrite parse_S, Ec; apply rel_same.
Qed.

Lemma ideal_rel : forall f,
  (forall d ts, rel ts (xparse f d ts) (parse f d ts)) /\
  (forall d n ts racc, rel ts (xparse_n f d n ts racc) (parse_n f d n ts racc)) /\
  (forall d ts racc, rel ts (xparse_until f d ts racc) (parse_until f d ts racc)) /\
  (forall d n ts racc, rel ts (xparse_pairs f d n ts racc) (parse_pairs f d n ts racc)) /\
  (forall d ts racc, rel ts (xparse_until_map f d ts racc) (parse_until_map f d ts racc)) /\
  (forall d text ts racc, rel ts (xparse_chunks f d text ts racc) (parse_chunks f d text ts racc)).
Proof.
  induction f as [|f (IH1 & IH2 & IH3 & IH4 & IH5 & IH6)].
  { repeat split; intros; apply rel_same. }
  repeat split.
  - intros d ts. rewrite xparse_S, parse_S.
    destruct ts as [|[tk e] r]; [apply rel_xstop|].
    destruct tk;
      repeat match goal with |- context [if ?c then _ else _] => destruct c end;
      try reflexivity; try apply rel_same;
      (destruct d as [|d']; [apply rel_same|]);
      try solve [eapply rel_mono; [apply srt_tail|]; eauto].
    pose proof (IH1 d' r) as R.
    destruct (xparse f d' r) as [x e1 r1|w c p].
    + cbn [rel] in R. rewrite R. reflexivity.
    + sub_err ((TTag v, e) :: r) r (srt_tail (TTag v, e) r) R.
  - intros d n ts racc. rewrite xparse_n_S, parse_n_S.
    pose proof (IH1 d ts) as R.
    destruct (xparse f d ts) as [x e1 r1|w c p].
    + cbn [rel] in R. rewrite R. destruct (n =? 1); [reflexivity|].
      eapply rel_mono; [apply (srt_ok _ _ _ _ _ _ R)|apply IH2].
    + sub_err ts ts (fun H : srt ts => H) R.
  - intros d ts racc. rewrite xparse_until_S, parse_until_S.
    destruct (is_break ts) as [[e0 r0]|]; [reflexivity|].
    pose proof (IH1 d ts) as R.
    destruct (xparse f d ts) as [x e1 r1|w c p].
    + cbn [rel] in R. rewrite R.
      eapply rel_mono; [apply (srt_ok _ _ _ _ _ _ R)|apply IH3].
    + sub_err ts ts (fun H : srt ts => H) R.
  - intros d n ts racc. rewrite xparse_pairs_S, parse_pairs_S.
    pose proof (IH1 d ts) as R.
    destruct (xparse f d ts) as [x e1 r1|w c p].
    2:{ sub_err ts ts (fun H : srt ts => H) R. }
    cbn [rel] in R. rewrite R.
    pose proof (IH1 d r1) as R2.
    destruct (xparse f d r1) as [x2 e2 r2|w c p].
    2:{ sub_err ts r1 (srt_ok _ _ _ _ _ _ R) R2. }
    cbn [rel] in R2. rewrite R2. destruct (n =? 1); [reflexivity|].
    eapply rel_mono; [|apply IH4].
    intros Hs. apply (srt_ok _ _ _ _ _ _ R2). apply (srt_ok _ _ _ _ _ _ R). exact Hs.
  - intros d ts racc. rewrite xparse_until_map_S, parse_until_map_S.
    destruct (is_break ts) as [[e0 r0]|]; [reflexivity|].
    pose proof (IH1 d ts) as R.
    destruct (xparse f d ts) as [x e1 r1|w c p].
    2:{ sub_err ts ts (fun H : srt ts => H) R. }
    cbn [rel] in R. rewrite R.
    destruct (is_break r1) as [[e0 r0]|]; [apply rel_same|].
    pose proof (IH1 d r1) as R2.
    destruct (xparse f d r1) as [x2 e2 r2|w c p].
    2:{ sub_err ts r1 (srt_ok _ _ _ _ _ _ R) R2. }
    cbn [rel] in R2. rewrite R2.
    eapply rel_mono; [|apply IH5].
    intros Hs. apply (srt_ok _ _ _ _ _ _ R2). apply (srt_ok _ _ _ _ _ _ R). exact Hs.
  - intros d text ts racc. rewrite xparse_chunks_S, parse_chunks_S.
    destruct ts as [|[tk e] r]; [apply rel_xstop|].
    match goal with |- context [is_break ?l] => destruct (is_break l) as [br|] eqn:B end; [reflexivity|].
    destruct (chunk_of text tk) as [data|] eqn:Ck.
    + destruct (cap <? len data); [apply rel_same|].
      eapply rel_mono; [apply srt_tail|apply IH6].
    + apply (rel_reject f d text tk e r Ck B).
Qed.

(* ---- 2. acceptance ---- *)
Theorem ideal_accepts_iff : forall fuel d ts t e r,
  parse fuel d ts = POk t e r <-> parse_ideal fuel d ts = POk t e r.
Proof.
  intros fuel d ts t e r. rewrite parse_ideal_forget.
  destruct (ideal_rel fuel) as (R & _). specialize (R d ts).
  destruct (xparse fuel d ts) as [t0 e0 r0|[[d' ts']|] c p]; cbn [rel forget] in *.
  - rewrite R. reflexivity.
  - destruct R as (_ & _ & c' & p' & HP & _). rewrite HP. split; discriminate.
  - destruct R as (c' & p' & HP & _). rewrite HP. split; discriminate.
Qed.

(* ---- 3. errors ---- *)
Definition enough (fuel : nat) (ts : list ptok) : Prop := (2 * length ts + 1 <= fuel)%nat.

Lemma enough_not_none fuel d ts c p : enough fuel ts -> parse fuel d ts = PErr c p -> c <> ENone.
Proof. intros Hf H ->. exact (parse_never_out_of_fuel cap tl fuel d ts p Hf H). Qed.

(* an ideal error that is not a chunk exception is reported exactly *)
Theorem first_violation_exact : forall fuel d ts c p, enough fuel ts ->
  parse_ideal fuel d ts = PErr c p -> ~ in_chunk_exception fuel d ts ->
  parse fuel d ts = PErr c p.
Proof.
  intros fuel d ts c p Hf H Hn. rewrite parse_ideal_forget in H. unfold in_chunk_exception in Hn.
  destruct (ideal_rel fuel) as (R & _). specialize (R d ts).
  destruct (xparse fuel d ts) as [t0 e0 r0|[w|] c0 p0]; cbn [forget] in H; [discriminate|exfalso; apply Hn; exact I|].
  inversion H; subst. destruct R as (c' & p' & HP & Hs).
  destruct (Hs (enough_not_none _ _ _ _ _ Hf HP)) as [-> ->]. exact HP.
Qed.

(* the allowed exception: the ideal error is SYNTAXERROR at a non-chunk head inside a chunked
   string, and the report comes at or after it *)
Definition late (fuel : nat) (d : nat) (ts : list ptok) (c : lerr) (p : N) (c' : lerr) (p' : N) : Prop :=
  in_chunk_exception fuel d ts /\ c = ESyntax /\ c' <> ENone /\ c' <> ENoData /\ p <= p'.

Theorem ideal_error_same_or_late : forall fuel d ts c p, enough fuel ts -> srt ts ->
  parse_ideal fuel d ts = PErr c p ->
  exists c' p', parse fuel d ts = PErr c' p' /\
    ((c' = c /\ p' = p) \/ late fuel d ts c p c' p').
Proof.
  intros fuel d ts c p Hf Hsrt H. rewrite parse_ideal_forget in H. unfold late, in_chunk_exception.
  destruct (ideal_rel fuel) as (R & _). specialize (R d ts).
  destruct (xparse fuel d ts) as [t0 e0 r0|[[d' ts']|] c0 p0]; cbn [forget] in H; [discriminate| |];
    inversion H; subst; cbn [rel] in R.
  - destruct R as (Hc & _ & c' & p' & HP & _ & Hle). exists c', p'. split; [exact HP|]. right.
    pose proof (enough_not_none _ _ _ _ _ Hf HP) as Hn.
    destruct (parse_codes fuel) as (PC & _).
    repeat split; try assumption; [exact (PC _ _ _ _ HP)|apply Hle; assumption].
  - destruct R as (c' & p' & HP & Hs). exists c', p'. split; [exact HP|]. left.
    apply Hs. exact (enough_not_none _ _ _ _ _ Hf HP).
Qed.

(* what exactly is reported in the exception: the verdict on the illegally opened item, i.e. the
   chunk exception is raised at the head (tk, p) of a suffix [ts'] with budget [d'], and the lazy
   parser answers SYNTAXERROR just past the item at the start of [ts'] when there is one, the
   error of that item otherwise *)
Theorem late_exact : forall fuel d ts c p, enough fuel ts ->
  parse_ideal fuel d ts = PErr c p -> in_chunk_exception fuel d ts ->
  exists d' tk r' f' R,
    xparse fuel d ts = XErr (Some (d', (tk, p) :: r')) ESyntax p /\ tk <> TBreak /\
    parse f' d' ((tk, p) :: r') = R /\ good R /\
    parse fuel d ts = judge R.
Proof.
  intros fuel d ts c p Hf H Hx. rewrite parse_ideal_forget in H. unfold in_chunk_exception in Hx.
  destruct (ideal_rel fuel) as (R & _). specialize (R d ts).
  destruct (xparse fuel d ts) as [t0 e0 r0|[[d' ts']|] c0 p0]; cbn [forget] in H; try contradiction.
  inversion H; subst. cbn [rel] in R.
  destruct R as (Hc & (tk & r' & Hts' & Hbk) & c' & p' & HP & (f' & Hj) & _). subst.
  exists d', tk, r', f', (parse f' d' ((tk, p) :: r')).
  split; [reflexivity|]. split; [exact Hbk|]. split; [reflexivity|].
  pose proof (enough_not_none _ _ _ _ _ Hf HP) as Hn.
  split; [|rewrite HP, Hj; reflexivity].
  destruct (parse f' d' ((tk, p) :: r')) as [x e r|c1 p1]; [exact I|].
  cbn [judge] in Hj. inversion Hj; subst. apply good_err. exact Hn.
Qed.

End Ideal.

(* ------------------------------------------------------------------------------------------ *)
(* 4. cbor_load                                                                                *)
(* ------------------------------------------------------------------------------------------ *)

Definition load_ideal (L cap : N) (buf : list N) : lres :=
  if len buf =? 0 then LErr ENoData 0 0 else
  let (ts, tl) := tokenize (S (length buf)) 0 buf in
  match parse_ideal cap tl (S (2 * length ts + 1)) (N.to_nat L) ts with
  | POk t e _ => LOk t e
  | PErr c p => LErr c p p
  end.

(* the ideal parser rejects [buf] at a non-chunk head inside a chunked string *)
Definition chunk_exception (L cap : N) (buf : list N) : Prop :=
  if len buf =? 0 then False else
  let (ts, tl) := tokenize (S (length buf)) 0 buf in
  in_chunk_exception cap tl (S (2 * length ts + 1)) (N.to_nat L) ts.

Lemma tokenize_sorted_to : forall f pos bs,
  sorted_to pos (fst (tokenize f pos bs)) (tpos (snd (tokenize f pos bs))).
Proof.
  induction f as [|f IH]; intros pos bs; [cbn; lia|]. cbn [tokenize].
  destruct (head_spec bs) as [t n|full|] eqn:HS; try (cbn; lia).
  specialize (IH (pos + n) (skipnN n bs)).
  destruct (tokenize f (pos + n) (skipnN n bs)) as [ts tl]. cbn [fst snd sorted_to] in *.
  apply head_tok_bounds in HS. split; [lia|exact IH].
Qed.

Theorem C02_accepts_ideal_spec : forall L cap buf t n,
  load_spec L cap buf = LOk t n <-> load_ideal L cap buf = LOk t n.
Proof.
  intros L cap buf t n. unfold load_spec, load_ideal.
  destruct (len buf =? 0); [reflexivity|].
  destruct (tokenize (S (length buf)) 0 buf) as [ts tl].
  pose proof (ideal_accepts_iff cap tl (S (2 * length ts + 1)) (N.to_nat L) ts) as A.
  destruct (parse cap tl _ _ ts) as [t1 e1 r1|c1 p1] eqn:E1;
    destruct (parse_ideal cap tl _ _ ts) as [t2 e2 r2|c2 p2] eqn:E2.
  - destruct (A t1 e1 r1) as [A1 _]. specialize (A1 eq_refl). inversion A1; subst. reflexivity.
  - destruct (A t1 e1 r1) as [A1 _]. specialize (A1 eq_refl). discriminate.
  - destruct (A t2 e2 r2) as [_ A2]. specialize (A2 eq_refl). discriminate.
  - split; discriminate.
Qed.

Theorem C05_first_violation_spec : forall L cap buf c p,
  load_ideal L cap buf = LErr c p p -> ~ chunk_exception L cap buf ->
  load_spec L cap buf = LErr c p p.
Proof.
  intros L cap buf c p. unfold load_spec, load_ideal, chunk_exception.
  destruct (len buf =? 0); [intros H _; exact H|].
  destruct (tokenize (S (length buf)) 0 buf) as [ts tl].
  intros H Hn.
  destruct (parse_ideal cap tl _ _ ts) as [t2 e2 r2|c2 p2] eqn:E2; [discriminate|].
  inversion H; subst.
  rewrite (first_violation_exact cap tl (S (2 * length ts + 1)) (N.to_nat L) ts c p ltac:(unfold enough; lia) E2 Hn). reflexivity.
Qed.

Theorem C05_late_spec : forall L cap buf c p,
  load_ideal L cap buf = LErr c p p -> chunk_exception L cap buf ->
  c = ESyntax /\ exists c' p', load_spec L cap buf = LErr c' p' p' /\ c' <> ENone /\ c' <> ENoData /\ p <= p'.
Proof.
  intros L cap buf c p. unfold load_spec, load_ideal, chunk_exception.
  destruct (len buf =? 0); [intros _ []|].
  pose proof (tokenize_sorted_to (S (length buf)) 0 buf) as Hs.
  destruct (tokenize (S (length buf)) 0 buf) as [ts tl]. cbn [fst snd] in Hs.
  intros H Hx.
  destruct (parse_ideal cap tl _ _ ts) as [t2 e2 r2|c2 p2] eqn:E2; [discriminate|].
  inversion H; subst.
  destruct (ideal_error_same_or_late cap tl (S (2 * length ts + 1)) (N.to_nat L) ts c p ltac:(unfold enough; lia) (ex_intro _ 0 Hs) E2)
    as (c' & p' & HP & [[-> ->]|(_ & Hc & Hn & Hd & Hle)]).
  - (* same report: then it is itself the flagged SYNTAXERROR *)
    pose proof (late_exact cap tl (S (2 * length ts + 1)) (N.to_nat L) ts c p ltac:(unfold enough; lia) E2 Hx)
      as (d' & tk & r' & f' & R & HX & _ & _ & G & HJ).
    assert (Hc : c = ESyntax).
    { rewrite parse_ideal_forget, HX in E2. cbn [forget] in E2. inversion E2; reflexivity. }
    split; [exact Hc|]. exists c, p. rewrite HP. split; [reflexivity|].
    subst c. repeat split; [discriminate|discriminate|lia].
  - split; [exact Hc|]. exists c', p'. rewrite HP. split; [reflexivity|]. repeat split; assumption.
Qed.

(* ---- the same for the model of cbor_load ---- *)
Theorem C02_accepts_ideal : forall L cap buf t n, bytes_ok buf -> len buf < SIZE_MAX ->
  (load L cap buf = LOk t n <-> load_ideal L cap buf = LOk t n).
Proof.
  intros L cap buf t n Hb Hlen. rewrite load_is_spec_full by assumption. apply C02_accepts_ideal_spec.
Qed.

Theorem C05_first_violation : forall L cap buf c p, bytes_ok buf -> len buf < SIZE_MAX ->
  load_ideal L cap buf = LErr c p p -> ~ chunk_exception L cap buf ->
  load L cap buf = LErr c p p.
Proof.
  intros L cap buf c p Hb Hlen. rewrite load_is_spec_full by assumption. apply C05_first_violation_spec.
Qed.

Theorem C05_late : forall L cap buf c p, bytes_ok buf -> len buf < SIZE_MAX ->
  load_ideal L cap buf = LErr c p p -> chunk_exception L cap buf ->
  c = ESyntax /\ exists c' p', load L cap buf = LErr c' p' p' /\ c' <> ENone /\ c' <> ENoData /\ p <= p'.
Proof.
  intros L cap buf c p Hb Hlen. rewrite load_is_spec_full by assumption. apply C05_late_spec.
Qed.

(* ------------------------------------------------------------------------------------------ *)
(* 5. examples (non-vacuity), L = 2048, cap = 2^20 unless said otherwise                        *)
(* ------------------------------------------------------------------------------------------ *)

Definition both (L cap : N) (b : list N) : lres * lres := (load_spec L cap b, load_ideal L cap b).

(* an int inside a chunked byte string: a leaf completes at once, same report *)
Goal both 2048 (2^20) [0x5F; 0x01; 0xFF] = (LErr ESyntax 2 2, LErr ESyntax 2 2)
     /\ chunk_exception 2048 (2^20) [0x5F; 0x01; 0xFF].
Proof. vm_compute. split; [reflexivity|exact I]. Qed.

(* an array [1] inside a chunked byte string: reported when the array completes *)
Goal both 2048 (2^20) [0x5F; 0x81; 0x01; 0xFF] = (LErr ESyntax 3 3, LErr ESyntax 2 2)
     /\ chunk_exception 2048 (2^20) [0x5F; 0x81; 0x01; 0xFF].
Proof. vm_compute. split; [reflexivity|exact I]. Qed.

(* the input ends inside the illegally opened item *)
Goal both 2048 (2^20) [0x5F; 0x9F; 0x01] = (LErr ENotEnough 3 3, LErr ESyntax 2 2)
     /\ chunk_exception 2048 (2^20) [0x5F; 0x9F; 0x01].
Proof. vm_compute. split; [reflexivity|exact I]. Qed.

(* a reserved initial byte inside the illegally opened item: same offset, other code *)
Goal both 2048 (2^20) [0x5F; 0x81; 0x1C] = (LErr EMalformed 2 2, LErr ESyntax 2 2)
     /\ chunk_exception 2048 (2^20) [0x5F; 0x81; 0x1C].
Proof. vm_compute. split; [reflexivity|exact I]. Qed.

(* a later head inside it is itself in error (break as array element) *)
Goal both 2048 (2^20) [0x5F; 0x81; 0xFF] = (LErr ESyntax 3 3, LErr ESyntax 2 2).
Proof. vm_compute. reflexivity. Qed.

(* the illegally opened head is itself refused: allocation (2^64-1 elements) / nesting limit 1 *)
Goal both 2048 (2^20) [0x5F; 0x9B; 0xFF; 0xFF; 0xFF; 0xFF; 0xFF; 0xFF; 0xFF; 0xFF; 0x00]
     = (LErr EMem 10 10, LErr ESyntax 10 10).
Proof. vm_compute. reflexivity. Qed.
Goal both 1 (2^20) [0x5F; 0x9F; 0xFF; 0xFF] = (LErr EMem 2 2, LErr ESyntax 2 2).
Proof. vm_compute. reflexivity. Qed.

(* a chunked string inside a chunked string; a tag whose content repeats the mistake *)
Goal both 2048 (2^20) [0x5F; 0x5F; 0x41; 0x00; 0xFF; 0xFF] = (LErr ESyntax 5 5, LErr ESyntax 2 2).
Proof. vm_compute. reflexivity. Qed.
Goal both 2048 (2^20) [0x5F; 0xC1; 0x5F; 0x01] = (LErr ESyntax 4 4, LErr ESyntax 2 2).
Proof. vm_compute. reflexivity. Qed.

(* a definite string of the other type: a leaf, same report; refused payload (cap = 0): MEMERROR
   in both, and not a chunk exception *)
Goal both 2048 (2^20) [0x5F; 0x61; 0x61; 0xFF] = (LErr ESyntax 3 3, LErr ESyntax 3 3).
Proof. vm_compute. reflexivity. Qed.
Goal both 2048 0 [0x5F; 0x61; 0x61; 0xFF] = (LErr EMem 3 3, LErr EMem 3 3)
     /\ ~ chunk_exception 2048 0 [0x5F; 0x61; 0x61; 0xFF].
Proof. vm_compute. split; [reflexivity|exact (fun H => H)]. Qed.

(* outside chunked strings: exact first violation, no exception *)
Goal both 2048 (2^20) [0x9F; 0x01; 0x1C] = (LErr EMalformed 2 2, LErr EMalformed 2 2)
     /\ ~ chunk_exception 2048 (2^20) [0x9F; 0x01; 0x1C].
Proof. vm_compute. split; [reflexivity|exact (fun H => H)]. Qed.
Goal both 2048 (2^20) [0x81; 0xFF] = (LErr ESyntax 2 2, LErr ESyntax 2 2)
     /\ ~ chunk_exception 2048 (2^20) [0x81; 0xFF].
Proof. vm_compute. split; [reflexivity|exact (fun H => H)]. Qed.
Goal both 2048 (2^20) [0xBF; 0x01; 0xFF] = (LErr ESyntax 3 3, LErr ESyntax 3 3).
Proof. vm_compute. reflexivity. Qed.

(* acceptance coincides *)
Goal both 2048 (2^20) [0x5F; 0x41; 0x00; 0x41; 0x01; 0xFF]
     = (LOk (IBytesI [[0]; [1]]) 6, LOk (IBytesI [[0]; [1]]) 6).
Proof. vm_compute. reflexivity. Qed.

Print Assumptions ideal_accepts_iff.
Print Assumptions first_violation_exact.
Print Assumptions ideal_error_same_or_late.
Print Assumptions late_exact.
Print Assumptions C02_accepts_ideal_spec.
Print Assumptions C05_first_violation_spec.
Print Assumptions C05_late_spec.
Print Assumptions C02_accepts_ideal.
Print Assumptions C05_first_violation.
Print Assumptions C05_late.
