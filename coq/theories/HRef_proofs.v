(* Reference-counting core of properties C04 / C13 for the defunctionalised cbor_decref
   ([drain] / [decref] of HItems.v): a local accounting invariant

       rc(a) = (client's own references) + (references from live containers) + (pending releases)

   is preserved by every step of the task machine; under it the machine never touches a released
   block (FUseAfterFree), never releases a block twice (FBadFree), never fails CBOR_ASSERT(refcount > 0)
   (FAssert 1), terminates within [drain_fuel], releases every block exactly once, and leaves nothing
   allocated once the client has dropped all its references (acyclic heaps). *)
From CB Require Import Word Word_proofs HHeap HItems.
From Coq Require Import Lia ZArith ZifyBool ZifyN ZifyNat.
Local Open Scope N_scope.

(* ------------------------------------------------------------------------------------------ *)
(* Definitions                                                                                *)
(* ------------------------------------------------------------------------------------------ *)

(* item references held by a node, in storage order *)
Definition pair_kids (kv : addr * option addr) : list addr :=
  fst kv :: match snd kv with Some v => [v] | None => [] end.
Definition kids (n : node) : list addr :=
  match n with
  | NChunked _ _ _ _ chunks => chunks
  | NArr _ _ _ elems => elems
  | NMap _ _ _ pairs => flat_map pair_kids pairs
  | NTag _ (Some c) => [c]
  | _ => []
  end.

Definition opt_list (p : option addr) : list addr := match p with Some a => [a] | None => [] end.
(* data blocks owned by a node (in the order cbor_decref frees them) *)
Definition dblocks (n : node) : list addr :=
  match n with
  | NStr _ data _ => opt_list data
  | NChunked _ hdr arr _ _ => opt_list arr ++ [hdr]
  | NArr _ data _ _ => opt_list data
  | NMap _ data _ _ => opt_list data
  | _ => []
  end.

Fixpoint cnt (x : addr) (l : list addr) : N :=
  match l with [] => 0 | y :: l' => (if y =? x then 1 else 0) + cnt x l' end.
Definition sumN (n : N) (f : N -> N) : N := N.recursion 0 (fun i acc => acc + f i) n.

(* what a cell contributes to the reference graph: a zombie (rc = 0: already released, waiting for
   its TFreeItem) contributes nothing — its references have been turned into tasks *)
Definition selc (sel : node -> list addr) (c : option cell) : list addr :=
  match c with
  | Some (CItem rc n) => if rc =? 0 then [] else sel n
  | _ => []
  end.
Definition refs (sel : node -> list addr) (h : addr -> option cell) (nx : N) (x : addr) : N :=
  sumN nx (fun b => cnt x (selc sel (h b))).
(* number of references to x from the kids of live non-zombie items *)
Definition indeg (w : world) (x : addr) : N := refs kids (heap w) (next w) x.
(* number of live non-zombie items whose dblocks contain x (with multiplicity) *)
Definition dindeg (w : world) (x : addr) : N := refs dblocks (heap w) (next w) x.

Fixpoint pend (x : addr) (ts : list task) : N :=
  match ts with
  | [] => 0
  | TDecref a :: r => (if a =? x then 1 else 0) + pend x r
  | _ :: r => pend x r
  end.
Fixpoint tofree (x : addr) (ts : list task) : N :=
  match ts with
  | [] => 0
  | TFreeItem a :: r => (if a =? x then 1 else 0) + tofree x r
  | TFreeData (Some a) :: r => (if a =? x then 1 else 0) + tofree x r
  | _ :: r => tofree x r
  end.

(* the accounting of one address *)
Definition okcell (own ownd : addr -> N) (ts : list task) (w : world) (x : addr) : Prop :=
  match heap w x with
  | None =>
      own x = 0 /\ ownd x = 0 /\ indeg w x = 0 /\ dindeg w x = 0 /\ pend x ts = 0 /\ tofree x ts = 0
  | Some (CItem rc n) =>
      ownd x = 0 /\ dindeg w x = 0 /\
      ((rc = 0 /\ tofree x ts = 1 /\ own x = 0 /\ indeg w x = 0 /\ pend x ts = 0) \/
       (0 < rc /\ tofree x ts = 0 /\ rc = own x + indeg w x + pend x ts))
  | Some (CData _) =>
      own x = 0 /\ indeg w x = 0 /\ pend x ts = 0 /\
      ownd x + dindeg w x + tofree x ts = 1
  end.

Definition Inv (own ownd : addr -> N) (ts : list task) (w : world) : Prop :=
  (forall a, next w <= a -> heap w a = None) /\
  (forall x, okcell own ownd ts w x).

(* ------------------------------------------------------------------------------------------ *)
(* sums and counts                                                                            *)
(* ------------------------------------------------------------------------------------------ *)

Lemma sumN_0 f : sumN 0 f = 0. Proof. reflexivity. Qed.
Lemma sumN_succ n f : sumN (N.succ n) f = sumN n f + f n.
Proof. unfold sumN. rewrite N.recursion_succ; auto. intros ? ? -> ? ? ->. reflexivity. Qed.

Lemma sumN_ext n f g : (forall i, i < n -> f i = g i) -> sumN n f = sumN n g.
Proof. induction n using N.peano_ind; intros H; [reflexivity|].
  rewrite !sumN_succ, IHn, H by (intros; try apply H; lia). reflexivity. Qed.

Lemma sumN_upd n f g b : b < n -> (forall i, i < n -> i <> b -> f i = g i) ->
  sumN n f + g b = sumN n g + f b.
Proof. induction n using N.peano_ind; intros Hb H; [lia|].
  rewrite !sumN_succ. destruct (N.eq_dec b n) as [Heq|Hne].
  - subst b. rewrite (sumN_ext n f g) by (intros; apply H; lia). lia.
  - rewrite <- (H n) by lia.
    assert (sumN n f + g b = sumN n g + f b) by (apply IHn; [lia|intros; apply H; lia]). lia. Qed.

Lemma sumN_ge n f b : b < n -> f b <= sumN n f.
Proof. induction n using N.peano_ind; intros Hb; [lia|]. rewrite sumN_succ.
  destruct (N.eq_dec b n) as [Heq|]; [subst; lia|]. assert (f b <= sumN n f) by (apply IHn; lia). lia. Qed.

Lemma sumN_le n f g : (forall i, i < n -> f i <= g i) -> sumN n f <= sumN n g.
Proof. induction n using N.peano_ind; intros H; [reflexivity|]. rewrite !sumN_succ.
  assert (sumN n f <= sumN n g) by (apply IHn; intros; apply H; lia).
  assert (f n <= g n) by (apply H; lia). lia. Qed.

Lemma sumN_pos n f : 0 < sumN n f -> exists b, b < n /\ 0 < f b.
Proof. induction n using N.peano_ind; intros H; [rewrite sumN_0 in H; lia|]. rewrite sumN_succ in H.
  destruct (N.eq_dec (f n) 0) as [Z|NZ].
  - destruct IHn as (b & Hb & Hf); [lia|]. exists b. split; [lia|assumption].
  - exists n. split; lia. Qed.

Lemma sumN_upd_heap (F : option cell -> N) h nx a c : a < nx ->
  sumN nx (fun b => F (upd h a c b)) + F (h a) = sumN nx (fun b => F (h b)) + F c.
Proof. intros Ha.
  pose proof (sumN_upd nx (fun b => F (upd h a c b)) (fun b => F (h b)) a Ha) as E. cbn beta in E.
  assert (U : upd h a c a = c) by (unfold upd; rewrite N.eqb_refl; reflexivity).
  rewrite U in E. apply E.
  intros i _ Hi. unfold upd. destruct (N.eqb_spec i a); [contradiction|reflexivity]. Qed.

Lemma refs_upd sel h nx a c x : a < nx ->
  refs sel (upd h a c) nx x + cnt x (selc sel (h a)) = refs sel h nx x + cnt x (selc sel c).
Proof. intros Ha. unfold refs. apply (sumN_upd_heap (fun c => cnt x (selc sel c)) h nx a c Ha). Qed.

Lemma refs_ge sel h nx b x : b < nx -> cnt x (selc sel (h b)) <= refs sel h nx x.
Proof. intros Hb. unfold refs. apply (sumN_ge nx (fun b => cnt x (selc sel (h b))) b Hb). Qed.

Lemma cnt_app x l1 l2 : cnt x (l1 ++ l2) = cnt x l1 + cnt x l2.
Proof. induction l1 as [|y l1 IH]; cbn [cnt app]; [reflexivity|]. rewrite IH. lia. Qed.
Lemma cnt_pos_in x l : 0 < cnt x l <-> In x l.
Proof. induction l as [|y l IH]; cbn [cnt In]; [lia|]. destruct (N.eqb_spec y x); [|rewrite <- IH]; intuition lia. Qed.
Lemma pend_app x t1 t2 : pend x (t1 ++ t2) = pend x t1 + pend x t2.
Proof. induction t1 as [|[a|p|a] t1 IH]; cbn [pend app]; try rewrite IH; lia. Qed.
Lemma tofree_app x t1 t2 : tofree x (t1 ++ t2) = tofree x t1 + tofree x t2.
Proof. induction t1 as [|[a|[p|]|a] t1 IH]; cbn [tofree app]; try rewrite IH; lia. Qed.
Lemma pend_map x l : pend x (map TDecref l) = cnt x l.
Proof. induction l as [|y l IH]; cbn [pend map cnt]; [reflexivity|]. rewrite IH. reflexivity. Qed.
Lemma tofree_map x l : tofree x (map TDecref l) = 0.
Proof. induction l as [|y l IH]; cbn [tofree map]; [reflexivity|assumption]. Qed.

Ltac eqb := repeat match goal with
  | |- context [N.eqb ?x ?y] => destruct (N.eqb_spec x y); subst
  | H : context [N.eqb ?x ?y] |- _ => destruct (N.eqb_spec x y); subst end.

(* the tasks created by a release are exactly the node's references: one TDecref per kid, one
   TFreeData per data block, one TFreeItem for the item itself *)
Definition pair_tasks (kv : addr * option addr) : list task :=
  TDecref (fst kv) :: match snd kv with Some v => [TDecref v] | None => [] end.
Lemma pend_pairs x pairs : pend x (flat_map pair_tasks pairs) = cnt x (flat_map pair_kids pairs).
Proof. induction pairs as [|[k [v|]] ps IH]; cbn [flat_map pair_tasks pair_kids fst snd app pend cnt]; [reflexivity| |];
  rewrite IH; lia. Qed.
Lemma tofree_pairs x pairs : tofree x (flat_map pair_tasks pairs) = 0.
Proof. induction pairs as [|[k [v|]] ps IH]; cbn [flat_map pair_tasks fst snd app tofree]; [reflexivity| |]; assumption. Qed.

Lemma pend_release x a n : pend x (release_tasks a n) = cnt x (kids n).
Proof.
  destruct n as [neg iw v|fw bits|v|text data bytes|text hdr arr cap chunks|indef data al elems|indef data al pairs|v [c|]];
    cbn [release_tasks kids]; fold pair_tasks;
    rewrite ?pend_app, ?pend_map, ?pend_pairs; cbn [pend cnt app]; lia.
Qed.

Lemma tofree_opt x p r : tofree x (TFreeData p :: r) = cnt x (opt_list p) + tofree x r.
Proof. destruct p; cbn [tofree opt_list cnt]; lia. Qed.

Lemma tofree_release x a n :
  tofree x (release_tasks a n) = cnt x (dblocks n) + (if a =? x then 1 else 0).
Proof.
  destruct n as [neg iw v|fw bits|v|text data bytes|text hdr arr cap chunks|indef data al elems|indef data al pairs|v [c|]];
    cbn [release_tasks dblocks]; fold pair_tasks;
    rewrite ?tofree_app, ?tofree_map, ?tofree_pairs, ?cnt_app, ?tofree_opt; cbn [tofree cnt app opt_list]; lia.
Qed.

(* ------------------------------------------------------------------------------------------ *)
(* invariant: one lemma per kind of machine step (phrased over heap and next only)            *)
(* ------------------------------------------------------------------------------------------ *)

Lemma live_lt own ownd ts w a c : Inv own ownd ts w -> heap w a = Some c -> a < next w.
Proof. intros [H _] E. destruct (N.lt_ge_cases a (next w)) as [|G]; [assumption|].
  rewrite (H a G) in E. discriminate. Qed.

(* nothing but the task list's counts, the heap and the bump pointer matters *)
Lemma Inv_ext own ownd ts ts' w w' :
  heap w' = heap w -> next w' = next w ->
  (forall x, pend x ts' = pend x ts) -> (forall x, tofree x ts' = tofree x ts) ->
  Inv own ownd ts w -> Inv own ownd ts' w'.
Proof. intros Hh Hn P T [H1 H2]. split.
  - intros a Ha. rewrite Hh. apply H1. rewrite <- Hn. assumption.
  - intros x. specialize (H2 x). unfold okcell, indeg, dindeg in *. rewrite Hh, Hn, P, T. exact H2. Qed.

Lemma head_decref_live own ownd a r w :
  Inv own ownd (TDecref a :: r) w -> exists rc n, heap w a = Some (CItem rc n) /\ 0 < rc.
Proof. intros [_ H2]. specialize (H2 a). unfold okcell in H2. cbn [pend] in H2. rewrite N.eqb_refl in H2.
  destruct (heap w a) as [[rc n|sz]|]; [|lia|lia].
  exists rc, n. split; [reflexivity|]. destruct H2 as (_ & _ & [?|?]); lia. Qed.

Lemma head_free_live own ownd t a r w :
  (forall x, tofree x (t :: r) = (if a =? x then 1 else 0) + tofree x r) ->
  Inv own ownd (t :: r) w -> exists c, heap w a = Some c.
Proof. intros T [_ H2]. specialize (H2 a). unfold okcell in H2. rewrite T, N.eqb_refl in H2.
  destruct (heap w a) as [c|]; [eauto|lia]. Qed.

(* TDecref a with rc > 1: one pending release becomes one reference less *)
Lemma step_gt1 own ownd a r w w' rc n :
  Inv own ownd (TDecref a :: r) w -> heap w a = Some (CItem rc n) -> 1 < rc ->
  heap w' = upd (heap w) a (Some (CItem (rc - 1) n)) -> next w' = next w ->
  Inv own ownd r w'.
Proof. intros I E Hrc Hh Hn. pose proof (live_lt _ _ _ _ _ _ I E) as Ha. destruct I as [H1 H2].
  assert (ID : forall sel x, refs sel (heap w') (next w') x = refs sel (heap w) (next w) x).
  { intros sel x. rewrite Hh, Hn.
    pose proof (refs_upd sel (heap w) (next w) a (Some (CItem (rc - 1) n)) x Ha) as P.
    rewrite E in P. cbn [selc] in P.
    destruct (N.eqb_spec (rc - 1) 0); [lia|]. destruct (N.eqb_spec rc 0); [lia|]. lia. }
  split.
  - intros x Hx. rewrite Hh. rewrite Hn in Hx. unfold upd. destruct (N.eqb_spec x a); [lia|]. apply H1; assumption.
  - intros x. specialize (H2 x). unfold okcell, indeg, dindeg in *. rewrite !ID. rewrite Hh. unfold upd.
    cbn [pend tofree] in H2. destruct (N.eqb_spec x a) as [Heq|Hne].
    + subst x. rewrite E in H2. rewrite N.eqb_refl in H2. intuition lia.
    + destruct (N.eqb_spec a x); [congruence|]. exact H2. Qed.

(* TDecref a with rc = 1: the item becomes a zombie; its references become tasks *)
Lemma step_eq1 own ownd a r w w' n :
  Inv own ownd (TDecref a :: r) w -> heap w a = Some (CItem 1 n) ->
  heap w' = upd (heap w) a (Some (CItem 0 n)) -> next w' = next w ->
  Inv own ownd (release_tasks a n ++ r) w'.
Proof. intros I E Hh Hn. pose proof (live_lt _ _ _ _ _ _ I E) as Ha. destruct I as [H1 H2].
  assert (ID : forall sel x, refs sel (heap w') (next w') x + cnt x (sel n) = refs sel (heap w) (next w) x).
  { intros sel x. rewrite Hh, Hn.
    pose proof (refs_upd sel (heap w) (next w) a (Some (CItem 0 n)) x Ha) as P.
    rewrite E in P. cbn [selc N.eqb Pos.eqb cnt] in P. lia. }
  assert (PT : forall x, pend x (release_tasks a n ++ r) = cnt x (kids n) + pend x r).
  { intros. rewrite pend_app, pend_release. reflexivity. }
  assert (TT : forall x, tofree x (release_tasks a n ++ r) = cnt x (dblocks n) + (if a =? x then 1 else 0) + tofree x r).
  { intros. rewrite tofree_app, tofree_release. reflexivity. }
  pose proof (H2 a) as Za. unfold okcell, indeg, dindeg in Za. rewrite E in Za. cbn [pend tofree] in Za.
  rewrite N.eqb_refl in Za.
  split.
  - intros x Hx. rewrite Hh. rewrite Hn in Hx. unfold upd. destruct (N.eqb_spec x a); [lia|]. apply H1; assumption.
  - intros x. specialize (H2 x). unfold okcell, indeg, dindeg in *. rewrite PT, TT.
    pose proof (ID kids x) as IK. pose proof (ID dblocks x) as IDb.
    set (K' := refs kids (heap w') (next w') x) in *. set (D' := refs dblocks (heap w') (next w') x) in *.
    clearbody K' D'. rewrite Hh. unfold upd. cbn [pend tofree] in H2. destruct (N.eqb_spec x a) as [Heq|Hne].
    + subst x. rewrite N.eqb_refl. intuition lia.
    + destruct (N.eqb_spec a x); [congruence|].
      destruct (heap w x) as [[rcx nx|sz]|]; intuition lia. Qed.

(* TFreeItem a / TFreeData (Some a): the block was live, owed exactly this release, and nobody refers to it *)
Lemma step_free own ownd t a r w w' :
  (forall x, pend x (t :: r) = pend x r) ->
  (forall x, tofree x (t :: r) = (if a =? x then 1 else 0) + tofree x r) ->
  Inv own ownd (t :: r) w ->
  heap w' = upd (heap w) a None -> next w' = next w ->
  Inv own ownd r w'.
Proof. intros P T I Hh Hn. destruct (head_free_live _ _ _ _ _ _ T I) as [c E].
  pose proof (live_lt _ _ _ _ _ _ I E) as Ha. destruct I as [H1 H2].
  pose proof (H2 a) as Za. unfold okcell, indeg, dindeg in Za. rewrite E, P, T in Za. rewrite N.eqb_refl in Za.
  assert (SC : forall sel, selc sel (Some c) = []).
  { intros sel. destruct c as [rc n|sz]; cbn [selc]; [|reflexivity]. destruct (N.eqb_spec rc 0); [reflexivity|]. lia. }
  assert (ID : forall sel x, refs sel (heap w') (next w') x = refs sel (heap w) (next w) x).
  { intros sel x. rewrite Hh, Hn.
    pose proof (refs_upd sel (heap w) (next w) a None x Ha) as Q.
    rewrite E, SC in Q. cbn [selc cnt] in Q. lia. }
  split.
  - intros x Hx. rewrite Hh. rewrite Hn in Hx. unfold upd. destruct (N.eqb_spec x a); [reflexivity|]. apply H1; assumption.
  - intros x. specialize (H2 x). unfold okcell, indeg, dindeg in *. rewrite !ID. rewrite P, T in H2.
    rewrite Hh. unfold upd. destruct (N.eqb_spec x a) as [Heq|Hne].
    + subst x. destruct c as [rc n|sz]; intuition lia.
    + destruct (N.eqb_spec a x); [congruence|]. exact H2. Qed.

(* ------------------------------------------------------------------------------------------ *)
(* the primitives of the monad, once and for all                                              *)
(* ------------------------------------------------------------------------------------------ *)

Definition w_rd (a : addr) (w : world) : world :=
  mkworld (heap w) (next w) (nreq w) (trace w) (AccR a :: alog w).
Definition w_wr (a : addr) (c : cell) (w : world) : world :=
  mkworld (upd (heap w) a (Some c)) (next w) (nreq w) (trace w) (AccW a :: alog w).
Definition w_free (p : option addr) (w : world) : world :=
  mkworld (match p with Some a => upd (heap w) a None | None => heap w end)
          (next w) (nreq w) (EvFree p :: trace w) (alog w).

Lemma rd_item_ret a w rc n w' :
  rd_item a w = Ret (rc, n) w' <-> heap w a = Some (CItem rc n) /\ w' = w_rd a w.
Proof. unfold rd_item, w_rd. destruct (heap w a) as [[rc0 n0|sz]|]; split; intros H.
  - inversion H; subst. split; reflexivity.
  - destruct H as [H ->]. inversion H; subst. reflexivity.
  - discriminate. - destruct H; discriminate. - discriminate. - destruct H; discriminate. Qed.

Lemma wr_item_ret a rc n w w' :
  wr_item a rc n w = Ret tt w' <->
  (exists rc0 n0, heap w a = Some (CItem rc0 n0)) /\ w' = w_wr a (CItem rc n) w.
Proof. unfold wr_item, w_wr. destruct (heap w a) as [[rc0 n0|sz]|]; split; intros H.
  - inversion H; subst. split; [eauto|reflexivity].
  - destruct H as [_ ->]. reflexivity.
  - discriminate. - destruct H as [(?&?&?) _]; discriminate.
  - discriminate. - destruct H as [(?&?&?) _]; discriminate. Qed.

Lemma free_some_ret a w w' :
  free (Some a) w = Ret tt w' <-> (exists c, heap w a = Some c) /\ w' = w_free (Some a) w.
Proof. unfold free, w_free. destruct (heap w a) as [c|]; split; intros H.
  - inversion H; subst. split; [eauto|reflexivity].
  - destruct H as [_ ->]. reflexivity.
  - discriminate. - destruct H as [(?&?) _]; discriminate. Qed.

Lemma free_none_ret w : free None w = Ret tt (w_free None w).
Proof. reflexivity. Qed.

Lemma drain_nil fuel w : drain fuel [] w = Ret tt w.
Proof. destruct fuel; reflexivity. Qed.

Lemma drain_decref_eq f a r w rc n : heap w a = Some (CItem rc n) -> 0 < rc ->
  drain (S f) (TDecref a :: r) w =
  if rc =? 1 then drain f (release_tasks a n ++ r) (w_wr a (CItem 0 n) (w_rd a w))
  else drain f r (w_wr a (CItem (rc - 1) n) (w_rd a w)).
Proof. intros E Hrc. cbn [drain]. unfold bind at 1. unfold rd_item. rewrite E. cbn [fst snd].
  unfold bind at 1. assert (L : (0 <? rc) = true) by (apply N.ltb_lt; assumption). rewrite L.
  cbn [assert_]. unfold ret at 1.
  destruct (rc =? 1) eqn:E1.
  - unfold bind at 1. unfold wr_item. cbn [heap]. rewrite E. reflexivity.
  - unfold bind at 1. unfold wr_item. cbn [heap]. rewrite E.
    rewrite sub64_le by lia. reflexivity. Qed.

Lemma drain_free_data_eq f a r w c : heap w a = Some c ->
  drain (S f) (TFreeData (Some a) :: r) w = drain f r (w_free (Some a) w).
Proof. intros E. cbn [drain]. unfold bind, free. rewrite E. reflexivity. Qed.
Lemma drain_free_item_eq f a r w c : heap w a = Some c ->
  drain (S f) (TFreeItem a :: r) w = drain f r (w_free (Some a) w).
Proof. intros E. cbn [drain]. unfold bind, free. rewrite E. reflexivity. Qed.
Lemma drain_free_none_eq f r w :
  drain (S f) (TFreeData None :: r) w = drain f r (w_free None w).
Proof. reflexivity. Qed.

(* ------------------------------------------------------------------------------------------ *)
(* termination measure: every step removes one task; a release adds at most 3 + node_links     *)
(* tasks and turns one counted item into a zombie                                              *)
(* ------------------------------------------------------------------------------------------ *)

Definition wtc (c : option cell) : N :=
  match c with
  | Some (CItem rc n) => if rc =? 0 then 0 else 4 + node_links n
  | _ => 0
  end.
Definition mu (ts : list task) (w : world) : N :=
  len ts + sumN (next w) (fun b => wtc (heap w b)).

Lemma len_map {A B} (f : A -> B) l : len (map f l) = len l.
Proof. unfold len. rewrite map_length. reflexivity. Qed.
Lemma len_pairs pairs : len (flat_map pair_tasks pairs) <= 2 * len pairs.
Proof. induction pairs as [|[k [v|]] ps IH]; cbn [flat_map pair_tasks fst snd app];
  rewrite ?len_cons, ?len_nil in *; lia. Qed.
Lemma len_release a n : len (release_tasks a n) <= 3 + node_links n.
Proof.
  destruct n as [neg iw v|fw bits|v|text data bytes|text hdr arr cap chunks|indef data al elems|indef data al pairs|v [c|]];
    cbn [release_tasks node_links]; fold pair_tasks;
    rewrite ?len_app, ?len_map, ?len_cons, ?len_nil; try lia.
  pose proof (len_pairs pairs). lia.
Qed.

(* ------------------------------------------------------------------------------------------ *)
(* what a run does to the allocator trace and to the set of live addresses                     *)
(* ------------------------------------------------------------------------------------------ *)

Definition freed (evs : list event) : list addr :=
  flat_map (fun e => match e with EvFree (Some a) => [a] | _ => [] end) evs.
Definition is_free (e : event) : Prop := match e with EvFree _ => True | _ => False end.

(* [Seg w evs w']: between w and w' the allocator saw exactly the events evs (newest first), all of
   them frees; every block freed was live in w and is freed once; w' lives exactly where w lived
   minus the freed blocks; nothing was allocated *)
Definition Seg (w : world) (evs : list event) (w' : world) : Prop :=
  trace w' = evs ++ trace w /\ next w' = next w /\ nreq w' = nreq w /\
  Forall is_free evs /\ NoDup (freed evs) /\
  (forall x, In x (freed evs) -> heap w x <> None) /\
  (forall x, heap w' x = None <-> heap w x = None \/ In x (freed evs)).

Lemma freed_in p evs : In (EvFree (Some p)) evs <-> In p (freed evs).
Proof. unfold freed. rewrite in_flat_map. split.
  - intros H. exists (EvFree (Some p)). split; [assumption|left; reflexivity].
  - intros (e & He & Hp). destruct e as [| |[q|]]; cbn [In] in Hp; try contradiction.
    destruct Hp as [Hp|[]]. subst. assumption. Qed.

Lemma NoDup_app_intro {A} (l1 l2 : list A) :
  NoDup l1 -> NoDup l2 -> (forall x, In x l1 -> ~ In x l2) -> NoDup (l1 ++ l2).
Proof. induction l1 as [|y l1 IH]; intros N1 N2 D; [exact N2|]. cbn [app]. inversion N1; subst.
  constructor.
  - rewrite in_app_iff. intros [H|H]; [contradiction|]. apply (D y); [left; reflexivity|assumption].
  - apply IH; [assumption|assumption|]. intros x Hx. apply D. right. assumption. Qed.

Lemma Seg_refl w : Seg w [] w.
Proof. repeat split; try reflexivity; try constructor; cbn [freed flat_map In]; try tauto. Qed.

Lemma Seg_trans w e1 w1 e2 w2 : Seg w e1 w1 -> Seg w1 e2 w2 -> Seg w (e2 ++ e1) w2.
Proof. intros (T1 & N1 & Q1 & F1 & D1 & L1 & H1) (T2 & N2 & Q2 & F2 & D2 & L2 & H2).
  assert (FA : freed (e2 ++ e1) = freed e2 ++ freed e1) by (unfold freed; apply flat_map_app).
  unfold Seg. rewrite FA. repeat split.
  - rewrite T2, T1. apply app_assoc.
  - congruence. - congruence.
  - apply Forall_app. split; assumption.
  - apply NoDup_app_intro; [assumption|assumption|]. intros x Hx Hx1. apply (L2 x Hx). apply H1. right. assumption.
  - intros x Hx. apply in_app_iff in Hx. destruct Hx as [Hx|Hx]; [|apply L1; assumption].
    intros Hn. apply (L2 x Hx). apply H1. left. assumption.
  - rewrite H2, H1, in_app_iff. tauto.
  - rewrite H2, H1, in_app_iff. tauto. Qed.

Lemma Seg_wr a c0 c w : heap w a = Some c0 -> Seg w [] (w_wr a c (w_rd a w)).
Proof. intros E. unfold Seg, w_wr, w_rd. cbn [trace next nreq heap freed flat_map app In].
  split; [reflexivity|]. split; [reflexivity|]. split; [reflexivity|]. split; [constructor|].
  split; [constructor|]. split; [intros x []|]. intros x. unfold upd.
  destruct (N.eqb_spec x a) as [Heq|Hne]; [subst x|tauto].
  split; [discriminate|]. intros [H|[]]. congruence. Qed.

Lemma Seg_free_none w : Seg w [EvFree None] (w_free None w).
Proof. unfold Seg, w_free. cbn [trace next nreq heap freed flat_map app In].
  split; [reflexivity|]. split; [reflexivity|]. split; [reflexivity|].
  split; [constructor; [exact I|constructor]|].
  split; [constructor|]. split; [intros x []|]. intros x. tauto. Qed.

Lemma Seg_free_some a c w : heap w a = Some c -> Seg w [EvFree (Some a)] (w_free (Some a) w).
Proof. intros E. unfold Seg, w_free. cbn [trace next nreq heap freed flat_map app In].
  split; [reflexivity|]. split; [reflexivity|]. split; [reflexivity|].
  split; [constructor; [exact I|constructor]|].
  split; [constructor; [intros []|constructor]|].
  split; [intros x [H|[]]; subst; congruence|]. intros x. unfold upd.
  destruct (N.eqb_spec x a) as [Heq|Hne]; [subst x; tauto|].
  split; [tauto|]. intros [H|[H|[]]]; [assumption|congruence]. Qed.

(* ------------------------------------------------------------------------------------------ *)
(* one step of the task machine                                                               *)
(* ------------------------------------------------------------------------------------------ *)

Lemma mu_upd ts ts' w w' a c :
  a < next w -> heap w' = upd (heap w) a c -> next w' = next w ->
  mu ts' w' + wtc (heap w a) + len ts = mu ts w + wtc c + len ts'.
Proof. intros Ha Hh Hn. unfold mu. rewrite Hh, Hn.
  pose proof (sumN_upd_heap wtc (heap w) (next w) a c Ha). lia. Qed.

Lemma drain_step own ownd t r w : Inv own ownd (t :: r) w ->
  exists ts' w' evs,
    (forall f, drain (S f) (t :: r) w = drain f ts' w') /\
    Inv own ownd ts' w' /\ mu ts' w' < mu (t :: r) w /\ Seg w evs w'.
Proof. intros I. destruct t as [a|[a|]|a].
  - destruct (head_decref_live _ _ _ _ _ I) as (rc & n & E & Hrc).
    pose proof (live_lt _ _ _ _ _ _ I E) as Ha.
    destruct (N.eqb_spec rc 1) as [R1|R1].
    + subst rc. exists (release_tasks a n ++ r), (w_wr a (CItem 0 n) (w_rd a w)), [].
      split; [intros f; rewrite (drain_decref_eq f a r w 1 n E Hrc); reflexivity|].
      split; [eapply step_eq1; [exact I|exact E|reflexivity|reflexivity]|].
      split; [|eapply Seg_wr; exact E].
      pose proof (mu_upd (TDecref a :: r) (release_tasks a n ++ r) w (w_wr a (CItem 0 n) (w_rd a w)) a
                         (Some (CItem 0 n)) Ha eq_refl eq_refl) as M.
      rewrite E in M. cbn [wtc N.eqb Pos.eqb] in M. rewrite len_app, len_cons in M.
      pose proof (len_release a n). lia.
    + exists r, (w_wr a (CItem (rc - 1) n) (w_rd a w)), [].
      split; [intros f; rewrite (drain_decref_eq f a r w rc n E Hrc); destruct (N.eqb_spec rc 1); [contradiction|reflexivity]|].
      split; [eapply step_gt1; [exact I|exact E|lia|reflexivity|reflexivity]|].
      split; [|eapply Seg_wr; exact E].
      pose proof (mu_upd (TDecref a :: r) r w (w_wr a (CItem (rc - 1) n) (w_rd a w)) a
                         (Some (CItem (rc - 1) n)) Ha eq_refl eq_refl) as M.
      rewrite E in M. cbn [wtc] in M. rewrite len_cons in M.
      destruct (N.eqb_spec rc 0); [lia|]. destruct (N.eqb_spec (rc - 1) 0); [lia|]. lia.
  - assert (T : forall x, tofree x (TFreeData (Some a) :: r) = (if a =? x then 1 else 0) + tofree x r) by reflexivity.
    destruct (head_free_live _ _ _ _ _ _ T I) as [c E]. pose proof (live_lt _ _ _ _ _ _ I E) as Ha.
    exists r, (w_free (Some a) w), [EvFree (Some a)].
    split; [intros f; apply (drain_free_data_eq f a r w c E)|].
    split; [eapply (step_free own ownd _ a r w); [|exact T|exact I|reflexivity|reflexivity]; reflexivity|].
    split; [|eapply Seg_free_some; exact E].
    pose proof (mu_upd (TFreeData (Some a) :: r) r w (w_free (Some a) w) a None Ha eq_refl eq_refl) as M.
    cbn [wtc] in M. rewrite len_cons in M. lia.
  - exists r, (w_free None w), [EvFree None].
    split; [intros f; apply drain_free_none_eq|].
    split; [eapply Inv_ext; [| | | |exact I]; reflexivity|].
    split; [|apply Seg_free_none].
    unfold mu, w_free. cbn [heap next]. rewrite len_cons. lia.
  - assert (T : forall x, tofree x (TFreeItem a :: r) = (if a =? x then 1 else 0) + tofree x r) by reflexivity.
    destruct (head_free_live _ _ _ _ _ _ T I) as [c E]. pose proof (live_lt _ _ _ _ _ _ I E) as Ha.
    exists r, (w_free (Some a) w), [EvFree (Some a)].
    split; [intros f; apply (drain_free_item_eq f a r w c E)|].
    split; [eapply (step_free own ownd _ a r w); [|exact T|exact I|reflexivity|reflexivity]; reflexivity|].
    split; [|eapply Seg_free_some; exact E].
    pose proof (mu_upd (TFreeItem a :: r) r w (w_free (Some a) w) a None Ha eq_refl eq_refl) as M.
    cbn [wtc] in M. rewrite len_cons in M. lia.
Qed.

(* ------------------------------------------------------------------------------------------ *)
(* the run                                                                                    *)
(* ------------------------------------------------------------------------------------------ *)

Theorem drain_run own ownd : forall fuel ts w, Inv own ownd ts w ->
  (forall k, drain fuel ts w = Fault k -> k = FFuel) /\
  (forall w', drain fuel ts w = Ret tt w' -> Inv own ownd [] w' /\ exists evs, Seg w evs w') /\
  (mu ts w <= N.of_nat fuel -> exists w', drain fuel ts w = Ret tt w').
Proof.
  induction fuel as [|f IH]; intros ts w I.
  - destruct ts as [|t r].
    + cbn [drain]. unfold ret. split; [discriminate|]. split.
      * intros w' H. inversion H; subst. split; [assumption|]. exists []. apply Seg_refl.
      * intros _. eauto.
    + cbn [drain]. unfold fail. split; [intros k H; inversion H; reflexivity|]. split; [discriminate|].
      unfold mu. rewrite len_cons. cbn [N.of_nat]. lia.
  - destruct ts as [|t r].
    + cbn [drain]. unfold ret. split; [discriminate|]. split.
      * intros w' H. inversion H; subst. split; [assumption|]. exists []. apply Seg_refl.
      * intros _. eauto.
    + destruct (drain_step _ _ _ _ _ I) as (ts' & w1 & evs & Heq & I1 & Hmu & S1). rewrite Heq.
      destruct (IH ts' w1 I1) as (F & R & T). split; [exact F|]. split.
      * intros w' H. destruct (R w' H) as (I' & evs' & S'). split; [exact I'|].
        exists (evs' ++ evs). eapply Seg_trans; eassumption.
      * intros Hm. apply T. rewrite Nat2N.inj_succ in Hm. lia.
Qed.

(* Theorem 1a: the invariant is preserved until the task list is empty *)
Theorem drain_preserves own ownd ts w : Inv own ownd ts w ->
  forall fuel w', drain fuel ts w = Ret tt w' -> Inv own ownd [] w'.
Proof. intros I fuel w' H. destruct (drain_run own ownd fuel ts w I) as (_ & R & _). apply (R w' H). Qed.

(* Theorem 1b: no touch after release (FUseAfterFree), no double release (FBadFree), no failed
   CBOR_ASSERT(refcount > 0) (FAssert 1), no type confusion (FType): the only fault the model can report
   is its own fuel running out *)
Theorem drain_no_fault own ownd ts w : Inv own ownd ts w ->
  forall fuel k, drain fuel ts w = Fault k -> k = FFuel.
Proof. intros I fuel k H. destruct (drain_run own ownd fuel ts w I) as (F & _ & _). apply (F k H). Qed.

(* Theorem 1c: and with fuel at least the measure it does not run out *)
Theorem drain_total own ownd ts w fuel : Inv own ownd ts w -> mu ts w <= N.of_nat fuel ->
  exists w', drain fuel ts w = Ret tt w' /\ Inv own ownd [] w' /\ exists evs, Seg w evs w'.
Proof. intros I Hm. destruct (drain_run own ownd fuel ts w I) as (_ & R & T).
  destruct (T Hm) as [w' H]. exists w'. split; [exact H|]. apply (R w' H). Qed.

(* the fuel cbor_decref is given in the model is enough (for any world) *)
Lemma drain_fuel_eq w :
  N.of_nat (drain_fuel w) =
  2 + sumN (next w) (fun i => match heap w i with Some (CItem _ n) => 4 + node_links n | _ => 0 end).
Proof. unfold drain_fuel. rewrite N2Nat.id. generalize (next w) as m.
  induction m using N.peano_ind; [reflexivity|].
  rewrite sumN_succ, N.recursion_succ; [rewrite IHm; lia|reflexivity|].
  intros ? ? -> ? ? ->. reflexivity. Qed.

Theorem decref_fuel_enough a w : mu [TDecref a] w <= N.of_nat (drain_fuel w).
Proof. rewrite drain_fuel_eq. unfold mu. rewrite len_cons, len_nil.
  assert (sumN (next w) (fun b => wtc (heap w b)) <=
          sumN (next w) (fun i => match heap w i with Some (CItem _ n) => 4 + node_links n | _ => 0 end)).
  { apply sumN_le. intros i _. unfold wtc. destruct (heap w i) as [[rc n|sz]|]; try lia.
    destruct (rc =? 0); lia. }
  lia. Qed.

(* ------------------------------------------------------------------------------------------ *)
(* Theorem 2: cbor_decref                                                                     *)
(* ------------------------------------------------------------------------------------------ *)

(* the client hands one of its references to the machine *)
Lemma Inv_give own own' ownd a w :
  (forall x, own' x = own x + (if x =? a then 1 else 0)) ->
  Inv own' ownd [] w -> Inv own ownd [TDecref a] w.
Proof. intros O [H1 H2]. split; [exact H1|]. intros x. specialize (H2 x). specialize (O x).
  unfold okcell in *. cbn [pend tofree] in *.
  destruct (N.eqb_spec x a) as [Heq|Hne].
  - subst x. rewrite N.eqb_refl. destruct (heap w a) as [[rc nd|sz]|]; intuition lia.
  - destruct (N.eqb_spec a x) as [Heq|_]; [congruence|]. destruct (heap w x) as [[rc nd|sz]|]; intuition lia. Qed.

Theorem decref_ok own own' ownd a w :
  (forall x, own' x = own x + (if x =? a then 1 else 0)) ->
  Inv own' ownd [] w ->
  exists w', decref a w = Ret tt w' /\ Inv own ownd [] w' /\ exists evs, Seg w evs w'.
Proof. intros O I. unfold decref. apply (drain_total own ownd).
  - eapply Inv_give; eassumption.
  - apply decref_fuel_enough. Qed.

(* ------------------------------------------------------------------------------------------ *)
(* Theorem 3: every block is released exactly once                                            *)
(* ------------------------------------------------------------------------------------------ *)

Theorem released_exactly_once own ownd ts w fuel w' :
  Inv own ownd ts w -> drain fuel ts w = Ret tt w' ->
  exists evs,
    trace w' = evs ++ trace w /\                                   (* the run's trace segment, newest first *)
    Forall is_free evs /\                                          (* nothing is allocated *)
    (forall p, In (EvFree (Some p)) evs -> heap w p <> None) /\    (* only live blocks are released *)
    NoDup (freed evs) /\                                           (* none of them twice *)
    (forall x, heap w' x <> None <-> heap w x <> None /\ ~ In (EvFree (Some x)) evs).
                                                                   (* what stays live is what was live and not released *)
Proof. intros I H. destruct (drain_run own ownd fuel ts w I) as (_ & R & _).
  destruct (R w' H) as (_ & evs & (T & _ & _ & F & D & L & HH)). exists evs.
  split; [exact T|]. split; [exact F|]. split; [intros p Hp; apply L, freed_in, Hp|]. split; [exact D|].
  intros x. rewrite freed_in. rewrite HH. tauto. Qed.

(* in particular the machine can only fault for lack of fuel and, started by cbor_decref, does not *)
Corollary decref_released_exactly_once own own' ownd a w :
  (forall x, own' x = own x + (if x =? a then 1 else 0)) ->
  Inv own' ownd [] w ->
  exists w' evs, decref a w = Ret tt w' /\ Inv own ownd [] w' /\
    trace w' = evs ++ trace w /\ Forall is_free evs /\
    (forall p, In (EvFree (Some p)) evs -> heap w p <> None) /\ NoDup (freed evs) /\
    (forall x, heap w' x <> None <-> heap w x <> None /\ ~ In (EvFree (Some x)) evs).
Proof. intros O I. destruct (decref_ok own own' ownd a w O I) as (w' & H & I' & _).
  destruct (released_exactly_once own ownd [TDecref a] w (drain_fuel w) w' (Inv_give _ _ _ _ _ O I) H)
    as (evs & P). exists w', evs. split; [exact H|]. split; [exact I'|]. exact P. Qed.

(* ------------------------------------------------------------------------------------------ *)
(* Theorem 4: no leak                                                                         *)
(* ------------------------------------------------------------------------------------------ *)

(* the containment graph of live items has no cycle *)
Definition acyclic (w : world) : Prop :=
  exists rank : addr -> nat,
    forall a rc n, heap w a = Some (CItem rc n) -> rc <> 0 ->
    forall k, In k (kids n) -> (rank k < rank a)%nat.

Lemma refs_pos sel h nx x : 0 < refs sel h nx x ->
  exists b rc n, b < nx /\ h b = Some (CItem rc n) /\ rc <> 0 /\ In x (sel n).
Proof. intros H. apply sumN_pos in H. destruct H as (b & Hb & Hc). exists b.
  destruct (h b) as [[rc n|sz]|]; cbn [selc cnt] in Hc; try lia.
  destruct (N.eqb_spec rc 0); cbn [cnt] in Hc; [lia|]. exists rc, n. rewrite cnt_pos_in in Hc. auto. Qed.

Lemma rank_bound (rank : addr -> nat) m : exists R, forall b, b < m -> (rank b <= R)%nat.
Proof. induction m as [|n IHn] using N.peano_ind.
  - exists O. intros b Hb. lia.
  - destruct IHn as [R HR]. exists (Nat.max R (rank n)). intros b Hb.
    destruct (N.eq_dec b n) as [Heq|Hne]; [subst; lia|]. assert (rank b <= R)%nat by (apply HR; lia). lia. Qed.

Theorem no_leak own ownd w :
  Inv own ownd [] w -> (forall a, own a = 0) -> (forall a, ownd a = 0) -> acyclic w ->
  forall a, heap w a = None.
Proof. intros I O OD [rank AC]. pose proof I as [H1 H2].
  (* every live item has a live parent of larger rank *)
  assert (P : forall a rc n, heap w a = Some (CItem rc n) ->
              exists b rcb nb, heap w b = Some (CItem rcb nb) /\ (rank a < rank b)%nat).
  { intros a rc n E. pose proof (H2 a) as Z. unfold okcell in Z. rewrite E in Z. cbn [pend tofree] in Z.
    rewrite O in Z. assert (G : 0 < indeg w a) by (intuition lia).
    apply refs_pos in G. destruct G as (b & rcb & nb & _ & Eb & Rb & Kb).
    exists b, rcb, nb. split; [exact Eb|]. eapply AC; eassumption. }
  assert (Q : forall m a rc n, heap w a = Some (CItem rc n) ->
              exists b rcb nb, heap w b = Some (CItem rcb nb) /\ (rank a + m <= rank b)%nat).
  { induction m as [|m IHm]; intros a rc n E.
    - exists a, rc, n. split; [exact E|lia].
    - destruct (IHm a rc n E) as (b & rcb & nb & Eb & Hb).
      destruct (P b rcb nb Eb) as (c & rcc & nc & Ec & Hc). exists c, rcc, nc. split; [exact Ec|lia]. }
  destruct (rank_bound rank (next w)) as [R HR].
  assert (NI : forall a rc n, heap w a <> Some (CItem rc n)).
  { intros a rc n E. destruct (Q (S R) a rc n E) as (b & rcb & nb & Eb & Hb).
    pose proof (live_lt _ _ _ _ _ _ I Eb) as Lb. specialize (HR b Lb). lia. }
  intros a. destruct (heap w a) as [[rc n|sz]|] eqn:E; [exfalso; eapply NI; exact E| |reflexivity].
  exfalso. pose proof (H2 a) as Z. unfold okcell in Z. rewrite E in Z. cbn [pend tofree] in Z. rewrite OD in Z.
  assert (G : 0 < dindeg w a) by lia. apply refs_pos in G. destruct G as (b & rcb & nb & _ & Eb & _).
  eapply NI; exact Eb. Qed.

(* ------------------------------------------------------------------------------------------ *)
(* Theorem 5: the simple reference operations (base cases of C04_step / C06)                  *)
(* ------------------------------------------------------------------------------------------ *)

(* with no task pending every live item has a positive count *)
Lemma Inv_nil_pos own ownd w a rc n : Inv own ownd [] w -> heap w a = Some (CItem rc n) -> 0 < rc.
Proof. intros [_ H2] E. specialize (H2 a). unfold okcell in H2. rewrite E in H2. cbn [tofree pend] in H2.
  intuition lia. Qed.

(* the kids of a live non-zombie item are live non-zombie items (clause (3) of the informal invariant) *)
Lemma Inv_kid_live own ownd ts w b rc n k :
  Inv own ownd ts w -> heap w b = Some (CItem rc n) -> rc <> 0 -> In k (kids n) ->
  exists rck nk, heap w k = Some (CItem rck nk) /\ 0 < rck.
Proof. intros I E R K. pose proof (live_lt _ _ _ _ _ _ I E) as Lb. destruct I as [_ H2].
  pose proof (refs_ge kids (heap w) (next w) b k Lb) as G. rewrite E in G. cbn [selc] in G.
  destruct (N.eqb_spec rc 0); [contradiction|]. apply cnt_pos_in in K.
  specialize (H2 k). unfold okcell, indeg in H2.
  destruct (heap w k) as [[rck nk|sz]|]; [|lia|lia]. exists rck, nk. split; [reflexivity|]. intuition lia. Qed.

(* ... and its data blocks are live data blocks it owns alone *)
Lemma Inv_dblock_live own ownd ts w b rc n d :
  Inv own ownd ts w -> heap w b = Some (CItem rc n) -> rc <> 0 -> In d (dblocks n) ->
  (exists sz, heap w d = Some (CData sz)) /\ cnt d (dblocks n) = 1 /\ dindeg w d = 1 /\ ownd d = 0 /\ tofree d ts = 0.
Proof. intros I E R K. pose proof (live_lt _ _ _ _ _ _ I E) as Lb. destruct I as [_ H2].
  pose proof (refs_ge dblocks (heap w) (next w) b d Lb) as G. rewrite E in G. cbn [selc] in G.
  destruct (N.eqb_spec rc 0); [contradiction|]. apply cnt_pos_in in K.
  specialize (H2 d). unfold okcell, dindeg in *.
  destruct (heap w d) as [[rck nk|sz]|]; [lia| |lia]. split; [eauto|]. lia. Qed.

Lemma step_incr own ownd a w w' rc n :
  Inv own ownd [] w -> heap w a = Some (CItem rc n) ->
  heap w' = upd (heap w) a (Some (CItem (rc + 1) n)) -> next w' = next w ->
  Inv (fun x => own x + (if x =? a then 1 else 0)) ownd [] w'.
Proof. intros I E Hh Hn. pose proof (live_lt _ _ _ _ _ _ I E) as Ha.
  pose proof (Inv_nil_pos _ _ _ _ _ _ I E) as Hrc. destruct I as [H1 H2].
  assert (ID : forall sel x, refs sel (heap w') (next w') x = refs sel (heap w) (next w) x).
  { intros sel x. rewrite Hh, Hn.
    pose proof (refs_upd sel (heap w) (next w) a (Some (CItem (rc + 1) n)) x Ha) as P.
    rewrite E in P. cbn [selc] in P.
    destruct (N.eqb_spec (rc + 1) 0); [lia|]. destruct (N.eqb_spec rc 0); [lia|]. lia. }
  split.
  - intros x Hx. rewrite Hh. rewrite Hn in Hx. unfold upd. destruct (N.eqb_spec x a); [lia|]. apply H1; assumption.
  - intros x. specialize (H2 x). unfold okcell, indeg, dindeg in *. rewrite !ID. rewrite Hh. unfold upd.
    cbn [pend tofree] in *. destruct (N.eqb_spec x a) as [Heq|Hne].
    + subst x. rewrite E in H2. intuition lia.
    + rewrite N.add_0_r. exact H2. Qed.

(* cbor_incref: the client gains one reference.  The count is a size_t: the hypothesis rc + 1 < 2^64
   is the C precondition that the count does not wrap *)
Theorem incref_preserves own ownd a w rc n :
  Inv own ownd [] w -> heap w a = Some (CItem rc n) -> rc + 1 < W64 ->
  exists w', incref a w = Ret a w' /\
    heap w' = upd (heap w) a (Some (CItem (rc + 1) n)) /\ next w' = next w /\ trace w' = trace w /\
    Inv (fun x => own x + (if x =? a then 1 else 0)) ownd [] w'.
Proof. intros I E Hrc. exists (w_wr a (CItem (rc + 1) n) (w_rd a w)).
  split.
  - unfold incref, bind, rd_item. rewrite E. cbn [fst snd]. unfold wr_item. cbn [heap]. rewrite E.
    unfold ret. rewrite wrap64_small by assumption. reflexivity.
  - split; [reflexivity|]. split; [reflexivity|]. split; [reflexivity|].
    eapply step_incr; [exact I|exact E|reflexivity|reflexivity]. Qed.

(* the allocator *)
Lemma malloc_ret refuse sz c w r w' : malloc refuse sz c w = Ret r w' ->
  (r = None /\ heap w' = heap w /\ next w' = next w /\ trace w' = EvMalloc sz None :: trace w) \/
  (r = Some (next w) /\ heap w' = upd (heap w) (next w) (Some c) /\ next w' = next w + 1 /\
   trace w' = EvMalloc sz (Some (next w)) :: trace w).
Proof. unfold malloc. destruct (refuse (nreq w) sz); intros H; inversion H; subst; cbn [heap next trace]; [left|right]; auto. Qed.

Lemma refs_alloc sel h nx c x :
  refs sel (upd h nx c) (nx + 1) x = refs sel h nx x + cnt x (selc sel c).
Proof. unfold refs. rewrite N.add_1_r, sumN_succ. unfold upd at 2. rewrite N.eqb_refl. f_equal.
  apply sumN_ext. intros i Hi. unfold upd. destruct (N.eqb_spec i nx); [lia|reflexivity]. Qed.

(* a fresh item holding no references, owned by the client (count 1) *)
Lemma Inv_alloc_item own ownd ts w w' n :
  Inv own ownd ts w -> kids n = [] -> dblocks n = [] ->
  heap w' = upd (heap w) (next w) (Some (CItem 1 n)) -> next w' = next w + 1 ->
  Inv (fun x => if x =? next w then 1 else own x) ownd ts w'.
Proof. intros [H1 H2] K D Hh Hn.
  assert (ID : forall x, indeg w' x = indeg w x /\ dindeg w' x = dindeg w x).
  { intros x. unfold indeg, dindeg. rewrite Hh, Hn, !refs_alloc. cbn [selc N.eqb Pos.eqb]. rewrite K, D. cbn [cnt]. lia. }
  pose proof (H2 (next w)) as Z. unfold okcell in Z. rewrite (H1 (next w)) in Z by lia.
  split.
  - intros x Hx. rewrite Hh. rewrite Hn in Hx. unfold upd. destruct (N.eqb_spec x (next w)); [lia|]. apply H1. lia.
  - intros x. specialize (H2 x). destruct (ID x) as [IK IDb]. unfold okcell in *. rewrite IK, IDb. rewrite Hh. unfold upd.
    destruct (N.eqb_spec x (next w)) as [Heq|Hne]; [subst x; intuition lia|exact H2]. Qed.

(* a fresh data block owned by the client itself (e.g. an output buffer) *)
Lemma Inv_alloc_data own ownd ts w w' sz :
  Inv own ownd ts w ->
  heap w' = upd (heap w) (next w) (Some (CData sz)) -> next w' = next w + 1 ->
  Inv own (fun x => if x =? next w then 1 else ownd x) ts w'.
Proof. intros [H1 H2] Hh Hn.
  assert (ID : forall x, indeg w' x = indeg w x /\ dindeg w' x = dindeg w x).
  { intros x. unfold indeg, dindeg. rewrite Hh, Hn, !refs_alloc. cbn [selc cnt]. lia. }
  pose proof (H2 (next w)) as Z. unfold okcell in Z. rewrite (H1 (next w)) in Z by lia.
  split.
  - intros x Hx. rewrite Hh. rewrite Hn in Hx. unfold upd. destruct (N.eqb_spec x (next w)); [lia|]. apply H1. lia.
  - intros x. specialize (H2 x). destruct (ID x) as [IK IDb]. unfold okcell in *. rewrite IK, IDb. rewrite Hh. unfold upd.
    destruct (N.eqb_spec x (next w)) as [Heq|Hne]; [subst x; intuition lia|exact H2]. Qed.

(* what a constructor of a reference-free item guarantees: refused -> nothing changed; granted -> a fresh
   address, owned once by the client *)
Definition fresh_item_post (own ownd : addr -> N) (w : world) (r : option addr) (w' : world) : Prop :=
  match r with
  | None => heap w' = heap w /\ next w' = next w /\ Inv own ownd [] w'
  | Some a => a = next w /\ heap w a = None /\ own a = 0 /\
              Inv (fun x => if x =? a then 1 else own x) ownd [] w'
  end.

Lemma malloc_item_preserves refuse own ownd sz n w r w' :
  kids n = [] -> dblocks n = [] ->
  Inv own ownd [] w -> malloc refuse sz (CItem 1 n) w = Ret r w' -> fresh_item_post own ownd w r w'.
Proof. intros K D I H. apply malloc_ret in H. destruct H as [(-> & Hh & Hn & _)|(-> & Hh & Hn & _)]; cbn [fresh_item_post].
  - split; [exact Hh|]. split; [exact Hn|]. eapply Inv_ext; [exact Hh|exact Hn| | |exact I]; reflexivity.
  - split; [reflexivity|]. pose proof I as [H1 H2]. split; [apply H1; lia|].
    split; [specialize (H2 (next w)); unfold okcell in H2; rewrite (H1 (next w)) in H2 by lia; tauto|].
    eapply Inv_alloc_item; eassumption. Qed.

Theorem build_int_preserves refuse own ownd neg iw v w r w' :
  Inv own ownd [] w -> build_int refuse neg iw v w = Ret r w' -> fresh_item_post own ownd w r w'.
Proof. apply malloc_item_preserves; reflexivity. Qed.
Theorem build_float_preserves refuse own ownd fw bits w r w' :
  Inv own ownd [] w -> build_float refuse fw bits w = Ret r w' -> fresh_item_post own ownd w r w'.
Proof. apply malloc_item_preserves; reflexivity. Qed.
Theorem build_ctrl_preserves refuse own ownd v w r w' :
  Inv own ownd [] w -> build_ctrl refuse v w = Ret r w' -> fresh_item_post own ownd w r w'.
Proof. apply malloc_item_preserves; reflexivity. Qed.
(* the empty containers are reference-free too *)
Theorem new_indefinite_array_preserves refuse own ownd w r w' :
  Inv own ownd [] w -> new_indefinite_array refuse w = Ret r w' -> fresh_item_post own ownd w r w'.
Proof. apply malloc_item_preserves; reflexivity. Qed.
Theorem new_indefinite_map_preserves refuse own ownd w r w' :
  Inv own ownd [] w -> new_indefinite_map refuse w = Ret r w' -> fresh_item_post own ownd w r w'.
Proof. apply malloc_item_preserves; reflexivity. Qed.
Theorem new_tag_preserves refuse own ownd v w r w' :
  Inv own ownd [] w -> new_tag refuse v w = Ret r w' -> fresh_item_post own ownd w r w'.
Proof. apply malloc_item_preserves; reflexivity. Qed.
Theorem new_definite_string_preserves refuse own ownd text w r w' :
  Inv own ownd [] w -> new_definite_string refuse text w = Ret r w' -> fresh_item_post own ownd w r w'.
Proof. apply malloc_item_preserves; reflexivity. Qed.

(* the empty world satisfies the invariant *)
Lemma Inv_world0 : Inv (fun _ => 0) (fun _ => 0) [] world0.
Proof. split; [reflexivity|]. intros x. unfold okcell. cbn [heap world0 pend tofree].
  unfold indeg, dindeg, refs. cbn [heap next world0].
  change 1 with (N.succ 0). rewrite !sumN_succ, !sumN_0. cbn [selc cnt]. repeat split; reflexivity. Qed.

(* ------------------------------------------------------------------------------------------ *)
(* computing the reference counts of a concrete world                                         *)
(* ------------------------------------------------------------------------------------------ *)

Definition all_refs (sel : node -> list addr) (h : addr -> option cell) (nx : N) : list addr :=
  N.recursion [] (fun i acc => acc ++ selc sel (h i)) nx.
Lemma refs_all sel h nx x : refs sel h nx x = cnt x (all_refs sel h nx).
Proof. unfold refs, all_refs. induction nx as [|m IH] using N.peano_ind; [reflexivity|].
  rewrite sumN_succ, N.recursion_succ; [rewrite cnt_app, IH; reflexivity|reflexivity|].
  intros ? ? -> ? ? ->. reflexivity. Qed.

(* a sound (computable) check of the invariant for a concrete world *)
Definition okcellb (own ownd : addr -> N) (ts : list task) (w : world) (x : addr) : bool :=
  match heap w x with
  | None =>
      (own x =? 0) && (ownd x =? 0) && (indeg w x =? 0) && (dindeg w x =? 0) && (pend x ts =? 0) && (tofree x ts =? 0)
  | Some (CItem rc n) =>
      (ownd x =? 0) && (dindeg w x =? 0) &&
      (((rc =? 0) && (tofree x ts =? 1) && (own x =? 0) && (indeg w x =? 0) && (pend x ts =? 0)) ||
       ((0 <? rc) && (tofree x ts =? 0) && (rc =? own x + indeg w x + pend x ts)))
  | Some (CData _) =>
      (own x =? 0) && (indeg w x =? 0) && (pend x ts =? 0) && (ownd x + dindeg w x + tofree x ts =? 1)
  end.
Lemma okcellb_ok own ownd ts w x : okcellb own ownd ts w x = true -> okcell own ownd ts w x.
Proof. unfold okcellb, okcell. destruct (heap w x) as [[rc n|sz]|]; intros H; lia. Qed.

Definition allN (n : N) (f : N -> bool) : bool := N.recursion true (fun i acc => acc && f i) n.
Lemma allN_forall n f : allN n f = true -> forall i, i < n -> f i = true.
Proof. unfold allN. induction n as [|m IH] using N.peano_ind; intros H i Hi; [lia|].
  rewrite N.recursion_succ in H; [|reflexivity|intros ? ? -> ? ? ->; reflexivity].
  apply andb_true_iff in H. destruct H as [H1 H2].
  destruct (N.eq_dec i m) as [Heq|Hne]; [subst; assumption|]. apply IH; [assumption|lia]. Qed.

Lemma cnt_notin x l : ~ In x l -> cnt x l = 0.
Proof. intros H. destruct (N.eq_dec (cnt x l) 0) as [|NZ]; [assumption|]. exfalso. apply H, cnt_pos_in. lia. Qed.

Theorem Inv_check own ownd ts w :
  (forall a, next w <= a -> heap w a = None) ->
  (forall a, next w <= a -> own a = 0 /\ ownd a = 0 /\ pend a ts = 0 /\ tofree a ts = 0) ->
  forallb (fun a => a <? next w) (all_refs kids (heap w) (next w)) = true ->
  forallb (fun a => a <? next w) (all_refs dblocks (heap w) (next w)) = true ->
  allN (next w) (okcellb own ownd ts w) = true ->
  Inv own ownd ts w.
Proof. intros H1 HO FK FD HA. split; [exact H1|]. intros x.
  destruct (N.lt_ge_cases x (next w)) as [L|G].
  - apply okcellb_ok. apply (allN_forall _ _ HA x L).
  - unfold okcell. rewrite (H1 x G). destruct (HO x G) as (O1 & O2 & O3 & O4).
    assert (Z : forall sel, forallb (fun a => a <? next w) (all_refs sel (heap w) (next w)) = true ->
                            refs sel (heap w) (next w) x = 0).
    { intros sel F. rewrite refs_all. apply cnt_notin. intros HI.
      rewrite forallb_forall in F. specialize (F x HI). apply N.ltb_lt in F. lia. }
    unfold indeg, dindeg. rewrite (Z kids FK), (Z dblocks FD). repeat split; assumption. Qed.

(* ------------------------------------------------------------------------------------------ *)
(* Non-vacuity: concrete worlds built by the constructors satisfy the invariant, and           *)
(* releasing the client's references empties the heap                                          *)
(* ------------------------------------------------------------------------------------------ *)

Definition never : N -> N -> bool := fun _ _ => false.
Definition must (o : option addr) : M addr := match o with Some a => ret a | None => fail FNull end.
Definition world_of {A} (m : M A) : world := match m world0 with Ret _ w => w | Fault _ => world0 end.

(* an array [i1; i2] and a second array [i2] sharing i2; the client keeps the two arrays only *)
Definition ex_prog : M (addr * addr) :=
  i1 <- (build_int never false I8 7 >>= must) ;;
  i2 <- (build_int never false I8 9 >>= must) ;;
  a1 <- (new_definite_array never 2 >>= must) ;;
  array_push never a1 i1 ;;; array_push never a1 i2 ;;;
  a2 <- (new_definite_array never 1 >>= must) ;;
  array_push never a2 i2 ;;;
  decref i1 ;;; decref i2 ;;;
  ret (a1, a2).
Definition ex_run : world := world_of ex_prog.
Definition ex_own (x : addr) : N := if x =? 3 then 1 else if x =? 5 then 1 else 0.

Example ex_shape :
  match ex_prog world0 with
  | Ret r w => r = (3, 5) /\ next w = 7 /\
      map (heap w) [1; 2; 3; 4; 5; 6] =
        [Some (CItem 1 (NInt false I8 7)); Some (CItem 2 (NInt false I8 9));
         Some (CItem 1 (NArr false (Some 4) 2 [1; 2])); Some (CData 16);
         Some (CItem 1 (NArr false (Some 6) 1 [2])); Some (CData 8)]
  | Fault _ => False
  end.
Proof. vm_compute. repeat split. Qed.

Ltac heap_above :=
  let x := fresh "x" in let Hx := fresh "Hx" in let p := fresh "p" in
  intros x Hx; destruct x as [|p]; [vm_compute in Hx; try discriminate; try (exfalso; apply Hx; reflexivity)|];
  do 5 (try (destruct p as [p|p|])); vm_compute;
  try reflexivity; exfalso; vm_compute in Hx; apply Hx; reflexivity.

Example ex_inv : Inv ex_own (fun _ => 0) [] ex_run.
Proof. apply Inv_check.
  - heap_above.
  - intros a Ha. change (next ex_run) with 7 in Ha. unfold ex_own. cbn [pend tofree].
    destruct (N.eqb_spec a 3); [lia|]. destruct (N.eqb_spec a 5); [lia|]. auto.
  - vm_compute. reflexivity.
  - vm_compute. reflexivity.
  - vm_compute. reflexivity.
Qed.

Example ex_acyclic : acyclic ex_run.
Proof. exists (fun x => if x =? 3 then 1%nat else if x =? 5 then 1%nat else 0%nat).
  intros a rc n E R k K.
  assert (L : a < 7) by (destruct (N.lt_ge_cases a 7) as [|G]; [assumption|]; destruct ex_inv as [H1 _]; rewrite (H1 a G) in E; discriminate).
  assert (C : a = 0 \/ a = 1 \/ a = 2 \/ a = 3 \/ a = 4 \/ a = 5 \/ a = 6) by lia.
  destruct C as [C|[C|[C|[C|[C|[C|C]]]]]]; subst a; vm_compute in E; inversion E; subst; cbn [kids In] in K;
    try contradiction; destruct K as [K|K]; try (subst k; vm_compute; lia); try contradiction;
    destruct K as [K|K]; try (subst k; vm_compute; lia); contradiction.
Qed.

(* the theorems apply: dropping the first array is fault-free, keeps the invariant (the shared integer
   survives with count 1) ... *)
Example ex_decref_first :
  exists w', decref 3 ex_run = Ret tt w' /\
             Inv (fun x => if x =? 5 then 1 else 0) (fun _ => 0) [] w'.
Proof. destruct (decref_ok (fun x => if x =? 5 then 1 else 0) ex_own (fun _ => 0) 3 ex_run) as (w' & H & I & _).
  - intros x. unfold ex_own. destruct (N.eqb_spec x 3); [subst; reflexivity|]. destruct (x =? 5); lia.
  - exact ex_inv.
  - eauto. Qed.

(* ... and by computation: blocks 1, 4, 3 are released in this order (child, slot array, item), then
   dropping the second array releases 2, 6, 5 and nothing is left *)
Example ex_decref_all :
  match (decref 3 ;;; decref 5) ex_run with
  | Ret _ w' => firstn 6 (trace w') = [EvFree (Some 5); EvFree (Some 6); EvFree (Some 2);
                                      EvFree (Some 3); EvFree (Some 4); EvFree (Some 1)] /\
                live_count w' = 0 /\ map (heap w') [0; 1; 2; 3; 4; 5; 6; 7] = repeat None 8
  | Fault _ => False
  end.
Proof. vm_compute. repeat split. Qed.

(* a double cbor_decref is caught by the model: the invariant's hypothesis own' a = own a + 1 is necessary *)
Example ex_double_decref : (decref 3 ;;; decref 3) ex_run = Fault (FUseAfterFree 3).
Proof. vm_compute. reflexivity. Qed.

(* every node kind at once: definite and chunked strings, a map, a tag, an indefinite array that grows *)
Definition ex2_prog : M addr :=
  s1 <- (build_string never true [104; 105] >>= must) ;;
  cs <- (new_indefinite_string never false >>= must) ;;
  c1 <- (build_string never false [1; 2; 3] >>= must) ;;
  add_chunk never cs c1 ;;; decref c1 ;;;
  m <- (new_definite_map never 2 >>= must) ;;
  k <- (build_int never false I8 1 >>= must) ;;
  map_add never m k s1 ;;; map_add never m s1 cs ;;;
  decref k ;;; decref s1 ;;; decref cs ;;;
  t <- (build_tag never 24 m >>= must) ;;
  decref m ;;;
  ar <- (new_indefinite_array never >>= must) ;;
  array_push never ar t ;;; array_push never ar t ;;; array_push never ar t ;;;
  f <- (build_float never F64 0 >>= must) ;;
  array_push never ar f ;;; decref f ;;;
  e <- (new_tag never 5 >>= must) ;;          (* a tag without item *)
  array_push never ar e ;;; decref e ;;;
  decref t ;;;
  ret ar.
Definition ex2_run : world := world_of ex2_prog.

Example ex2_shape :
  match ex2_prog world0 with
  | Ret r w => r = 12 /\ next w = 19 /\
      map (heap w) [1; 3; 8; 11; 12; 13; 14; 15; 17] =
        [Some (CItem 2 (NStr true (Some 2) [104; 105]));
         Some (CItem 1 (NChunked false 4 (Some 7) 1 [5]));
         Some (CItem 1 (NMap false (Some 9) 2 [(10, Some 1); (1, Some 3)]));
         Some (CItem 3 (NTag 24 (Some 8)));
         Some (CItem 1 (NArr true (Some 18) 8 [11; 11; 11; 16; 17]));
         None; None; None;                        (* slot arrays abandoned by realloc *)
         Some (CItem 1 (NTag 5 None))]
  | Fault _ => False
  end.
Proof. vm_compute. repeat split. Qed.

Example ex2_inv : Inv (fun x => if x =? 12 then 1 else 0) (fun _ => 0) [] ex2_run.
Proof. apply Inv_check.
  - heap_above.
  - intros a Ha. change (next ex2_run) with 19 in Ha. cbn [pend tofree].
    destruct (N.eqb_spec a 12); [lia|]. auto.
  - vm_compute. reflexivity.
  - vm_compute. reflexivity.
  - vm_compute. reflexivity.
Qed.

(* the client drops its only reference: 17 free events = 9 items + 6 data blocks, each once, + 2 free(NULL)
   (a tag has no data block); nothing is left *)
Example ex2_decref_all :
  match decref 12 ex2_run with
  | Ret _ w' =>
      freed (firstn 17 (trace w')) = [12; 18; 17; 16; 11; 8; 9; 3; 4; 7; 5; 6; 1; 2; 10] /\
      live_count w' = 0 /\ map (heap w') [1; 2; 3; 4; 5; 6; 7; 8; 9; 10; 11; 12; 16; 17; 18] = repeat None 15
  | Fault _ => False
  end.
Proof. vm_compute. repeat split. Qed.

(* the hypothesis rc + 1 < 2^64 of incref_preserves is needed: the count is a size_t and wraps *)
Example incref_wraps :
  let w := mkworld (upd (fun _ => None) 1 (Some (CItem (W64 - 1) (NCtrl 20)))) 2 0 [] [] in
  match incref 1 w with Ret _ w' => heap w' 1 = Some (CItem 0 (NCtrl 20)) | Fault _ => False end.
Proof. vm_compute. reflexivity. Qed.

Print Assumptions drain_run.
Print Assumptions drain_preserves.
Print Assumptions drain_no_fault.
Print Assumptions drain_total.
Print Assumptions decref_fuel_enough.
Print Assumptions decref_ok.
Print Assumptions released_exactly_once.
Print Assumptions decref_released_exactly_once.
Print Assumptions no_leak.
Print Assumptions incref_preserves.
Print Assumptions build_int_preserves.
Print Assumptions build_float_preserves.
Print Assumptions build_ctrl_preserves.
Print Assumptions Inv_alloc_data.
Print Assumptions Inv_kid_live.
Print Assumptions Inv_dblock_live.
Print Assumptions Inv_check.
Print Assumptions ex_inv.
Print Assumptions ex2_inv.
