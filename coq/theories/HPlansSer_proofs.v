(* The models of the serializer follow the hand-written plans of HPlansSer.v.

   P level (PItem.v): one round of a container / chunk loop ([ser_seq]) — the window arithmetic
   and the 0-propagation —, the closing break ([ser_close]), the head of an array / map computed from
   its size, the space check of a definite string ([ser_defstr]), the width dispatch of integers
   and floats, the guarded sums of the size computation ([ssize]).
   H level (HOps.v): the outcome table of cbor_serialize_alloc ([serialize_alloc_h]).

   Hand proofs inside the model world; no generated text.  Bridge_effects_ser.v proves the plans
   generated from the C source equal to these hand-written plans. *)
From CB Require Import Word Word_proofs PStream PEnc PMem PItem HHeap HItems HOps HCont_proofs GenLeafTypes HPlans HPlansSer HPlans_proofs.
From Coq Require Import Lia ZArith NArith List Bool String ZifyBool ZifyN ZifyNat.
Import ListNotations.
Local Open Scope string_scope.
Local Open Scope list_scope.
Local Open Scope N_scope.
Ltac Zify.zify_post_hook ::= Z.div_mod_to_equations.
Set Default Proof Using "Type".

(* ------------------------------------------------------------------ *)
(* 0. reading a serializer plan                                         *)

Definition ret_N (p : plan) : N := match p_ret p with RZ z => Z.to_N z | _ => 0 end.
Definition to_head (i : nat) (p : plan) : bool := match p_ret p with RLoop j => Nat.eqb i j | _ => false end.
Definition returns (p : plan) : bool := match p_ret p with RZ _ => true | _ => false end.

Lemma fieldN_to_loop i acc k evs : fieldN "acc0" (to_loop i acc k evs) = acc /\ fieldN "round" (to_loop i acc k evs) = k.
Proof. unfold fieldN, to_loop, zN. cbn. rewrite !N2Z.id. split; reflexivity. Qed.
Lemma ret_N_fin r evs : ret_N (fin r evs) = r.
Proof. unfold ret_N, fin, zN. cbn. apply N2Z.id. Qed.
Lemma sub64_le a b : b <= a -> sub64 a b = a - b.
Proof. intros H. unfold sub64. destruct (N.leb_spec b a); [reflexivity | lia]. Qed.

(* ------------------------------------------------------------------ *)
(* 1. one round over the parts of a container ([ser_seq])               *)

Section Rounds.
Context {A : Type} (f : A -> N -> sres_).

(* the part is serialized into the window [size - written] behind what is written; 0 propagates;
   otherwise the running total grows by what the part wrote and the next round starts *)
Theorem part_round_follows_plan i k x r size written out w1 o1 callee part :
  written <= size -> size < 2 ^ 64 ->
  f x (size - written) = Some (w1, o1) -> w1 <= size - written ->
  let p := part_round i k written size w1 callee part in
  p_reqs p = [ReqCall callee [AP part; APO (PArg 1) (Z.of_N written); AZ (Z.of_N (size - written))]] /\
  (w1 = 0 -> returns p = true /\ ret_N p = 0 /\ ser_seq f (x :: r) size written out = Some (0, out ++ o1)) /\
  (w1 <> 0 -> to_head i p = true /\ fieldN "round" p = k + 1 /\ fieldN "acc0" p = written + w1 /\
              ser_seq f (x :: r) size written out = ser_seq f r size (fieldN "acc0" p) (out ++ o1)).
Proof.
  intros Hw Hs Hf Hw1 p. subst p. unfold part_round, window, zN. rewrite sub64_le by exact Hw.
  cbn [ser_seq]. rewrite Hf.
  destruct (N.eqb_spec w1 0) as [->|Hne].
  - split; [reflexivity|]. split; [|intros C; congruence].
    intros _. split; [reflexivity|]. split; [apply ret_N_fin | reflexivity].
  - split; [reflexivity|]. split; [intros C; congruence|]. intros _.
    destruct (fieldN_to_loop i (wrap64 (written + w1)) (k + 1)
                [ReqCall callee [AP part; APO (PArg 1) (Z.of_N written); AZ (Z.of_N (size - written))]]) as [Ha Hr].
    unfold zN in *. rewrite Ha, Hr.
    assert (Hnw : wrap64 (written + w1) = written + w1) by (apply wrap64_small; rewrite W64_eq; lia).
    rewrite Hnw. repeat split; try reflexivity.
    unfold to_head, to_loop. cbn [p_ret]. apply Nat.eqb_refl.
Qed.

(* no part left: [ser_seq] is finished with the running total *)
Lemma ser_seq_done size written out : ser_seq f [] size written out = Some (written, out).
Proof. reflexivity. Qed.
End Rounds.

(* arrays: round k serializes element k through cbor_serialize *)
Theorem array_round_follows_plan definite total k x r size written out w1 o1 :
  written <= size -> size < 2 ^ 64 -> k < total ->
  serialize_into x (size - written) = Some (w1, o1) -> w1 <= size - written ->
  let p := array_round_plan definite total k written size w1 in
  p_reqs p = [ReqCall "cbor_serialize" [AP (PSlot slots0 (Z.of_N k) ""); APO (PArg 1) (Z.of_N written); AZ (Z.of_N (size - written))]] /\
  (w1 = 0 -> returns p = true /\ ret_N p = 0 /\ ser_seq serialize_into (x :: r) size written out = Some (0, out ++ o1)) /\
  (w1 <> 0 -> to_head 0 p = true /\ fieldN "round" p = k + 1 /\ fieldN "acc0" p = written + w1 /\
              ser_seq serialize_into (x :: r) size written out = ser_seq serialize_into r size (fieldN "acc0" p) (out ++ o1)).
Proof.
  intros Hw Hs Hk Hf Hw1 p. subst p. unfold array_round_plan.
  destruct (N.ltb_spec k total) as [_|]; [|lia].
  apply (part_round_follows_plan serialize_into 0 k x r size written out w1 o1); assumption.
Qed.

(* chunked strings: round k serializes chunk k through the string serializer itself *)
Theorem string_round_follows_plan text total k (c : list N) r size written out mt :
  written <= size -> size < 2 ^ 64 -> k < total ->
  fst (ser_defstr mt c (size - written)) <= size - written ->
  let w1 := fst (ser_defstr mt c (size - written)) in
  let o1 := snd (ser_defstr mt c (size - written)) in
  let g := fun (c : list N) n => Some (ser_defstr mt c n) in
  let p := string_round_plan text total k written size w1 in
  (w1 = 0 -> returns p = true /\ ret_N p = 0 /\ ser_seq g (c :: r) size written out = Some (0, out ++ o1)) /\
  (w1 <> 0 -> to_head 0 p = true /\ fieldN "round" p = k + 1 /\ fieldN "acc0" p = written + w1 /\
              ser_seq g (c :: r) size written out = ser_seq g r size (fieldN "acc0" p) (out ++ o1)).
Proof.
  intros Hw Hs Hk Hw1 w1 o1 g p. subst p. unfold string_round_plan.
  assert (Hg : g c (size - written) = Some (w1, o1)) by (subst g w1 o1; cbn beta; destruct (ser_defstr mt c (size - written)); reflexivity).
  destruct text; cbn [str_names]; destruct (N.ltb_spec k total) as [_|]; try lia;
    match goal with |- context [part_round 0 k written size w1 ?callee ?part] =>
      destruct (part_round_follows_plan g 0 k c r size written out w1 o1 callee part Hw Hs Hg Hw1) as (_ & H0 & H1) end;
    split; assumption.
Qed.

(* maps: round k serializes the key and, behind it, the value of pair k *)
Definition ser_pair (kv : item * item) (n : N) : sres_ :=
  match serialize_into (fst kv) n with
  | None => None
  | Some (w1, o1) =>
      if w1 =? 0 then Some (0, o1) else
      match serialize_into (snd kv) (n - w1) with
      | None => None
      | Some (w2, o2) => if w2 =? 0 then Some (0, o1 ++ o2) else Some (w1 + w2, o1 ++ o2)
      end
  end.

Theorem map_round_follows_plan definite total k kv size written w1 o1 w2 o2 :
  written <= size -> size < 2 ^ 64 -> k < total ->
  serialize_into (fst kv) (size - written) = Some (w1, o1) -> w1 <= size - written ->
  (w1 <> 0 -> serialize_into (snd kv) (size - written - w1) = Some (w2, o2) /\ w2 <= size - written - w1) ->
  let p := map_round_plan definite total k written size w1 w2 in
  (* the windows: the key behind what is written, the value behind the key *)
  (w1 <> 0 -> p_reqs p =
     [ReqCall "cbor_serialize" [AP (PSlot slots0 (Z.of_N k) "key"); APO (PArg 1) (Z.of_N written); AZ (Z.of_N (size - written))];
      ReqCall "cbor_serialize" [AP (PSlot slots0 (Z.of_N k) "value"); APO (PArg 1) (Z.of_N (written + w1)); AZ (Z.of_N (size - (written + w1)))]]) /\
  (w1 = 0 -> returns p = true /\ ret_N p = 0 /\ ser_pair kv (size - written) = Some (0, o1)) /\
  (w1 <> 0 -> w2 = 0 -> returns p = true /\ ret_N p = 0 /\ ser_pair kv (size - written) = Some (0, o1 ++ o2)) /\
  (w1 <> 0 -> w2 <> 0 -> to_head 0 p = true /\ fieldN "round" p = k + 1 /\ fieldN "acc0" p = written + (w1 + w2) /\
                         ser_pair kv (size - written) = Some (w1 + w2, o1 ++ o2)).
Proof.
  intros Hw Hs Hk Hf1 Hw1 Hf2 p. subst p. unfold map_round_plan, ser_pair, window, zN.
  destruct (N.ltb_spec k total) as [_|]; [|lia]. rewrite Hf1.
  destruct (N.eqb_spec w1 0) as [->|Hne1].
  { split; [intros C; congruence|]. split.
    - intros _. split; [reflexivity|]. split; [apply ret_N_fin | reflexivity].
    - split; intros C; congruence. }
  destruct (Hf2 Hne1) as [Hf2' Hw2]. rewrite Hf2'.
  assert (Hn1 : wrap64 (written + w1) = written + w1) by (apply wrap64_small; rewrite W64_eq; lia).
  rewrite Hn1, !sub64_le by lia.
  destruct (N.eqb_spec w2 0) as [->|Hne2].
  { split; [intros _; reflexivity|]. split; [intros C; congruence|]. split.
    - intros _ _. split; [reflexivity|]. split; [apply ret_N_fin | reflexivity].
    - intros _ C. congruence. }
  split; [intros _; reflexivity|]. split; [intros C; congruence|]. split; [intros _ C; congruence|].
  intros _ _.
  match goal with |- context [to_loop 0 ?acc ?kk ?evs] => destruct (fieldN_to_loop 0 acc kk evs) as [Ha Hr] end.
  unfold zN in *. rewrite Ha, Hr.
  assert (Hn2 : wrap64 (written + w1 + w2) = written + (w1 + w2)) by (rewrite wrap64_small; [lia | rewrite W64_eq; lia]).
  rewrite Hn2. repeat split; reflexivity.
Qed.

(* ------------------------------------------------------------------ *)
(* 2. after the last part: complete, or closed by a break                *)

Theorem after_parts_follows_plan (indef : bool) size written (out : list N) :
  written <= size -> size < 2 ^ 64 -> written <> 0 ->
  let bw := fst (enc_byte 0xFF (size - written)) in
  let bo := snd (enc_byte 0xFF (size - written)) in
  let p := after_parts (negb indef) written size bw in
  (* a break is written iff the container is indefinite, into the window behind what is written *)
  p_reqs p = (if indef then [ReqCall "cbor_encode_break" [APO (PArg 1) (Z.of_N written); AZ (Z.of_N (size - written))]] else []) /\
  ser_close indef size (Some (written, out)) =
    Some (ret_N p, if indef && negb (bw =? 0) then out ++ bo else out).
Proof.
  intros Hw Hs Hne bw bo p. subst p. unfold after_parts, close_plan, ser_close, ser_break, window, zN.
  apply N.eqb_neq in Hne. rewrite Hne. rewrite sub64_le by exact Hw.
  destruct indef; cbn [negb andb].
  - subst bw bo. destruct (enc_byte 255 (size - written)) as [b o] eqn:E. cbn [fst snd].
    assert (Hb : b <= 1) by (unfold enc_byte in E; destruct (1 <=? size - written); injection E as <- _; lia).
    destruct (N.eqb_spec b 0) as [->|Hb0]; cbn [negb].
    + split; [reflexivity|]. rewrite ret_N_fin. reflexivity.
    + split; [reflexivity|]. rewrite ret_N_fin.
      assert (Hb1 : b = 1) by lia. subst b.
      assert (Hlt : written < size).
      { unfold enc_byte in E. destruct (N.leb_spec 1 (size - written)); [lia | injection E as E1 _; lia]. }
      rewrite wrap64_small by (rewrite W64_eq; lia). reflexivity.
  - split; [reflexivity|]. rewrite ret_N_fin. reflexivity.
Qed.

(* ------------------------------------------------------------------ *)
(* 3. the head of an array / a map is computed from its SIZE             *)

Theorem array_entry_follows_plan (indef : bool) (xs : list item) size :
  let hd := if indef then enc_byte 0x9F size else enc_uint (len xs) size 0x80 in
  let p := array_plan (negb indef) (len xs) size (fst hd) in
  p_reqs p = [if indef then ReqCall "cbor_encode_indef_array_start" (whole size)
              else ReqCall "cbor_encode_array_start" (AZ (Z.of_N (len xs)) :: whole size)] /\
  serialize_into (IArray indef xs) size =
    if returns p then Some (0, snd hd)
    else ser_close indef size (ser_seq serialize_into xs size (fieldN "acc0" p) (snd hd)).
Proof.
  intros hd p. subst p. unfold array_plan, container_plan. cbn [serialize_into].
  fold hd. destruct hd as [written o]. cbn [fst snd].
  split; [destruct indef, (written =? 0); reflexivity|].
  destruct (written =? 0) eqn:E; [destruct indef; reflexivity|].
  match goal with |- context [to_loop 0 ?acc ?kk ?evs] => destruct (fieldN_to_loop 0 acc kk evs) as [Ha _] end.
  destruct indef; cbn [negb] in *; rewrite Ha; reflexivity.
Qed.

Theorem map_entry_follows_plan (indef : bool) (kvs : list (item * item)) size :
  let hd := if indef then enc_byte 0xBF size else enc_uint (len kvs) size 0xA0 in
  let p := map_plan (negb indef) (len kvs) size (fst hd) in
  p_reqs p = [if indef then ReqCall "cbor_encode_indef_map_start" (whole size)
              else ReqCall "cbor_encode_map_start" (AZ (Z.of_N (len kvs)) :: whole size)] /\
  serialize_into (IMap indef kvs) size =
    if returns p then Some (0, snd hd)
    else ser_close indef size (ser_seq ser_pair kvs size (fieldN "acc0" p) (snd hd)).
Proof.
  intros hd p. subst p. unfold map_plan, container_plan. cbn [serialize_into].
  fold hd. destruct hd as [written o]. cbn [fst snd].
  split; [destruct indef, (written =? 0); reflexivity|].
  destruct (written =? 0) eqn:E; [destruct indef; reflexivity|].
  match goal with |- context [to_loop 0 ?acc ?kk ?evs] => destruct (fieldN_to_loop 0 acc kk evs) as [Ha _] end.
  destruct indef; cbn [negb] in *; rewrite Ha; reflexivity.
Qed.

(* ------------------------------------------------------------------ *)
(* 4. the space check of a definite string                              *)

Theorem defstr_follows_plan text mt d size :
  size < 2 ^ 64 -> fst (enc_uint (len d) size mt) <= size ->
  let hd := enc_uint (len d) size mt in
  let p := string_plan text true (len d) size (fst hd) in
  (* accepted iff the head fitted and the rest of the buffer, size - head, holds the payload *)
  ser_defstr mt d size = (ret_N p, if negb (ret_N p =? 0) then snd hd ++ d else snd hd) /\
  (ret_N p <> 0 -> ret_N p = fst hd + len d /\ fst hd + len d <= size /\
                   p_effs p = if 0 <? len d then [CopyAt (PArg 1) (Z.of_N (fst hd)) (PField item0 "data") (Z.of_N (len d))] else []).
Proof.
  intros Hs Hh hd p. subst p hd. unfold string_plan, ser_defstr.
  destruct (enc_uint (len d) size mt) as [written o]. cbn [fst snd] in *.
  rewrite sub64_le by exact Hh.
  destruct text; cbn [str_names];
    (destruct (N.eqb_spec written 0) as [->|Hne]; cbn [negb andb];
     [ rewrite ret_N_fin; split; [reflexivity | intros C; congruence]
     | destruct (N.leb_spec (len d) (size - written)) as [Hfit|Hno];
       [ unfold ret_N, zN; cbn [p_ret p_effs]; rewrite N2Z.id;
         rewrite wrap64_small by (rewrite W64_eq; lia);
         assert (Hnz : (written + len d =? 0) = false) by (apply N.eqb_neq; lia);
         rewrite Hnz; cbn [negb]; split; [reflexivity | intros _; repeat split; try lia; destruct (0 <? len d); reflexivity]
       | rewrite ret_N_fin; split; [reflexivity | intros C; congruence] ] ]).
Qed.

(* ------------------------------------------------------------------ *)
(* 5. width dispatch of integers and floats                             *)

(* what the encoders named in the plans are in the model (the leaf bridges of Bridge_leaf_enc tie
   the C encoders to the same model functions) *)
Definition encoder_model (name : string) : option (N -> N -> eres) :=
  if String.eqb name "cbor_encode_uint8" then Some (fun v s => enc_uint8 v s 0x00)
  else if String.eqb name "cbor_encode_uint16" then Some (fun v s => enc_uint16 v s 0x00)
  else if String.eqb name "cbor_encode_uint32" then Some (fun v s => enc_uint32 v s 0x00)
  else if String.eqb name "cbor_encode_uint64" then Some (fun v s => enc_uint64 v s 0x00)
  else if String.eqb name "cbor_encode_negint8" then Some (fun v s => enc_uint8 v s 0x20)
  else if String.eqb name "cbor_encode_negint16" then Some (fun v s => enc_uint16 v s 0x20)
  else if String.eqb name "cbor_encode_negint32" then Some (fun v s => enc_uint32 v s 0x20)
  else if String.eqb name "cbor_encode_negint64" then Some (fun v s => enc_uint64 v s 0x20)
  else if String.eqb name "cbor_encode_uint" then Some (fun v s => enc_uint v s 0x00)
  else if String.eqb name "cbor_encode_negint" then Some (fun v s => enc_uint v s 0x20)
  else if String.eqb name "cbor_encode_ctrl" then Some (fun v s => enc_uint8 v s 0xE0)
  else None.

(* an integer item of width w is encoded by the fixed-width encoder of that width (never by the
   shortest-form one), on the payload of that width, into the whole buffer *)
Theorem int_follows_plan neg w g8 g16 g32 g64 size c :
  let p := int_plan neg (iw_z w) g8 g16 g32 g64 size c in
  let payload := match w with I8 => g8 | I16 => g16 | I32 => g32 | I64 => g64 end in
  p_reqs p = [ReqCall (int_encoder neg w) (AZ payload :: whole size)] /\ ret_N p = c /\
  encoder_model (int_encoder neg w) = Some (fun v s => ser_int (if neg then 0x20 else 0x00) w v s).
Proof.
  intros p payload. subst p payload. destruct neg, w; cbn; rewrite ?N2Z.id; repeat split.
Qed.

Definition fw_z (w : fwidth) : Z := match w with F16 => FW_16 | F32 => FW_32 | F64 => FW_64 end.
Definition float_encoder (w : fwidth) : string * string :=
  match w with
  | F16 => ("cbor_encode_half", "cbor_float_get_float2")
  | F32 => ("cbor_encode_single", "cbor_float_get_float4")
  | F64 => ("cbor_encode_double", "cbor_float_get_float8")
  end.
Definition float_model (name : string) (bits size : N) : sres_ :=
  if String.eqb name "cbor_encode_half" then encode_half bits size
  else if String.eqb name "cbor_encode_single" then Some (encode_single bits size)
  else Some (encode_double bits size).

Theorem float_follows_plan w bits ctrl size c :
  let p := float_plan (fw_z w) ctrl size c in
  p_reqs p = [ReqCall (fst (float_encoder w)) (AVal (snd (float_encoder w)) item0 :: whole size)] /\ ret_N p = c /\
  serialize_into (IFloat w bits) size = float_model (fst (float_encoder w)) bits size.
Proof.
  intros p. subst p. destruct w; cbn; rewrite ?N2Z.id; repeat split.
Qed.

Theorem ctrl_follows_plan v size c :
  let p := float_plan FW_0 v size c in
  p_reqs p = [ReqCall "cbor_encode_ctrl" (AZ (Z.of_N v) :: whole size)] /\ ret_N p = c /\
  (exists enc, encoder_model "cbor_encode_ctrl" = Some enc /\ serialize_into (ICtrl v) size = Some (enc v size)).
Proof.
  intros p. subst p. cbn. rewrite ?N2Z.id. repeat split. eexists. split; reflexivity.
Qed.

(* the dispatch of cbor_serialize: every type has its serializer *)
Definition item_ty (t : item) : Z :=
  match t with
  | IUint _ _ => TY_UINT | INegint _ _ => TY_NEGINT | IBytes _ | IBytesI _ => TY_BYTES
  | IText _ | ITextI _ => TY_TEXT | IArray _ _ => TY_ARRAY | IMap _ _ => TY_MAP | ITag _ _ => TY_TAG
  | ICtrl _ | IFloat _ _ => TY_FLOAT_CTRL
  end.
Theorem serialize_dispatch_follows_plan t size c :
  let p := serialize_plan (item_ty t) size c in
  ret_N p = c /\ exists f, serializer_of (item_ty t) = Some f /\ p_reqs p = [ReqCall f (AP item0 :: whole size)].
Proof.
  intros p. subst p. unfold serialize_plan. destruct t; cbn; rewrite ?N2Z.id; (split; [reflexivity|]); eexists; split; reflexivity.
Qed.

(* ------------------------------------------------------------------ *)
(* 6. cbor_serialized_size: the guarded sums                            *)

Ltac ty_red :=
  cbv beta iota fix delta [ssize_plan TY_UINT TY_NEGINT TY_BYTES TY_TEXT TY_ARRAY TY_MAP TY_TAG TY_FLOAT_CTRL
                           Z.eqb Pos.eqb orb].

Theorem ssize_int_follows_plan w v definite length size value ctrl c :
  ret_N (ssize_plan TY_UINT (iw_z w) definite length size value ctrl (Z.of_N v) c) = int_size w v /\
  ret_N (ssize_plan TY_NEGINT (iw_z w) definite length size value ctrl (Z.of_N v) c) = int_size w v.
Proof.
  destruct w; unfold ssize_plan, int_size; cbn [iw_z width_of Z.eqb orb TY_UINT TY_NEGINT]; rewrite ?ret_N_fin;
    try (split; reflexivity).
  destruct (Z.leb_spec (Z.of_N v) 23), (N.leb_spec v 23); try lia; split; reflexivity.
Qed.

Theorem ssize_defstr_follows_plan d w size value ctrl g8 c :
  ret_N (ssize_plan TY_BYTES w true (len d) size value ctrl g8 c) = defstr_size d /\
  ret_N (ssize_plan TY_TEXT w true (len d) size value ctrl g8 c) = defstr_size d.
Proof.
  unfold defstr_size. ty_red.
  destruct (len d =? 0); rewrite !ret_N_fin; split; reflexivity.
Qed.

(* a container: the total starts with the head (from the size) or 2, and every round adds the size of
   one part with the guarded sum *)
Theorem ssize_array_follows_plan indef xs w length value ctrl g8 c :
  let p := ssize_plan TY_ARRAY w (negb indef) length (len xs) value ctrl g8 c in
  to_head 2 p = true /\ p_reqs p = [] /\
  ssize (IArray indef xs) = fold_left (fun acc x => ssadd acc (ssize x)) xs (fieldN "acc0" p).
Proof.
  intros p. subst p. cbn [ssize]. ty_red.
  match goal with |- context [to_loop 2 ?acc ?kk ?evs] => destruct (fieldN_to_loop 2 acc kk evs) as [Ha _] end.
  rewrite Ha. destruct indef; repeat split.
Qed.

Theorem ssize_array_round_follows_plan total k acc x r :
  k < total ->
  let p := ssize_array_round_plan total k acc (ssize x) in
  to_head 2 p = true /\ fieldN "round" p = k + 1 /\
  p_reqs p = [size_call (PSlot slots0 (Z.of_N k) "")] /\
  fold_left (fun acc x => ssadd acc (ssize x)) (x :: r) acc =
  fold_left (fun acc x => ssadd acc (ssize x)) r (fieldN "acc0" p).
Proof.
  intros Hk p. subst p. unfold ssize_array_round_plan, ssize_round_plan.
  destruct (N.ltb_spec k total) as [_|]; [|lia].
  match goal with |- context [to_loop 2 ?a ?kk ?evs] => destruct (fieldN_to_loop 2 a kk evs) as [Ha Hr] end.
  rewrite Ha, Hr. repeat split.
Qed.

Theorem ssize_round_exit_follows_plan i total k acc c part :
  total <= k -> let p := ssize_round_plan i total k acc c part in returns p = true /\ ret_N p = acc /\ p_reqs p = [].
Proof.
  intros Hk p. subst p. unfold ssize_round_plan. destruct (N.ltb_spec k total); [lia|].
  rewrite ret_N_fin. repeat split.
Qed.

Theorem ssize_map_follows_plan indef kvs w length value ctrl g8 c :
  let p := ssize_plan TY_MAP w (negb indef) length (len kvs) value ctrl g8 c in
  to_head 3 p = true /\ p_reqs p = [] /\
  ssize (IMap indef kvs) =
  fold_left (fun acc kv => ssadd acc (ssadd (ssize (fst kv)) (ssize (snd kv)))) kvs (fieldN "acc0" p).
Proof.
  intros p. subst p. cbn [ssize]. ty_red.
  match goal with |- context [to_loop 3 ?acc ?kk ?evs] => destruct (fieldN_to_loop 3 acc kk evs) as [Ha _] end.
  rewrite Ha. destruct indef; repeat split.
Qed.

Theorem ssize_map_round_follows_plan total k acc kv r :
  k < total ->
  let p := ssize_map_round_plan total k acc (ssize (fst kv)) (ssize (snd kv)) in
  to_head 3 p = true /\ fieldN "round" p = k + 1 /\
  fold_left (fun acc kv => ssadd acc (ssadd (ssize (fst kv)) (ssize (snd kv)))) (kv :: r) acc =
  fold_left (fun acc kv => ssadd acc (ssadd (ssize (fst kv)) (ssize (snd kv)))) r (fieldN "acc0" p).
Proof.
  intros Hk p. subst p. unfold ssize_map_round_plan.
  destruct (N.ltb_spec k total) as [_|]; [|lia].
  match goal with |- context [to_loop 3 ?a ?kk ?evs] => destruct (fieldN_to_loop 3 a kk evs) as [Ha Hr] end.
  rewrite Ha, Hr. repeat split.
Qed.

Theorem ssize_chunks_follows_plan cs w length size value ctrl g8 c :
  let pb := ssize_plan TY_BYTES w false length size value ctrl g8 c in
  let pt := ssize_plan TY_TEXT w false length size value ctrl g8 c in
  to_head 0 pb = true /\ to_head 1 pt = true /\
  ssize (IBytesI cs) = fold_left (fun acc c => ssadd acc (defstr_size c)) cs (fieldN "acc0" pb) /\
  ssize (ITextI cs) = fold_left (fun acc c => ssadd acc (defstr_size c)) cs (fieldN "acc0" pt).
Proof.
  intros pb pt. subst pb pt. cbn [ssize]. ty_red.
  destruct (fieldN_to_loop 0 2 0 []) as [Ha0 _]. destruct (fieldN_to_loop 1 2 0 []) as [Ha1 _].
  rewrite Ha0, Ha1. repeat split.
Qed.

Theorem ssize_tag_follows_plan v x w definite length size ctrl g8 :
  let p := ssize_plan TY_TAG w definite length size v ctrl g8 (ssize x) in
  p_reqs p = [size_call (PField item0 "metadata.tagged_item")] /\ ret_N p = ssize (ITag v x).
Proof.
  intros p. subst p. cbn [ssize]. ty_red. rewrite ret_N_fin. split; reflexivity.
Qed.

(* ------------------------------------------------------------------ *)
(* 7. cbor_serialize_alloc: the outcome table                           *)

Section Alloc.
Variable refuse : N -> N -> bool.

(* what the plan says is stored to *buffer *)
Definition out_buffer (p : plan) (blk : addr) : option addr :=
  match p_effs p with
  | [SetPtr (PArg 1) _ (PNew 0)] => Some blk
  | _ => None
  end.

Theorem serialize_alloc_follows_plan a w t w1 wr out nn :
  abs_of a w = Ret t w1 ->
  serialize_into t (ssize t) = Some (wr, out) ->
  let ok := malloc_ok refuse (nreq w1) (ssize t) in
  let p := alloc_plan nn (ssize t) ok wr in
  exists bytes w',
    serialize_alloc_h refuse a w = Ret (ret_N p, out_buffer p (next w1), bytes) w' /\
    (* a request only when the item can be sized, and then of exactly its size *)
    trace w' = (if ssize t =? 0 then [] else [EvMalloc (ssize t) (if ok then Some (next w1) else None)]) ++ trace w1 /\
    (* *buffer_size, when the caller asked for it: the size on success, 0 on both failure paths *)
    (nn = true -> fieldN "out_size" p = if (ssize t =? 0) || negb ok then 0 else ssize t) /\
    (nn = false -> p_fields p = []) /\
    ((ssize t =? 0) || negb ok = true -> ret_N p = 0 /\ out_buffer p (next w1) = None /\ heap w' = heap w1) /\
    ((ssize t =? 0) || negb ok = false -> ret_N p = wr /\ bytes = out /\ heap w' (next w1) = Some (CData (ssize t))).
Proof.
  intros Habs Hser ok p. subst p ok. unfold serialize_alloc_h, alloc_plan, malloc_ok.
  rewrite (bind_Ret (abs_of a) _ w t w1 Habs).
  destruct (ssize t =? 0) eqn:E0.
  { exists [], w1. cbn [orb]. split; [reflexivity|]. split; [reflexivity|].
    split; [intros ->; unfold fieldN, zN; cbn; reflexivity|]. split; [intros ->; reflexivity|].
    split; [intros _; repeat split | discriminate]. }
  destruct (refuse (nreq w1) (ssize t)) eqn:R; cbn [negb orb].
  { eexists [], _. split.
    { mstep (malloc_refused refuse (ssize t) (CData (ssize t)) w1 R). reflexivity. }
    wsimpl. split; [reflexivity|].
    split; [intros ->; unfold fieldN, zN; cbn; reflexivity|]. split; [intros ->; reflexivity|].
    split; [intros _; repeat split | discriminate]. }
  exists out. eexists. split.
  { mstep (malloc_granted refuse (ssize t) (CData (ssize t)) w1 R). rewrite Hser.
    unfold ret_N, out_buffer, zN. cbn [p_ret p_effs]. rewrite N2Z.id. reflexivity. }
  wsimpl. split; [reflexivity|].
  split; [intros ->; unfold fieldN, zN; cbn; apply N2Z.id|]. split; [intros ->; reflexivity|].
  split; [discriminate|]. intros _. unfold ret_N, zN. cbn [p_ret]. rewrite N2Z.id.
  split; [reflexivity|]. split; [reflexivity|]. apply upd_same.
Qed.

End Alloc.
