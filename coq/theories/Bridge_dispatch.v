(* generated switch table (from src/cbor/streaming.c, this run) = the model's dispatch *)
From CB Require Import Word PStream GenTypes.
From CBGen Require Import Gen_dispatch.
Local Open Scope N_scope.

Lemma bridge_dispatch_rows :
  map snd gen_rows = map (fun b => expected (dispatch b)) (map fst gen_rows).
Proof. vm_compute. reflexivity. Qed.

(* every initial byte is either translated or listed as unsupported *)
Lemma bridge_dispatch_cover :
  forallb (fun b => existsb (N.eqb b) (map fst gen_rows ++ gen_unsupported)) bytes256 = true.
Proof. vm_compute. reflexivity. Qed.

Lemma bridge_dispatch b g : In (b, g) gen_rows -> g = expected (dispatch b).
Proof.
  intros H. pose proof bridge_dispatch_rows as E.
  revert H E. generalize gen_rows. induction l as [|[b' g'] l IH]; intros H E; [contradiction|].
  cbn in E. inversion E. destruct H as [H|H]; [inversion H; subst; reflexivity|]. apply IH; assumption.
Qed.
