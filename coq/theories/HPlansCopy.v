(* Plans of cbor_item_t* cbor_copy(cbor_item_t* item) (src/cbor.c, with its helpers _cbor_copy_int and
   _cbor_copy_float_ctrl), written by hand from HOps.v ([copy]).  Definitions only; same vocabulary
   as HPlans.v / HPlansSer.v.

   Every call is an ORDERED event: the constructor of the copy, the recursive cbor_copy of a child,
   the attach (cbor_array_push / cbor_(byte)string_add_chunk / cbor_map_add), the releases.  A
   call that returns a pointer has a NULL-or-not oracle ok_k and the token PNew k; the attach returns
   an integer c.  Nothing is written to the source item (p_fields is empty).  Loops are cut at
   their heads: 0 = chunks of a byte string, 1 = chunks of a text string, 2 = elements of an array,
   3 = pairs of a map; the copy under construction is carried into the loop as PCarry 0 (the plan that
   arrives at the loop head says `Carry 0 (PNew 0)`: it is the constructor's result). *)
From Coq Require Import ZArith NArith List Bool String.
Import ListNotations.
From CB Require Import Word PMem PItem GenLeafTypes HItems HPlans HPlansSer.
Local Open Scope string_scope.
Local Open Scope N_scope.

Definition src : ptr := PArg 0.
Definition the_copy : ptr := PCarry 0.
Definition drop (p : ptr) : req := ReqCall "cbor_decref" [AP p].
Definition copy_of (p : ptr) : req := ReqCall "cbor_copy" [AP p].
Definition done (p : ptr) (evs : list req) (effs : list eff) : plan := mkplan (RP p) [] evs effs.
(* the container exists: on to loop i, round 0, with the new container as the carried pointer *)
Definition into_loop (i : nat) (ctor : req) (ok : bool) : plan :=
  if ok then mkplan (RLoop i) [("round", 0%Z)] [ctor] [Carry 0 (PNew 0)] else done PNull [ctor] [].
Definition copy_next_round (i : nat) (k : N) (evs : list req) (effs : list eff) : plan :=
  mkplan (RLoop i) [("round", zN (k + 1))] evs (effs ++ [Carry 0 the_copy]).

(* ---------- integers (static helper _cbor_copy_int): the builder of the item's width on its payload;
   a negative integer is marked — only when the allocation succeeded ---------- *)
Definition int_builder (w : iwidth) : string :=
  match w with I8 => "cbor_build_uint8" | I16 => "cbor_build_uint16" | I32 => "cbor_build_uint32" | I64 => "cbor_build_uint64" end.
Definition copy_int_plan (neg : bool) (width : Z) (g8 g16 g32 g64 : Z) (ok : bool) : plan :=
  match width_of width with
  | Some w =>
      let v := match w with I8 => g8 | I16 => g16 | I32 => g32 | I64 => g64 end in
      done (pnew ok 0) (ReqCall (int_builder w) [AZ v] :: if neg && ok then [ReqCall "cbor_mark_negint" [AP (PNew 0)]] else []) []
  | None => done PNull [] []
  end.

(* ---------- floats and simple values (_cbor_copy_float_ctrl) ---------- *)
Definition copy_float_plan (width : Z) (ctrl : N) (ok : bool) : plan :=
  if (width =? FW_0)%Z then done (pnew ok 0) [ReqCall "cbor_build_ctrl" [AZ (zN ctrl)]] []
  else if (width =? FW_16)%Z then done (pnew ok 0) [ReqCall "cbor_build_float2" [AVal "cbor_float_get_float2" src]] []
  else if (width =? FW_32)%Z then done (pnew ok 0) [ReqCall "cbor_build_float4" [AVal "cbor_float_get_float4" src]] []
  else if (width =? FW_64)%Z then done (pnew ok 0) [ReqCall "cbor_build_float8" [AVal "cbor_float_get_float8" src]] []
  else done PNull [] [].

(* ---------- the whole dispatch ----------
   definite strings: one builder call on handle + length;
   indefinite strings / arrays / maps: the constructor — a definite container is sized by the SIZE of
   the source —, then the loop; NULL from the constructor: NULL, nothing else;
   tags: copy the child (fetched with cbor_tag_item, whose reference is given back with cbor_move),
   NULL -> NULL; else build the tag around the copy and release our reference to the copy *)
Definition copy_plan (ty width : Z) (definite : bool) (length size value ctrl : N)
    (g8 g16 g32 g64 : Z) (ok0 ok1 ok2 : bool) : plan :=
  if (ty =? TY_UINT)%Z then copy_int_plan false width g8 g16 g32 g64 ok0
  else if (ty =? TY_NEGINT)%Z then copy_int_plan true width g8 g16 g32 g64 ok0
  else if (ty =? TY_BYTES)%Z then
    if definite then done (pnew ok0 0) [ReqCall "cbor_build_bytestring" [AP (PField src "data"); AZ (zN length)]] []
    else into_loop 0 (ReqCall "cbor_new_indefinite_bytestring" []) ok0
  else if (ty =? TY_TEXT)%Z then
    if definite then done (pnew ok0 0) [ReqCall "cbor_build_stringn" [AP (PField src "data"); AZ (zN length)]] []
    else into_loop 1 (ReqCall "cbor_new_indefinite_string" []) ok0
  else if (ty =? TY_ARRAY)%Z then
    into_loop 2 (if definite then ReqCall "cbor_new_definite_array" [AZ (zN size)] else ReqCall "cbor_new_indefinite_array" []) ok0
  else if (ty =? TY_MAP)%Z then
    into_loop 3 (if definite then ReqCall "cbor_new_definite_map" [AZ (zN size)] else ReqCall "cbor_new_indefinite_map" []) ok0
  else if (ty =? TY_TAG)%Z then
    let child := pnew ok0 0 in
    let evs := [ReqCall "cbor_tag_item" [AP src]; copy_of child] in
    if negb ok1 then done PNull evs [Move child]
    else done (pnew ok2 2) (evs ++ [ReqCall "cbor_build_tag" [AZ (zN value); AP (PNew 1)]; drop (PNew 1)]) [Move child]
  else if (ty =? TY_FLOAT_CTRL)%Z then copy_float_plan width ctrl ok0
  else done PNull [] [].

(* ---------- one round of a loop ----------
   copy the child; NULL -> release the container, NULL;
   attach the COPY to the container; refused -> release the copy, then the container, NULL;
   accepted -> release our reference to the copy (the container holds one), next round;
   no child left -> the container *)
Definition copy_chunk_round_plan (text : bool) (chunk_count k : N) (ok : bool) (c : Z) : plan :=
  if k <? chunk_count then
    let cp := copy_of (PSlot chunks0 (zN k) "") in
    if negb ok then done PNull [cp; drop the_copy] []
    else
      let add := ReqCall (if text then "cbor_string_add_chunk" else "cbor_bytestring_add_chunk") [AP the_copy; AP (PNew 0)] in
      if (c =? 0)%Z then done PNull [cp; add; drop (PNew 0); drop the_copy] []
      else copy_next_round (if text then 1 else 0) k [cp; add; drop (PNew 0)] []
  else done the_copy [] [].

(* the element is fetched with cbor_array_get (one reference more) and that reference is given back
   with cbor_move before it is copied *)
Definition copy_array_round_plan (size k : N) (ok0 ok1 : bool) (c : Z) : plan :=
  if k <? size then
    let e := pnew ok0 0 in
    let get := ReqCall "cbor_array_get" [AP src; AZ (zN k)] in
    let cp := copy_of e in
    if negb ok1 then done PNull [get; cp; drop the_copy] [Move e]
    else
      let push := ReqCall "cbor_array_push" [AP the_copy; AP (PNew 1)] in
      if (c =? 0)%Z then done PNull [get; cp; push; drop (PNew 1); drop the_copy] [Move e]
      else copy_next_round 2 k [get; cp; push; drop (PNew 1)] [Move e]
  else done the_copy [] [].

(* the key, then the value; a failed value copy releases the container and the key copy; a refused
   insertion releases the container and both copies *)
Definition copy_map_round_plan (size k : N) (ok0 ok1 : bool) (c : Z) : plan :=
  if k <? size then
    let kc := copy_of (PSlot slots0 (zN k) "key") in
    let vc := copy_of (PSlot slots0 (zN k) "value") in
    if negb ok0 then done PNull [kc; drop the_copy] []
    else if negb ok1 then done PNull [kc; vc; drop the_copy; drop (PNew 0)] []
    else
      let add := ReqCall "cbor_map_add" [AP the_copy; AStruct [AP (PNew 0); AP (PNew 1)]] in
      if (c =? 0)%Z then done PNull [kc; vc; add; drop the_copy; drop (PNew 0); drop (PNew 1)] []
      else copy_next_round 3 k [kc; vc; add; drop (PNew 0); drop (PNew 1)] []
  else done the_copy [] [].

(* ---------- fallbacks (same binders as the generated functions) ---------- *)
Definition fbplan_cbor_copy (al cc ctrl dst e len ty v w g16 g32 g64 g8 k : Z) (ok0 ok1 ok2 : bool) (c : Z) :=
  copy_plan ty w (dst_b dst) (zn len) (zn e) (zn v) (zn ctrl) g8 g16 g32 g64 ok0 ok1 ok2.
Definition fbplan_cbor_copy_loop0 (al cc ctrl dst e len ty v w g16 g32 g64 g8 k : Z) (ok0 ok1 ok2 : bool) (c : Z) :=
  copy_chunk_round_plan false (zn cc) (zn k) ok0 c.
Definition fbplan_cbor_copy_loop1 (al cc ctrl dst e len ty v w g16 g32 g64 g8 k : Z) (ok0 ok1 ok2 : bool) (c : Z) :=
  copy_chunk_round_plan true (zn cc) (zn k) ok0 c.
Definition fbplan_cbor_copy_loop2 (al cc ctrl dst e len ty v w g16 g32 g64 g8 k : Z) (ok0 ok1 ok2 : bool) (c : Z) :=
  copy_array_round_plan (zn e) (zn k) ok0 ok1 c.
Definition fbplan_cbor_copy_loop3 (al cc ctrl dst e len ty v w g16 g32 g64 g8 k : Z) (ok0 ok1 ok2 : bool) (c : Z) :=
  copy_map_round_plan (zn e) (zn k) ok0 ok1 c.
